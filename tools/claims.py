claim("C16",
  "Decides the code-shape clauses of C16 in both backends: all 26 DML statements have exactly the guard / written columns / conflict clause / ordering / limit of spec/sql.spec with every placeholder bound to the specified command field; the dispatch runs transactions in submission order and commands in list order with results[i][j] aligned; each result's row count and records come from its own statement; one SQL transaction per Execute with success returned only after a successful Commit and rollback on every error path; store.Process maps one error to every SQE and results[i] to SQE i; SQL text is constant and no database error is dropped. Not decided: isolation/visibility and behaviour over all database states (engine semantics are trusted).",
  "SQL-subset parsing + placeholder-to-field binding compared with a spec table; go/cfg must-pass-through (commit before ack, rollback), error-propagation path analysis, dispatch/loop-nest structure checks",
  "DESIGN.md §5 C16")
claim("C17",
  "Decides statement-for-statement agreement of the two backends: for each of the 27 command kinds the same dispatch arm, the same normalised statement (modulo the dialect table), the same operand binding, Scan targets and result construction, and equal schemas; both also satisfy the spec independently. Not decided: engine semantics that differ under identical text.",
  "sibling cross-check of normalised SQL ASTs, operand bindings, scan lists and result provenance between sqlite.go and postgres.go",
  "DESIGN.md §5 C17")
