#!/bin/bash
# runs the repository's baseline suite (guard off) and compares with BASELINE.json's stable_pass
export GOFLAGS=-mod=mod GOPROXY=off GOSUMDB=off GOTOOLCHAIN=local
out=$(mktemp)
(cd /repo && go test -mod=mod -json -vet=off -count=1 -timeout 25m ./... > "$out" 2>/dev/null)
python3 - "$out" <<'PY'
import json,sys
base=json.load(open('/root/.vp/BASELINE.json'))
want=set(base['stable_pass'])
res={}
for l in open(sys.argv[1]):
    try: e=json.loads(l)
    except: continue
    if e.get('Action') in ('pass','fail','skip') and e.get('Test'):
        res[e['Package']+'::'+e['Test']]=e['Action']
missing=[t for t in sorted(want) if res.get(t)!='pass']
print('baseline tests:',len(want),'passing now:',sum(1 for t in want if res.get(t)=='pass'))
for t in missing[:20]: print('  NOT PASSING:',t,res.get(t))
sys.exit(1 if missing else 0)
PY
rc=$?
rm -f "$out"
exit $rc
