package main

// R12-nil-on-path (C13): no feasible path dereferences a pointer local that is nil on that path.
//
// Path-sensitive, over the function's CFG: a depth-first walk carries a nil-state (nil / non-nil /
// unknown) for every pointer-typed local. Declarations without a value and `p = nil` make a
// pointer nil; `&x`, literals and `new` make it non-nil; a copy takes the state of its source;
// taking its address (a decoder fills it) makes it unknown. A branch on `p == nil` / `p != nil`
// refines the state on each edge and prunes the edge the state contradicts; util.Assert
// conditions are facts, including the exactly-one form `(a != nil) != (b != nil)`. A dereference
// (`*p`, `p.f`) of a pointer whose state is *nil* is reported: the path that reaches it is
// feasible as far as these facts go, and it panics. "Unknown" is never reported (that is the
// domain of the decode-nil and pb-nil rules).

import (
	"fmt"
	"go/ast"
	"go/token"
	"go/types"
	"sort"

	"golang.org/x/tools/go/cfg"
	"golang.org/x/tools/go/packages"
)

type nilState int8

const (
	nsUnknown nilState = iota
	nsNil
	nsNonNil
)

func ruleNilOnPath(pkgs ...string) func(c *Ctx) {
	return func(c *Ctx) {
		nFuncs, nDerefs := 0, 0
		for _, pp := range pkgs {
			pk := c.P.Pkg(pp)
			if pk == nil {
				c.und("nil-on-path/"+pp, 0, "package not loaded")
				continue
			}
			for _, fd := range allFuncDecls(pk) {
				if fd.Body == nil || isTestFile(c.P, fd.Pos()) {
					continue
				}
				w := newNilWalk(c, pk, fd)
				if len(w.tracked) == 0 {
					continue
				}
				nFuncs++
				w.run()
				nDerefs += len(w.seen)
				key := "nil-on-path/" + pk.Name + "." + funcName(fd)
				switch {
				case len(w.bad) > 0:
					var ps []token.Pos
					for p := range w.bad {
						ps = append(ps, p)
					}
					sort.Slice(ps, func(i, j int) bool { return ps[i] < ps[j] })
					for i, p := range ps {
						k := key
						if i > 0 {
							k = fmt.Sprintf("%s#%d", key, i+1)
						}
						o := c.bad(k, p, pk.Name+"."+funcName(fd)+" dereferences "+w.bad[p].name+", which is nil on a path that reaches this point ("+w.bad[p].why+"): the goroutine panics")
						o.Path = w.bad[p].path
					}
				case w.gaveUp:
					c.ok(key, fd.Pos(), fmt.Sprintf("%d dereferences of pointer locals; exploration bounded (no nil dereference found on the explored paths)", len(w.seen)))
				default:
					c.ok(key, fd.Pos(), fmt.Sprintf("%d dereferences of pointer locals, none of a pointer that is nil on the path reaching it", len(w.seen)))
				}
			}
		}
		c.count("nil_path_functions", nFuncs)
		c.count("nil_path_derefs", nDerefs)
		c.floor("functions with pointer locals walked", nFuncs, 10)
	}
}

// nilSt: the nil-state of the tracked pointers on the current path, with the relations that
// still hold: copies (a == b as pointers) and asserted relations between two nil tests.
type nilSt struct {
	m   map[types.Object]nilState
	eq  [][2]types.Object
	rel []nilRel
}

type nilRel struct {
	a, b    types.Object
	sameNil bool // a is nil iff b is nil (true) / exactly one of them is nil (false)
}

func (s *nilSt) clone() *nilSt {
	o := &nilSt{m: make(map[types.Object]nilState, len(s.m))}
	for k, v := range s.m {
		o.m[k] = v
	}
	o.eq = append([][2]types.Object(nil), s.eq...)
	o.rel = append([]nilRel(nil), s.rel...)
	return o
}

// forget drops the relations about o (it is being assigned).
func (s *nilSt) forget(o types.Object) {
	eq := s.eq[:0:0]
	for _, p := range s.eq {
		if p[0] != o && p[1] != o {
			eq = append(eq, p)
		}
	}
	s.eq = eq
	rel := s.rel[:0:0]
	for _, r := range s.rel {
		if r.a != o && r.b != o {
			rel = append(rel, r)
		}
	}
	s.rel = rel
}

// propagate closes the state under its relations; false on a contradiction.
func (s *nilSt) propagate() bool {
	for changed := true; changed; {
		changed = false
		for _, p := range s.eq {
			a, b := s.m[p[0]], s.m[p[1]]
			switch {
			case a != nsUnknown && b != nsUnknown:
				if a != b {
					return false
				}
			case a != nsUnknown:
				s.m[p[1]] = a
				changed = true
			case b != nsUnknown:
				s.m[p[0]] = b
				changed = true
			}
		}
		for _, r := range s.rel {
			a, b := s.m[r.a], s.m[r.b]
			switch {
			case a != nsUnknown && b != nsUnknown:
				if (a == b) != r.sameNil {
					return false
				}
			case a != nsUnknown:
				s.m[r.b] = flipIf(a, !r.sameNil)
				changed = true
			case b != nsUnknown:
				s.m[r.a] = flipIf(b, !r.sameNil)
				changed = true
			}
		}
	}
	return true
}

type nilFinding struct {
	name, why string
	path      []string
}

type nilWalk struct {
	c       *Ctx
	pk      *packages.Package
	info    *types.Info
	fd      *ast.FuncDecl
	g       *cfg.CFG
	tracked map[types.Object]bool
	seen    map[token.Pos]bool
	bad     map[token.Pos]nilFinding
	steps   int
	gaveUp  bool
}

func newNilWalk(c *Ctx, pk *packages.Package, fd *ast.FuncDecl) *nilWalk {
	w := &nilWalk{c: c, pk: pk, info: pk.TypesInfo, fd: fd, tracked: map[types.Object]bool{}, seen: map[token.Pos]bool{}, bad: map[token.Pos]nilFinding{}}
	// pointer-typed locals declared in the body (outside function literals)
	ast.Inspect(fd.Body, func(nd ast.Node) bool {
		if _, ok := nd.(*ast.FuncLit); ok {
			return false
		}
		id, ok := nd.(*ast.Ident)
		if !ok {
			return true
		}
		if v, ok := w.info.Defs[id].(*types.Var); ok && !v.IsField() {
			if _, isPtr := v.Type().Underlying().(*types.Pointer); isPtr {
				w.tracked[v] = true
			}
		}
		return true
	})
	// a local captured by a function literal can change behind the walk's back: not tracked
	ast.Inspect(fd.Body, func(nd ast.Node) bool {
		lit, ok := nd.(*ast.FuncLit)
		if !ok {
			return true
		}
		ast.Inspect(lit.Body, func(x ast.Node) bool {
			if id, ok := x.(*ast.Ident); ok {
				delete(w.tracked, w.info.Uses[id])
			}
			return true
		})
		return false
	})
	return w
}

func (w *nilWalk) run() {
	w.g = buildCFG(w.pk, w.fd.Body)
	if len(w.g.Blocks) == 0 {
		return
	}
	st := &nilSt{m: map[types.Object]nilState{}}
	w.walk(w.g.Blocks[0], st, map[*cfg.Block]int{}, nil)
}

const nilWalkBudget = 400000

func (w *nilWalk) walk(b *cfg.Block, st *nilSt, onPath map[*cfg.Block]int, trail []string) {
	if w.steps > nilWalkBudget {
		w.gaveUp = true
		return
	}
	if onPath[b] >= 1 {
		return
	}
	onPath[b]++
	defer func() { onPath[b]-- }()
	st = st.clone()
	for _, nd := range b.Nodes {
		w.steps++
		w.derefs(nd, st, trail)
		w.effects(nd, st)
	}
	if len(b.Succs) == 2 && len(b.Nodes) > 0 {
		if cond, ok := b.Nodes[len(b.Nodes)-1].(ast.Expr); ok {
			for i, sc := range b.Succs {
				st2 := st.clone()
				if !w.assume(cond, i == 0, st2) || !st2.propagate() {
					continue // the state contradicts this edge
				}
				w.walk(sc, st2, onPath, append(trail, fmt.Sprintf("%s is %v at %s", exprString(cond), i == 0, w.c.P.pos(cond.Pos()))))
			}
			return
		}
	}
	for _, sc := range b.Succs {
		w.walk(sc, st, onPath, trail)
	}
}

func (w *nilWalk) objOf(e ast.Expr) types.Object {
	id, ok := ast.Unparen(e).(*ast.Ident)
	if !ok {
		return nil
	}
	o := w.info.Uses[id]
	if o == nil {
		o = w.info.Defs[id]
	}
	if o != nil && w.tracked[o] {
		return o
	}
	return nil
}

// nilness of an expression in the current state
func (w *nilWalk) nilOf(e ast.Expr, st *nilSt) nilState {
	e = ast.Unparen(e)
	switch x := e.(type) {
	case *ast.Ident:
		if x.Name == "nil" {
			if _, ok := w.info.Uses[x].(*types.Nil); ok {
				return nsNil
			}
		}
		if o := w.objOf(x); o != nil {
			return st.m[o]
		}
	case *ast.UnaryExpr:
		if x.Op == token.AND {
			return nsNonNil
		}
	case *ast.CallExpr:
		if id, ok := ast.Unparen(x.Fun).(*ast.Ident); ok && id.Name == "new" {
			if _, isB := w.info.Uses[id].(*types.Builtin); isB {
				return nsNonNil
			}
		}
		// a conversion (*T)(nil)
		if tv, ok := w.info.Types[x.Fun]; ok && tv.IsType() && len(x.Args) == 1 {
			return w.nilOf(x.Args[0], st)
		}
	}
	return nsUnknown
}

// derefs reports dereferences, in nd, of tracked pointers that are nil in st.
func (w *nilWalk) derefs(nd ast.Node, st *nilSt, trail []string) {
	// the left-hand side identifiers of a definition are not uses; a range statement's body is
	// not part of its node in the CFG, but go/cfg hands the RangeStmt itself: only its X is read
	var roots []ast.Node
	switch x := nd.(type) {
	case *ast.RangeStmt:
		roots = []ast.Node{x.X}
	case *ast.ValueSpec:
		for _, v := range x.Values {
			roots = append(roots, v)
		}
	default:
		roots = []ast.Node{nd}
	}
	for _, r := range roots {
		ast.Inspect(r, func(x ast.Node) bool {
			switch y := x.(type) {
			case *ast.FuncLit:
				return false
			case *ast.StarExpr:
				if tv, ok := w.info.Types[y]; ok && tv.IsType() {
					return false
				}
				w.hit(y.X, y.Pos(), st, trail)
			case *ast.SelectorExpr:
				if sel := w.info.Selections[y]; sel != nil && sel.Kind() == types.FieldVal {
					w.hit(y.X, y.Pos(), st, trail)
				}
			case *ast.BinaryExpr:
				// short-circuit operators are split into blocks by go/cfg; when one survives inside a
				// larger expression only its left operand is certainly evaluated
				if y.Op == token.LAND || y.Op == token.LOR {
					w.derefs(y.X, st, trail)
					return false
				}
			}
			return true
		})
	}
}

func (w *nilWalk) hit(x ast.Expr, pos token.Pos, st *nilSt, trail []string) {
	o := w.objOf(x)
	if o == nil {
		return
	}
	w.seen[pos] = true
	if st.m[o] != nsNil {
		return
	}
	if _, dup := w.bad[pos]; dup {
		return
	}
	why := "declared without a value and not assigned on this path"
	if len(trail) > 0 {
		why = "after " + trail[len(trail)-1]
	}
	path := append([]string{"entry: " + w.pk.Name + "." + funcName(w.fd)}, trail...)
	path = append(path, "dereference of "+o.Name()+" at "+w.c.P.pos(pos))
	w.bad[pos] = nilFinding{name: o.Name(), why: why, path: path}
}

// effects applies the node's assignments, declarations, address-taking and assertions.
func (w *nilWalk) effects(nd ast.Node, st *nilSt) {
	// address taken anywhere in the node: whoever got it may have filled the pointer
	ast.Inspect(nd, func(x ast.Node) bool {
		if _, ok := x.(*ast.FuncLit); ok {
			return false
		}
		if u, ok := x.(*ast.UnaryExpr); ok && u.Op == token.AND {
			if o := w.objOf(u.X); o != nil {
				st.forget(o)
				st.m[o] = nsUnknown
			}
		}
		return true
	})
	switch x := nd.(type) {
	case *ast.ValueSpec:
		for i, nm := range x.Names {
			o := w.info.Defs[nm]
			if o == nil || !w.tracked[o] {
				continue
			}
			st.forget(o)
			switch {
			case len(x.Values) == 0:
				st.m[o] = nsNil
			case len(x.Values) == len(x.Names):
				st.m[o] = w.nilOf(x.Values[i], st)
				if src := w.objOf(x.Values[i]); src != nil && src != o {
					st.eq = append(st.eq, [2]types.Object{o, src})
				}
			default:
				st.m[o] = nsUnknown
			}
		}
	case *ast.DeclStmt:
		if gd, ok := x.Decl.(*ast.GenDecl); ok {
			for _, sp := range gd.Specs {
				if vs, ok := sp.(*ast.ValueSpec); ok {
					w.effects(vs, st)
				}
			}
		}
	case *ast.AssignStmt:
		var vals []nilState
		if len(x.Lhs) == len(x.Rhs) {
			for _, r := range x.Rhs {
				vals = append(vals, w.nilOf(r, st))
			}
		}
		for i, l := range x.Lhs {
			o := w.objOf(l)
			if o == nil {
				continue
			}
			st.forget(o)
			if vals != nil {
				st.m[o] = vals[i]
				if src := w.objOf(x.Rhs[i]); src != nil && src != o && len(x.Lhs) == 1 {
					st.eq = append(st.eq, [2]types.Object{o, src})
				}
			} else {
				st.m[o] = nsUnknown
			}
		}
	case *ast.RangeStmt:
		for _, e := range []ast.Expr{x.Key, x.Value} {
			if e != nil {
				if o := w.objOf(e); o != nil {
					st.forget(o)
					st.m[o] = nsUnknown
				}
			}
		}
	case *ast.ExprStmt:
		if call, ok := x.X.(*ast.CallExpr); ok && len(call.Args) >= 1 {
			if fn, ok := calleeOf(w.info, call).(*types.Func); ok && fn.Name() == "Assert" && fn.Pkg() != nil && fn.Pkg().Path() == pkgUtil {
				w.assume(call.Args[0], true, st)
				st.propagate()
			}
		}
	}
}

// assume refines st with cond == val; false when st contradicts it.
func (w *nilWalk) assume(cond ast.Expr, val bool, st *nilSt) bool {
	cond = ast.Unparen(cond)
	switch x := cond.(type) {
	case *ast.UnaryExpr:
		if x.Op == token.NOT {
			return w.assume(x.X, !val, st)
		}
	case *ast.BinaryExpr:
		switch x.Op {
		case token.LAND:
			if val {
				return w.assume(x.X, true, st) && w.assume(x.Y, true, st)
			}
			// ¬(X ∧ Y): when one side certainly holds, the other does not
			if w.eval(x.X, st) == 1 {
				return w.assume(x.Y, false, st)
			}
			if w.eval(x.Y, st) == 1 {
				return w.assume(x.X, false, st)
			}
			return true
		case token.LOR:
			if !val {
				return w.assume(x.X, false, st) && w.assume(x.Y, false, st)
			}
			if w.eval(x.X, st) == -1 {
				return w.assume(x.Y, true, st)
			}
			if w.eval(x.Y, st) == -1 {
				return w.assume(x.X, true, st)
			}
			return true
		case token.EQL, token.NEQ:
			// p == nil / p != nil
			if o, isNilCmp := w.nilCmp(x); isNilCmp {
				wantNil := (x.Op == token.EQL) == val
				want := nsNonNil
				if wantNil {
					want = nsNil
				}
				if st.m[o] != nsUnknown && st.m[o] != want {
					return false
				}
				st.m[o] = want
				return true
			}
			// (a != nil) != (b != nil): exactly one; (a == nil) == (b == nil): both or neither
			la, aok := w.nilTestOf(x.X)
			lb, bok := w.nilTestOf(x.Y)
			if aok && bok {
				// truth of each side as "is nil" with polarity
				same := (x.Op == token.EQL) == val // the two tests have the same truth value
				sameNil := same == (la.isNilTest == lb.isNilTest)
				if la.obj != lb.obj {
					st.rel = append(st.rel, nilRel{la.obj, lb.obj, sameNil})
				}
				return st.propagate()
			}
		}
	}
	return true
}

type nilCmpTest struct {
	obj       types.Object
	isNilTest bool // p == nil (true) or p != nil (false)
}

func (w *nilWalk) nilTestOf(e ast.Expr) (nilCmpTest, bool) {
	be, ok := ast.Unparen(e).(*ast.BinaryExpr)
	if !ok || (be.Op != token.EQL && be.Op != token.NEQ) {
		return nilCmpTest{}, false
	}
	o, ok := w.nilCmp(be)
	if !ok {
		return nilCmpTest{}, false
	}
	return nilCmpTest{o, be.Op == token.EQL}, true
}

func (w *nilWalk) nilCmp(be *ast.BinaryExpr) (types.Object, bool) {
	isNil := func(e ast.Expr) bool {
		id, ok := ast.Unparen(e).(*ast.Ident)
		if !ok || id.Name != "nil" {
			return false
		}
		_, ok = w.info.Uses[id].(*types.Nil)
		return ok
	}
	if isNil(be.Y) {
		if o := w.objOf(be.X); o != nil {
			return o, true
		}
	}
	if isNil(be.X) {
		if o := w.objOf(be.Y); o != nil {
			return o, true
		}
	}
	return nil, false
}

func flipIf(s nilState, flip bool) nilState {
	if !flip {
		return s
	}
	if s == nsNil {
		return nsNonNil
	}
	return nsNil
}

// eval: 1 the condition certainly holds in st, -1 it certainly does not, 0 unknown.
func (w *nilWalk) eval(cond ast.Expr, st *nilSt) int {
	cond = ast.Unparen(cond)
	switch x := cond.(type) {
	case *ast.UnaryExpr:
		if x.Op == token.NOT {
			return -w.eval(x.X, st)
		}
	case *ast.BinaryExpr:
		switch x.Op {
		case token.LAND:
			a, b := w.eval(x.X, st), w.eval(x.Y, st)
			if a == -1 || b == -1 {
				return -1
			}
			if a == 1 && b == 1 {
				return 1
			}
		case token.LOR:
			a, b := w.eval(x.X, st), w.eval(x.Y, st)
			if a == 1 || b == 1 {
				return 1
			}
			if a == -1 && b == -1 {
				return -1
			}
		case token.EQL, token.NEQ:
			if o, ok := w.nilCmp(x); ok && st.m[o] != nsUnknown {
				if (st.m[o] == nsNil) == (x.Op == token.EQL) {
					return 1
				}
				return -1
			}
		}
	}
	return 0
}
