package main

import (
	"fmt"
	"go/ast"
	"go/token"
	"go/types"
	"golang.org/x/tools/go/packages"
	"strings"

	"golang.org/x/tools/go/cfg"
)

// ruleCommandsSubmitted (C07/C08/C11): a coroutine that collects store commands in a local slice
// (the lease sweep, the dispatch cycle) must hand that slice to the store before it finishes: on
// every path from a statement that adds a command to the end of the function there is an awaited
// store submission whose transaction is that slice — except along the branch on which the slice is
// known to be empty (`len(commands) > 0` false). Forward may-analysis over the CFG of each coroutine
// body: "pending" is set by an append / indexed assignment to the slice, cleared by the submission
// and by the empty-branch of a length test; it must not reach an exit.
func ruleCommandsSubmitted(c *Ctx) {
	m := c.coroModel()
	if m.Err != nil {
		c.und("model", 0, m.Err.Error())
		return
	}
	info := m.Pk.TypesInfo
	isCmdSlice := func(t types.Type) bool {
		sl, ok := t.Underlying().(*types.Slice)
		if !ok {
			return false
		}
		p, ok := sl.Elem().(*types.Pointer)
		return ok && isNamed(p.Elem(), pkgTAio, "Command")
	}
	n := 0
	for _, name := range m.Order {
		cf := m.Funcs[name]
		body := cf.Body
		if body == nil {
			continue
		}
		// the command slices written in this body
		slices := map[types.Object]bool{}
		ast.Inspect(body, func(nd ast.Node) bool {
			as, ok := nd.(*ast.AssignStmt)
			if !ok {
				return true
			}
			for i, l := range as.Lhs {
				switch x := ast.Unparen(l).(type) {
				case *ast.IndexExpr:
					if id, ok := ast.Unparen(x.X).(*ast.Ident); ok {
						if o := info.Uses[id]; o != nil && isCmdSlice(o.Type()) {
							slices[o] = true
						}
					}
				case *ast.Ident:
					o := info.Uses[x]
					if o == nil {
						o = info.Defs[x]
					}
					if o != nil && isCmdSlice(o.Type()) && i < len(as.Rhs) {
						if call, ok := ast.Unparen(as.Rhs[i]).(*ast.CallExpr); ok && (exprString(call.Fun) == "append" || buildsCommands(m.Pk, call)) {
							slices[o] = true
						}
					}
				}
			}
			return true
		})
		for so := range slices {
			// parameters (the extra commands of the creation helper) are the caller's business
			if v, ok := so.(*types.Var); ok && cf.Env.isParam(v) {
				continue
			}
			n++
			key := fmt.Sprintf("commands-submitted/%s/%s", name, so.Name())
			writes := func(nd ast.Node) bool {
				as, ok := nd.(*ast.AssignStmt)
				if !ok {
					return false
				}
				for i, l := range as.Lhs {
					switch x := ast.Unparen(l).(type) {
					case *ast.IndexExpr:
						if isObj(info, x.X, so) {
							return true
						}
					case *ast.Ident:
						if (info.Uses[x] == so || info.Defs[x] == so) && i < len(as.Rhs) {
							if call, ok := ast.Unparen(as.Rhs[i]).(*ast.CallExpr); ok && (exprString(call.Fun) == "append" || buildsCommands(m.Pk, call)) {
								return true
							}
						}
					}
				}
				return false
			}
			submitsDirect := func(info *types.Info, nd ast.Node, obj types.Object) bool {
				found := false
				ast.Inspect(nd, func(x ast.Node) bool {
					if _, isLit := x.(*ast.FuncLit); isLit {
						return false
					}
					call, ok := x.(*ast.CallExpr)
					if !ok {
						return true
					}
					fn, ok := calleeOf(info, call).(*types.Func)
					if !ok || fn.Pkg() == nil || fn.Pkg().Path() != pkgGocoro || (fn.Name() != "YieldAndAwait" && fn.Name() != "Yield") {
						return true
					}
					ast.Inspect(call, func(y ast.Node) bool {
						if kv, ok := y.(*ast.KeyValueExpr); ok && exprString(kv.Key) == "Commands" && isObj(info, kv.Value, obj) {
							found = true
						}
						return true
					})
					return true
				})
				return found
			}
			// directly, or through a helper of the package that submits the slice it is handed on
			// every path (its empty-slice branch excepted)
			// … or, in a helper that builds commands for its caller, by returning the slice
			returnsSlices := false
			if cf.Decl != nil && cf.Lit == nil {
				if sig, ok := info.Defs[cf.Decl.Name].(*types.Func).Type().(*types.Signature); ok && sig.Results().Len() >= 1 && isCmdSlice(sig.Results().At(0).Type()) {
					returnsSlices = true
				}
			}
			submits := func(nd ast.Node) bool {
				if rs, ok := nd.(*ast.ReturnStmt); ok && returnsSlices && len(rs.Results) >= 1 && isObj(info, rs.Results[0], so) {
					return true
				}
				return performs(m.Pk, nd, so, submitsDirect, 0)
			}
			g := buildCFG(m.Pk, body)
			in := make([]int, len(g.Blocks)) // 0 unvisited, 1 clean, 2 pending (may)
			in[0] = 1
			flow := func(b *cfg.Block, st int) int {
				for _, nd := range b.Nodes {
					if submits(nd) {
						st = 1
					}
					if writes(nd) {
						st = 2
					}
				}
				return st
			}
			emptyEdge := func(b *cfg.Block, i int) bool {
				if len(b.Succs) != 2 || len(b.Nodes) == 0 {
					return false
				}
				cond, ok := b.Nodes[len(b.Nodes)-1].(ast.Expr)
				if !ok {
					return false
				}
				for _, a := range cf.Env.condAtoms(cond, i == 1) { // atoms that hold on this edge
					if a == "(0 < len("+cf.Env.prov(&ast.Ident{Name: so.Name()})+"))" {
						return false
					}
				}
				// syntactic forms of "the slice is empty on this edge"
				be, ok := ast.Unparen(cond).(*ast.BinaryExpr)
				if !ok {
					return false
				}
				lc, ok := ast.Unparen(be.X).(*ast.CallExpr)
				if !ok || exprString(lc.Fun) != "len" || len(lc.Args) != 1 || !isObj(info, lc.Args[0], so) {
					return false
				}
				zero := exprString(be.Y) == "0"
				one := exprString(be.Y) == "1"
				switch be.Op.String() {
				case ">", "!=":
					return zero && i == 1
				case "==", "<=":
					return zero && i == 0
				case ">=":
					return (one || zero) && i == 1 // len >= 0 never fails: that edge is infeasible
				case "<":
					return one && i == 0
				}
				return false
			}
			for changed, it := true, 0; changed && it < 6*len(g.Blocks)+16; it++ {
				changed = false
				for _, b := range g.Blocks {
					if in[b.Index] == 0 {
						continue
					}
					o := flow(b, in[b.Index])
					for i, sc := range b.Succs {
						v := o
						if emptyEdge(b, i) {
							v = 1
						}
						if v > in[sc.Index] {
							in[sc.Index] = v
							changed = true
						}
					}
				}
			}
			nSubmit := 0
			var leak ast.Node
			for _, b := range g.Blocks {
				if in[b.Index] == 0 {
					continue
				}
				st := in[b.Index]
				for _, nd := range b.Nodes {
					if submits(nd) {
						nSubmit++
						st = 1
					}
					if writes(nd) {
						st = 2
					}
					if rs, ok := nd.(*ast.ReturnStmt); ok && st == 2 && leak == nil {
						leak = rs
					}
				}
				if len(b.Succs) == 0 && st == 2 && leak == nil && len(b.Nodes) > 0 {
					leak = b.Nodes[len(b.Nodes)-1]
				}
			}
			switch {
			case nSubmit == 0:
				c.bad(key, so.Pos(), fmt.Sprintf("the commands collected in %s are never handed to the store: the sweep's writes do not happen", so.Name()))
			case leak != nil:
				o := c.bad(key, leak.Pos(), fmt.Sprintf("the coroutine can finish here with commands collected in %s that were not submitted to the store", so.Name()))
				o.Path = []string{"entry: " + name, "slice: " + c.P.pos(so.Pos()), "exit with pending commands: " + c.P.pos(leak.Pos())}
			default:
				c.ok(key, so.Pos(), "every path from a collected command to the end passes through the store submission (or the empty-slice branch)")
			}
		}
	}
	c.count("command_slices", n)
	c.floor("coroutines that collect commands in a slice", n, 2)
}

// ruleScheduleMarkerTags (C10): the promise a schedule fires carries the configured tags plus the
// two marker tags: resonate:schedule = the schedule's id and resonate:invocation = "true". On every
// path to the CreatePromise command of SchedulePromises both entries have been written into the
// very map the command takes its Tags from (must-facts over the CFG).
func ruleScheduleMarkerTags(c *Ctx) {
	m := c.coroModel()
	if m.Err != nil {
		c.und("model", 0, m.Err.Error())
		return
	}
	cf := m.Funcs["SchedulePromises"]
	if cf == nil || cf.Body == nil {
		c.und("schedule-marker-tags", 0, "SchedulePromises not found")
		return
	}
	info := m.Pk.TypesInfo
	var lit *ast.CompositeLit
	ast.Inspect(cf.Body, func(n ast.Node) bool {
		if cl, ok := n.(*ast.CompositeLit); ok && isNamed(info.Types[cl].Type, pkgTAio, "CreatePromiseCommand") {
			lit = cl
		}
		return true
	})
	if lit == nil {
		c.und("schedule-marker-tags", cf.Decl.Pos(), "no CreatePromiseCommand literal in SchedulePromises")
		return
	}
	var tagsExpr ast.Expr
	for _, el := range lit.Elts {
		if kv, ok := el.(*ast.KeyValueExpr); ok && exprString(kv.Key) == "Tags" {
			tagsExpr = kv.Value
		}
	}
	if tagsExpr == nil {
		c.bad("schedule-marker-tags", lit.Pos(), "the scheduled promise is created without tags")
		return
	}
	te := exprString(tagsExpr)
	g := buildCFG(m.Pk, cf.Body)
	gen := func(n ast.Node) []string {
		as, ok := n.(*ast.AssignStmt)
		if !ok || len(as.Lhs) != 1 || len(as.Rhs) != 1 {
			return nil
		}
		ix, ok := ast.Unparen(as.Lhs[0]).(*ast.IndexExpr)
		if !ok || exprString(ix.X) != te {
			return nil
		}
		k, ok := constString(info, ix.Index)
		if !ok {
			return nil
		}
		return []string{"tag:" + k + "=" + cf.Env.prov(as.Rhs[0])}
	}
	facts := mustFacts(g, gen, nil, func(n ast.Node) bool {
		found := false
		ast.Inspect(n, func(x ast.Node) bool {
			if x == ast.Node(lit) {
				found = true
			}
			return true
		})
		return found
	})
	ok := len(facts) > 0
	var got []string
	for _, f := range facts {
		got = f.list()
		if !f["tag:resonate:schedule=rec.Id"] || !f[`tag:resonate:invocation="true"`] {
			ok = false
		}
	}
	o := c.check(ok, "schedule-marker-tags", lit.Pos(), "the fired promise carries resonate:schedule = schedule id and resonate:invocation = \"true\"", "the promise a schedule fires does not always carry the marker tags resonate:schedule = <schedule id> and resonate:invocation = \"true\" in the map its Tags are taken from")
	if !ok {
		o.Found = fmt.Sprint(got)
	}
}

// pendingFlow: forward may-analysis for "an obligation raised at one node must be discharged before
// the path ends". set/clear classify nodes; clearEdge classifies branch edges on which the
// obligation is void (the empty-slice branch, the channel-closed branch). Returns the first node at
// which a path ends (return, or end of body, or back at loopHead when given) with the obligation
// pending, and how many discharging nodes were seen.
func pendingFlow(g *cfg.CFG, set, clear func(ast.Node) bool, clearEdge func(b *cfg.Block, i int) bool, isEnd func(b *cfg.Block) bool, setEdges ...func(b *cfg.Block, i int) bool) (leak ast.Node, nClear int) {
	in := make([]int, len(g.Blocks)) // 0 unvisited, 1 clean, 2 pending
	in[0] = 1
	flow := func(b *cfg.Block, st int) int {
		for _, nd := range b.Nodes {
			if clear(nd) {
				st = 1
			}
			if set(nd) {
				st = 2
			}
		}
		return st
	}
	for changed, it := true, 0; changed && it < 6*len(g.Blocks)+16; it++ {
		changed = false
		for _, b := range g.Blocks {
			if in[b.Index] == 0 {
				continue
			}
			o := flow(b, in[b.Index])
			for i, sc := range b.Succs {
				v := o
				if clearEdge != nil && clearEdge(b, i) {
					v = 1
				}
				for _, se := range setEdges {
					if se(b, i) {
						v = 2
					}
				}
				if v > in[sc.Index] {
					in[sc.Index] = v
					changed = true
				}
			}
		}
	}
	for _, b := range g.Blocks {
		if in[b.Index] == 0 {
			continue
		}
		st := in[b.Index]
		if isEnd != nil && isEnd(b) && st == 2 && leak == nil {
			if len(b.Nodes) > 0 {
				leak = b.Nodes[0]
			} else if b.Stmt != nil {
				leak = b.Stmt
			}
		}
		for _, nd := range b.Nodes {
			if clear(nd) {
				nClear++
				st = 1
			}
			if set(nd) {
				st = 2
			}
			if rs, ok := nd.(*ast.ReturnStmt); ok && st == 2 && leak == nil {
				leak = rs
			}
		}
		if len(b.Succs) == 0 && st == 2 && leak == nil && len(b.Nodes) > 0 {
			leak = b.Nodes[len(b.Nodes)-1]
		}
	}
	return leak, nClear
}

// lenEdgeEmpty: on edge i of a block ending in a comparison of len(obj) with 0/1, is obj empty?
func lenEdgeEmpty(info *types.Info, b *cfg.Block, i int, obj types.Object) bool {
	if len(b.Succs) != 2 || len(b.Nodes) == 0 {
		return false
	}
	cond, ok := b.Nodes[len(b.Nodes)-1].(ast.Expr)
	if !ok {
		return false
	}
	be, ok := ast.Unparen(cond).(*ast.BinaryExpr)
	if !ok {
		return false
	}
	lc, ok := ast.Unparen(be.X).(*ast.CallExpr)
	if !ok || exprString(lc.Fun) != "len" || len(lc.Args) != 1 || !isObj(info, lc.Args[0], obj) {
		return false
	}
	zero, one := exprString(be.Y) == "0", exprString(be.Y) == "1"
	switch be.Op.String() {
	case ">", "!=":
		return zero && i == 1
	case "==", "<=":
		return zero && i == 0
	case ">=":
		return (one || zero) && i == 1
	case "<":
		return one && i == 0
	}
	return false
}

// ruleBatchesProcessed (C12/C16): a store worker answers every submission it takes from its queue:
// (1) in Collect, a submission received from the channel (ok) is appended to the batch before the
// function returns; (2) in each worker's Start loop, a collected batch reaches Process on every
// path back to the loop head or out of the function, except along the branch on which the batch is
// empty.
func ruleBatchesProcessed(c *Ctx) {
	// (1) store.Collect
	if pk := c.P.Pkg(pkgStore); pk != nil {
		fd := funcDecl(pk, "", "Collect")
		if fd == nil {
			c.und("batches/collect", 0, "store.Collect not found")
		} else {
			c.receivedIsKept(pk, fd, "batches/collect", true)
		}
	}
	// (2) the workers
	n := 0
	for _, pp := range []string{pkgSqlite, pkgPostgres} {
		pk := c.P.Pkg(pp)
		if pk == nil {
			continue
		}
		info := pk.TypesInfo
		for _, fd := range allFuncDecls(pk) {
			if fd.Name.Name != "Start" || fd.Recv == nil || !strings.HasSuffix(recvTypeName(fd.Recv.List[0].Type), "Worker") {
				continue
			}
			key := "batches/" + pk.Name + "." + funcName(fd)
			var sqes types.Object
			var collectNode ast.Node
			ast.Inspect(fd.Body, func(nd ast.Node) bool {
				as, ok := nd.(*ast.AssignStmt)
				if !ok || len(as.Rhs) != 1 || len(as.Lhs) < 1 {
					return true
				}
				if call, ok := ast.Unparen(as.Rhs[0]).(*ast.CallExpr); ok {
					if fn, ok := calleeOf(info, call).(*types.Func); ok && fn.Name() == "Collect" && fn.Pkg() != nil && fn.Pkg().Path() == pkgStore {
						if id, ok := as.Lhs[0].(*ast.Ident); ok {
							sqes = info.Defs[id]
							if sqes == nil {
								sqes = info.Uses[id]
							}
							collectNode = as
						}
					}
				}
				return true
			})
			if sqes == nil {
				c.und(key, fd.Pos(), "the worker does not collect its batch with store.Collect")
				continue
			}
			n++
			g := buildCFG(pk, fd.Body)
			set := func(nd ast.Node) bool { return nd == collectNode }
			processDirect := func(info *types.Info, nd ast.Node, obj types.Object) bool {
				found := false
				ast.Inspect(nd, func(x ast.Node) bool {
					if _, isLit := x.(*ast.FuncLit); isLit {
						return false
					}
					if call, ok := x.(*ast.CallExpr); ok {
						if se, ok := ast.Unparen(call.Fun).(*ast.SelectorExpr); ok && se.Sel.Name == "Process" && len(call.Args) == 1 && isObj(info, call.Args[0], obj) {
							found = true
						}
					}
					return true
				})
				return found
			}
			clear := func(nd ast.Node) bool { return performs(pk, nd, sqes, processDirect, 0) }
			clearEdge := func(b *cfg.Block, i int) bool { return lenEdgeEmpty(info, b, i, sqes) }
			// the loop head: collecting the next batch with one pending loses the previous one — the
			// set node itself re-raises, so a pending state ENTERING the collect node is the leak
			var leak ast.Node
			l, nClear := pendingFlow(g, set, clear, clearEdge, func(b *cfg.Block) bool {
				for _, nd := range b.Nodes {
					if nd == collectNode {
						return b.Nodes[0] == collectNode
					}
				}
				return false
			})
			leak = l
			// the worker leaves its loop exactly when Collect reported the queue closed
			var okObj types.Object
			if as, isAs := collectNode.(*ast.AssignStmt); isAs && len(as.Lhs) == 2 {
				if id, isId := as.Lhs[1].(*ast.Ident); isId {
					okObj = info.Defs[id]
					if okObj == nil {
						okObj = info.Uses[id]
					}
				}
			}
			closedEdge := func(b *cfg.Block, i int) []string {
				if len(b.Succs) != 2 || len(b.Nodes) == 0 || okObj == nil {
					return nil
				}
				cond, isExpr := b.Nodes[len(b.Nodes)-1].(ast.Expr)
				if !isExpr {
					return nil
				}
				cond = ast.Unparen(cond)
				neg := false
				if u, isU := cond.(*ast.UnaryExpr); isU && u.Op.String() == "!" {
					neg, cond = true, ast.Unparen(u.X)
				}
				if !isObj(info, cond, okObj) {
					return nil
				}
				if (i == 0) == neg {
					return []string{"closed"}
				}
				return []string{"open"}
			}
			exits := mustFacts(g, func(ast.Node) []string { return nil }, closedEdge, func(nd ast.Node) bool { _, isRet := nd.(*ast.ReturnStmt); return isRet })
			okExit, nExit := true, 0
			for _, f := range exits {
				nExit++
				if !f["closed"] {
					okExit = false
				}
			}
			// and on the closed edge it does leave: the loop head is not reachable from it
			closedLoops := false
			for _, b := range g.Blocks {
				for i := range b.Succs {
					if fs := closedEdge(b, i); len(fs) == 1 && fs[0] == "closed" {
						seen := map[int32]bool{}
						var walk func(x *cfg.Block)
						walk = func(x *cfg.Block) {
							if seen[x.Index] {
								return
							}
							seen[x.Index] = true
							for _, nd := range x.Nodes {
								if nd == collectNode {
									closedLoops = true
								}
							}
							for _, sc := range x.Succs {
								walk(sc)
							}
						}
						walk(b.Succs[i])
					}
				}
			}
			c.check(okExit && nExit >= 1 && !closedLoops, key+"/exit-iff-closed", fd.Pos(), "the worker returns exactly when Collect reported its queue closed", "the store worker's exit no longer coincides with `queue closed`: it stops serving an open queue (every later store submission hangs) or keeps collecting from a closed one")
			switch {
			case nClear == 0:
				c.bad(key, fd.Pos(), "the worker never hands its batch to Process")
			case leak != nil:
				c.bad(key, leak.Pos(), "a collected, non-empty batch can be dropped: a path from store.Collect leads back to the next Collect (or out of the worker) without Process(sqes): those requests are never answered")
			default:
				c.ok(key, fd.Pos(), "every non-empty batch reaches Process before the next Collect or the worker's exit")
			}
		}
	}
	c.count("store_worker_loops", n)
	c.floor("store worker loops", n, 2)
}

// receivedIsKept: in a function that drains a channel into a slice it returns (store.Collect,
// api.DequeueSQE, aio.DequeueCQE): an entry received with ok == true is appended to the returned
// slice before the function returns or receives again; with flag, the function's second result is
// false exactly when the channel was closed.
func (c *Ctx) receivedIsKept(pk *packages.Package, fd *ast.FuncDecl, key string, flag bool) {
	info := pk.TypesInfo
	var batch types.Object
	if n := len(fd.Body.List); n > 0 {
		if rs, ok := fd.Body.List[n-1].(*ast.ReturnStmt); ok && len(rs.Results) >= 1 {
			if id, ok := ast.Unparen(rs.Results[0]).(*ast.Ident); ok {
				batch = info.Uses[id]
			}
		}
	}
	var recvObj, okObj types.Object
	var recvNode ast.Node
	ast.Inspect(fd.Body, func(n ast.Node) bool {
		as, ok := n.(*ast.AssignStmt)
		if !ok || len(as.Lhs) != 2 || len(as.Rhs) != 1 {
			return true
		}
		if u, ok := ast.Unparen(as.Rhs[0]).(*ast.UnaryExpr); ok && u.Op.String() == "<-" {
			if a, ok := as.Lhs[0].(*ast.Ident); ok {
				recvObj = info.Defs[a]
			}
			if b, ok := as.Lhs[1].(*ast.Ident); ok {
				okObj = info.Defs[b]
			}
			recvNode = as
		}
		return true
	})
	if batch == nil || recvObj == nil || okObj == nil {
		c.und(key, fd.Pos(), "receive `sqe, ok := <-c` or the returned batch not found")
	} else {
		g := buildCFG(pk, fd.Body)
		set := func(n ast.Node) bool { return n == recvNode }
		clear := func(n ast.Node) bool {
			as, ok := n.(*ast.AssignStmt)
			if !ok || len(as.Lhs) != 1 || len(as.Rhs) != 1 || !isObj(info, as.Lhs[0], batch) {
				return false
			}
			call, ok := ast.Unparen(as.Rhs[0]).(*ast.CallExpr)
			if !ok || exprString(call.Fun) != "append" || len(call.Args) < 2 || !isObj(info, call.Args[0], batch) {
				return false
			}
			for _, a := range call.Args[1:] {
				if isObj(info, a, recvObj) {
					return true
				}
			}
			return false
		}
		clearEdge := func(b *cfg.Block, i int) bool { // the channel was closed: nothing was received
			if len(b.Succs) != 2 || len(b.Nodes) == 0 {
				return false
			}
			cond, ok := b.Nodes[len(b.Nodes)-1].(ast.Expr)
			if !ok {
				return false
			}
			cond = ast.Unparen(cond)
			neg := false
			if u, ok := cond.(*ast.UnaryExpr); ok && u.Op.String() == "!" {
				neg, cond = true, ast.Unparen(u.X)
			}
			if !isObj(info, cond, okObj) {
				return false
			}
			return (i == 0) == neg // edge on which ok is false
		}
		// Collect reports false exactly when the queue was closed (the worker exits on false)
		closedEdge := func(b *cfg.Block, i int) []string {
			if clearEdge(b, i) {
				return []string{"closed"}
			}
			return nil
		}
		rets := mustFacts(g, func(ast.Node) []string { return nil }, closedEdge, func(n ast.Node) bool { _, ok := n.(*ast.ReturnStmt); return ok })
		okFlag, nFalse := true, 0
		var flagPos ast.Node
		for n, f := range rets {
			rs := n.(*ast.ReturnStmt)
			if len(rs.Results) != 2 {
				continue
			}
			switch exprString(rs.Results[1]) {
			case "false":
				nFalse++
				if !f["closed"] {
					okFlag, flagPos = false, rs
				}
			case "true":
				if f["closed"] {
					okFlag, flagPos = false, rs
				}
			default:
				okFlag, flagPos = false, rs
			}
		}
		if flagPos == nil {
			flagPos = fd
		}
		if flag {
			c.check(okFlag && nFalse >= 1, key+"-open-flag", flagPos.Pos(), "Collect returns false exactly when its queue was closed", "Collect's second result is no longer `false iff the queue was closed`: a worker that exits on false stops serving an open queue (every later store submission hangs), or never notices the close")
		}
		leak, nClear := pendingFlow(g, set, clear, clearEdge, nil)
		switch {
		case nClear == 0:
			c.bad(key, fd.Pos(), "Collect never appends the submission it received to the batch")
		case leak != nil:
			c.bad(key, leak.Pos(), "Collect can return (or receive the next submission) while a submission it took from the queue has not been added to the batch: that request is never answered")
		default:
			c.ok(key, fd.Pos(), "every received submission is appended to the batch before Collect returns")
		}
	}
}

// ruleKernelQueues (C12): the two kernel queues hand every accepted entry on exactly once.
//   - api.Shutdown sets the shutdown flag to true; api.EnqueueSQE sends only on the branch where
//     the flag is false and refuses with "shutting down" only where it is true;
//   - api.DequeueSQE / aio.DequeueCQE: the entry parked in the hand-over buffer is put into the
//     returned batch and the buffer is cleared (once), on every path; an entry received from the
//     channel is appended before the function returns.
func ruleKernelQueues(c *Ctx) {
	// shutdown flag polarity
	if pk := c.P.Pkg(pkgIApi); pk != nil {
		info := pk.TypesInfo
		done := funcDecl(pk, "api", "Done")
		shut := funcDecl(pk, "api", "Shutdown")
		enq := funcDecl(pk, "api", "EnqueueSQE")
		if done == nil || shut == nil || enq == nil {
			c.und("kernel-queues/shutdown-flag", 0, "api.Done / Shutdown / EnqueueSQE not found")
		} else {
			// the flag: the boolean field Done() reads
			flag := ""
			ast.Inspect(done.Body, func(n ast.Node) bool {
				if se, ok := n.(*ast.SelectorExpr); ok {
					if tv, ok := info.Types[se]; ok {
						if b, ok := tv.Type.Underlying().(*types.Basic); ok && b.Kind() == types.Bool {
							flag = se.Sel.Name
						}
					}
				}
				return true
			})
			setsTrue := false
			ast.Inspect(shut.Body, func(n ast.Node) bool {
				if as, ok := n.(*ast.AssignStmt); ok && len(as.Lhs) == 1 && len(as.Rhs) == 1 {
					if se, ok := as.Lhs[0].(*ast.SelectorExpr); ok && se.Sel.Name == flag && exprString(as.Rhs[0]) == "true" {
						setsTrue = true
					}
				}
				return true
			})
			c.check(flag != "" && setsTrue, "kernel-queues/shutdown-sets-flag", shut.Pos(), "Shutdown sets the flag Done() reads to true", "api.Shutdown no longer sets the shutdown flag to true: requests are accepted forever and the loop never finishes (or Done() is true from the start)")
			g := buildCFG(pk, enq.Body)
			edge := func(b *cfg.Block, i int) []string {
				if len(b.Succs) != 2 || len(b.Nodes) == 0 {
					return nil
				}
				cond, ok := b.Nodes[len(b.Nodes)-1].(ast.Expr)
				if !ok {
					return nil
				}
				cond = ast.Unparen(cond)
				neg := false
				if u, ok := cond.(*ast.UnaryExpr); ok && u.Op.String() == "!" {
					neg, cond = true, ast.Unparen(u.X)
				}
				se, ok := cond.(*ast.SelectorExpr)
				if !ok || se.Sel.Name != flag {
					return nil
				}
				if (i == 0) != neg {
					return []string{"flag:true"}
				}
				return []string{"flag:false"}
			}
			isSend := func(n ast.Node) bool { _, ok := n.(*ast.SendStmt); return ok }
			refuses := func(n ast.Node) bool {
				f := false
				ast.Inspect(n, func(x ast.Node) bool {
					if id, ok := x.(*ast.Ident); ok && id.Name == "StatusSystemShuttingDown" {
						f = true
					}
					return true
				})
				_, isFn := n.(*ast.FuncLit)
				return f && !isFn
			}
			facts := mustFacts(g, func(ast.Node) []string { return nil }, edge, func(n ast.Node) bool { return isSend(n) || refuses(n) })
			okSend, okRefuse, nSend, nRefuse := true, true, 0, 0
			for n, f := range facts {
				if isSend(n) {
					nSend++
					if !f["flag:false"] {
						okSend = false
					}
				}
				if refuses(n) {
					nRefuse++
					if !f["flag:true"] {
						okRefuse = false
					}
				}
			}
			c.check(okSend && nSend >= 1, "kernel-queues/accept-only-while-open", enq.Pos(), "a request is queued only on the branch where the shutdown flag is false", "api.EnqueueSQE can queue a request although shutdown was requested (the flag is not known to be false at the send): it is accepted after the loop may have observed Done() and is never answered")
			c.check(okRefuse && nRefuse >= 1, "kernel-queues/refuse-only-when-shutting-down", enq.Pos(), "the shutting-down refusal is answered only where the flag is true", "api.EnqueueSQE answers `shutting down` on a path where shutdown was not requested (or never refuses)")
		}
	}
	// hand-over buffers and channel drains
	for _, t := range []struct{ pkg, recv, fn string }{{pkgIApi, "api", "DequeueSQE"}, {pkgIAio, "aio", "DequeueCQE"}} {
		pk := c.P.Pkg(t.pkg)
		if pk == nil {
			continue
		}
		fd := funcDecl(pk, t.recv, t.fn)
		key := "kernel-queues/" + t.recv + "." + t.fn
		if fd == nil {
			c.und(key, 0, t.fn+" not found")
			continue
		}
		info := pk.TypesInfo
		c.receivedIsKept(pk, fd, key+"/received-kept", false)
		var batch types.Object
		if n := len(fd.Body.List); n > 0 {
			if rs, ok := fd.Body.List[n-1].(*ast.ReturnStmt); ok && len(rs.Results) == 1 {
				if id, ok := ast.Unparen(rs.Results[0]).(*ast.Ident); ok {
					batch = info.Uses[id]
				}
			}
		}
		isBuf := func(e ast.Expr) bool {
			se, ok := ast.Unparen(e).(*ast.SelectorExpr)
			return ok && se.Sel.Name == "buffer"
		}
		g := buildCFG(pk, fd.Body)
		gen := func(n ast.Node) []string {
			as, ok := n.(*ast.AssignStmt)
			if !ok || len(as.Lhs) != 1 || len(as.Rhs) != 1 {
				return nil
			}
			if isBuf(as.Lhs[0]) && exprString(as.Rhs[0]) == "nil" {
				return []string{"cleared"}
			}
			if isObj(info, as.Lhs[0], batch) {
				if call, ok := ast.Unparen(as.Rhs[0]).(*ast.CallExpr); ok && exprString(call.Fun) == "append" && len(call.Args) == 2 && isObj(info, call.Args[0], batch) && isBuf(call.Args[1]) {
					return []string{"appended"}
				}
			}
			return nil
		}
		// bufEdge: on edge i of a block that ends in a nil test of the buffer, is the buffer empty?
		bufEdge := func(b *cfg.Block, i int) (empty, known bool) {
			if len(b.Succs) != 2 || len(b.Nodes) == 0 {
				return false, false
			}
			cond, isExpr := b.Nodes[len(b.Nodes)-1].(ast.Expr)
			if !isExpr {
				return false, false
			}
			cond = ast.Unparen(cond)
			neg := false
			for {
				u, isU := cond.(*ast.UnaryExpr)
				if !isU || u.Op.String() != "!" {
					break
				}
				neg, cond = !neg, ast.Unparen(u.X)
			}
			be, isBin := cond.(*ast.BinaryExpr)
			if !isBin || !isBuf(be.X) || exprString(be.Y) != "nil" || (be.Op.String() != "==" && be.Op.String() != "!=") {
				return false, false
			}
			empty = (be.Op.String() == "==") == (i == 0)
			if neg {
				empty = !empty
			}
			return empty, true
		}
		edge := func(b *cfg.Block, i int) []string {
			if e, known := bufEdge(b, i); known && e {
				return []string{"empty"}
			}
			return nil
		}
		nonEmptyEdge := func(b *cfg.Block, i int) bool {
			e, known := bufEdge(b, i)
			return known && !e
		}
		has := func(n ast.Node, f string) bool {
			for _, x := range gen(n) {
				if x == f {
					return true
				}
			}
			return false
		}
		never := func(ast.Node) bool { return false }
		leakA, nA := pendingFlow(g, never, func(n ast.Node) bool { return has(n, "appended") }, nil, nil, nonEmptyEdge)
		leakC, nC := pendingFlow(g, never, func(n ast.Node) bool { return has(n, "cleared") }, nil, nil, nonEmptyEdge)
		// and nothing is appended / cleared where the buffer is known to be empty
		emptyFacts := mustFacts(g, func(ast.Node) []string { return nil }, edge, func(n ast.Node) bool { return len(gen(n)) > 0 })
		ok := leakA == nil && leakC == nil && nA == 1 && nC == 1
		for _, f := range emptyFacts {
			if f["empty"] {
				ok = false
			}
		}
		// the append precedes the clearing (clearing first would append nil)
		var posApp, posClr token.Pos
		ast.Inspect(fd.Body, func(n ast.Node) bool {
			for _, f := range gen(n) {
				if f == "appended" {
					posApp = n.Pos()
				}
				if f == "cleared" {
					posClr = n.Pos()
				}
			}
			return true
		})
		c.check(ok && posApp.IsValid() && posClr.IsValid() && posApp < posClr, key+"/buffer-drained", fd.Pos(), "the parked entry is put into the batch, then the buffer is cleared, on every path", t.fn+" can return with the hand-over buffer's entry neither returned nor kept consistently (dropped: never answered; not cleared: answered twice)")
	}
}

// ruleCQEWellFormed (C12/C13): the kernel asserts that a completion queue entry carries exactly one
// of Completion and Error; an entry with neither is a failed assertion on the kernel goroutine. At
// every EnqueueCQE(x) with a local entry x, on every path, x has been given a Completion or an Error
// (in its literal or by assignment) — must-facts over the CFG of the function or function literal
// that enqueues it. For the sender's Done callback, the reported success is the callback's argument.
func ruleCQEWellFormed(c *Ctx) {
	pkgs := append([]string{pkgSystem, pkgSqlite, pkgPostgres, pkgStore, pkgHttpPlugin}, workerPkgs...)
	seen := map[string]bool{}
	n := 0
	for _, pp := range pkgs {
		if seen[pp] {
			continue
		}
		seen[pp] = true
		pk := c.P.Pkg(pp)
		if pk == nil {
			continue
		}
		info := pk.TypesInfo
		for _, fd := range allFuncDecls(pk) {
			if fd.Body == nil || isTestFile(c.P, fd.Pos()) {
				continue
			}
			bodies := []*ast.BlockStmt{fd.Body}
			ast.Inspect(fd.Body, func(x ast.Node) bool {
				if fl, ok := x.(*ast.FuncLit); ok {
					bodies = append(bodies, fl.Body)
				}
				return true
			})
			occ := 0
			for _, body := range bodies {
				// enqueue calls directly in this body
				var calls []*ast.CallExpr
				ast.Inspect(body, func(x ast.Node) bool {
					if fl, ok := x.(*ast.FuncLit); ok && fl.Body != body {
						return false
					}
					if call, ok := x.(*ast.CallExpr); ok {
						if se, ok := ast.Unparen(call.Fun).(*ast.SelectorExpr); ok && se.Sel.Name == "EnqueueCQE" && len(call.Args) == 1 {
							if _, isId := ast.Unparen(call.Args[0]).(*ast.Ident); isId {
								calls = append(calls, call)
							}
						}
					}
					return true
				})
				if len(calls) == 0 {
					continue
				}
				g := buildCFG(pk, body)
				gen := func(nd ast.Node) []string {
					var fs []string
					as, ok := nd.(*ast.AssignStmt)
					if !ok {
						return nil
					}
					for i, l := range as.Lhs {
						if se, ok := ast.Unparen(l).(*ast.SelectorExpr); ok && (se.Sel.Name == "Error" || se.Sel.Name == "Completion") {
							if id, ok := ast.Unparen(se.X).(*ast.Ident); ok {
								if i < len(as.Rhs) {
									if rid, isId := ast.Unparen(as.Rhs[i]).(*ast.Ident); isId && rid.Name == "nil" {
										continue
									}
								}
								fs = append(fs, "set:"+id.Name)
							}
						}
						// x := &CQE{…, Error: e} / {…, Completion: c}
						if id, ok := l.(*ast.Ident); ok && i < len(as.Rhs) {
							r := ast.Unparen(as.Rhs[i])
							if u, ok := r.(*ast.UnaryExpr); ok {
								r = ast.Unparen(u.X)
							}
							if cl, ok := r.(*ast.CompositeLit); ok && isNamed(info.Types[cl].Type, pkgBus, "CQE") {
								for _, el := range cl.Elts {
									if kv, ok := el.(*ast.KeyValueExpr); ok && (exprString(kv.Key) == "Error" || exprString(kv.Key) == "Completion") {
										fs = append(fs, "set:"+id.Name)
									}
								}
							}
						}
					}
					return fs
				}
				facts := mustFacts(g, gen, nil, func(nd ast.Node) bool {
					for _, call := range calls {
						if containsNode(nd, call) {
							if _, isLit := nd.(*ast.FuncLit); !isLit {
								return true
							}
						}
					}
					return false
				})
				for nd, f := range facts {
					for _, call := range calls {
						if !containsNode(nd, call) {
							continue
						}
						id := ast.Unparen(call.Args[0]).(*ast.Ident)
						// entries received ready-made (loop variables over Process's results, parameters) are
						// the producer's business
						if v, ok := info.Uses[id].(*types.Var); ok {
							isLocalEntry := false
							ast.Inspect(fd.Body, func(x ast.Node) bool {
								if as, ok := x.(*ast.AssignStmt); ok {
									for i, l := range as.Lhs {
										if lid, ok := l.(*ast.Ident); ok && info.Defs[lid] == types.Object(v) && i < len(as.Rhs) {
											r := ast.Unparen(as.Rhs[i])
											if u, ok := r.(*ast.UnaryExpr); ok {
												r = ast.Unparen(u.X)
											}
											if _, ok := r.(*ast.CompositeLit); ok {
												isLocalEntry = true
											}
										}
									}
								}
								return true
							})
							if !isLocalEntry {
								continue
							}
						}
						n++
						occ++
						key := fmt.Sprintf("cqe-well-formed/%s.%s#%d", pk.Name, funcName(fd), occ)
						c.check(f["set:"+id.Name], key, call.Pos(), "the entry carries a Completion or an Error on every path to this enqueue", "the completion queue entry "+id.Name+" can be enqueued here with neither a Completion nor an Error: the kernel's `exactly one of completion / error` assertion fails on the kernel goroutine")
					}
				}
			}
		}
	}
	c.count("cqe_enqueues_checked", n)
	c.floor("enqueues of a locally built completion entry", n, 4)
	// sender: the Done callback reports its own argument
	if pk := c.P.Pkg(pkgSender); pk != nil {
		info := pk.TypesInfo
		if fd := funcDecl(pk, "SenderWorker", "Process"); fd != nil {
			ok := false
			ast.Inspect(fd.Body, func(x ast.Node) bool {
				fl, isLit := x.(*ast.FuncLit)
				if !isLit || fl.Type.Params == nil || len(fl.Type.Params.List) == 0 || len(fl.Type.Params.List[0].Names) == 0 {
					return true
				}
				fbody, fpars, _ := forwardedClosure(pk, fl)
				var p0 types.Object
				if len(fpars) > 0 && fpars[0] != nil {
					p0 = fpars[0]
				}
				ast.Inspect(fbody, func(y ast.Node) bool {
					if cl, isCl := y.(*ast.CompositeLit); isCl && isNamed(info.Types[cl].Type, pkgTAio, "SenderCompletion") {
						for _, el := range cl.Elts {
							if kv, isKv := el.(*ast.KeyValueExpr); isKv && exprString(kv.Key) == "Success" && isObj(info, kv.Value, p0) {
								ok = true
							}
						}
					}
					return true
				})
				return true
			})
			// in that callback the error is recorded exactly when the plugin reported one
			okDone := false
			ast.Inspect(fd.Body, func(x ast.Node) bool {
				fl, isLit := x.(*ast.FuncLit)
				if !isLit || fl.Type.Params == nil || len(fl.Type.Params.List) < 2 || len(fl.Type.Params.List[1].Names) == 0 {
					return true
				}
				errName := fl.Type.Params.List[1].Names[0].Name
				env := newProvEnv(pk, fd)
				dbody, dpars, dhost := forwardedClosure(pk, fl)
				if hd, isDecl := dhost.(*ast.FuncDecl); isDecl {
					env = newProvEnv(pk, hd)
					if len(dpars) > 1 && dpars[1] != nil {
						errName = dpars[1].Name()
					}
				}
				errOK, compOK := false, false
				ast.Inspect(dbody, func(y ast.Node) bool {
					as, isAs := y.(*ast.AssignStmt)
					if !isAs || len(as.Lhs) != 1 {
						return true
					}
					se, isSel := ast.Unparen(as.Lhs[0]).(*ast.SelectorExpr)
					if !isSel {
						return true
					}
					conds := env.enclosingConds(dbody, as)
					has := func(a string) bool {
						for _, c := range conds {
							if c == a {
								return true
							}
						}
						return false
					}
					switch se.Sel.Name {
					case "Error":
						errOK = has("(var:"+errName+" != nil)") || has("(param:"+errName+" != nil)")
					case "Completion":
						compOK = has("(var:"+errName+" == nil)") || has("(param:"+errName+" == nil)")
					}
					return true
				})
				if errOK && compOK {
					okDone = true
				}
				return true
			})
			c.check(okDone, "cqe-well-formed/sender-done-branches", fd.Pos(), "the plugin's error becomes the entry's Error, its verdict the Completion", "the sender's Done callback no longer records the plugin's error when there is one and the completion otherwise")
			c.check(ok, "cqe-well-formed/sender-success", fd.Pos(), "the hand-off's completion reports the success the plugin reported", "the sender's completion no longer carries the plugin's success flag: every hand-off looks failed (retried for ever) or delivered (a failed one is marked enqueued)")
		}
	}
}

// ruleDequeueBound (C12/C13): System.Tick asserts that a dequeued batch is no longer than the
// configured batch size; api.DequeueSQE / aio.DequeueCQE therefore take at most n entries: after the
// parked entry, a counting loop `for i := 0; i < n-len(batch); i++` whose body appends at most one
// entry per iteration. Any other bound returns n+1 entries under load and the assertion fails on
// the kernel goroutine.
func ruleDequeueBound(c *Ctx) {
	for _, t := range []struct{ pkg, recv, fn string }{{pkgIApi, "api", "DequeueSQE"}, {pkgIAio, "aio", "DequeueCQE"}} {
		pk := c.P.Pkg(t.pkg)
		key := "dequeue-bound/" + t.recv + "." + t.fn
		if pk == nil {
			c.und(key, 0, "package not loaded")
			continue
		}
		fd := funcDecl(pk, t.recv, t.fn)
		if fd == nil {
			c.und(key, 0, t.fn+" not found")
			continue
		}
		info := pk.TypesInfo
		nPar := paramObjOf(info, fd.Type, 0)
		var batch types.Object
		if n := len(fd.Body.List); n > 0 {
			if rs, ok := fd.Body.List[n-1].(*ast.ReturnStmt); ok && len(rs.Results) == 1 {
				if id, ok := ast.Unparen(rs.Results[0]).(*ast.Ident); ok {
					batch = info.Uses[id]
				}
			}
		}
		var loop *ast.ForStmt
		nLoops := 0
		ast.Inspect(fd.Body, func(x ast.Node) bool {
			switch l := x.(type) {
			case *ast.ForStmt:
				nLoops++
				loop = l
			case *ast.RangeStmt:
				nLoops++
			}
			return true
		})
		ok, why := false, "no single counting loop"
		if loop != nil && nLoops == 1 && batch != nil && nPar != nil {
			ok, why = true, ""
			// init: i := 0
			var iObj types.Object
			if as, isAs := loop.Init.(*ast.AssignStmt); isAs && len(as.Lhs) == 1 && len(as.Rhs) == 1 && exprString(as.Rhs[0]) == "0" {
				if id, isId := as.Lhs[0].(*ast.Ident); isId {
					iObj = info.Defs[id]
				}
			}
			if iObj == nil {
				ok, why = false, "the counter does not start at 0"
			}
			// cond: i < n - len(batch), through locals (provenance with the three variables kept symbolic)
			env := newProvEnv(pk, fd)
			env.sym = map[types.Object]string{iObj: "$i", nPar: "$n", batch: "$batch"}
			atoms := env.condAtoms(loop.Cond, false)
			if len(atoms) != 1 || (atoms[0] != "($i < ($n - len($batch)))" && atoms[0] != "(($i + len($batch)) < $n)" && atoms[0] != "(len($batch) < $n)") {
				ok, why = false, "the loop condition is not `i < n - len(batch)`: "+strings.Join(atoms, " ∧ ")
			}
			// post: i++
			if inc, isInc := loop.Post.(*ast.IncDecStmt); !isInc || inc.Tok != token.INC || !isObj(info, inc.X, iObj) {
				ok, why = false, "the counter is not incremented by one"
			}
			// at most one append per iteration: appends in the body are in different select/if arms
			nApp := 0
			ast.Inspect(loop.Body, func(x ast.Node) bool {
				if as, isAs := x.(*ast.AssignStmt); isAs && len(as.Lhs) == 1 && isObj(info, as.Lhs[0], batch) {
					nApp++
				}
				return true
			})
			if nApp != 1 {
				ok, why = false, fmt.Sprintf("%d appends per iteration", nApp)
			}
		}
		c.check(ok, key, fd.Pos(), "at most n entries are returned (parked entry + i < n-len(batch) receives)", t.fn+" can return more than n entries ("+why+"): System.Tick's batch-size assertion fails on the kernel goroutine under load")
	}
}

// ruleAwaitNonNil (C11/C13): the background coroutines collect the awaitables of the helpers they
// spawned in a slice that has a nil entry for every record they skipped; gocoro.Await on such an
// entry must be governed by a nil test of that entry (with continue/return), otherwise the sweep
// panics on the first skipped record.
func ruleAwaitNonNil(c *Ctx) {
	m := c.coroModel()
	if m.Err != nil {
		c.und("model", 0, m.Err.Error())
		return
	}
	info := m.Pk.TypesInfo
	n := 0
	for _, name := range m.Order {
		cf := m.Funcs[name]
		occ := 0
		ast.Inspect(cf.Decl.Body, func(nd ast.Node) bool {
			call, ok := nd.(*ast.CallExpr)
			if !ok || len(call.Args) != 2 {
				return true
			}
			fn, ok := calleeOf(info, call).(*types.Func)
			if !ok || fn.Pkg() == nil || fn.Pkg().Path() != pkgGocoro || fn.Name() != "Await" {
				return true
			}
			arg := ast.Unparen(call.Args[1])
			// element of a slice: awaiting[i] or the value variable of a range over it
			isElem := false
			switch a := arg.(type) {
			case *ast.IndexExpr:
				isElem = true
			case *ast.Ident:
				for _, d := range cf.Env.defs[info.Uses[a]] {
					if rs, ok := d.(*ast.RangeStmt); ok {
						if vid, ok := rs.Value.(*ast.Ident); ok && info.Defs[vid] == info.Uses[a] {
							isElem = true
						}
					}
				}
			}
			if !isElem {
				return true
			}
			// only slices filled by indexed assignment have holes (a slice grown by append has none)
			var sliceExpr ast.Expr
			switch a := arg.(type) {
			case *ast.IndexExpr:
				sliceExpr = a.X
			case *ast.Ident:
				for _, d := range cf.Env.defs[info.Uses[a]] {
					if rs, ok := d.(*ast.RangeStmt); ok {
						sliceExpr = rs.X
					}
				}
			}
			holes := false
			if sid, ok := ast.Unparen(sliceExpr).(*ast.Ident); ok {
				so := info.Uses[sid]
				ast.Inspect(cf.Decl.Body, func(x ast.Node) bool {
					if as, ok := x.(*ast.AssignStmt); ok {
						for _, l := range as.Lhs {
							if ix, ok := ast.Unparen(l).(*ast.IndexExpr); ok && isObj(info, ix.X, so) {
								holes = true
							}
						}
					}
					return true
				})
			}
			if !holes {
				return true
			}
			n++
			occ++
			key := fmt.Sprintf("await-non-nil/%s#%d", name, occ)
			want := "(" + cf.Env.prov(arg) + " != nil)"
			governed := false
			for _, a := range cf.Env.enclosingConds(cf.Decl.Body, call) {
				if a == want {
					governed = true
				}
			}
			c.check(governed, key, call.Pos(), "the awaited entry is nil-tested first", "gocoro.Await is applied to "+exprString(arg)+" without a governing nil test: entries of skipped records are nil and awaiting them panics on the kernel goroutine")
			return true
		})
	}
	c.count("awaited_slice_entries", n)
	c.floor("awaits of collected awaitables", n, 3)
}

// ruleHttpPluginOutcome (C08/C19): the HTTP transport reports a hand-off as delivered only when the
// receiver answered 200: in HttpWorker.Process every return that carries an error reports false,
// and the only return without an error reports the comparison of the response's StatusCode (of the
// request it just sent) with http.StatusOK; the worker passes Process's verdict to the message's
// Done unchanged.
func ruleHttpPluginOutcome(c *Ctx) {
	pk := c.P.Pkg(pkgHttpPlugin)
	if pk == nil {
		c.und("http-plugin/outcome", 0, "http plugin package not loaded")
		return
	}
	info := pk.TypesInfo
	fd := funcDecl(pk, "HttpWorker", "Process")
	st := funcDecl(pk, "HttpWorker", "Start")
	if fd == nil || st == nil {
		c.und("http-plugin/outcome", 0, "HttpWorker.Process / Start not found")
		return
	}
	env := newProvEnv(pk, fd)
	nErr, nOK := 0, 0
	okErr, okSucc := true, true
	var where ast.Node = fd
	ast.Inspect(fd.Body, func(n ast.Node) bool {
		if _, isLit := n.(*ast.FuncLit); isLit {
			return false
		}
		rs, ok := n.(*ast.ReturnStmt)
		if !ok || len(rs.Results) != 2 {
			return true
		}
		_, errNil := info.Uses[identOf(rs.Results[1])].(*types.Nil)
		if !errNil {
			nErr++
			if exprString(rs.Results[0]) != "false" {
				okErr, where = false, rs
			}
			return true
		}
		nOK++
		p := env.prov(rs.Results[0])
		if !(strings.Contains(p, ".StatusCode == ") && strings.Contains(p, "Do(") && strings.HasSuffix(strings.TrimSuffix(p, ")"), "StatusOK")) {
			okSucc, where = false, rs
		}
		return true
	})
	c.check(okErr && nErr >= 3, "http-plugin/error-is-failure", where.Pos(), "every error return reports the hand-off as failed", "the HTTP transport reports a hand-off as delivered on a path that returns an error (the task would be marked enqueued although nothing was delivered)")
	c.check(okSucc && nOK == 1, "http-plugin/delivered-iff-200", where.Pos(), "delivered ⇔ the receiver answered 200 to this request", "the HTTP transport's success verdict is no longer `response.StatusCode == 200` of the request it sent")
	// Start: msg.Done(w.Process(msg.Data, msg.Body))
	passes := false
	ast.Inspect(st.Body, func(n ast.Node) bool {
		call, ok := n.(*ast.CallExpr)
		if !ok || len(call.Args) != 1 {
			return true
		}
		if se, ok := ast.Unparen(call.Fun).(*ast.SelectorExpr); ok && se.Sel.Name == "Done" {
			if inner, ok := ast.Unparen(call.Args[0]).(*ast.CallExpr); ok {
				if fn, ok := calleeOf(info, inner).(*types.Func); ok && fn == info.Defs[fd.Name] {
					passes = true
				}
			}
		}
		return true
	})
	c.check(passes, "http-plugin/verdict-passed-on", st.Pos(), "Done receives Process's verdict unchanged", "the HTTP worker no longer hands Process's (success, error) to the message's Done")
}

// ruleWorkerLoops (C11/C12): every subsystem / plugin worker serves its queue until it is closed:
// in `Start`, the loop receives `x, ok := <-w.sq`; the worker returns exactly on the branch where
// ok is false (and does return there), and on the other branch the received entry is handed to
// Process before the next receive.
func ruleWorkerLoops(c *Ctx) {
	pkgs := append([]string{pkgHttpPlugin}, workerPkgs...)
	n := 0
	seen := map[string]bool{}
	for _, pp := range pkgs {
		if seen[pp] || pp == pkgPoll {
			continue // the poll worker multiplexes three channels; its typestate rules are separate
		}
		seen[pp] = true
		pk := c.P.Pkg(pp)
		if pk == nil {
			continue
		}
		info := pk.TypesInfo
		for _, fd := range allFuncDecls(pk) {
			if fd.Name.Name != "Start" || fd.Recv == nil || fd.Body == nil || !strings.HasSuffix(recvTypeName(fd.Recv.List[0].Type), "Worker") || isTestFile(c.P, fd.Pos()) {
				continue
			}
			key := "worker-loop/" + pk.Name + "." + funcName(fd)
			var recvNode *ast.AssignStmt
			var xObj, okObj types.Object
			ast.Inspect(fd.Body, func(nd ast.Node) bool {
				as, ok := nd.(*ast.AssignStmt)
				if !ok || len(as.Lhs) != 2 || len(as.Rhs) != 1 {
					return true
				}
				if u, ok := ast.Unparen(as.Rhs[0]).(*ast.UnaryExpr); ok && u.Op.String() == "<-" && strings.HasSuffix(exprString(u.X), ".sq") {
					recvNode = as
					if a, ok := as.Lhs[0].(*ast.Ident); ok {
						xObj = info.Defs[a]
					}
					if b, ok := as.Lhs[1].(*ast.Ident); ok {
						okObj = info.Defs[b]
					}
				}
				return true
			})
			if recvNode == nil || xObj == nil || okObj == nil {
				c.und(key, fd.Pos(), "the worker does not receive `x, ok := <-w.sq`")
				continue
			}
			n++
			g := buildCFG(pk, fd.Body)
			okEdge := func(b *cfg.Block, i int) (closed, known bool) {
				if len(b.Succs) != 2 || len(b.Nodes) == 0 {
					return false, false
				}
				cond, isExpr := b.Nodes[len(b.Nodes)-1].(ast.Expr)
				if !isExpr {
					return false, false
				}
				cond = ast.Unparen(cond)
				neg := false
				for {
					u, isU := cond.(*ast.UnaryExpr)
					if !isU || u.Op.String() != "!" {
						break
					}
					neg, cond = !neg, ast.Unparen(u.X)
				}
				if !isObj(info, cond, okObj) {
					return false, false
				}
				return (i == 0) == neg, true
			}
			edgeFacts := func(b *cfg.Block, i int) []string {
				if cl, known := okEdge(b, i); known {
					if cl {
						return []string{"closed"}
					}
					return []string{"open"}
				}
				return nil
			}
			rets := mustFacts(g, func(ast.Node) []string { return nil }, edgeFacts, func(nd ast.Node) bool { _, isRet := nd.(*ast.ReturnStmt); return isRet })
			okExit, nExit := true, 0
			for _, f := range rets {
				nExit++
				if !f["closed"] {
					okExit = false
				}
			}
			closedLoops := false
			for _, b := range g.Blocks {
				for i := range b.Succs {
					if cl, known := okEdge(b, i); known && cl {
						seenB := map[int32]bool{}
						var walk func(x *cfg.Block)
						walk = func(x *cfg.Block) {
							if seenB[x.Index] {
								return
							}
							seenB[x.Index] = true
							for _, nd := range x.Nodes {
								if nd == ast.Node(recvNode) {
									closedLoops = true
								}
							}
							for _, sc := range x.Succs {
								walk(sc)
							}
						}
						walk(b.Succs[i])
					}
				}
			}
			c.check(okExit && nExit >= 1 && !closedLoops, key+"/exit-iff-closed", fd.Pos(), "the worker returns exactly when its queue was closed", "the worker's exit no longer coincides with `queue closed`: it stops serving an open queue (every later submission to this subsystem hangs) or spins on a closed one")
			// the received entry reaches Process before the next receive
			set := func(nd ast.Node) bool { return nd == ast.Node(recvNode) }
			clear := func(nd ast.Node) bool {
				found := false
				ast.Inspect(nd, func(x ast.Node) bool {
					if call, ok := x.(*ast.CallExpr); ok {
						if se, ok := ast.Unparen(call.Fun).(*ast.SelectorExpr); ok && se.Sel.Name == "Process" {
							for _, a := range call.Args {
								if mentionsObj(info, a, xObj) {
									found = true
								}
							}
						}
					}
					return true
				})
				return found
			}
			clearEdge := func(b *cfg.Block, i int) bool { cl, known := okEdge(b, i); return known && cl }
			leak, nClear := pendingFlow(g, set, clear, clearEdge, func(b *cfg.Block) bool { return len(b.Nodes) > 0 && b.Nodes[0] == ast.Node(recvNode) })
			c.check(leak == nil && nClear >= 1, key+"/processed", fd.Pos(), "every received submission is handed to Process before the next receive", "a submission taken from the queue can be dropped without being processed: its completion is never produced")
		}
	}
	c.count("worker_loops", n)
	c.floor("single-queue worker loops", n, 4)
}

// ruleCursorCarry (C14): following a cursor continues THE SAME query: in api.SearchPromises /
// api.SearchSchedules, when a cursor is supplied, every field of the request that the cursor
// carries (id pattern, states, tags, limit, resume position) replaces the corresponding local, and
// the request that is returned is built from exactly those locals.
func ruleCursorCarry(c *Ctx) {
	pk := c.P.Pkg(pkgSubApi)
	if pk == nil {
		c.und("cursor-carry", 0, "api package not loaded")
		return
	}
	info := pk.TypesInfo
	for _, fn := range []string{"SearchPromises", "SearchSchedules"} {
		key := "cursor-carry/" + fn
		fd := funcDecl(pk, "API", fn)
		if fd == nil {
			c.und(key, 0, "API."+fn+" not found")
			continue
		}
		// the request literal returned on success
		var lit *ast.CompositeLit
		ast.Inspect(fd.Body, func(n ast.Node) bool {
			if cl, ok := n.(*ast.CompositeLit); ok && namedPkgPath(info.Types[cl].Type) == pkgTApi && strings.HasSuffix(namedName(info.Types[cl].Type), "Request") {
				lit = cl
			}
			return true
		})
		if lit == nil {
			c.und(key, fd.Pos(), "no request literal")
			continue
		}
		st := info.Types[lit].Type.Underlying().(*types.Struct)
		localOf := map[string]types.Object{}
		for _, el := range lit.Elts {
			if kv, ok := el.(*ast.KeyValueExpr); ok {
				if id, ok := ast.Unparen(kv.Value).(*ast.Ident); ok {
					localOf[exprString(kv.Key)] = info.Uses[id]
				}
			}
		}
		// must-analysis: on every path that took the cursor branch and reaches the request literal, the
		// local feeding field F was last assigned from <cursor>.Next.F (paths without a cursor are vacuous)
		var missing []string
		var curPar types.Object
		for _, p := range fd.Type.Params.List {
			for _, nm := range p.Names {
				if nm.Name == "cursor" {
					curPar = info.Defs[nm]
				}
			}
		}
		if curPar == nil {
			c.und(key, fd.Pos(), "no cursor parameter")
			continue
		}
		var allFacts []string
		for i := 0; i < st.NumFields(); i++ {
			allFacts = append(allFacts, st.Field(i).Name())
		}
		carries := func(as *ast.AssignStmt) (string, bool) {
			if len(as.Lhs) != 1 || len(as.Rhs) != 1 {
				return "", false
			}
			se, ok := ast.Unparen(as.Rhs[0]).(*ast.SelectorExpr)
			if !ok {
				return "", false
			}
			// <decoded>.Next.F, or <next>.F where <next> is what a helper decoded from the cursor
			base := ast.Unparen(se.X)
			if inner, ok := base.(*ast.SelectorExpr); ok && inner.Sel.Name == "Next" {
				base = ast.Unparen(inner.X)
			}
			root, ok := base.(*ast.Ident)
			if !ok {
				return "", false
			}
			rv, ok := info.Uses[root].(*types.Var)
			if !ok {
				return "", false
			}
			decoded := false
			ast.Inspect(fd.Body, func(n ast.Node) bool {
				d, ok := n.(*ast.AssignStmt)
				if !ok || len(d.Rhs) != 1 {
					return true
				}
				call, ok := ast.Unparen(d.Rhs[0]).(*ast.CallExpr)
				if !ok {
					return true
				}
				for _, l := range d.Lhs {
					if lid, ok := l.(*ast.Ident); ok && (info.Defs[lid] == rv || info.Uses[lid] == rv) {
						for _, a := range call.Args {
							if isObj(info, a, curPar) {
								decoded = true
							}
						}
					}
				}
				return true
			})
			if !decoded {
				return "", false
			}
			if l := localOf[se.Sel.Name]; l != nil && isObj(info, as.Lhs[0], l) {
				return se.Sel.Name, true
			}
			return "", false
		}
		gen := func(n ast.Node) []string {
			if as, ok := n.(*ast.AssignStmt); ok {
				if f, ok := carries(as); ok {
					return []string{f}
				}
			}
			return nil
		}
		kill := func(n ast.Node) []string {
			as, ok := n.(*ast.AssignStmt)
			if !ok {
				return nil
			}
			if _, ok := carries(as); ok {
				return nil
			}
			var out []string
			for _, l := range as.Lhs {
				for f, obj := range localOf {
					if obj != nil && isObj(info, l, obj) {
						out = append(out, f)
					}
				}
			}
			return out
		}
		// the cursor test: `cursor != ""` / `cursor == ""` / len(cursor) compared with 0
		noCursorEdge := func(b *cfg.Block, i int) []string {
			if len(b.Succs) != 2 || len(b.Nodes) == 0 {
				return nil
			}
			be, ok := ast.Unparen(b.Nodes[len(b.Nodes)-1].(ast.Expr)).(*ast.BinaryExpr)
			if !ok {
				return nil
			}
			x := ast.Unparen(be.X)
			if call, ok := x.(*ast.CallExpr); ok && exprString(call.Fun) == "len" && len(call.Args) == 1 {
				x = ast.Unparen(call.Args[0])
			}
			if !isObj(info, x, curPar) {
				return nil
			}
			emptyOnTrue := false
			switch be.Op {
			case token.EQL, token.LEQ:
				emptyOnTrue = true
			case token.NEQ, token.GTR:
			default:
				return nil
			}
			if (emptyOnTrue && i == 0) || (!emptyOnTrue && i == 1) {
				return allFacts
			}
			return nil
		}
		safeEdge := func(b *cfg.Block, i int) (out []string) {
			defer func() {
				if recover() != nil {
					out = nil
				}
			}()
			return noCursorEdge(b, i)
		}
		g := buildCFG(pk, fd.Body)
		// kills count only where a path that took the cursor branch can be (the no-cursor branch
		// computes the same locals from the request, which is not a loss of a carried value)
		withCursor := map[*cfg.Block]bool{}
		var work []*cfg.Block
		for _, b := range g.Blocks {
			for i := range b.Succs {
				if safeEdge(b, i) != nil && len(b.Succs) == 2 {
					work = append(work, b.Succs[1-i])
				}
			}
		}
		if len(work) == 0 {
			c.und(key, fd.Pos(), "no test of the cursor parameter found")
			continue
		}
		for len(work) > 0 {
			b := work[len(work)-1]
			work = work[:len(work)-1]
			if withCursor[b] {
				continue
			}
			withCursor[b] = true
			work = append(work, b.Succs...)
		}
		blockOf := map[ast.Node]*cfg.Block{}
		for _, b := range g.Blocks {
			for _, nd := range b.Nodes {
				blockOf[nd] = b
			}
		}
		killAll := kill
		kill = func(n ast.Node) []string {
			if !withCursor[blockOf[n]] {
				return nil
			}
			as, ok := n.(*ast.AssignStmt)
			if !ok {
				return nil
			}
			// normalised by a helper that hands the value back (`tags, limit, err := defaults(id, tags, limit)`)
			if len(as.Rhs) == 1 {
				if call, isCall := ast.Unparen(as.Rhs[0]).(*ast.CallExpr); isCall {
					all := true
					var lost []string
					for k, l := range as.Lhs {
						for f, obj := range localOf {
							if obj == nil || !isObj(info, l, obj) {
								continue
							}
							through := false
							for j, a := range call.Args {
								if isObj(info, a, obj) && passesThrough(pk, call, j, k) {
									through = true
								}
							}
							if !through {
								all = false
								lost = append(lost, f)
							}
						}
					}
					if all {
						return nil
					}
					return lost
				}
			}
			// a default for the zero value (`if tags == nil { tags = {} }`) is not a loss
			for _, a := range enclosing(fd.Body, as) {
				if ifs, ok := a.(*ast.IfStmt); ok && containsNode(ifs.Body, as) && len(as.Lhs) == 1 {
					if be, ok := ast.Unparen(ifs.Cond).(*ast.BinaryExpr); ok && be.Op == token.EQL && exprString(be.X) == exprString(as.Lhs[0]) {
						if y := exprString(be.Y); y == "nil" || y == "0" || y == `""` {
							return nil
						}
					}
				}
			}
			return killAll(n)
		}
		at := mustFactsK(g, gen, kill, safeEdge, func(n ast.Node) bool { return containsNode(n, lit) })
		if len(at) == 0 {
			c.und(key, lit.Pos(), "request literal not found in the control-flow graph")
			continue
		}
		for i := 0; i < st.NumFields(); i++ {
			f := st.Field(i).Name()
			if localOf[f] == nil {
				missing = append(missing, f+" (not built from a local)")
				continue
			}
			for _, facts := range at {
				if !facts[f] {
					missing = append(missing, f)
					break
				}
			}
		}
		c.check(len(missing) == 0, key, lit.Pos(), "with a cursor, every field of the query is taken from the cursor", "api."+fn+" does not carry "+strings.Join(missing, ", ")+" over from the cursor: the next page is computed for a different query (unfiltered results, or pages that repeat / skip)")
	}
}

// ruleRequestWrapper (C12/C13): the kernel wraps every request coroutine (System.AddOnRequest): the
// wrapper installs the configuration the coroutines read (c.Set("config", …) before the coroutine
// body runs — ClaimTask panics without it) and answers with one completion entry that carries the
// coroutine's response, its error and the request's callback.
func ruleRequestWrapper(c *Ctx) {
	pk := c.P.Pkg(pkgSystem)
	fd := funcDecl(pk, "System", "AddOnRequest")
	if fd == nil {
		c.und("request-wrapper", 0, "System.AddOnRequest not found")
		return
	}
	info := pk.TypesInfo
	ctor := paramObjOf(info, fd.Type, 1)
	// the innermost function literal: the coroutine body
	var inner *ast.FuncLit
	ast.Inspect(fd.Body, func(n ast.Node) bool {
		if fl, ok := n.(*ast.FuncLit); ok {
			inner = fl
		}
		return true
	})
	if inner == nil || ctor == nil {
		c.und("request-wrapper", fd.Pos(), "wrapper shape not recognised")
		return
	}
	g := buildCFG(pk, inner.Body)
	gen := func(n ast.Node) []string {
		for _, call := range callsIn(n) {
			if se, ok := ast.Unparen(call.Fun).(*ast.SelectorExpr); ok && se.Sel.Name == "Set" && len(call.Args) == 2 {
				if k, ok := constString(info, call.Args[0]); ok && k == "config" && strings.HasSuffix(exprString(call.Args[1]), ".config") {
					return []string{"config-set"}
				}
			}
		}
		return nil
	}
	runs := mustFacts(g, gen, nil, func(n ast.Node) bool {
		for _, call := range callsIn(n) {
			if isObj(info, call.Fun, ctor) {
				return true
			}
		}
		return false
	})
	ok := len(runs) == 1
	for _, f := range runs {
		if !f["config-set"] {
			ok = false
		}
	}
	c.check(ok, "request-wrapper/config", inner.Pos(), "the configuration is installed before the coroutine body runs", "the request wrapper runs the coroutine without installing the configuration first: coroutines that read it (ClaimTask) panic on the kernel goroutine")
	// the completion entry
	var lit *ast.CompositeLit
	ast.Inspect(inner.Body, func(n ast.Node) bool {
		if cl, ok := n.(*ast.CompositeLit); ok && isNamed(info.Types[cl].Type, pkgBus, "CQE") {
			lit = cl
		}
		return true
	})
	fields := map[string]string{}
	if lit != nil {
		for _, el := range lit.Elts {
			if kv, ok := el.(*ast.KeyValueExpr); ok {
				fields[exprString(kv.Key)] = exprString(kv.Value)
			}
		}
	}
	cb := ""
	// the callback parameter of the middle function literal
	ast.Inspect(fd.Body, func(n ast.Node) bool {
		if fl, ok := n.(*ast.FuncLit); ok && fl != inner && fl.Type.Params != nil && len(fl.Type.Params.List) == 2 && len(fl.Type.Params.List[1].Names) == 1 {
			cb = fl.Type.Params.List[1].Names[0].Name
		}
		return true
	})
	c.check(lit != nil && fields["Completion"] != "" && fields["Error"] != "" && cb != "" && fields["Callback"] == cb, "request-wrapper/completion", inner.Pos(), "the wrapper answers with the coroutine's response and error and the request's callback", "the request wrapper's completion entry does not carry the coroutine's response, its error and the request's callback: the request is never answered")
}

// ruleWorkerEntriesCarryCallback (C12): every completion entry a subsystem worker builds for a
// submission carries that submission's callback (and id): without the callback the kernel cannot
// resume the coroutine that is waiting for it.
func ruleWorkerEntriesCarryCallback(c *Ctx) {
	n := 0
	seen := map[string]bool{}
	for _, pp := range workerPkgs {
		if seen[pp] {
			continue
		}
		seen[pp] = true
		pk := c.P.Pkg(pp)
		if pk == nil {
			continue
		}
		info := pk.TypesInfo
		for _, fd := range allFuncDecls(pk) {
			if fd.Body == nil || isTestFile(c.P, fd.Pos()) {
				continue
			}
			occ := 0
			ast.Inspect(fd.Body, func(x ast.Node) bool {
				cl, ok := x.(*ast.CompositeLit)
				if !ok || !isNamed(info.Types[cl].Type, pkgBus, "CQE") {
					return true
				}
				if tv := info.Types[cl]; !strings.Contains(types.TypeString(tv.Type, nil), "t_aio") {
					return true
				}
				n++
				occ++
				cb, id := "", ""
				for _, el := range cl.Elts {
					if kv, ok := el.(*ast.KeyValueExpr); ok {
						switch exprString(kv.Key) {
						case "Callback":
							cb = exprString(kv.Value)
						case "Id":
							id = exprString(kv.Value)
						}
					}
				}
				okLit := strings.HasSuffix(cb, ".Callback") && strings.HasSuffix(id, ".Id") && strings.TrimSuffix(cb, ".Callback") == strings.TrimSuffix(id, ".Id")
				c.check(okLit, fmt.Sprintf("worker-entry/%s.%s#%d", pk.Name, funcName(fd), occ), cl.Pos(), "the entry carries the submission's id and callback", "a completion entry is built without the submission's callback (or id): the coroutine awaiting this submission is never resumed")
				return true
			})
		}
	}
	c.count("worker_completion_entries", n)
	c.floor("completion entries built by workers", n, 3)
}

// passesThrough: the callee (a function of the same package) returns its j-th parameter as its k-th
// result on its value-carrying return (the last statement; earlier returns are error exits), and
// assigns that parameter only to give it a default where it is found nil / zero.
func passesThrough(pk *packages.Package, call *ast.CallExpr, j, k int) bool {
	info := pk.TypesInfo
	fn, ok := calleeOf(info, call).(*types.Func)
	if !ok || fn.Pkg() != pk.Types {
		return false
	}
	fd := funcDeclOf(pk, fn)
	if fd == nil || fd.Body == nil || len(fd.Body.List) == 0 {
		return false
	}
	sig := fn.Type().(*types.Signature)
	if j >= sig.Params().Len() || k >= sig.Results().Len() {
		return false
	}
	par := sig.Params().At(j)
	last, ok := fd.Body.List[len(fd.Body.List)-1].(*ast.ReturnStmt)
	if !ok || k >= len(last.Results) || !isObj(info, last.Results[k], par) {
		return false
	}
	good := true
	ast.Inspect(fd.Body, func(n ast.Node) bool {
		as, ok := n.(*ast.AssignStmt)
		if !ok {
			return true
		}
		for _, l := range as.Lhs {
			if isObj(info, l, par) && !underZeroTest(fd.Body, as, l) {
				good = false
			}
		}
		return true
	})
	return good
}

// ruleEnqueueNonBlocking (C11/C12): a subsystem's (or plugin's) Enqueue is called on the kernel
// goroutine, which is also the only consumer of the completion queue the subsystem's workers block
// on. Enqueue therefore never waits: every send it performs is an arm of a select that has a default
// arm (and a refused entry is reported by `false`, which the caller turns into an explicit
// queue-full answer). A blocking send deadlocks the kernel under back-pressure: no request is
// answered any more and the loop never returns.
func ruleEnqueueNonBlocking(c *Ctx) {
	pkgs := append([]string{pkgSqlite, pkgPostgres}, workerPkgs...)
	n := 0
	seen := map[string]bool{}
	for _, pp := range pkgs {
		if seen[pp] {
			continue
		}
		seen[pp] = true
		pk := c.P.Pkg(pp)
		if pk == nil {
			continue
		}
		info := pk.TypesInfo
		for _, fd := range allFuncDecls(pk) {
			if fd.Body == nil || fd.Recv == nil || fd.Name.Name != "Enqueue" || isTestFile(c.P, fd.Pos()) {
				continue
			}
			sig := info.Defs[fd.Name].(*types.Func).Type().(*types.Signature)
			if sig.Results().Len() != 1 {
				continue
			}
			if b, ok := sig.Results().At(0).Type().Underlying().(*types.Basic); !ok || b.Kind() != types.Bool {
				continue
			}
			n++
			key := "enqueue-non-blocking/" + pk.Name + "." + funcName(fd)
			var bad ast.Node
			nSend := 0
			var scan func(body *ast.BlockStmt, depth int)
			scan = func(body *ast.BlockStmt, depth int) {
				ast.Inspect(body, func(nd ast.Node) bool {
					switch x := nd.(type) {
					case *ast.FuncLit:
						return false
					case *ast.SendStmt:
						nSend++
						nonBlocking := false
						chain := enclosing(body, x)
						for i := len(chain) - 1; i >= 0; i-- {
							if cc, ok := chain[i].(*ast.CommClause); ok && cc.Comm == ast.Stmt(x) && i >= 2 {
								if sel, ok := chain[i-2].(*ast.SelectStmt); ok {
									for _, st := range sel.Body.List {
										if st.(*ast.CommClause).Comm == nil {
											nonBlocking = true
										}
									}
								}
							}
						}
						if !nonBlocking && bad == nil {
							bad = x
						}
					case *ast.CallExpr:
						if depth < 1 {
							if fn, ok := calleeOf(info, x).(*types.Func); ok && fn.Pkg() == pk.Types {
								if hd := funcDeclOf(pk, fn); hd != nil && hd.Body != nil && hd != fd {
									scan(hd.Body, depth+1)
								}
							}
						}
					}
					return true
				})
			}
			scan(fd.Body, 0)
			pos := fd.Pos()
			if bad != nil {
				pos = bad.Pos()
			}
			c.check(bad == nil && nSend >= 1, key, pos, "every send is an arm of a select with a default arm", funcName(fd)+" performs a send that can block (or none at all): Enqueue runs on the kernel goroutine, which alone drains the completion queue the workers block on — under back-pressure the kernel deadlocks and no request is answered any more")
		}
	}
	c.count("enqueue_methods", n)
	c.floor("subsystem / plugin Enqueue methods", n, 6)
}

// buildsCommands: a call to a function of the package that returns a slice of store commands it
// built (the caller then owns them and has to submit them).
func buildsCommands(pk *packages.Package, call *ast.CallExpr) bool {
	fn, ok := calleeOf(pk.TypesInfo, call).(*types.Func)
	if !ok || fn.Pkg() != pk.Types {
		return false
	}
	sig := fn.Type().(*types.Signature)
	if sig.Results().Len() < 1 {
		return false
	}
	sl, ok := sig.Results().At(0).Type().Underlying().(*types.Slice)
	if !ok {
		return false
	}
	p, ok := sl.Elem().(*types.Pointer)
	return ok && isNamed(p.Elem(), pkgTAio, "Command")
}
