package main

// ruleEncodeFresh (C20 / C19, seeds C19-7 and C20-8): the dual of decode-fresh. Bytes that are
// handed on (a message body, a receiver description) must not alias storage that outlives the
// message: `buf.Bytes()` returns a slice of the buffer's own array, so when the buffer is a member
// of a long-lived object, a package-level variable or comes out of a pool, the next Reset / Write
// rewrites what an earlier message still queued in a plugin points to. A buffer created in the
// function itself (var / composite literal / new / bytes.NewBuffer) is fresh for the message.

import (
	"go/ast"
	"go/types"
	"strings"
)

func ruleEncodeFresh(c *Ctx) {
	n := 0
	for path, pk := range c.P.ByPath {
		if !strings.HasPrefix(path, modPath+"/internal/") && !strings.HasPrefix(path, modPath+"/pkg/") {
			continue
		}
		if strings.HasPrefix(path, modPath+"/pkg/client") || strings.Contains(path, "/test") || strings.HasSuffix(path, "/pb") {
			continue
		}
		info := pk.TypesInfo
		for _, fd := range allFuncDecls(pk) {
			if fd.Body == nil || isTestFile(c.P, fd.Pos()) {
				continue
			}
			// locals of this function and how each was defined
			defs := map[types.Object][]ast.Expr{}
			declared := map[types.Object]bool{}
			ast.Inspect(fd.Body, func(nd ast.Node) bool {
				switch s := nd.(type) {
				case *ast.AssignStmt:
					if len(s.Lhs) == len(s.Rhs) {
						for i, l := range s.Lhs {
							if id, ok := l.(*ast.Ident); ok {
								if o := info.ObjectOf(id); o != nil {
									defs[o] = append(defs[o], s.Rhs[i])
								}
							}
						}
					}
				case *ast.ValueSpec:
					for i, id := range s.Names {
						if o := info.Defs[id]; o != nil {
							declared[o] = true
							if i < len(s.Values) {
								defs[o] = append(defs[o], s.Values[i])
							}
						}
					}
				}
				return true
			})
			ast.Inspect(fd.Body, func(nd ast.Node) bool {
				call, ok := nd.(*ast.CallExpr)
				if !ok || len(call.Args) != 0 {
					return true
				}
				se, ok := ast.Unparen(call.Fun).(*ast.SelectorExpr)
				if !ok || se.Sel.Name != "Bytes" {
					return true
				}
				fn, _ := info.Uses[se.Sel].(*types.Func)
				if fn == nil || fn.Pkg() == nil || fn.Pkg().Path() != "bytes" {
					return true
				}
				if sig, ok := fn.Type().(*types.Signature); !ok || sig.Recv() == nil || !strings.HasSuffix(sig.Recv().Type().String(), "bytes.Buffer") {
					return true
				}
				n++
				key := "encode-fresh/" + pk.Name + "." + funcName(fd) + "/" + exprString(se.X)
				x := ast.Unparen(se.X)
				if un, ok := x.(*ast.UnaryExpr); ok {
					x = ast.Unparen(un.X)
				}
				id, isIdent := x.(*ast.Ident)
				if !isIdent {
					c.check(false, key, call.Pos(), "", "the bytes handed on are a slice of "+exprString(se.X)+", storage that outlives this message: the next message encoded there rewrites them while a plugin may still hold them")
					return true
				}
				o := info.ObjectOf(id)
				v, isVar := o.(*types.Var)
				local := isVar && v.Parent() != nil && v.Parent() != v.Pkg().Scope() && fd.Body.Pos() <= v.Pos() && v.Pos() <= fd.Body.End()
				fresh := local
				why := "a buffer that is not created in this function (parameter, member or package-level variable)"
				if local {
					for _, d := range defs[o] {
						d = ast.Unparen(d)
						okDef := false
						switch e := d.(type) {
						case *ast.CompositeLit:
							okDef = true
						case *ast.UnaryExpr:
							_, okDef = ast.Unparen(e.X).(*ast.CompositeLit)
						case *ast.CallExpr:
							name := exprString(e.Fun)
							okDef = name == "new" || name == "bytes.NewBuffer" || name == "bytes.NewBufferString"
						}
						if !okDef {
							fresh, why = false, "a buffer obtained from "+exprString(d)
						}
					}
					if len(defs[o]) == 0 && !declared[o] {
						fresh, why = false, "a buffer whose origin is not visible in this function"
					}
				}
				c.check(fresh, key, call.Pos(), "the buffer is created in this function", "the bytes handed on are a slice of "+why+": the next message encoded there rewrites them while a plugin may still hold them")
				return true
			})
		}
	}
	c.count("buffer_bytes_sites", n)
}
