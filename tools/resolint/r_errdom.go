package main

import (
	"fmt"
	"go/ast"
	"go/token"
	"go/types"
	"sort"
	"strings"

	"golang.org/x/tools/go/cfg"
)

// ruleErrDominatesUse (R12): a pointer (or slice) obtained together with an error — from an await,
// a record decoder, api.Process, a database/sql call, a library parser — is nil on the error path.
// Every dereference of it must be dominated by the `err == nil` outcome of the test of THAT error
// (forward must-analysis with kill over the CFG: a result becomes valid on the nil edge of a test
// of the error variable while that variable still holds the error of the same call; it becomes
// invalid when it or the error variable is re-assigned). A use inside `err == nil && …` /
// `err != nil || …` is accepted by the short-circuit. This is the rule that notices a dropped
// `return`/`continue` after a failed decode, a negated error test, or a use moved above the test.
func ruleErrDominatesUse(c *Ctx) {
	pkgs := append([]string{pkgCoroutines, pkgSubApi, pkgHttp, pkgGrpc, pkgUtil, pkgSqlite, pkgPostgres, pkgStore, pkgSystem, pkgIApi, pkgIAio}, workerPkgs...)
	seenPk := map[string]bool{}
	nSites, nUses := 0, 0
	for _, pp := range pkgs {
		if seenPk[pp] {
			continue
		}
		seenPk[pp] = true
		pk := c.P.Pkg(pp)
		if pk == nil {
			continue
		}
		info := pk.TypesInfo
		occFn := map[string]int{}
		isErrLike := func(t types.Type) bool {
			return isErrorType(t) || isNamed(t, pkgSubApi, "Error") || isNamed(t, pkgTApi, "Error")
		}
		type unit struct {
			fd   *ast.FuncDecl
			body *ast.BlockStmt
		}
		var units []unit
		for _, fd := range allFuncDecls(pk) {
			if fd.Body == nil || isTestFile(c.P, fd.Pos()) {
				continue
			}
			units = append(units, unit{fd, fd.Body})
			ast.Inspect(fd.Body, func(n ast.Node) bool {
				if fl, ok := n.(*ast.FuncLit); ok {
					units = append(units, unit{fd, fl.Body})
				}
				return true
			})
		}
		for _, u := range units {
			fd := u.fd
			body := u.body
			// nodes of nested function literals belong to their own unit
			inNested := func(n ast.Node) bool {
				nested := false
				ast.Inspect(body, func(x ast.Node) bool {
					if fl, ok := x.(*ast.FuncLit); ok && fl.Body != body {
						if n.Pos() >= fl.Body.Pos() && n.End() <= fl.Body.End() {
							nested = true
						}
						return false
					}
					return true
				})
				return nested
			}
			type site struct {
				as     *ast.AssignStmt
				x, e   types.Object
				name   string
				scalar bool
			}
			var sites []*site
			siteOf := map[ast.Node]*site{}
			ast.Inspect(body, func(nd ast.Node) bool {
				if fl, isLit := nd.(*ast.FuncLit); isLit && fl.Body != body {
					return false
				}
				as, ok := nd.(*ast.AssignStmt)
				if !ok || len(as.Lhs) != 2 || len(as.Rhs) != 1 {
					return true
				}
				call, isCall := ast.Unparen(as.Rhs[0]).(*ast.CallExpr)
				if !isCall {
					return true
				}
				obj := func(e ast.Expr) types.Object {
					id, ok := e.(*ast.Ident)
					if !ok || id.Name == "_" {
						return nil
					}
					if o := info.Defs[id]; o != nil {
						return o
					}
					return info.Uses[id]
				}
				x, e := obj(as.Lhs[0]), obj(as.Lhs[1])
				if x == nil || e == nil || !isErrLike(e.Type()) {
					return true
				}
				scalar := false
				switch x.Type().Underlying().(type) {
				case *types.Pointer, *types.Slice:
				default:
					// the outcome of an awaited coroutine / submission (a flag, a count): meaningless when
					// the await failed — any read of it counts as a use
					if _, isBasic := x.Type().Underlying().(*types.Basic); !isBasic {
						return true
					}
					scalar = true
				}
				s := &site{as: as, x: x, e: e, name: calleeName(info, call), scalar: scalar}
				sites = append(sites, s)
				siteOf[as] = s
				return true
			})
			if len(sites) == 0 {
				continue
			}
			nSites += len(sites)
			g := buildCFG(pk, body)
			_ = inNested
			// state
			type state struct {
				valid map[types.Object]bool
				cur   map[types.Object]*site // error variable → the site whose error it holds (nil: unknown)
				taint map[types.Object]bool  // MAY: the variable may hold the result of a call whose error was not found nil
			}
			clone := func(s *state) *state {
				n := &state{valid: map[types.Object]bool{}, cur: map[types.Object]*site{}, taint: map[types.Object]bool{}}
				for k, v := range s.taint {
					n.taint[k] = v
				}
				for k, v := range s.valid {
					n.valid[k] = v
				}
				for k, v := range s.cur {
					n.cur[k] = v
				}
				return n
			}
			assignsObj := func(n ast.Node) []types.Object {
				var out []types.Object
				add := func(e ast.Expr) {
					if id, ok := ast.Unparen(e).(*ast.Ident); ok {
						if o := info.Defs[id]; o != nil {
							out = append(out, o)
						} else if o := info.Uses[id]; o != nil {
							out = append(out, o)
						}
					}
				}
				switch s := n.(type) {
				case *ast.AssignStmt:
					for _, l := range s.Lhs {
						add(l)
					}
				case *ast.RangeStmt:
					if s.Key != nil {
						add(s.Key)
					}
					if s.Value != nil {
						add(s.Value)
					}
				case *ast.ValueSpec:
					for _, nme := range s.Names {
						add(nme)
					}
				}
				return out
			}
			flowNode := func(st *state, n ast.Node) {
				for _, o := range assignsObj(n) {
					delete(st.valid, o)
					delete(st.cur, o)
					delete(st.taint, o)
				}
				if s, ok := siteOf[n]; ok {
					st.cur[s.e] = s
					st.taint[s.x] = true
				}
			}
			in := make([]*state, len(g.Blocks))
			in[0] = &state{valid: map[types.Object]bool{}, cur: map[types.Object]*site{}, taint: map[types.Object]bool{}}
			out := func(b *cfg.Block) *state {
				st := clone(in[b.Index])
				for _, n := range b.Nodes {
					flowNode(st, n)
				}
				return st
			}
			edge := func(b *cfg.Block, i int, st *state) {
				if len(b.Succs) != 2 || len(b.Nodes) == 0 {
					return
				}
				cond, ok := b.Nodes[len(b.Nodes)-1].(ast.Expr)
				if !ok {
					return
				}
				eo, nonNil, ok := nilTest(info, cond)
				if !ok {
					return
				}
				isNilEdge := (i == 0) != nonNil
				if s := st.cur[eo]; s != nil && isNilEdge {
					st.valid[s.x] = true
					delete(st.taint, s.x)
				}
			}
			for changed, it := true, 0; changed && it < 6*len(g.Blocks)+16; it++ {
				changed = false
				for _, b := range g.Blocks {
					if in[b.Index] == nil {
						continue
					}
					o := out(b)
					for i, sc := range b.Succs {
						st := clone(o)
						edge(b, i, st)
						if in[sc.Index] == nil {
							in[sc.Index] = st
							changed = true
							continue
						}
						old := in[sc.Index]
						for k := range old.valid {
							if !st.valid[k] {
								delete(old.valid, k)
								changed = true
							}
						}
						for k, v := range old.cur {
							if o2 := st.cur[k]; o2 != v {
								// two sites that assign the same result variable are interchangeable here
								if o2 != nil && o2.x == v.x {
									continue
								}
								delete(old.cur, k)
								changed = true
							}
						}
						for k := range st.taint {
							if !old.taint[k] {
								old.taint[k] = true
								changed = true
							}
						}
					}
				}
			}
			// uses
			xOf := map[types.Object][]*site{}
			for _, s := range sites {
				xOf[s.x] = append(xOf[s.x], s)
			}
			bad := map[*site]token.Pos{}
			used := map[*site]int{}
			shortCircuit := func(root ast.Node, use ast.Node, e types.Object) bool {
				for _, a := range enclosing(root, use) {
					be, ok := a.(*ast.BinaryExpr)
					if !ok || (be.Op != token.LAND && be.Op != token.LOR) {
						continue
					}
					if use.Pos() < be.Y.Pos() {
						continue // the use is in the left operand
					}
					okL := false
					ast.Inspect(be.X, func(x ast.Node) bool {
						if cmp, isCmp := x.(*ast.BinaryExpr); isCmp {
							if o, nonNil, isT := nilTest(info, cmp); isT && o == e {
								if (be.Op == token.LAND && !nonNil) || (be.Op == token.LOR && nonNil) {
									okL = true
								}
							}
						}
						return true
					})
					if okL {
						return true
					}
				}
				return false
			}
			lhsIdent := map[*ast.Ident]bool{}
			ast.Inspect(body, func(z ast.Node) bool {
				if as, isAs := z.(*ast.AssignStmt); isAs {
					for _, l := range as.Lhs {
						if lid, isId := ast.Unparen(l).(*ast.Ident); isId {
							lhsIdent[lid] = true
						}
					}
				}
				return true
			})
			for _, b := range g.Blocks {
				if in[b.Index] == nil {
					continue
				}
				st := clone(in[b.Index])
				for _, n := range b.Nodes {
					ast.Inspect(n, func(x ast.Node) bool {
						if _, isLit := x.(*ast.FuncLit); isLit {
							return false
						}
						var base ast.Expr
						plain := false
						switch y := x.(type) {
						case *ast.Ident:
							ss := xOf[info.Uses[y]]
							if len(ss) == 0 || !ss[0].scalar || lhsIdent[y] {
								return true
							}
							base, plain = y, true // wrong only if it may be the outcome of a failed call
						case *ast.SelectorExpr:
							base = y.X
						case *ast.StarExpr:
							base = y.X
						case *ast.IndexExpr:
							base = y.X
						case *ast.CallExpr:
							// … or collected with append
							if exprString(y.Fun) == "append" && len(y.Args) >= 2 {
								for _, a := range y.Args[1:] {
									if aid, isId := ast.Unparen(a).(*ast.Ident); isId && len(xOf[info.Uses[aid]]) > 0 {
										base, plain = a, true
									}
								}
							}
							if base == nil {
								return true
							}
						default:
							return true
						}
						id, ok := ast.Unparen(base).(*ast.Ident)
						if !ok {
							return true
						}
						o := info.Uses[id]
						ss := xOf[o]
						if len(ss) == 0 {
							return true
						}
						// the site that defines this use: the latest one before it (textually)
						var s *site
						for _, cand := range ss {
							if cand.as.Pos() < x.Pos() && (s == nil || cand.as.Pos() > s.as.Pos()) {
								s = cand
							}
						}
						if s == nil || (x.Pos() >= s.as.Pos() && x.End() <= s.as.End()) {
							return true
						}
						// a later plain re-assignment of x (not a site) takes the use out of scope
						later := false
						ast.Inspect(body, func(z ast.Node) bool {
							if as, isAs := z.(*ast.AssignStmt); isAs && as.Pos() > s.as.End() && as.End() <= x.Pos() && siteOf[as] == nil {
								for _, l := range as.Lhs {
									if lid, isId := ast.Unparen(l).(*ast.Ident); isId && info.Uses[lid] == o {
										later = true
									}
								}
							}
							return true
						})
						if later {
							return true
						}
						used[s]++
						unsafe := !st.valid[o]
						if plain {
							// handing the value on is wrong only if it may be the result of a failed call
							unsafe = st.taint[o]
						}
						if unsafe && !shortCircuit(n, x, s.e) {
							if _, dup := bad[s]; !dup {
								bad[s] = x.Pos()
							}
						}
						return true
					})
					flowNode(st, n)
				}
			}
			sort.Slice(sites, func(i, j int) bool { return sites[i].as.Pos() < sites[j].as.Pos() })
			for _, s := range sites {
				if used[s] == 0 {
					continue
				}
				nUses += used[s]
				occFn[funcName(fd)+"/"+s.name]++
				key := fmt.Sprintf("err-dominates-use/%s.%s/%s#%d", pk.Name, funcName(fd), s.name, occFn[funcName(fd)+"/"+s.name])
				if p, isBad := bad[s]; isBad {
					o := c.bad(key, p, fmt.Sprintf("%s (returned by %s together with an error) is %s here on a path where that error was not found to be nil: on the error path it is %s", s.x.Name(), s.name, map[bool]string{false: "dereferenced", true: "read"}[s.scalar], map[bool]string{false: "nil and the goroutine panics (kernel / store / request goroutine)", true: "the zero value, not an outcome: the failed await is taken for an answer"}[s.scalar]))
					o.Path = []string{"function: " + pk.Name + "." + funcName(fd), "result and error assigned: " + c.P.pos(s.as.Pos()), "dereference: " + c.P.pos(p)}
				} else {
					c.ok(key, s.as.Pos(), fmt.Sprintf("%d dereferences, all after the error was found nil", used[s]))
				}
			}
		}
	}
	c.count("result_error_pairs", nSites)
	c.count("guarded_dereferences", nUses)
	c.floor("(result, error) pairs whose result is dereferenced", nSites, 80)
	_ = strings.TrimSpace
}

// ruleErrorsExamined (C13/C15/C20): in the front ends, the shared API helper, the cursor codec and
// the record decoders every error a call produces is examined before the function goes on: on every
// path from the call to an exit the error variable is tested in a branch condition, returned, or
// handed to a call (wrapped, rendered, logged). An error that is bound and then ignored — a
// validation failure of the request binding, a failed decode of a stored column — lets the handler
// continue with a half-filled request or object.
func ruleErrorsExamined(pkgs ...string) ruleFn {
	return func(c *Ctx) {
		n := 0
		for _, pp := range pkgs {
			pk := c.P.Pkg(pp)
			if pk == nil {
				c.und("errors-examined/"+pp, 0, "package not loaded")
				continue
			}
			info := pk.TypesInfo
			isErrLike := func(t types.Type) bool {
				return isErrorType(t) || isNamed(derefType(t), pkgSubApi, "Error") || isNamed(derefType(t), pkgTApi, "Error")
			}
			for _, fd := range allFuncDecls(pk) {
				if fd.Body == nil || isTestFile(c.P, fd.Pos()) {
					continue
				}
				type site struct {
					node ast.Node
					v    types.Object
					name string
				}
				var sites []site
				ast.Inspect(fd.Body, func(nd ast.Node) bool {
					if _, isLit := nd.(*ast.FuncLit); isLit {
						return false
					}
					as, ok := nd.(*ast.AssignStmt)
					if !ok || len(as.Rhs) != 1 {
						return true
					}
					call, ok := ast.Unparen(as.Rhs[0]).(*ast.CallExpr)
					if !ok {
						return true
					}
					for _, l := range as.Lhs {
						id, ok := l.(*ast.Ident)
						if !ok || id.Name == "_" {
							continue
						}
						o := info.Defs[id]
						if o == nil {
							o = info.Uses[id]
						}
						if o != nil && isErrLike(o.Type()) {
							sites = append(sites, site{as, o, calleeName(info, call)})
						}
					}
					return true
				})
				if len(sites) == 0 {
					continue
				}
				g := buildCFG(pk, fd.Body)
				occ := map[string]int{}
				for _, s := range sites {
					s := s
					n++
					mentionsV := func(x ast.Node) bool { return x != nil && mentions(info, x, s.v) }
					set := func(nd ast.Node) bool { return nd == s.node }
					clear := func(nd ast.Node) bool {
						if nd == s.node {
							return false
						}
						switch x := nd.(type) {
						case *ast.ReturnStmt:
							return mentionsV(x)
						case *ast.AssignStmt:
							// re-defined by another call: that definition is its own site
							for _, l := range x.Lhs {
								if isObj(info, l, s.v) {
									return true
								}
							}
						}
						// handed to a call / used in an expression statement
						handed := false
						ast.Inspect(nd, func(y ast.Node) bool {
							if call, ok := y.(*ast.CallExpr); ok {
								for _, a := range call.Args {
									if mentionsV(a) {
										handed = true
									}
								}
							}
							return true
						})
						return handed
					}
					clearEdge := func(b *cfg.Block, i int) bool {
						if len(b.Succs) != 2 || len(b.Nodes) == 0 {
							return false
						}
						cond, ok := b.Nodes[len(b.Nodes)-1].(ast.Expr)
						return ok && mentionsV(cond)
					}
					leak, _ := pendingFlow(g, set, clear, clearEdge, func(b *cfg.Block) bool { return len(b.Succs) == 0 })
					occ[s.name]++
					key := fmt.Sprintf("errors-examined/%s.%s/%s#%d", pk.Name, funcName(fd), s.name, occ[s.name])
					pos := s.node.Pos()
					if leak != nil {
						pos = leak.Pos()
					}
					// in a front-end handler a failed binding / validation ends the request: from the
					// non-nil outcome of the error's test the submission to the kernel is unreachable
					if leak == nil && (pp == pkgHttp || pp == pkgGrpc) && s.name != "API.Process" {
						isSubmit := func(nd ast.Node) bool {
							found := false
							ast.Inspect(nd, func(y ast.Node) bool {
								if call, ok := y.(*ast.CallExpr); ok {
									if fn, ok := calleeOf(info, call).(*types.Func); ok && fn.Name() == "Process" && isFuncOf(fn, pkgSubApi, "API") {
										found = true
									}
								}
								return true
							})
							return found
						}
						for _, b := range g.Blocks {
							if len(b.Succs) != 2 || len(b.Nodes) == 0 {
								continue
							}
							cond, ok := b.Nodes[len(b.Nodes)-1].(ast.Expr)
							if !ok {
								continue
							}
							eo, nonNil, ok := nilTest(info, cond)
							if !ok || eo != s.v || cond.Pos() < s.node.Pos() {
								continue
							}
							start := b.Succs[1]
							if nonNil {
								start = b.Succs[0]
							}
							seen := map[*cfg.Block]bool{}
							work := []*cfg.Block{start}
							for len(work) > 0 && leak == nil {
								x := work[len(work)-1]
								work = work[:len(work)-1]
								if seen[x] {
									continue
								}
								seen[x] = true
								stop := false
								for _, nd := range x.Nodes {
									// a later definition of the same variable ends this error's life
									if as, ok := nd.(*ast.AssignStmt); ok && nd != s.node {
										for _, l := range as.Lhs {
											if isObj(info, l, s.v) {
												stop = true
											}
										}
									}
									if stop {
										break
									}
									if isSubmit(nd) {
										leak = nd
										break
									}
								}
								if !stop {
									work = append(work, x.Succs...)
								}
							}
							break // the first test of this error
						}
						if leak != nil {
							c.bad(key, leak.Pos(), fmt.Sprintf("after %s failed (%s != nil) the handler still reaches the submission to the kernel at %s: a request that failed its binding / validation is submitted half-filled", s.name, s.v.Name(), c.P.pos(leak.Pos())))
							continue
						}
					}
					c.check(leak == nil, key, pos, "the error is examined on every path", fmt.Sprintf("the error of %s (%s) is not examined on a path that goes on to %s: a failed binding / decode / validation is ignored and the function continues with what it has", s.name, s.v.Name(), c.P.pos(pos)))
				}
			}
		}
		c.count("errors_to_examine", n)
		c.floor("error results in the front ends and decoders", n, 60)
	}
}
