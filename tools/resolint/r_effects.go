package main

import (
	"go/ast"
	"go/types"

	"golang.org/x/tools/go/cfg"
	"golang.org/x/tools/go/packages"
)

// Effect summaries. Several rules ask "does this statement perform effect E on object X"
// (hand the batch to Process, submit the collected commands, reply on the gin context, enqueue the
// completion entry). When the statement is a call to a function of the same package, the question
// is answered from the callee: the callee performs E on its parameter p on EVERY path to a normal
// exit (must-analysis over the callee's CFG; for a slice parameter the branch on which it is known
// to be empty counts as vacuously done), and the call passes X as argument p. One level of
// forwarding is followed recursively up to depth 3.

type effectMatcher func(info *types.Info, n ast.Node, obj types.Object) bool

// performs: node n performs the effect on obj, directly or through a same-package helper.
func performs(pk *packages.Package, n ast.Node, obj types.Object, direct effectMatcher, depth int) bool {
	info := pk.TypesInfo
	if direct(info, n, obj) {
		return true
	}
	if depth > 3 {
		return false
	}
	found := false
	ast.Inspect(n, func(x ast.Node) bool {
		if _, isLit := x.(*ast.FuncLit); isLit {
			return false
		}
		call, ok := x.(*ast.CallExpr)
		if !ok || found {
			return true
		}
		fn, ok := calleeOf(info, call).(*types.Func)
		if !ok || fn.Pkg() != pk.Types {
			return true
		}
		fd := funcDeclOf(pk, fn)
		if fd == nil || fd.Body == nil {
			return true
		}
		sig := fn.Type().(*types.Signature)
		for i, a := range call.Args {
			if i >= sig.Params().Len() || !isObj(info, a, obj) {
				continue
			}
			if mustPerform(pk, fd, sig.Params().At(i), direct, depth+1) {
				found = true
			}
		}
		// the receiver of a method call
		if se, ok := ast.Unparen(call.Fun).(*ast.SelectorExpr); ok && sig.Recv() != nil && isObj(info, se.X, obj) {
			if mustPerform(pk, fd, sig.Recv(), direct, depth+1) {
				found = true
			}
		}
		return true
	})
	return found
}

// mustPerform: every path through fd to a normal exit performs the effect on parameter par.
func mustPerform(pk *packages.Package, fd *ast.FuncDecl, par *types.Var, direct effectMatcher, depth int) bool {
	info := pk.TypesInfo
	g := buildCFG(pk, fd.Body)
	gen := func(n ast.Node) []string {
		if performs(pk, n, par, direct, depth) {
			return []string{"done"}
		}
		return nil
	}
	edge := func(b *cfg.Block, i int) []string {
		if lenEdgeEmpty(info, b, i, par) {
			return []string{"done"} // nothing to do for an empty slice
		}
		return nil
	}
	exits := mustFactsAtExits(g, gen, edge)
	if len(exits) == 0 {
		return false
	}
	for _, ex := range exits {
		if es, ok := ex.Last.(*ast.ExprStmt); ok {
			if call, ok := es.X.(*ast.CallExpr); ok && exprString(call.Fun) == "panic" {
				continue
			}
		}
		if !ex.Facts["done"] {
			return false
		}
	}
	return true
}

// forwardedClosure: a function literal whose whole body is one call to a function of the package
// (`Done: func(ok bool, err error) { w.done(sqe, cqe, ok, err) }`) is analysed through the callee:
// the result is the callee's body and, for each parameter of the literal, the callee parameter that
// receives it. For any other literal the body is its own and the parameters map to themselves.
func forwardedClosure(pk *packages.Package, fl *ast.FuncLit) (body *ast.BlockStmt, params []*types.Var, host ast.Node) {
	info := pk.TypesInfo
	var own []*types.Var
	if fl.Type.Params != nil {
		for _, f := range fl.Type.Params.List {
			for _, nm := range f.Names {
				v, _ := info.Defs[nm].(*types.Var)
				own = append(own, v)
			}
		}
	}
	if len(fl.Body.List) != 1 {
		return fl.Body, own, fl
	}
	es, ok := fl.Body.List[0].(*ast.ExprStmt)
	if !ok {
		return fl.Body, own, fl
	}
	call, ok := es.X.(*ast.CallExpr)
	if !ok {
		return fl.Body, own, fl
	}
	fn, ok := calleeOf(info, call).(*types.Func)
	if !ok || fn.Pkg() != pk.Types {
		return fl.Body, own, fl
	}
	fd := funcDeclOf(pk, fn)
	if fd == nil || fd.Body == nil {
		return fl.Body, own, fl
	}
	sig := fn.Type().(*types.Signature)
	mapped := make([]*types.Var, len(own))
	for i, o := range own {
		for j, a := range call.Args {
			if j < sig.Params().Len() && o != nil && isObj(info, a, o) {
				mapped[i] = sig.Params().At(j)
			}
		}
	}
	return fd.Body, mapped, fd
}
