package main

import (
	"fmt"
	"go/ast"
	"go/types"
	"sort"

	"golang.org/x/tools/go/cfg"
)

// ruleClockFresh (R14): the kernel sets a coroutine's clock every time it resumes it, so a value
// read from c.Time() is the CURRENT time only until the next await completes. A local that holds a
// clock reading (v := c.Time() [+ …]) must not be used after an await that lies between its
// definition and the use: a deadline comparison or a CompletedOn / ExpiresAt computed from it would
// be taken at the time the request was picked up, not at the time the decision is made.
// Forward may-analysis over the CFG: a clock local becomes stale at every node that awaits
// (YieldAndAwait, Await, SpawnAndAwait) and fresh again at its definition; a use in a node where the
// local may be stale at entry is reported (operands of a submission are evaluated before the await
// of the same node, so they see the entry state).
func ruleClockFresh(c *Ctx) {
	m := c.coroModel()
	if m.Err != nil {
		c.und("model", 0, m.Err.Error())
		return
	}
	info := m.Pk.TypesInfo
	isClockRead := func(e ast.Expr) bool {
		found := false
		ast.Inspect(e, func(n ast.Node) bool {
			if call, ok := n.(*ast.CallExpr); ok {
				if se, ok := ast.Unparen(call.Fun).(*ast.SelectorExpr); ok && se.Sel.Name == "Time" {
					if sel, ok := info.Selections[se]; ok && isCoroutineType(sel.Recv()) {
						found = true
					}
				}
			}
			return true
		})
		return found
	}
	isAwait := func(n ast.Node) bool {
		found := false
		ast.Inspect(n, func(x ast.Node) bool {
			if _, ok := x.(*ast.FuncLit); ok {
				return false
			}
			if call, ok := x.(*ast.CallExpr); ok {
				if fn, ok := calleeOf(info, call).(*types.Func); ok && fn.Pkg() != nil && fn.Pkg().Path() == pkgGocoro {
					switch fn.Name() {
					case "YieldAndAwait", "Await", "SpawnAndAwait":
						found = true
					}
				}
			}
			return true
		})
		return found
	}
	// decisive: the use feeds a comparison (a decision) or a store command (a write); reporting the
	// value that WAS written in a response object is not a use of the current time
	// (1 = compared, 2 = operand of a submission, 0 = neither)
	decisive := func(root ast.Node, id *ast.Ident) int {
		chain := enclosing(root, id)
		for _, a := range chain {
			switch x := a.(type) {
			case *ast.BinaryExpr:
				switch x.Op.String() {
				case "<", "<=", ">", ">=", "==", "!=":
					return 1
				}
			case *ast.CompositeLit:
				if tv, ok := info.Types[x]; ok && namedPkgPath(tv.Type) == pkgTAio {
					return 2
				}
			}
		}
		return 0
	}
	nVars, nUses, nReads := 0, 0, 0
	for _, name := range m.Order {
		cf := m.Funcs[name]
		body := cf.Body
		if body == nil {
			continue
		}
		ast.Inspect(body, func(n ast.Node) bool {
			if e, ok := n.(ast.Expr); ok && isClockRead(e) {
				if _, isCall := e.(*ast.CallExpr); isCall {
					nReads++
				}
			}
			return true
		})
		// clock locals: every definition reads the clock
		defsOf := map[types.Object][]ast.Node{}
		ast.Inspect(body, func(n ast.Node) bool {
			as, ok := n.(*ast.AssignStmt)
			if !ok || len(as.Lhs) != len(as.Rhs) {
				return true
			}
			for i, l := range as.Lhs {
				id, ok := l.(*ast.Ident)
				if !ok || !isClockRead(as.Rhs[i]) {
					continue
				}
				if tv, ok := info.Types[as.Rhs[i]]; !ok || !types.Identical(tv.Type.Underlying(), types.Typ[types.Int64]) {
					continue // only scalar readings (literals that embed one are judged by R9)
				}
				obj := info.Defs[id]
				if obj == nil {
					obj = info.Uses[id]
				}
				if obj != nil {
					defsOf[obj] = append(defsOf[obj], as)
				}
			}
			return true
		})
		if len(defsOf) == 0 {
			continue
		}
		g := buildCFG(m.Pk, body)
		type state map[types.Object]bool // may be stale
		in := make([]state, len(g.Blocks))
		defined := make([]state, len(g.Blocks)) // may be defined
		for i := range in {
			in[i], defined[i] = state{}, state{}
		}
		transfer := func(b *cfg.Block, st, df state, visit func(n ast.Node, st state)) (state, state) {
			st2, df2 := state{}, state{}
			for k, v := range st {
				st2[k] = v
			}
			for k, v := range df {
				df2[k] = v
			}
			for _, n := range b.Nodes {
				if visit != nil {
					visit(n, st2)
				}
				aw := isAwait(n)
				// definitions in this node
				for obj, ds := range defsOf {
					for _, d := range ds {
						if d == n {
							df2[obj] = true
							delete(st2, obj)
						}
					}
				}
				if aw {
					for obj := range df2 {
						// a definition in the awaiting node itself is evaluated before the await
						st2[obj] = true
					}
				}
			}
			return st2, df2
		}
		for changed, it := true, 0; changed && it < 8*len(g.Blocks)+16; it++ {
			changed = false
			for _, b := range g.Blocks {
				o, d := transfer(b, in[b.Index], defined[b.Index], nil)
				for _, s := range b.Succs {
					for k := range o {
						if !in[s.Index][k] {
							in[s.Index][k] = true
							changed = true
						}
					}
					for k := range d {
						if !defined[s.Index][k] {
							defined[s.Index][k] = true
							changed = true
						}
					}
				}
			}
		}
		var objs []types.Object
		for o := range defsOf {
			objs = append(objs, o)
		}
		sort.Slice(objs, func(i, j int) bool { return objs[i].Pos() < objs[j].Pos() })
		stale := map[types.Object][]ast.Node{}
		staleSent := map[types.Object][]ast.Node{}
		sent := map[types.Object]bool{}
		uses := map[types.Object]int{}
		for _, b := range g.Blocks {
			transfer(b, in[b.Index], defined[b.Index], func(n ast.Node, st state) {
				ast.Inspect(n, func(x ast.Node) bool {
					id, ok := x.(*ast.Ident)
					if !ok {
						return true
					}
					obj := info.Uses[id]
					if obj == nil || defsOf[obj] == nil {
						return true
					}
					uses[obj]++
					switch d := decisive(n, id); {
					case d == 2 && !st[obj]:
						sent[obj] = true // handed to a submission while current
					case d == 1 && st[obj]:
						stale[obj] = append(stale[obj], id)
					case d == 2 && st[obj]:
						staleSent[obj] = append(staleSent[obj], id)
					}
					return true
				})
			})
		}
		for _, obj := range objs {
			nVars++
			nUses += uses[obj]
			key := fmt.Sprintf("clock-fresh/%s/%s", name, obj.Name())
			// a later command may repeat a value that was already sent or written while it was current
			// (the enqueue lease told to the worker); a reading first used after the await may not
			if !sent[obj] {
				stale[obj] = append(stale[obj], staleSent[obj]...)
			}
			if len(stale[obj]) == 0 {
				c.ok(key, obj.Pos(), fmt.Sprintf("%d uses; no comparison or store command uses it after an await that follows the reading", uses[obj]))
				continue
			}
			u := stale[obj][0]
			o := c.bad(key, u.Pos(), fmt.Sprintf("%s holds a reading of c.Time() taken at %s and is used here after an await completed in between: the coroutine's clock has moved on, so a deadline comparison or timestamp computed from it is stale (a completion can be accepted at or after the deadline)", obj.Name(), c.P.pos(obj.Pos())))
			o.Path = []string{"entry: " + name, "reading: " + c.P.pos(obj.Pos()), "stale use: " + c.P.pos(u.Pos())}
		}
	}
	c.count("clock_locals", nVars)
	c.count("clock_local_uses", nUses)
	c.count("clock_reads", nReads)
	c.floor("locals holding a clock reading", nVars, 6)
}
