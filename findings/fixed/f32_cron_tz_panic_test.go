// Reproduction of finding F32 (C13): place in internal/util/ and run
//   go test -vet=off -count=1 -run TestF32 ./internal/util/
// Before the fix (repo at b831f89): FAILS — a schedule's cron expression that consists of a time
// zone prefix without a spec ("TZ=UTC", "CRON_TZ=X", "TZ=") makes robfig/cron v3.0.1 slice the
// spec at index -1 (parser.go: spec[eq+1:i] with i = strings.Index(spec, " ") == -1) and panic
// with "slice bounds out of range [:-1]". Both front ends call api.ValidateCron → util.ParseCron
// with the client's string inside the request handler: the gRPC server has no recovery
// interceptor, so `CreateSchedule{cron: "TZ=UTC"}` kills the process; over HTTP net/http recovers
// and aborts the connection. After the fix ParseCron reports an error and the request is answered
// with the ordinary validation error.
package util

import "testing"

func TestF32CronTimeZonePrefixWithoutSpecIsAnErrorNotAPanic(t *testing.T) {
	for _, s := range []string{"TZ=UTC", "CRON_TZ=X", "TZ="} {
		func() {
			defer func() {
				if r := recover(); r != nil {
					t.Errorf("ParseCron(%q) panics: %v", s, r)
				}
			}()
			if _, err := ParseCron(s); err == nil {
				t.Errorf("ParseCron(%q) reports no error", s)
			}
		}()
	}
	if _, err := ParseCron("TZ=UTC * * * * *"); err != nil {
		t.Errorf("a well-formed time zone prefix is rejected: %v", err)
	}
	if _, err := Next(0, "* * * * *"); err != nil {
		t.Errorf("a plain expression is rejected: %v", err)
	}
}
