package main

// R1 sql-effects + R2 sql-binding (against spec/sql.spec), R4 backend siblings, table ownership,
// schema facts.

import (
	_ "embed"
	"fmt"
	"go/token"
	"go/types"
	"regexp"
	"sort"
	"strings"
)

//go:embed spec/sql.spec
var sqlSpecText string

type specEntry struct {
	Kind   string
	Why    string
	Forbid []string
	Stmt   *sqlStmt
	Facts  *stmtFacts
}

func loadSQLSpec() (map[string]*specEntry, []string, error) {
	out := map[string]*specEntry{}
	var order []string
	var cur *specEntry
	var body []string
	flush := func() error {
		if cur == nil {
			return nil
		}
		st, err := parseSQL(strings.Join(body, "\n"))
		if err != nil {
			return fmt.Errorf("spec [%s]: %v", cur.Kind, err)
		}
		cur.Stmt = st
		cur.Facts = factsOf(st, func(e *sqlExpr) string { return e.Text })
		out[cur.Kind] = cur
		order = append(order, cur.Kind)
		return nil
	}
	for _, ln := range strings.Split(sqlSpecText, "\n") {
		t := strings.TrimSpace(ln)
		switch {
		case strings.HasPrefix(t, "#") || t == "":
		case strings.HasPrefix(t, "[") && strings.HasSuffix(t, "]"):
			if err := flush(); err != nil {
				return nil, nil, err
			}
			cur = &specEntry{Kind: strings.Trim(t, "[]")}
			body = nil
		case strings.HasPrefix(t, "why:"):
			cur.Why = strings.TrimSpace(strings.TrimPrefix(t, "why:"))
		case strings.HasPrefix(t, "forbid:"):
			for _, f := range strings.Split(strings.TrimPrefix(t, "forbid:"), ",") {
				cur.Forbid = append(cur.Forbid, strings.TrimSpace(f))
			}
		default:
			body = append(body, ln)
		}
	}
	if err := flush(); err != nil {
		return nil, nil, err
	}
	return out, order, nil
}

// stmtFacts is the normalised content of a DML statement.
type stmtFacts struct {
	Kind     string
	Table    string
	Where    []string
	Sets     map[string]string // UPDATE SET col -> value
	Ins      map[string]string // INSERT col -> value (VALUES or SELECT list)
	InsOrder []string
	SrcTable string   // INSERT … SELECT … FROM
	SrcWhere []string // its WHERE
	HasConfl bool
	ConflTgt []string
	ConflNop bool
	ConflSet map[string]string
	ConflWh  []string
	SelCols  []string
	OnePer   []string
	Order    string
	Limit    string
	Problems []string
}

func factsOf(s *sqlStmt, b binder) *stmtFacts {
	f := &stmtFacts{Kind: s.Kind, Table: s.Table, Sets: map[string]string{}, Ins: map[string]string{}, ConflSet: map[string]string{}}
	own := s.Table
	switch s.Kind {
	case "select":
		// an unaliased single-table select may qualify its columns with the table name
		selOwn := ""
		if s.Alias == "" {
			selOwn = s.Table
		}
		f.Where = conjuncts(s.Where, selOwn, b)
		for _, c := range s.SelCols {
			f.SelCols = append(f.SelCols, canonExpr(c, selOwn, b))
		}
		f.OnePer = onePer(s)
		if len(s.OrderBy) > 0 {
			f.Order = canonOrder(s, b)
		}
		if s.Limit != nil {
			f.Limit = canonExpr(s.Limit, "", b)
		}
	case "update":
		f.Where = conjuncts(s.Where, own, b)
		for _, a := range s.Sets {
			if _, dup := f.Sets[a.Col]; dup {
				f.Problems = append(f.Problems, "column "+a.Col+" assigned twice")
			}
			f.Sets[a.Col] = canonExpr(a.Val, own, b)
		}
	case "delete":
		f.Where = conjuncts(s.Where, own, b)
	case "insert":
		var vals []*sqlExpr
		if s.Select != nil {
			vals = s.Select.SelCols
			f.SrcTable = s.Select.Table
			f.SrcWhere = conjuncts(s.Select.Where, "", b)
			if len(s.Select.GroupBy) > 0 || len(s.Select.DistinctOn) > 0 || s.Select.Limit != nil {
				f.Problems = append(f.Problems, "INSERT … SELECT with GROUP BY/DISTINCT/LIMIT drops rows")
			}
		} else {
			vals = s.Values
		}
		if len(vals) != len(s.InsCols) {
			f.Problems = append(f.Problems, fmt.Sprintf("%d columns but %d values", len(s.InsCols), len(vals)))
		}
		for i, c := range s.InsCols {
			if i < len(vals) {
				if _, dup := f.Ins[c]; dup {
					f.Problems = append(f.Problems, "column "+c+" listed twice")
				}
				f.Ins[c] = canonExpr(vals[i], "", b)
				f.InsOrder = append(f.InsOrder, c)
			}
		}
		if s.Conflict != nil {
			f.HasConfl = true
			f.ConflTgt = append([]string(nil), s.Conflict.Target...)
			sort.Strings(f.ConflTgt)
			f.ConflNop = s.Conflict.DoNothing
			for _, a := range s.Conflict.Sets {
				f.ConflSet[a.Col] = canonExpr(a.Val, own, b)
			}
			f.ConflWh = conjuncts(s.Conflict.Where, own, b)
		}
	}
	return f
}

func (f *stmtFacts) String() string {
	var sb strings.Builder
	fmt.Fprintf(&sb, "%s %s", strings.ToUpper(f.Kind), f.Table)
	if len(f.Sets) > 0 {
		sb.WriteString(" SET " + mapString(f.Sets))
	}
	if len(f.Ins) > 0 {
		sb.WriteString(" (" + mapString(f.Ins) + ")")
	}
	if f.SrcTable != "" || len(f.SrcWhere) > 0 {
		sb.WriteString(" FROM " + f.SrcTable + " WHERE " + strings.Join(f.SrcWhere, " AND "))
	}
	if len(f.SelCols) > 0 {
		sb.WriteString(" [" + strings.Join(f.SelCols, ", ") + "]")
	}
	if len(f.Where) > 0 {
		sb.WriteString(" WHERE " + strings.Join(f.Where, " AND "))
	}
	if f.HasConfl {
		sb.WriteString(" ON CONFLICT(" + strings.Join(f.ConflTgt, ",") + ")")
		if f.ConflNop {
			sb.WriteString(" DO NOTHING")
		} else {
			sb.WriteString(" DO UPDATE SET " + mapString(f.ConflSet) + " WHERE " + strings.Join(f.ConflWh, " AND "))
		}
	}
	if len(f.OnePer) > 0 {
		sb.WriteString(" ONE_PER(" + strings.Join(f.OnePer, ",") + ")")
	}
	if f.Order != "" {
		sb.WriteString(" ORDER BY " + f.Order)
	}
	if f.Limit != "" {
		sb.WriteString(" LIMIT " + f.Limit)
	}
	return sb.String()
}

func mapString(m map[string]string) string {
	var ks []string
	for k := range m {
		ks = append(ks, k)
	}
	sort.Strings(ks)
	var out []string
	for _, k := range ks {
		out = append(out, k+" = "+m[k])
	}
	return strings.Join(out, ", ")
}

// resolvedExec is one SQL execution of a command kind with its statement text resolved through
// the dispatch arm (prepared statement variable -> constant).
type resolvedExec struct {
	Label   string // "" or sub-handler role (createPromise / createTask)
	H       *handler
	E       *execSite
	Const   string
	Text    string
	Pos     token.Pos
	Problem string
	Stmt    *sqlStmt
	Facts   *stmtFacts
	Binding []string // operand per placeholder ordinal
}

func (b *backend) resolveArm(p *Program, a *arm) []*resolvedExec {
	h := b.Handlers[a.Handler]
	if h == nil {
		return []*resolvedExec{{Problem: "arm " + a.Kind + " has no handler taking a command", Pos: a.Pos}}
	}
	return b.resolveHandler(p, h, a.StmtVars, "", 0)
}

func (b *backend) resolveHandler(p *Program, h *handler, stmtVars []string, label string, depth int) []*resolvedExec {
	var out []*resolvedExec
	if depth > 3 {
		return []*resolvedExec{{Problem: "handler nesting too deep", Pos: h.Decl.Pos()}}
	}
	for _, es := range h.Execs {
		r := &resolvedExec{Label: label, H: h, E: es, Pos: es.Site.Pos}
		if len(es.Undecided) > 0 {
			r.Problem = strings.Join(es.Undecided, "; ")
		}
		if es.StmtPar >= 0 {
			if es.StmtPar >= len(stmtVars) {
				r.Problem = "no prepared statement passed for parameter"
			} else {
				v := stmtVars[es.StmtPar]
				cs := b.Prepares[v]
				if len(cs) == 0 {
					r.Problem = "statement variable " + v + " is never prepared"
				} else {
					for _, c := range cs {
						if c != cs[0] {
							r.Problem = "statement variable " + v + " is prepared from different constants: " + strings.Join(cs, ", ")
						}
					}
					r.Const = cs[0]
					txt, ok := b.Consts[cs[0]]
					if !ok {
						r.Problem = "statement variable " + v + " is prepared from " + cs[0]
					}
					r.Text = txt
				}
			}
		} else {
			r.Const, r.Text = es.Const, es.Text
		}
		if r.Problem == "" {
			b.bind(r)
		}
		out = append(out, r)
	}
	for _, sc := range h.Subs {
		sh := b.Handlers[sc.Handler]
		if sh == nil {
			out = append(out, &resolvedExec{Problem: "sub-handler " + sc.Handler + " not found", Pos: sc.Pos})
			continue
		}
		var sv []string
		if sc.StmtPar >= 0 && sc.StmtPar < len(stmtVars) {
			sv = []string{stmtVars[sc.StmtPar]}
		}
		out = append(out, b.resolveHandler(p, sh, sv, sc.Handler, depth+1)...)
	}
	return out
}

// bind parses the statement and binds placeholders to operands.
func (b *backend) bind(r *resolvedExec) {
	st, err := parseSQL(r.Text)
	if err != nil {
		r.Problem = "statement does not parse: " + err.Error()
		return
	}
	r.Stmt = st
	args := append([]string(nil), r.E.Args...)
	// a %s hole consumes the dynamic operand group that stands at its position
	holeAt := -1
	var walk func(e *sqlExpr)
	walk = func(e *sqlExpr) {
		if e == nil {
			return
		}
		if e.Op == "hole" {
			holeAt = e.N
		}
		for _, a := range e.Args {
			walk(a)
		}
	}
	walk(st.Where)
	holeOperand := ""
	if holeAt >= 0 {
		if holeAt >= len(args) || !strings.HasPrefix(args[holeAt], "each(") {
			r.Problem = fmt.Sprintf("the format hole stands after %d placeholders but operand %d is not a per-entry group: %v", holeAt, holeAt, args)
			return
		}
		holeOperand = args[holeAt]
		args = append(args[:holeAt:holeAt], args[holeAt+1:]...)
	}
	for _, a := range args {
		if strings.HasPrefix(a, "each(") {
			r.Problem = "per-entry operand group without a format hole: " + a
			return
		}
	}
	if len(args) != st.NumPH && st.QStyle {
		r.Problem = fmt.Sprintf("statement has %d placeholders but the call passes %d operands", st.NumPH, len(args))
		return
	}
	if !st.QStyle && len(args) != st.NumPH {
		r.Problem = fmt.Sprintf("statement uses $1..$%d but the call passes %d operands", st.NumPH, len(args))
		return
	}
	r.Binding = args
	used := make([]bool, len(args))
	bnd := func(e *sqlExpr) string {
		if e.N >= 0 && e.N < len(args) {
			used[e.N] = true
			return ":" + args[e.N]
		}
		return ":?"
	}
	r.Facts = factsOf(st, bnd)
	for i, u := range used {
		if !u {
			r.Facts.Problems = append(r.Facts.Problems, fmt.Sprintf("operand %d (%s) is bound to no placeholder", i+1, args[i]))
		}
	}
	// dialect: the tag filter
	b.normaliseTags(r, holeOperand)
}

const sqliteTagFill = `"" | "AND "+join(each(Tags: const:"json_extract(tags, ?) = ?"), " AND ")`
const sqliteTagOperands = `each(Tags: "$."+key, value)`

// normaliseTags rewrites the dialect-specific "all requested tags match" conjunct to tags(:Tags).
func (b *backend) normaliseTags(r *resolvedExec, holeOperand string) {
	f := r.Facts
	for i, c := range f.Where {
		switch {
		case c == "%s":
			env := newLocalEnv(b.Pkg, r.H.Decl, r.H.CmdParam)
			if len(r.E.HoleArgs) != 1 {
				f.Problems = append(f.Problems, "format hole with other than one argument")
				continue
			}
			shape, ok := env.constOnlyString(r.E.HoleArgs[0], 0)
			if !ok {
				f.Problems = append(f.Problems, "R3: the text spliced into the statement is not built from constants only: "+exprString(r.E.HoleArgs[0]))
				continue
			}
			if shape != sqliteTagFill {
				f.Problems = append(f.Problems, "spliced SQL text has shape "+shape+", expected "+sqliteTagFill)
				continue
			}
			if holeOperand != sqliteTagOperands {
				f.Problems = append(f.Problems, "operands of the spliced tag filter are "+holeOperand+", expected "+sqliteTagOperands)
				continue
			}
			f.Where[i] = "tags(:Tags)"
		case c == "(:jsonOrNull(Tags) IS NULL OR tags @> :jsonOrNull(Tags))":
			f.Where[i] = "tags(:Tags)"
		}
	}
	sort.Strings(f.Where)
}

// snake_case column -> CamelCase record field
func camel(col string) string {
	parts := strings.Split(col, "_")
	for i, p := range parts {
		if p != "" {
			parts[i] = strings.ToUpper(p[:1]) + p[1:]
		}
	}
	return strings.Join(parts, "")
}

func eqSet(a, b []string) bool {
	if len(a) != len(b) {
		return false
	}
	for i := range a {
		if a[i] != b[i] {
			return false
		}
	}
	return true
}

func eqMap(a, b map[string]string) bool {
	if len(a) != len(b) {
		return false
	}
	for k, v := range a {
		if b[k] != v {
			return false
		}
	}
	return true
}

type sqlModel struct {
	Backends []*backend
	Spec     map[string]*specEntry
	Order    []string
	Err      error
}

func (c *Ctx) sqlModel() *sqlModel {
	if m, ok := c.shared["sql"].(*sqlModel); ok {
		return m
	}
	m := &sqlModel{}
	m.Spec, m.Order, m.Err = loadSQLSpec()
	for _, be := range [][2]string{{"sqlite", pkgSqlite}, {"postgres", pkgPostgres}} {
		b, err := extractBackend(c.P, be[0], be[1])
		if err != nil {
			m.Err = err
			break
		}
		m.Backends = append(m.Backends, b)
	}
	c.shared["sql"] = m
	return m
}

// kindsOfTable: which spec kinds touch a table (as target or source)
func (m *sqlModel) kindsFor(tables ...string) []string {
	want := map[string]bool{}
	for _, t := range tables {
		want[t] = true
	}
	var out []string
	for _, k := range m.Order {
		e := m.Spec[k]
		if want[e.Facts.Table] || (e.Facts.SrcTable != "" && want[e.Facts.SrcTable]) {
			out = append(out, k)
		}
	}
	return out
}

// specKindOfHandler: composite arms are checked through their sub-handlers; the spec entry for a
// sub-handler is the kind whose own arm dispatches to that handler.
func (b *backend) kindOfHandler(name string) string {
	for _, k := range b.ArmOrder {
		if b.Arms[k].Handler == name {
			return k
		}
	}
	return ""
}

// ruleSQLSpec checks, in both backends, the statements of the given command kinds against the spec.
func ruleSQLSpec(kinds func(m *sqlModel) []string) ruleFn {
	return func(c *Ctx) {
		m := c.sqlModel()
		if m.Err != nil {
			c.und("model", 0, m.Err.Error())
			return
		}
		ks := kinds(m)
		nStmts := 0
		for _, b := range m.Backends {
			for _, prob := range b.Problems {
				c.und(b.Name+"/model", b.Perform.Pos(), prob)
			}
			// ids, keys and payloads are compared byte for byte: no column carries a collation
			// that folds case or trims (it would apply to every `=`, UNIQUE and ON CONFLICT on it)
			// every index names columns its table has (a misspelt column fails the schema script: the
			// server does not start on that backend)
			tableCols := map[string]map[string]bool{}
			for _, d := range b.DDL {
				if d.Kind == "create_table" {
					tableCols[d.Table] = map[string]bool{}
					for _, cd := range d.Cols {
						tableCols[d.Table][cd.Name] = true
					}
				}
			}
			for _, d := range b.DDL {
				if d.Kind != "create_index" {
					continue
				}
				for _, col := range d.IndexCols {
					if cols, ok := tableCols[d.Table]; ok && !cols[col] {
						c.bad(b.Name+"/schema/"+d.IndexName+"/column", b.DDLPos, "index "+d.IndexName+" is declared on "+d.Table+"("+col+"), a column the table does not have: the schema script fails and the store does not start")
					}
				}
			}
			for _, d := range b.DDL {
				if d.Kind != "create_table" {
					continue
				}
				for _, cd := range d.Cols {
					if cd.Collate != "" && cd.Collate != "binary" && cd.Collate != "c" {
						c.bad(b.Name+"/schema/"+d.Table+"."+cd.Name+"/collation", b.DDLPos, "column "+d.Table+"."+cd.Name+" is declared COLLATE "+strings.ToUpper(cd.Collate)+": every comparison, uniqueness constraint and conflict target on it no longer distinguishes values that differ only in case / trailing blanks, so two different client ids denote one row")
					}
				}
			}
			for _, k := range ks {
				a := b.Arms[k]
				key := b.Name + "/" + k
				if a == nil {
					c.bad(key+"/dispatch", b.Switch.Pos(), "command kind "+k+" has no dispatch arm")
					continue
				}
				res := b.resolveArm(c.P, a)
				if len(res) == 0 {
					c.und(key+"/dispatch", a.Pos, "the handler of "+k+" executes no SQL")
					continue
				}
				for _, r := range res {
					skind := k
					sub := ""
					if r.Label != "" {
						skind = b.kindOfHandler(r.Label)
						sub = "/" + r.Label
					}
					spec := m.Spec[skind]
					kk := key + sub
					if r.Problem != "" {
						c.und(kk+"/statement", r.Pos, r.Problem)
						continue
					}
					if spec == nil {
						c.und(kk+"/statement", r.Pos, "no spec entry for kind "+skind)
						continue
					}
					nStmts++
					c.compareToSpec(kk, r, spec)
				}
				if k == "CreatePromiseAndTask" {
					c.checkComposite(b, a, key)
				}
			}
		}
		c.count("sql_statements_checked", nStmts)
		c.floor("sql statements checked against spec/sql.spec", nStmts, 2*len(ks))
	}
}

func (c *Ctx) compareToSpec(key string, r *resolvedExec, spec *specEntry) {
	f, s := r.Facts, spec.Facts
	pos := r.Pos
	if r.E.StmtPar >= 0 {
		// the statement text lives in the constant; report there if we can find it
		pos = r.E.Site.Pos
	}
	where := fmt.Sprintf("%s (%s)", r.Const, spec.Why)
	for _, pr := range f.Problems {
		c.bad(key+"/binding", pos, where+": "+pr)
	}
	if f.Kind != s.Kind || f.Table != s.Table {
		o := c.bad(key+"/effect", pos, where+": statement kind/table differs from the spec")
		o.Expected, o.Found = s.Kind+" "+s.Table, f.Kind+" "+f.Table
		return
	}
	full := func(o *Obl) {
		if o != nil && o.Verdict != Discharged {
			o.Expected, o.Found = s.String(), f.String()
		}
	}
	// facet filter (properties that rely on one aspect of a statement only)
	check := func(ok bool, k string, p token.Pos, okText, badText string) *Obl {
		if c.sqlFacets != nil && !c.sqlFacets[k[strings.LastIndex(k, "/")+1:]] {
			return nil
		}
		return c.check(ok, k, p, okText, badText)
	}
	// guard
	full(check(eqSet(f.Where, s.Where), key+"/guard", pos,
		"guard = "+strings.Join(f.Where, " AND "),
		where+": guard differs: found ["+strings.Join(f.Where, " AND ")+"], spec ["+strings.Join(s.Where, " AND ")+"]"))
	switch f.Kind {
	case "update":
		full(check(eqMap(f.Sets, s.Sets), key+"/sets", pos, "SET "+mapString(f.Sets),
			where+": SET list differs: found ["+mapString(f.Sets)+"], spec ["+mapString(s.Sets)+"]"))
	case "insert":
		okCols := true
		var diffs []string
		for col, v := range s.Ins {
			if f.Ins[col] != v {
				okCols = false
				diffs = append(diffs, fmt.Sprintf("%s: found %q, spec %q", col, f.Ins[col], v))
			}
		}
		for col := range f.Ins {
			if _, ok := s.Ins[col]; !ok {
				for _, fb := range spec.Forbid {
					if fb == col {
						okCols = false
						diffs = append(diffs, "column "+col+" must not be written by this statement")
					}
				}
			}
		}
		sort.Strings(diffs)
		full(check(okCols, key+"/columns", pos, "columns "+mapString(f.Ins), where+": written columns differ: "+strings.Join(diffs, "; ")))
		full(check(f.SrcTable == s.SrcTable && eqSet(f.SrcWhere, s.SrcWhere), key+"/source", pos,
			"source "+f.SrcTable+" WHERE "+strings.Join(f.SrcWhere, " AND "),
			where+": row source differs: found ["+f.SrcTable+" WHERE "+strings.Join(f.SrcWhere, " AND ")+"], spec ["+s.SrcTable+" WHERE "+strings.Join(s.SrcWhere, " AND ")+"]"))
		okC := f.HasConfl == s.HasConfl && eqSet(f.ConflTgt, s.ConflTgt) && f.ConflNop == s.ConflNop && eqMap(f.ConflSet, s.ConflSet) && eqSet(f.ConflWh, s.ConflWh)
		full(check(okC, key+"/conflict", pos, "conflict clause as specified", where+": ON CONFLICT clause differs"))
	case "select":
		have := map[string]bool{}
		for _, col := range f.SelCols {
			have[col] = true
		}
		var missing []string
		for _, col := range s.SelCols {
			if !have[col] {
				missing = append(missing, col)
			}
		}
		full(check(len(missing) == 0, key+"/select-list", pos, fmt.Sprintf("%d columns selected", len(f.SelCols)),
			where+": columns not selected: "+strings.Join(missing, ", ")))
		// scan alignment: column i -> record field of the same name
		okScan := len(r.E.Scan) == len(f.SelCols)
		var sd []string
		if !okScan {
			sd = append(sd, fmt.Sprintf("%d columns selected but %d scanned", len(f.SelCols), len(r.E.Scan)))
		} else {
			for i, col := range f.SelCols {
				if camel(col) != r.E.Scan[i] {
					okScan = false
					sd = append(sd, fmt.Sprintf("column %d %s scanned into %s", i+1, col, r.E.Scan[i]))
				}
			}
		}
		sp := r.E.ScanPos
		if !sp.IsValid() {
			sp = pos
		}
		check(okScan, key+"/scan", sp, "each selected column is scanned into the record field of the same name",
			where+": scan misaligned: "+strings.Join(sd, "; "))
		full(check(eqSet(f.OnePer, s.OnePer), key+"/one-per", pos, "one-per "+strings.Join(f.OnePer, ","), where+": GROUP BY / DISTINCT ON differs"))
		if s.Order != "" {
			full(check(f.Order == s.Order, key+"/order", pos, "ORDER BY "+f.Order, where+": ORDER BY differs: found ["+f.Order+"], spec ["+s.Order+"]"))
		}
		full(check(f.Limit == s.Limit, key+"/limit", pos, "LIMIT "+f.Limit, where+": LIMIT differs: found ["+f.Limit+"], spec ["+s.Limit+"]"))
	}
}

// ruleSiblings (R4): statement by statement the Postgres backend equals the SQLite backend after
// normalisation (dialect table: placeholder style, casts, tag filter, GROUP BY vs DISTINCT ON,
// qualified own-table columns, column types).
func ruleSiblings(c *Ctx) {
	m := c.sqlModel()
	if m.Err != nil {
		c.und("model", 0, m.Err.Error())
		return
	}
	if len(m.Backends) != 2 {
		c.und("model", 0, "expected two backends")
		return
	}
	s, p := m.Backends[0], m.Backends[1]
	all := map[string]bool{}
	for k := range s.Arms {
		all[k] = true
	}
	for k := range p.Arms {
		all[k] = true
	}
	var kinds []string
	for k := range all {
		kinds = append(kinds, k)
	}
	sort.Strings(kinds)
	n := 0
	for _, k := range kinds {
		sa, pa := s.Arms[k], p.Arms[k]
		key := k
		if sa == nil || pa == nil {
			pos := s.Switch.Pos()
			if sa == nil {
				pos = p.Switch.Pos()
			}
			c.bad(key+"/dispatch", pos, "command kind "+k+" is dispatched by only one backend")
			continue
		}
		c.check(sa.Handler == pa.Handler && sa.CmdField == pa.CmdField && len(sa.StmtVars) == len(pa.StmtVars), key+"/dispatch", pa.Pos,
			"same handler and command field in both backends", fmt.Sprintf("dispatch differs: sqlite %s(%s) postgres %s(%s)", sa.Handler, sa.CmdField, pa.Handler, pa.CmdField))
		sr, pr := s.resolveArm(c.P, sa), p.resolveArm(c.P, pa)
		if len(sr) != len(pr) {
			c.bad(key+"/statements", pa.Pos, fmt.Sprintf("sqlite executes %d statements for %s, postgres %d", len(sr), k, len(pr)))
			continue
		}
		for i := range sr {
			a, b := sr[i], pr[i]
			kk := key
			if a.Label != "" {
				kk += "/" + a.Label
			}
			if a.Problem != "" || b.Problem != "" {
				c.und(kk+"/statement", b.Pos, "sqlite: "+a.Problem+" postgres: "+b.Problem)
				continue
			}
			n++
			fa, fb := a.Facts.String(), b.Facts.String()
			o := c.check(fa == fb, kk+"/statement", b.Pos, "normalised statements are equal", "the Postgres statement differs from the SQLite statement after normalisation ("+b.Const+")")
			if fa != fb {
				o.Expected, o.Found = "sqlite:   "+fa, "postgres: "+fb
			}
			c.check(strings.Join(a.E.Scan, ",") == strings.Join(b.E.Scan, ","), kk+"/scan", b.Pos, "same scan targets", "scan targets differ: sqlite "+strings.Join(a.E.Scan, ",")+" postgres "+strings.Join(b.E.Scan, ","))
			c.check(a.E.Site.Method == b.E.Site.Method && a.E.Site.RecvType == b.E.Site.RecvType, kk+"/call", b.Pos, "same database/sql call", "database/sql call differs: sqlite "+a.E.Site.RecvType+"."+a.E.Site.Method+" postgres "+b.E.Site.RecvType+"."+b.E.Site.Method)
		}
		// result construction and handler structure
		ha, hb := s.Handlers[sa.Handler], p.Handlers[pa.Handler]
		if ha != nil && hb != nil {
			ra, rb := resultShape(s, ha), resultShape(p, hb)
			o := c.check(ra == rb, key+"/result", hb.Decl.Pos(), "handlers build the same result", "result construction differs between the backends")
			if ra != rb {
				o.Expected, o.Found = "sqlite:   "+ra, "postgres: "+rb
			}
		}
	}
	c.count("sibling_statement_pairs", n)
	c.floor("backend statement pairs compared", n, 27)
	// schema
	st, pt := ddlFacts(s), ddlFacts(p)
	var tables []string
	for t := range st {
		tables = append(tables, t)
	}
	for t := range pt {
		if _, ok := st[t]; !ok {
			tables = append(tables, t)
		}
	}
	sort.Strings(tables)
	for _, t := range tables {
		a, b := st[t], pt[t]
		o := c.check(a == b, "schema/"+t, p.DDLPos, "same columns, defaults and uniqueness", "table "+t+" differs between the backends")
		if a != b {
			o.Expected, o.Found = "sqlite:   "+a, "postgres: "+b
		}
	}
	c.floor("tables compared", len(tables), 6)
}

func typeClass(t string) string {
	switch t {
	case "integer", "bigint", "serial", "int":
		return "int"
	case "text":
		return "text"
	case "blob", "bytea", "jsonb":
		return "bytes"
	}
	return t
}

// ddlFacts: table -> normalised description (column:class[:default][:unique][:auto])
func ddlFacts(b *backend) map[string]string {
	out := map[string]string{}
	for _, s := range b.DDL {
		if s.Kind != "create_table" {
			continue
		}
		pk := map[string]bool{}
		if len(s.PrimaryKey) == 1 {
			pk[s.PrimaryKey[0]] = true
		}
		var cols []string
		for _, cd := range s.Cols {
			d := cd.Name + ":" + typeClass(cd.Type)
			if cd.Default != "" {
				d += ":default=" + cd.Default
			}
			if cd.Unique || (cd.Primary && !cd.AutoInc) || pk[cd.Name] {
				d += ":unique"
			}
			if cd.AutoInc {
				d += ":auto"
			}
			if cd.Collate != "" {
				d += ":collate=" + cd.Collate
			}
			cols = append(cols, d)
		}
		x := strings.Join(cols, " ")
		if !s.IfNotExists {
			x += " (without IF NOT EXISTS)"
		}
		if len(s.PrimaryKey) > 1 {
			x += " PK(" + strings.Join(s.PrimaryKey, ",") + ")"
		}
		out[s.Table] = x
	}
	return out
}

// ruleSQLRowCounts (C13): the coroutines assert relations over the row counts the store reports
// ("0 or 1 rows", "created task rows == deleted callback rows", "promise rows == task rows"). An
// assertion that fails panics on the kernel goroutine, so each asserted count must be backed by the
// statement that produces it: its guard (by key ⇒ at most one row), its row source, its conflict
// clause and its LIMIT are compared with spec/sql.spec for every kind whose result is asserted.
func ruleSQLRowCounts(c *Ctx) {
	m := c.coroModel()
	if m.Err != nil {
		c.und("model", 0, m.Err.Error())
		return
	}
	info := m.Pk.TypesInfo
	re := regexp.MustCompile(`Results\[[^\]]*\]\.(\w+)\.(?:Promise|Task)?Rows(?:Affected|Returned)`)
	kinds := map[string]bool{}
	nAsserts := 0
	for _, name := range m.Order {
		cf := m.Funcs[name]
		for _, call := range callsInDeep(cf.Decl.Body) {
			fn, ok := calleeOf(info, call).(*types.Func)
			if !ok || fn.Pkg() == nil || fn.Pkg().Path() != pkgUtil || fn.Name() != "Assert" || len(call.Args) == 0 {
				continue
			}
			pv := cf.Env.prov(call.Args[0])
			ms := re.FindAllStringSubmatch(pv, -1)
			if len(ms) > 0 {
				nAsserts++
			}
			for _, mm := range ms {
				k := mm[1]
				if k == "ReadEnquableTasks" {
					k = "ReadEnqueueableTasks"
				}
				kinds[k] = true
			}
		}
	}
	var ks []string
	for k := range kinds {
		ks = append(ks, k)
	}
	sort.Strings(ks)
	c.count("row_count_assertions", nAsserts)
	c.count("asserted_result_kinds", len(ks))
	c.floor("row-count assertions related to a statement", nAsserts, 20)
	c.floor("result kinds with asserted row counts", len(ks), 10)
	c.sqlFacets = map[string]bool{"guard": true, "source": true, "conflict": true, "limit": true, "effect": true, "one-per": true, "dispatch": true, "statement": true, "binding": true}
	defer func() { c.sqlFacets = nil }()
	ruleSQLSpec(func(*sqlModel) []string { return ks })(c)
}
