// Reproductions of the KNOWN findings (F15, F17, F30) against the real code.
// Place at: <checkout>/internal/app/coroutines/findings_repro_test.go and run
//   GOFLAGS=-mod=mod GOPROXY=off GOSUMDB=off GOTOOLCHAIN=local go test -vet=off -count=1 -run TestFinding ./internal/app/coroutines/
// Each test PASSES while the defect exists (it asserts the violating behaviour), so that the
// witness recorded in /verif/known_findings.json can be re-checked at any time.
package coroutines_test

import (
	"fmt"
	"math/rand" // nosemgrep
	"testing"
	"time"

	"github.com/prometheus/client_golang/prometheus"
	"github.com/resonatehq/resonate/internal/aio"
	"github.com/resonatehq/resonate/internal/api"
	"github.com/resonatehq/resonate/internal/app/coroutines"
	"github.com/resonatehq/resonate/internal/app/subsystems/aio/router"
	"github.com/resonatehq/resonate/internal/app/subsystems/aio/store/sqlite"
	"github.com/resonatehq/resonate/internal/kernel/bus"
	"github.com/resonatehq/resonate/internal/kernel/system"
	"github.com/resonatehq/resonate/internal/kernel/t_api"
	"github.com/resonatehq/resonate/internal/metrics"
	"github.com/resonatehq/resonate/pkg/promise"
)

type harness struct {
	t   *testing.T
	a   api.API
	sys *system.System
	n   int
}

func newHarness(t *testing.T, config *system.Config, background bool) *harness {
	r := rand.New(rand.NewSource(0))
	m := metrics.New(prometheus.NewRegistry())
	a := api.New(1000, m)
	io := aio.NewDST(r, 0, m)
	rt, err := router.New(nil, m, &router.Config{Workers: 1})
	if err != nil {
		t.Fatal(err)
	}
	store, err := sqlite.New(nil, m, &sqlite.Config{BatchSize: 10, Path: ":memory:", TxTimeout: 250 * time.Millisecond})
	if err != nil {
		t.Fatal(err)
	}
	io.AddSubsystem(rt)
	io.AddSubsystem(store)
	sys := system.New(a, io, config, m)
	sys.AddOnRequest(t_api.CreatePromise, coroutines.CreatePromise)
	sys.AddOnRequest(t_api.ReadPromise, coroutines.ReadPromise)
	sys.AddOnRequest(t_api.SearchPromises, coroutines.SearchPromises)
	sys.AddOnRequest(t_api.CreateCallback, coroutines.CreateCallback)
	sys.AddOnRequest(t_api.CreateSchedule, coroutines.CreateSchedule)
	sys.AddOnRequest(t_api.ReadSchedule, coroutines.ReadSchedule)
	if background {
		sys.AddBackground("SchedulePromises", coroutines.SchedulePromises)
	}
	if err := a.Start(); err != nil {
		t.Fatal(err)
	}
	if err := io.Start(); err != nil {
		t.Fatal(err)
	}
	t.Cleanup(func() { a.Shutdown(); _ = a.Stop(); _ = io.Stop() })
	return &harness{t: t, a: a, sys: sys}
}

func (h *harness) do(now int64, req *t_api.Request) *t_api.Response {
	h.t.Helper()
	h.n++
	req.Tags = map[string]string{"id": fmt.Sprintf("req%d", h.n), "name": req.Kind.String()}
	var res *t_api.Response
	var resErr error
	done := false
	h.a.EnqueueSQE(&bus.SQE[t_api.Request, t_api.Response]{Submission: req, Callback: func(r *t_api.Response, err error) { res, resErr, done = r, err, true }})
	for i := 0; i < 100 && !done; i++ {
		h.sys.Tick(now)
	}
	if !done || resErr != nil {
		h.t.Fatalf("request %s: done=%v err=%v", req.Kind, done, resErr)
	}
	return res
}

// F30: "__resume:%s:%s" is not injective — (root "a:b", leaf "c") and (root "a", leaf "b:c")
// share the callback id, so the second registration is answered 200 without a callback while its
// promise is still pending (a lost wake-up).
func TestFindingF30CallbackIdNotInjective(t *testing.T) {
	h := newHarness(t, &system.Config{CoroutineMaxSize: 100, SubmissionBatchSize: 100, CompletionBatchSize: 100}, false)
	for _, id := range []string{"c", "b:c"} {
		r := h.do(0, &t_api.Request{Kind: t_api.CreatePromise, CreatePromise: &t_api.CreatePromiseRequest{Id: id, Timeout: 1 << 40}})
		if r.CreatePromise.Status != t_api.StatusCreated {
			t.Fatalf("create %s: %d", id, r.CreatePromise.Status)
		}
	}
	r1 := h.do(1, &t_api.Request{Kind: t_api.CreateCallback, CreateCallback: &t_api.CreateCallbackRequest{Id: "x", PromiseId: "c", RootPromiseId: "a:b", Timeout: 1 << 40, Recv: []byte(`"default"`)}})
	r2 := h.do(2, &t_api.Request{Kind: t_api.CreateCallback, CreateCallback: &t_api.CreateCallbackRequest{Id: "y", PromiseId: "b:c", RootPromiseId: "a", Timeout: 1 << 40, Recv: []byte(`"default"`)}})
	if r1.CreateCallback.Status != t_api.StatusCreated {
		t.Fatalf("first registration: %d", r1.CreateCallback.Status)
	}
	if !(r2.CreateCallback.Status == t_api.StatusOK && r2.CreateCallback.Callback == nil && r2.CreateCallback.Promise.State == promise.Pending) {
		t.Fatalf("defect F30 no longer reproduces: second registration answered %d callback=%v", r2.CreateCallback.Status, r2.CreateCallback.Callback)
	}
	t.Logf("F30 reproduced: registration (root=a, leaf=b:c) answered %d with no callback while b:c is %s (id clash with (a:b, c): %s)", r2.CreateCallback.Status, r2.CreateCallback.Promise.State, r1.CreateCallback.Callback.Id)
}

// F15: the id pattern is passed to LIKE unescaped ('_' and '%' in an id are wildcards; SQLite's
// LIKE ignores ASCII case) and the tag filter builds a JSON path from the tag key ('.' in a key).
func TestFindingF15SearchPatternSemantics(t *testing.T) {
	h := newHarness(t, &system.Config{CoroutineMaxSize: 100, SubmissionBatchSize: 100, CompletionBatchSize: 100}, false)
	for _, id := range []string{"a_b", "aXb", "A_B"} {
		h.do(0, &t_api.Request{Kind: t_api.CreatePromise, CreatePromise: &t_api.CreatePromiseRequest{Id: id, Timeout: 1 << 40, Tags: map[string]string{"k.v": "1"}}})
	}
	all := []promise.State{promise.Pending, promise.Resolved, promise.Rejected, promise.Timedout, promise.Canceled}
	r := h.do(1, &t_api.Request{Kind: t_api.SearchPromises, SearchPromises: &t_api.SearchPromisesRequest{Id: "a_b", States: all, Tags: map[string]string{}, Limit: 10}})
	if len(r.SearchPromises.Promises) != 3 {
		t.Fatalf("defect F15 (LIKE wildcards / case) no longer reproduces: search a_b returned %d promises", len(r.SearchPromises.Promises))
	}
	r = h.do(2, &t_api.Request{Kind: t_api.SearchPromises, SearchPromises: &t_api.SearchPromisesRequest{Id: "*", States: all, Tags: map[string]string{"k.v": "1"}, Limit: 10}})
	if len(r.SearchPromises.Promises) != 0 {
		t.Fatalf("defect F15 (JSON path from tag key) no longer reproduces: tag search returned %d promises", len(r.SearchPromises.Promises))
	}
	t.Logf("F15 reproduced: exact-looking search \"a_b\" returns a_b, aXb and A_B; tag filter k.v=1 matches none of the three promises that carry it")
}

// F17: a schedule whose promise-id template parses but fails when executed is skipped on every
// firing cycle; its next_run_time never advances, it stays first in the ordered, limited
// due-selection, and with a schedule batch size of 1 no other schedule ever fires.
func TestFindingF17PoisonScheduleStarvesOthers(t *testing.T) {
	h := newHarness(t, &system.Config{CoroutineMaxSize: 100, SubmissionBatchSize: 100, CompletionBatchSize: 100, ScheduleBatchSize: 1, PromiseBatchSize: 10, TaskBatchSize: 10}, true)
	minute := int64(60_000)
	base := int64(28_000_000) * minute
	mk := func(now int64, id, tmpl string) {
		r := h.do(now, &t_api.Request{Kind: t_api.CreateSchedule, CreateSchedule: &t_api.CreateScheduleRequest{Id: id, Cron: "* * * * *", PromiseId: tmpl, PromiseTimeout: minute}})
		if r.CreateSchedule.Status != t_api.StatusCreated {
			t.Fatalf("create schedule %s: %d", id, r.CreateSchedule.Status)
		}
	}
	mk(base+1000, "poison", "{{.id.x}}") // parses; execution fails: can't evaluate field x in type string
	mk(base+2000, "good", "{{.id}}.{{.timestamp}}")
	for i := int64(0); i < 400; i++ {
		h.sys.Tick(base + 5*minute + i*1000)
	}
	all := []promise.State{promise.Pending, promise.Resolved, promise.Rejected, promise.Timedout, promise.Canceled}
	r := h.do(base+12*minute, &t_api.Request{Kind: t_api.SearchPromises, SearchPromises: &t_api.SearchPromisesRequest{Id: "good.*", States: all, Tags: map[string]string{}, Limit: 100}})
	s := h.do(base+12*minute, &t_api.Request{Kind: t_api.ReadSchedule, ReadSchedule: &t_api.ReadScheduleRequest{Id: "good"}})
	if len(r.SearchPromises.Promises) != 0 || s.ReadSchedule.Schedule.LastRunTime != nil {
		t.Fatalf("defect F17 no longer reproduces: schedule good fired %d times", len(r.SearchPromises.Promises))
	}
	t.Logf("F17 reproduced: after 400 firing cycles spread over 6 minutes past several occurrences, schedule \"good\" has fired 0 times (next run %d is long past)", s.ReadSchedule.Schedule.NextRunTime)
}
