package main

// ruleSenderTargets (C19, seed C19-8): "a logical name resolves to the configured target of that
// name". The table the sender resolves names in is built once, where the worker is constructed:
// every configured target must be entered under its own name unconditionally (nothing skips an
// entry), with the type and data it was configured with, and a built-in entry written after the
// configured ones may only fill a name that is still absent (`_, ok := targets[k]; !ok`).
// Entries written before the configured ones are overridden by them and are not restricted.

import (
	"fmt"
	"go/ast"
	"go/token"
	"go/types"
	"strings"
)

func ruleSenderTargets(c *Ctx) {
	pk := c.P.Pkg(pkgSender)
	if pk == nil {
		c.und("sender/targets", 0, "sender package not found")
		return
	}
	info := pk.TypesInfo
	// anchor: the function that builds the SenderWorker literal, and what its `targets` member is fed from
	var fd *ast.FuncDecl
	var fed ast.Expr
	for _, f := range allFuncDecls(pk) {
		if f.Body == nil || isTestFile(c.P, f.Pos()) {
			continue
		}
		ast.Inspect(f.Body, func(n ast.Node) bool {
			cl, ok := n.(*ast.CompositeLit)
			if !ok {
				return true
			}
			if tv, ok := info.Types[cl]; !ok || !isNamed(tv.Type, pkgSender, "SenderWorker") {
				return true
			}
			for _, el := range cl.Elts {
				if kv, ok := el.(*ast.KeyValueExpr); ok && exprString(kv.Key) == "targets" {
					fd, fed = f, kv.Value
				}
			}
			return true
		})
	}
	if fd == nil {
		c.und("sender/targets", 0, "no SenderWorker literal with a targets member found")
		return
	}
	id, ok := ast.Unparen(fed).(*ast.Ident)
	if !ok {
		c.und("sender/targets", fed.Pos(), "the worker's targets member is not fed from a local table: "+exprString(fed))
		return
	}
	mapObj := info.ObjectOf(id)
	isTable := func(e ast.Expr) (ast.Expr, bool) { // e is targets[K]
		ix, ok := ast.Unparen(e).(*ast.IndexExpr)
		if !ok {
			return nil, false
		}
		x, ok := ast.Unparen(ix.X).(*ast.Ident)
		if !ok || info.ObjectOf(x) != mapObj {
			return nil, false
		}
		return ix.Index, true
	}
	// the loop over the configured targets
	var loop *ast.RangeStmt
	ast.Inspect(fd.Body, func(n ast.Node) bool {
		if rs, ok := n.(*ast.RangeStmt); ok && loop == nil {
			if se, ok := ast.Unparen(rs.X).(*ast.SelectorExpr); ok && se.Sel.Name == "Targets" {
				loop = rs
			}
		}
		return true
	})
	if loop == nil {
		c.check(false, "sender/targets/configured-entry", fd.Pos(), "", "the configured targets are not entered into the table the worker resolves logical names in")
		return
	}
	entered := false
	for i, st := range loop.Body.List {
		as, ok := st.(*ast.AssignStmt)
		if !ok || len(as.Lhs) != 1 || len(as.Rhs) != 1 {
			continue
		}
		k, ok := isTable(as.Lhs[0])
		if !ok || !strings.HasSuffix(exprString(k), ".Name") {
			continue
		}
		entered = true
		owner := strings.TrimSuffix(exprString(k), ".Name")
		// nothing before the entry may leave the iteration
		skips := token.NoPos
		for _, before := range loop.Body.List[:i] {
			ast.Inspect(before, func(n ast.Node) bool {
				switch b := n.(type) {
				case *ast.BranchStmt:
					skips = b.Pos()
				case *ast.ReturnStmt:
					skips = b.Pos()
				case *ast.FuncLit:
					return false
				}
				return true
			})
		}
		c.check(skips == token.NoPos, "sender/targets/configured-entry", as.Pos(), "every configured target is entered under its name", "a configured target can be skipped (the iteration is left before the entry is written): a logical name then resolves to something other than its configured target")
		rhs := ast.Unparen(as.Rhs[0])
		if un, ok := rhs.(*ast.UnaryExpr); ok && un.Op == token.AND {
			rhs = ast.Unparen(un.X)
		}
		got := map[string]string{}
		if cl, ok := rhs.(*ast.CompositeLit); ok {
			for _, el := range cl.Elts {
				if kv, ok := el.(*ast.KeyValueExpr); ok {
					got[exprString(kv.Key)] = exprString(kv.Value)
				}
			}
		}
		c.check(got["Type"] == owner+".Type" && got["Data"] == owner+".Data", "sender/targets/configured-value", as.Pos(), "the entry carries the configured type and data", fmt.Sprintf("the entry for a configured target carries Type: %q, Data: %q, not its configured type and data", got["Type"], got["Data"]))
	}
	if !entered {
		c.check(false, "sender/targets/configured-entry", loop.Pos(), "", "the loop over the configured targets does not enter them into the table under their names (or does so only conditionally)")
	}
	// writes after the loop fill absent names only; nothing is deleted
	n := 0
	var stack []ast.Node
	ast.Inspect(fd.Body, func(nd ast.Node) bool {
		if nd == nil {
			stack = stack[:len(stack)-1]
			return true
		}
		stack = append(stack, nd)
		if call, ok := nd.(*ast.CallExpr); ok {
			if f, ok := ast.Unparen(call.Fun).(*ast.Ident); ok && f.Name == "delete" && len(call.Args) == 2 {
				if x, ok := ast.Unparen(call.Args[0]).(*ast.Ident); ok && info.ObjectOf(x) == mapObj {
					if _, isBuiltin := info.Uses[f].(*types.Builtin); isBuiltin {
						c.check(false, "sender/targets/no-delete", call.Pos(), "", "an entry of the target table is deleted")
					}
				}
			}
		}
		as, ok := nd.(*ast.AssignStmt)
		if !ok || as.Pos() < loop.End() {
			return true
		}
		for _, l := range as.Lhs {
			k, ok := isTable(l)
			if !ok {
				continue
			}
			n++
			guarded := false
			for i := len(stack) - 2; i >= 0 && !guarded; i-- {
				ifs, ok := stack[i].(*ast.IfStmt)
				if !ok || ifs.Init == nil {
					continue
				}
				// the write must be in the then-branch
				if as.Pos() < ifs.Body.Pos() || as.End() > ifs.Body.End() {
					continue
				}
				ia, ok := ifs.Init.(*ast.AssignStmt)
				if !ok || len(ia.Lhs) != 2 || len(ia.Rhs) != 1 {
					continue
				}
				k2, ok := isTable(ia.Rhs[0])
				if !ok || exprString(k2) != exprString(k) {
					continue
				}
				if un, ok := ast.Unparen(ifs.Cond).(*ast.UnaryExpr); ok && un.Op == token.NOT && exprString(un.X) == exprString(ia.Lhs[1]) {
					guarded = true
				}
			}
			c.check(guarded, "sender/targets/builtin-fills-absent", as.Pos(), "a built-in entry is written only when the name is absent", "targets["+exprString(k)+"] is written after the configured targets without being guarded by `_, ok := targets["+exprString(k)+"]; !ok`: a configured target of that name is replaced")
		}
		return true
	})
	c.count("sender_target_table_writes", n+1)
}
