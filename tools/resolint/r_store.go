package main

// Store-layer rules other than the statement spec: dispatch shape (M-DISPATCH), commit before
// acknowledge, store.Process fan-out, SQL origin (R3), error discipline, result provenance,
// table ownership and schema facts.

import (
	"fmt"
	"go/ast"
	"go/token"
	"go/types"
	"os"
	"sort"
	"strings"

	"golang.org/x/tools/go/cfg"
	"golang.org/x/tools/go/packages"
)

// ---- dispatch ----

func storeKindConsts(p *Program) []string {
	pk := p.Pkg(pkgTAio)
	var out []string
	if pk == nil {
		return out
	}
	for _, n := range pk.Types.Scope().Names() {
		if c, ok := pk.Types.Scope().Lookup(n).(*types.Const); ok && isNamed(c.Type(), pkgTAio, "StoreKind") {
			out = append(out, n)
		}
	}
	sort.Strings(out)
	return out
}

func ruleDispatch(c *Ctx) {
	m := c.sqlModel()
	if m.Err != nil {
		c.und("model", 0, m.Err.Error())
		return
	}
	kinds := storeKindConsts(c.P)
	c.floor("StoreKind constants", len(kinds), 27)
	taio := c.P.Pkg(pkgTAio)
	var cmdStruct *types.Struct
	if o := taio.Types.Scope().Lookup("Command"); o != nil {
		cmdStruct, _ = o.Type().Underlying().(*types.Struct)
	}
	for _, b := range m.Backends {
		info := b.Pkg.TypesInfo
		narms := 0
		for _, k := range kinds {
			a := b.Arms[k]
			key := b.Name + "/" + k
			if a == nil {
				c.bad(key+"/arm", b.Switch.Pos(), "StoreKind "+k+" has no case in the dispatch switch (the default panics)")
				continue
			}
			narms++
			h := b.Handlers[a.Handler]
			if h == nil {
				c.bad(key+"/arm", a.Pos, "case "+k+" does not call a command handler")
				continue
			}
			// command field type must be the handler's command type
			okField := false
			if cmdStruct != nil {
				for i := 0; i < cmdStruct.NumFields(); i++ {
					f := cmdStruct.Field(i)
					if f.Name() == a.CmdField && namedName(f.Type()) == h.CmdType {
						okField = true
					}
				}
			}
			c.check(okField && a.AssignOK, key+"/arm", a.Pos,
				fmt.Sprintf("%s -> %s(command.%s) -> results[i][j]", k, a.Handler, a.CmdField),
				fmt.Sprintf("case %s hands command.%s to %s (wants *%s) or does not store the result in results[i][j]", k, a.CmdField, a.Handler, h.CmdType))
			// the handler runs unconditionally for every command of this kind: its call is a direct
			// statement of the case clause, it is the only source of results[i][j], and nothing
			// (continue / break / goto / cached result) bypasses it
			direct := false
			nResAssign := 0
			bypass := ""
			for _, st := range a.Clause.Body {
				if as, ok := st.(*ast.AssignStmt); ok && len(as.Rhs) == 1 && as.Rhs[0] == ast.Expr(a.Call) {
					direct = true
				}
			}
			ast.Inspect(a.Clause, func(n ast.Node) bool {
				switch x := n.(type) {
				case *ast.AssignStmt:
					for _, l := range x.Lhs {
						if strings.HasPrefix(exprString(l), "results[") {
							nResAssign++
						}
					}
				case *ast.BranchStmt:
					bypass = x.Tok.String() + " at " + c.P.pos(x.Pos())
				}
				return true
			})
			c.check(direct && nResAssign == 1 && bypass == "", key+"/always-executed", a.Pos,
				"the handler runs for every command of this kind and is the only source of its result",
				fmt.Sprintf("case %s does not run its handler unconditionally (handler call direct=%v, assignments to results[..]=%d, bypass=%q): a command can be acknowledged with a result that its own statement did not produce, at a position other than its submission position", k, direct, nResAssign, bypass))
			// the result literal(s) of the handler carry this kind
			rk := resultKinds(b, h)
			okKind := len(rk) > 0
			for _, x := range rk {
				if x != k+"/"+k {
					okKind = false
				}
			}
			c.check(okKind, key+"/result-kind", h.Decl.Pos(), "handler returns Result{Kind: "+k+", "+k+": …}",
				"handler "+a.Handler+" returns results tagged "+strings.Join(rk, ", ")+" for command kind "+k+" (Kind and union member must both be "+k+")")
		}
		c.count("dispatch_arms_"+b.Name, narms)
		c.floor("dispatch arms "+b.Name, narms, 27)

		// default panics
		hasDefault := false
		for _, st := range b.Switch.Body.List {
			cc := st.(*ast.CaseClause)
			if cc.List == nil {
				hasDefault = true
				pan := false
				for _, call := range callsIn(cc) {
					if id, ok := call.Fun.(*ast.Ident); ok && id.Name == "panic" {
						pan = true
					}
				}
				c.check(pan, b.Name+"/default", cc.Pos(), "unknown kinds panic instead of being skipped", "the default case does not panic: an unknown command kind would be acknowledged without effect")
			}
		}
		if !hasDefault {
			c.bad(b.Name+"/default", b.Switch.Pos(), "dispatch switch has no default: an unknown command kind leaves a nil result")
		}

		// loop nest: for i, transaction := range transactions { for j, command := range transaction.Commands { switch command.Kind
		chain := enclosing(b.Perform.Body, b.Switch)
		var ranges []*ast.RangeStmt
		for _, n := range chain {
			if r, ok := n.(*ast.RangeStmt); ok {
				ranges = append(ranges, r)
			}
		}
		okNest := false
		detail := "dispatch switch is not inside `for i, t := range transactions { for j, c := range t.Commands {`"
		if len(ranges) == 2 {
			outer, inner := ranges[0], ranges[1]
			ov, _ := outer.Value.(*ast.Ident)
			iv, _ := inner.Value.(*ast.Ident)
			ok1 := false
			if id, ok := ast.Unparen(outer.X).(*ast.Ident); ok {
				if v, ok := info.Uses[id].(*types.Var); ok {
					sig := info.Defs[b.Perform.Name].(*types.Func).Type().(*types.Signature)
					for i := 0; i < sig.Params().Len(); i++ {
						if sig.Params().At(i) == v {
							ok1 = true
						}
					}
				}
			}
			ok2 := false
			if se, ok := ast.Unparen(inner.X).(*ast.SelectorExpr); ok && se.Sel.Name == "Commands" && ov != nil {
				if id, ok := ast.Unparen(se.X).(*ast.Ident); ok && info.Uses[id] == info.Defs[ov] {
					ok2 = true
				}
			}
			ok3 := false
			if se, ok := ast.Unparen(b.Switch.Tag).(*ast.SelectorExpr); ok && se.Sel.Name == "Kind" && iv != nil {
				if id, ok := ast.Unparen(se.X).(*ast.Ident); ok && info.Uses[id] == info.Defs[iv] {
					ok3 = true
				}
			}
			// results[i][j] uses the two range keys, every arm hands the inner range value's field
			ok4 := true
			ok, ik := outer.Key.(*ast.Ident), inner.Key.(*ast.Ident)
			for _, k := range b.ArmOrder {
				a := b.Arms[k]
				if a.Call == nil {
					continue
				}
				for _, s := range a.Clause.Body {
					as, isAs := s.(*ast.AssignStmt)
					if !isAs || len(as.Rhs) != 1 || as.Rhs[0] != ast.Expr(a.Call) {
						continue
					}
					ix2, isIx := as.Lhs[0].(*ast.IndexExpr)
					if !isIx {
						ok4 = false
						continue
					}
					ix1, isIx := ix2.X.(*ast.IndexExpr)
					if !isIx || ok == nil || ik == nil {
						ok4 = false
						continue
					}
					a1, _ := ix1.Index.(*ast.Ident)
					a2, _ := ix2.Index.(*ast.Ident)
					if a1 == nil || a2 == nil || info.Uses[a1] != info.Defs[ok] || info.Uses[a2] != info.Defs[ik] {
						ok4 = false
					}
				}
				for _, arg := range a.Call.Args {
					if se, isSe := ast.Unparen(arg).(*ast.SelectorExpr); isSe && namedPkgPath(info.Types[arg].Type) == pkgTAio {
						if id, isId := ast.Unparen(se.X).(*ast.Ident); !isId || iv == nil || info.Uses[id] != info.Defs[iv] {
							ok4 = false
						}
					}
				}
			}
			okNest = ok1 && ok2 && ok3 && ok4
			if !okNest {
				detail = fmt.Sprintf("loop nest broken: outer over the transactions parameter=%v, inner over transaction.Commands=%v, switch on command.Kind=%v, results[i][j]/command fields use the loop variables=%v", ok1, ok2, ok3, ok4)
			}
		}
		c.check(okNest, b.Name+"/order", b.Switch.Pos(), "transactions in submission order, commands in list order, results[i][j] ↔ transactions[i].Commands[j]", detail)
		// results[i] is allocated with one slot per command before the commands of transaction i run
		if len(ranges) == 2 {
			outer, inner := ranges[0], ranges[1]
			okAlloc := false
			for _, st := range outer.Body.List {
				if st.Pos() >= inner.Pos() {
					break
				}
				as, isAs := st.(*ast.AssignStmt)
				if !isAs || len(as.Lhs) != 1 || len(as.Rhs) != 1 {
					continue
				}
				ix, isIx := ast.Unparen(as.Lhs[0]).(*ast.IndexExpr)
				call, isCall := ast.Unparen(as.Rhs[0]).(*ast.CallExpr)
				if !isIx || !isCall || exprString(call.Fun) != "make" || len(call.Args) != 2 {
					continue
				}
				if k, isId := outer.Key.(*ast.Ident); isId && isObj(info, ix.Index, info.Defs[k]) {
					if lc, isLen := ast.Unparen(call.Args[1]).(*ast.CallExpr); isLen && exprString(lc.Fun) == "len" && len(lc.Args) == 1 && strings.HasSuffix(exprString(lc.Args[0]), ".Commands") {
						okAlloc = true
					}
				}
			}
			c.check(okAlloc, b.Name+"/results-allocated", outer.Pos(), "results[i] has one slot per command of transaction i", "results[i] is not allocated with len(transaction.Commands) slots before the commands run: results[i][j] indexes a nil slice and the store goroutine panics")
		}

		// after the switch: if err != nil { return nil, err }
		okErr := false
		if len(chain) > 0 {
			if blk, ok := chain[len(chain)-1].(*ast.BlockStmt); ok {
				for i, s := range blk.List {
					if s == ast.Stmt(b.Switch) && i+1 < len(blk.List) {
						if ifs, ok := blk.List[i+1].(*ast.IfStmt); ok {
							if obj, nonNil, ok := nilTest(info, ifs.Cond); ok && nonNil && isErrorType(obj.Type()) {
								for _, st := range ifs.Body.List {
									if rs, ok := st.(*ast.ReturnStmt); ok && len(rs.Results) == 2 && mentions(info, rs.Results[1], obj) {
										okErr = true
									}
								}
							}
						}
					}
				}
			}
		}
		c.check(okErr, b.Name+"/first-error-aborts", b.Switch.End(), "the first failing command returns the error (no further command runs)", "the error of a command is not returned right after the dispatch switch: later commands would still run")
	}
}

func isErrorType(t types.Type) bool {
	return t != nil && types.Identical(t, types.Universe.Lookup("error").Type())
}

// resultKinds lists "Kind/Member" for every t_aio.Result literal a handler returns.
func resultKinds(b *backend, h *handler) []string {
	var out []string
	info := b.Pkg.TypesInfo
	ast.Inspect(h.Decl.Body, func(n ast.Node) bool {
		cl, ok := n.(*ast.CompositeLit)
		if !ok {
			return true
		}
		if tv, ok := info.Types[cl]; !ok || !isNamed(tv.Type, pkgTAio, "Result") {
			return true
		}
		kind, member := "?", "?"
		for _, el := range cl.Elts {
			kv, ok := el.(*ast.KeyValueExpr)
			if !ok {
				continue
			}
			kn := exprString(kv.Key)
			if kn == "Kind" {
				switch v := ast.Unparen(kv.Value).(type) {
				case *ast.SelectorExpr:
					kind = v.Sel.Name
				case *ast.Ident:
					kind = v.Name
				}
			} else {
				if member != "?" {
					member += "+" + kn
				} else {
					member = kn
				}
			}
		}
		out = append(out, kind+"/"+member)
		return true
	})
	return out
}

// ---- result provenance ----

// valueClass classifies the expression stored into a result field.
func (b *backend) valueClass(h *handler, env *localEnv, e ast.Expr) string {
	info := b.Pkg.TypesInfo
	e = ast.Unparen(e)
	if tv, ok := info.Types[e]; ok && tv.Value != nil {
		return "const:" + tv.Value.ExactString()
	}
	switch x := e.(type) {
	case *ast.CallExpr:
		// int64(len(records)) where records collects one entry per scanned row counts the rows
		if tv, ok := info.Types[x.Fun]; ok && tv.IsType() && len(x.Args) == 1 {
			if inner, ok := ast.Unparen(x.Args[0]).(*ast.CallExpr); ok && exprString(inner.Fun) == "len" && len(inner.Args) == 1 {
				if b.valueClass(h, env, inner.Args[0]) == "rows:append,top:zero" {
					return "rows:++,top:=int64(0)"
				}
			}
		}
	case *ast.Ident:
		obj := info.Uses[x]
		defs := env.defs[obj]
		// a value handed back by a single-return helper of the package (extracted scan loop)
		if sub, re, ok := env.helperResult(x); ok {
			return b.valueClass(h, sub, re)
		}
		// rowsAffected, err := res.RowsAffected()  with  res, err := stmt.Exec(…)
		if len(defs) == 1 {
			if as, ok := defs[0].(*ast.AssignStmt); ok && len(as.Rhs) == 1 {
				if call, ok := ast.Unparen(as.Rhs[0]).(*ast.CallExpr); ok {
					if fn, ok := calleeOf(info, call).(*types.Func); ok && fn.Name() == "RowsAffected" && fn.Pkg() != nil && fn.Pkg().Path() == "database/sql" {
						if se, ok := ast.Unparen(call.Fun).(*ast.SelectorExpr); ok {
							if rid, ok := ast.Unparen(se.X).(*ast.Ident); ok {
								rdefs := env.defs[info.Uses[rid]]
								if len(rdefs) == 1 {
									if ras, ok := rdefs[0].(*ast.AssignStmt); ok && len(ras.Rhs) == 1 {
										if rc, ok := ast.Unparen(ras.Rhs[0]).(*ast.CallExpr); ok {
											for i, es := range h.Execs {
												if es.Site.Call == rc {
													return fmt.Sprintf("RowsAffected(exec#%d)", i)
												}
											}
										}
									}
								}
							}
						}
					}
					// sub-handler result
					if fn, ok := calleeOf(info, call).(*types.Func); ok {
						if sig := fn.Type().(*types.Signature); sig.Recv() != nil && namedName(sig.Recv().Type()) == b.Worker {
							return "sub(" + fn.Name() + ")"
						}
					}
				}
			}
		}
		// counters and accumulators
		var kinds []string
		for _, d := range defs {
			ctx := "top"
			for _, par := range env.encl[d] {
				switch p := par.(type) {
				case *ast.ForStmt:
					ctx = "loop"
					if p.Cond != nil {
						if call, ok := ast.Unparen(p.Cond).(*ast.CallExpr); ok {
							if fn, ok := calleeOf(info, call).(*types.Func); ok && fn.Name() == "Next" && fn.Pkg() != nil && fn.Pkg().Path() == "database/sql" {
								ctx = "rows"
							}
						}
					}
				case *ast.RangeStmt:
					ctx = "loop"
				case *ast.IfStmt:
					if ctx == "rows" || ctx == "loop" {
						ctx += "+if"
					} else {
						ctx = "if(" + exprString(p.Cond) + ")"
					}
				case *ast.SwitchStmt, *ast.SelectStmt, *ast.TypeSwitchStmt:
					ctx += "+switch"
				}
			}
			switch s := d.(type) {
			case *ast.IncDecStmt:
				kinds = append(kinds, ctx+":"+s.Tok.String())
			case *ast.ValueSpec:
				if len(s.Values) == 0 {
					kinds = append(kinds, ctx+":zero")
				} else {
					kinds = append(kinds, ctx+":="+exprString(s.Values[0]))
				}
			case *ast.AssignStmt:
				if len(s.Rhs) == 1 {
					r := ast.Unparen(s.Rhs[0])
					if call, ok := r.(*ast.CallExpr); ok && exprString(call.Fun) == "append" && len(call.Args) == 2 {
						kinds = append(kinds, ctx+":append")
					} else if se, ok := r.(*ast.SelectorExpr); ok {
						kinds = append(kinds, ctx+":=."+se.Sel.Name)
					} else {
						kinds = append(kinds, ctx+":="+exprString(r))
					}
				}
			}
		}
		sort.Strings(kinds)
		return strings.Join(kinds, ",")
	case *ast.SelectorExpr:
		return b.valueClass(h, env, x.X) + "." + x.Sel.Name
	}
	return "?" + exprString(e)
}

// resultShape describes every t_aio.Result literal returned by a handler, with the provenance of
// each payload field. Used for the sibling comparison and for the provenance rule.
func resultShape(b *backend, h *handler) string {
	info := b.Pkg.TypesInfo
	env := newLocalEnv(b.Pkg, h.Decl, h.CmdParam)
	var parts []string
	ast.Inspect(h.Decl.Body, func(n ast.Node) bool {
		cl, ok := n.(*ast.CompositeLit)
		if !ok {
			return true
		}
		if tv, ok := info.Types[cl]; !ok || !isNamed(tv.Type, pkgTAio, "Result") {
			return true
		}
		var fs []string
		for _, el := range cl.Elts {
			kv, ok := el.(*ast.KeyValueExpr)
			if !ok {
				continue
			}
			kn := exprString(kv.Key)
			if kn == "Kind" {
				fs = append(fs, "Kind="+exprString(kv.Value))
				continue
			}
			inner := ast.Unparen(kv.Value)
			if u, ok := inner.(*ast.UnaryExpr); ok {
				inner = ast.Unparen(u.X)
			}
			icl, ok := inner.(*ast.CompositeLit)
			if !ok {
				fs = append(fs, kn+"=?"+exprString(kv.Value))
				continue
			}
			var ifs []string
			for _, iel := range icl.Elts {
				ikv, ok := iel.(*ast.KeyValueExpr)
				if !ok {
					continue
				}
				v := b.valueClass(h, env, ikv.Value)
				if v == "const:0" {
					continue // same as omitted
				}
				ifs = append(ifs, exprString(ikv.Key)+":"+v)
			}
			sort.Strings(ifs)
			fs = append(fs, kn+"{"+strings.Join(ifs, " ")+"}")
		}
		parts = append(parts, strings.Join(fs, " "))
		return true
	})
	return strings.Join(parts, " || ")
}

// the provenance each class of result must have (C16: "reports exactly the rows it changed or matched")
const (
	provAlter     = "RowsAffected:RowsAffected(exec#0)"
	provQueryOne  = "Records:if(rowsReturned == 1):append,top:zero RowsReturned:if(err == sql.ErrNoRows):=0,top:=int64(1)"
	provQueryMany = "Records:rows:append,top:zero RowsReturned:rows:++,top:=int64(0)"
	provQuerySort = "LastSortId:rows:=.SortId,top:zero Records:rows:append,top:zero RowsReturned:rows:++,top:=int64(0)"
)

func ruleResults(kinds func(m *sqlModel) []string) ruleFn {
	return func(c *Ctx) {
		m := c.sqlModel()
		if m.Err != nil {
			c.und("model", 0, m.Err.Error())
			return
		}
		n := 0
		for _, b := range m.Backends {
			for _, k := range kinds(m) {
				a := b.Arms[k]
				if a == nil {
					continue
				}
				h := b.Handlers[a.Handler]
				if h == nil {
					continue
				}
				shape := resultShape(b, h)
				key := b.Name + "/" + k + "/provenance"
				spec := m.Spec[k]
				var want []string
				switch {
				case k == "CreatePromiseAndTask":
					want = []string{
						"Kind=t_aio.CreatePromiseAndTask CreatePromiseAndTask{} || Kind=t_aio.CreatePromiseAndTask CreatePromiseAndTask{PromiseRowsAffected:sub(createPromise).CreatePromise.RowsAffected TaskRowsAffected:sub(createTask).CreateTask.RowsAffected}",
					}
				case spec != nil && spec.Facts.Kind == "select":
					single := h.Execs != nil && len(h.Execs) == 1 && h.Execs[0].Site.Method == "QueryRow"
					if single {
						want = []string{fmt.Sprintf("Kind=t_aio.%s %s{%s}", k, k, provQueryOne)}
					} else {
						want = []string{fmt.Sprintf("Kind=t_aio.%s %s{%s}", k, k, provQueryMany), fmt.Sprintf("Kind=t_aio.%s %s{%s}", k, k, provQuerySort)}
					}
				default:
					want = []string{fmt.Sprintf("Kind=t_aio.%s %s{%s}", k, k, provAlter)}
				}
				ok := false
				for _, w := range want {
					if shape == w {
						ok = true
					}
				}
				n++
				o := c.check(ok, key, h.Decl.Pos(), "row counts and records come from this command's own statement", "result of "+a.Handler+" is not built from its own statement's row count / rows")
				if !ok {
					o.Expected, o.Found = strings.Join(want, "  OR  "), shape
				}
				// search / sweep results that feed a cursor must carry LastSortId
				if k == "SearchPromises" || k == "SearchSchedules" {
					c.check(strings.Contains(shape, "LastSortId:rows:=.SortId"), b.Name+"/"+k+"/last-sort-id", h.Decl.Pos(), "LastSortId is the sort_id of the last row scanned", "LastSortId is not taken from the last scanned row")
				}
			}
		}
		c.count("result_literals_checked", n)
		c.floor("result provenance checks", n, 2*len(kinds(m)))
	}
}

// checkComposite: create-with-task inserts the task iff the promise insert affected a row.
func (c *Ctx) checkComposite(b *backend, a *arm, key string) {
	h := b.Handlers[a.Handler]
	if h == nil {
		return
	}
	info := b.Pkg.TypesInfo
	pk, tk := b.Arms["CreatePromise"], b.Arms["CreateTask"]
	if pk == nil || tk == nil || len(h.Subs) != 2 || h.Subs[0].Handler != pk.Handler || h.Subs[1].Handler != tk.Handler ||
		h.Subs[0].CmdField != "PromiseCommand" || h.Subs[1].CmdField != "TaskCommand" || len(h.Execs) != 0 {
		c.bad(key+"/composition", h.Decl.Pos(), fmt.Sprintf("create-with-task must be exactly [insert promise(cmd.PromiseCommand), insert task(cmd.TaskCommand)] through the handlers of CreatePromise and CreateTask; found %+v and %d direct statements", h.Subs, len(h.Execs)))
		return
	}
	c.ok(key+"/composition", h.Decl.Pos(), "promise insert then task insert, same SQL transaction, through the CreatePromise/CreateTask handlers")
	// guard between the two calls
	var first, second *ast.CallExpr
	for _, call := range callsIn(h.Decl.Body) {
		if call.Pos() == h.Subs[0].Pos {
			first = call
		}
		if call.Pos() == h.Subs[1].Pos {
			second = call
		}
	}
	var firstVar types.Object
	ast.Inspect(h.Decl.Body, func(n ast.Node) bool {
		if as, ok := n.(*ast.AssignStmt); ok && len(as.Rhs) == 1 && as.Rhs[0] == ast.Expr(first) {
			if id, ok := as.Lhs[0].(*ast.Ident); ok {
				firstVar = info.Defs[id]
				if firstVar == nil {
					firstVar = info.Uses[id]
				}
			}
		}
		return true
	})
	if firstVar == nil || second == nil {
		c.und(key+"/task-iff-promise", h.Decl.Pos(), "result of the promise insert is not kept in a variable")
		return
	}
	isRowsCmp := func(e ast.Expr, ops ...token.Token) (token.Token, bool) {
		be, ok := ast.Unparen(e).(*ast.BinaryExpr)
		if !ok {
			return 0, false
		}
		se, ok := ast.Unparen(be.X).(*ast.SelectorExpr)
		if !ok || se.Sel.Name != "RowsAffected" || !mentions(info, se, firstVar) {
			return 0, false
		}
		tv := info.Types[be.Y]
		if tv.Value == nil {
			return 0, false
		}
		for _, op := range ops {
			if be.Op == op {
				return op, tv.Value.ExactString() == "0" || (tv.Value.ExactString() == "1" && op == token.EQL)
			}
		}
		return 0, false
	}
	found := ""
	// (a) early return when 0 rows, located between the two calls
	for _, st := range h.Decl.Body.List {
		ifs, ok := st.(*ast.IfStmt)
		if !ok || ifs.Pos() < first.End() || ifs.End() > second.Pos() {
			continue
		}
		if be, ok := ast.Unparen(ifs.Cond).(*ast.BinaryExpr); ok && be.Op == token.EQL {
			if _, ok := isRowsCmp(ifs.Cond, token.EQL); ok && info.Types[be.Y].Value.ExactString() == "0" {
				if n := len(ifs.Body.List); n > 0 {
					if _, ok := ifs.Body.List[n-1].(*ast.ReturnStmt); ok {
						found = "early return when the promise insert affected 0 rows"
					}
				}
			}
		}
	}
	// (b) task insert nested under a positive row test
	for _, par := range enclosing(h.Decl.Body, second) {
		if ifs, ok := par.(*ast.IfStmt); ok && ifs.Body.Pos() <= second.Pos() && second.End() <= ifs.Body.End() {
			if be, ok := ast.Unparen(ifs.Cond).(*ast.BinaryExpr); ok {
				if _, ok := isRowsCmp(ifs.Cond, token.EQL, token.GTR, token.NEQ); ok {
					v := info.Types[be.Y].Value.ExactString()
					if (be.Op == token.EQL && v == "1") || (be.Op != token.EQL && v == "0") {
						found = "task insert nested under a positive row-count test"
					}
				}
			}
		}
	}
	c.check(found != "", key+"/task-iff-promise", second.Pos(), found,
		"the task insert is not conditional on the promise insert having affected a row: a repeated create-with-task would create a further task (or fail on the conflict)")
}

// ---- Execute: one SQL transaction, commit before acknowledge ----

func ruleExecute(c *Ctx) {
	m := c.sqlModel()
	if m.Err != nil {
		c.und("model", 0, m.Err.Error())
		return
	}
	for _, b := range m.Backends {
		info := b.Pkg.TypesInfo
		fd := b.Execute
		key := b.Name + "/Execute"
		// the transaction variable
		var txObj types.Object
		nBegin := 0
		ast.Inspect(fd.Body, func(n ast.Node) bool {
			as, ok := n.(*ast.AssignStmt)
			if !ok || len(as.Rhs) != 1 {
				return true
			}
			call, ok := ast.Unparen(as.Rhs[0]).(*ast.CallExpr)
			if !ok {
				return true
			}
			if fn, ok := calleeOf(info, call).(*types.Func); ok && fn.Pkg() != nil && fn.Pkg().Path() == "database/sql" && (fn.Name() == "BeginTx" || fn.Name() == "Begin") {
				nBegin++
				if id, ok := as.Lhs[0].(*ast.Ident); ok {
					txObj = info.Defs[id]
				}
			}
			return true
		})
		// the begin / commit / rollback skeleton may live in a method of the worker that Execute hands
		// its body to (`w.withTx(func(tx *sql.Tx) error { … performCommands(tx, transactions) … })`)
		var bodyParam types.Object // in the wrapper: the function parameter that stands for performCommands
		if nBegin == 0 {
			if wfd, lit, wcall := txWrapperOf(b.Pkg, fd); wfd != nil {
				// Execute: success only when the wrapper returned nil; the literal hands the wrapper's tx
				// and Execute's transactions to performCommands and returns its error
				sig := info.Defs[fd.Name].(*types.Func).Type().(*types.Signature)
				litOK := false
				var litTx types.Object
				if lit.Type.Params != nil && len(lit.Type.Params.List) == 1 && len(lit.Type.Params.List[0].Names) == 1 {
					litTx = info.Defs[lit.Type.Params.List[0].Names[0]]
				}
				nP := 0
				for _, call := range callsIn(lit.Body) {
					if fn, ok := calleeOf(info, call).(*types.Func); ok && fn == info.Defs[b.Perform.Name] {
						nP++
						if len(call.Args) == 2 && litTx != nil && isObj(info, call.Args[0], litTx) {
							if id, ok := ast.Unparen(call.Args[1]).(*ast.Ident); ok && sig.Params().Len() == 1 && info.Uses[id] == sig.Params().At(0) {
								litOK = true
							}
						}
					}
				}
				// the literal returns performCommands' error on every path
				retOK := true
				ast.Inspect(lit.Body, func(n ast.Node) bool {
					if rs, ok := n.(*ast.ReturnStmt); ok {
						if len(rs.Results) != 1 || exprString(rs.Results[0]) == "nil" {
							retOK = false
						}
					}
					return true
				})
				c.check(nP == 1 && litOK && retOK, key+"/all-in-one", fd.Pos(), "every transaction of the batch runs inside that one SQL transaction", "Execute does not hand all transactions to one performCommands call on the wrapper's SQL transaction (or swallows its error)")
				// Execute's own returns
				eg := buildCFG(b.Pkg, fd.Body)
				eedge := errEdgeFacts(info, func(call *ast.CallExpr) string {
					if call == wcall {
						return "wrapper"
					}
					return ""
				})
				erets := mustFacts(eg, func(ast.Node) []string { return nil }, eedge, func(n ast.Node) bool { _, ok := n.(*ast.ReturnStmt); return ok })
				nS := 0
				for n, facts := range erets {
					rs := n.(*ast.ReturnStmt)
					if len(rs.Results) == 2 && exprString(rs.Results[1]) == "nil" {
						nS++
						c.check(facts["ok:wrapper"], key+"/commit-before-ack/caller", rs.Pos(), "Execute reports success only when the transaction wrapper returned nil", "Execute returns success on a path where the transaction wrapper did not return nil")
					}
				}
				c.check(nS >= 1, key+"/has-success-return", fd.Pos(), "Execute has a success return", "Execute has no `return results, nil`")
				// from here on the wrapper is the transaction function
				fd = wfd
				for _, f := range wfd.Type.Params.List {
					for _, nm := range f.Names {
						if _, isFn := info.Defs[nm].Type().Underlying().(*types.Signature); isFn {
							bodyParam = info.Defs[nm]
						}
					}
				}
				nBegin = 0
				ast.Inspect(fd.Body, func(n ast.Node) bool {
					as, ok := n.(*ast.AssignStmt)
					if !ok || len(as.Rhs) != 1 {
						return true
					}
					call, ok := ast.Unparen(as.Rhs[0]).(*ast.CallExpr)
					if !ok {
						return true
					}
					if fn, ok := calleeOf(info, call).(*types.Func); ok && fn.Pkg() != nil && fn.Pkg().Path() == "database/sql" && (fn.Name() == "BeginTx" || fn.Name() == "Begin") {
						nBegin++
						if id, ok := as.Lhs[0].(*ast.Ident); ok {
							txObj = info.Defs[id]
						}
					}
					return true
				})
			}
		}
		c.check(nBegin == 1 && txObj != nil, key+"/one-transaction", fd.Pos(), "Execute begins exactly one SQL transaction", fmt.Sprintf("Execute begins %d SQL transactions", nBegin))
		if txObj == nil {
			continue
		}
		isPerform := func(call *ast.CallExpr) bool {
			if bodyParam != nil {
				return isObj(info, call.Fun, bodyParam)
			}
			fn, ok := calleeOf(info, call).(*types.Func)
			return ok && fn == info.Defs[b.Perform.Name]
		}
		// performCommands is called once, with that tx and the transactions parameter
		nPerf := 0
		okArgs := false
		for _, call := range callsIn(fd.Body) {
			if bodyParam != nil {
				if isPerform(call) {
					nPerf++
					okArgs = len(call.Args) == 1 && mentions(info, call.Args[0], txObj)
				}
				continue
			}
			if fn, ok := calleeOf(info, call).(*types.Func); ok && fn == info.Defs[b.Perform.Name] {
				nPerf++
				okArgs = len(call.Args) == 2 && mentions(info, call.Args[0], txObj)
				if id, ok := ast.Unparen(call.Args[1]).(*ast.Ident); ok {
					sig := info.Defs[fd.Name].(*types.Func).Type().(*types.Signature)
					okArgs = okArgs && sig.Params().Len() == 1 && info.Uses[id] == sig.Params().At(0)
				} else {
					okArgs = false
				}
			}
		}
		if bodyParam != nil {
			c.check(nPerf == 1 && okArgs, key+"/wrapper-runs-body-once", fd.Pos(), "the wrapper runs its body once, on its transaction", "the transaction wrapper does not run its body exactly once on the transaction it began")
		} else {
			c.check(nPerf == 1 && okArgs, key+"/all-in-one", fd.Pos(), "every transaction of the batch runs inside that one SQL transaction", "Execute does not hand all transactions to one performCommands call on its own SQL transaction")
		}

		g := buildCFG(b.Pkg, fd.Body)
		gen := func(n ast.Node) []string {
			var out []string
			for _, call := range callsIn(n) {
				if bodyParam != nil && isPerform(call) {
					out = append(out, "called:perform")
					continue
				}
				fn, ok := calleeOf(info, call).(*types.Func)
				if !ok {
					continue
				}
				if se, ok := ast.Unparen(call.Fun).(*ast.SelectorExpr); ok && mentions(info, se.X, txObj) {
					out = append(out, "called:tx."+fn.Name())
				}
				if isPerform(call) {
					out = append(out, "called:perform")
				}
				if fn.Pkg() != nil && fn.Pkg().Path() == "database/sql" && strings.HasPrefix(fn.Name(), "Begin") {
					out = append(out, "called:begin")
				}
				// a helper of this package that is handed the transaction and rolls it back on
				// every path counts as the rollback
				if fn.Pkg() == b.Pkg.Types {
					for i, a := range call.Args {
						if mentions(info, a, txObj) && alwaysCallsOnParam(b.Pkg, fn, i, "Rollback") {
							out = append(out, "called:tx.Rollback")
						}
					}
				}
			}
			return out
		}
		edge := errEdgeFacts(info, func(call *ast.CallExpr) string {
			if isPerform(call) {
				return "perform"
			}
			fn, ok := calleeOf(info, call).(*types.Func)
			if !ok {
				return ""
			}
			if se, ok := ast.Unparen(call.Fun).(*ast.SelectorExpr); ok && mentions(info, se.X, txObj) {
				return "tx." + fn.Name()
			}
			if fn.Pkg() != nil && fn.Pkg().Path() == "database/sql" && strings.HasPrefix(fn.Name(), "Begin") {
				return "begin"
			}
			return ""
		})
		rets := mustFacts(g, gen, edge, func(n ast.Node) bool { _, ok := n.(*ast.ReturnStmt); return ok })
		nSucc, nFail := 0, 0
		var retNodes []*ast.ReturnStmt
		for n := range rets {
			retNodes = append(retNodes, n.(*ast.ReturnStmt))
		}
		sort.Slice(retNodes, func(i, j int) bool { return retNodes[i].Pos() < retNodes[j].Pos() })
		for i, rs := range retNodes {
			facts := rets[rs]
			wantResults := 2
			if bodyParam != nil {
				wantResults = 1
			}
			if len(rs.Results) != wantResults {
				c.und(key+"/return", rs.Pos(), "return with an unexpected number of results")
				continue
			}
			last := ast.Unparen(rs.Results[wantResults-1])
			errIsNil := false
			if id, ok := last.(*ast.Ident); ok {
				_, errIsNil = info.Uses[id].(*types.Nil)
			}
			// `return tx.Commit()`: the outcome reported IS the commit's — success exactly when it succeeded
			if call, ok := last.(*ast.CallExpr); ok && bodyParam != nil {
				if se, ok := ast.Unparen(call.Fun).(*ast.SelectorExpr); ok && se.Sel.Name == "Commit" && mentions(info, se.X, txObj) {
					nSucc++
					o := c.check(facts["ok:perform"], key+"/commit-before-ack", rs.Pos(), "success is returned only after Commit returned nil", "the commit is attempted (and its outcome reported) on a path where the body did not succeed")
					o.Path = facts.list()
					continue
				}
			}
			if errIsNil {
				nSucc++
				ok := facts["ok:tx.Commit"] && facts["ok:perform"]
				o := c.check(ok, key+"/commit-before-ack", rs.Pos(), "success is returned only after Commit returned nil", "a success return is reachable without a successful tx.Commit(): results would be acknowledged before they are durable")
				o.Path = facts.list()
			} else {
				nFail++
				for _, f := range gen(rs) { // calls evaluated by the return statement itself
					facts[f] = true
				}
				ok := facts["failed:begin"] || facts["called:tx.Rollback"] || facts["failed:tx.Commit"]
				o := c.check(ok, fmt.Sprintf("%s/rollback-on-error#%d", key, i), rs.Pos(), "error return after rollback / failed begin / failed commit", "an error return leaves the SQL transaction neither rolled back nor committed")
				o.Path = facts.list()
			}
		}
		if bodyParam == nil {
			c.check(nSucc >= 1, key+"/has-success-return", fd.Pos(), "Execute has a success return", "Execute has no `return results, nil`")
		} else {
			c.check(nSucc >= 1, key+"/wrapper-commits", fd.Pos(), "the wrapper has a committing return", "the transaction wrapper never commits")
		}
		c.count("execute_returns", nSucc+nFail)
	}
}

// errEdgeFacts: when a block ends in `err != nil` (or ==) and err was last assigned in that block
// from a call named by name(call), the true/false edges carry failed:<name> / ok:<name>.
func errEdgeFacts(info *types.Info, name func(*ast.CallExpr) string) func(b *cfg.Block, i int) []string {
	return errEdgeFactsT(info, name, isErrorType)
}

// errEdgeFactsT: as errEdgeFacts, for error-like results of any accepted type (*api.Error).
func errEdgeFactsT(info *types.Info, name func(*ast.CallExpr) string, accept func(types.Type) bool) func(b *cfg.Block, i int) []string {
	return func(b *cfg.Block, i int) []string {
		if len(b.Succs) != 2 || len(b.Nodes) == 0 {
			return nil
		}
		cond, ok := b.Nodes[len(b.Nodes)-1].(ast.Expr)
		if !ok {
			return nil
		}
		obj, nonNil, ok := nilTest(info, cond)
		if !ok || !accept(obj.Type()) {
			return nil
		}
		// last assignment of obj in this block
		for j := len(b.Nodes) - 2; j >= 0; j-- {
			rhs, ok := assignsTo(info, b.Nodes[j], obj)
			if !ok {
				continue
			}
			if len(rhs) != 1 {
				return nil
			}
			call, ok := ast.Unparen(rhs[0]).(*ast.CallExpr)
			if !ok {
				return nil
			}
			nm := name(call)
			if nm == "" {
				return nil
			}
			failed := (i == 0) == nonNil
			if failed {
				return []string{"failed:" + nm}
			}
			return []string{"ok:" + nm}
		}
		return nil
	}
}

// ---- store.Process: results fan-out ----

func ruleStoreProcess(c *Ctx) {
	pk := c.P.Pkg(pkgStore)
	fd := funcDecl(pk, "", "Process")
	if fd == nil {
		c.und("store.Process", 0, "store.Process not found")
		return
	}
	info := pk.TypesInfo
	sig := info.Defs[fd.Name].(*types.Func).Type().(*types.Signature)
	var storePar, sqesPar *types.Var
	for i := 0; i < sig.Params().Len(); i++ {
		v := sig.Params().At(i)
		if isNamed(v.Type(), pkgStore, "Store") {
			storePar = v
		} else {
			sqesPar = v
		}
	}
	if storePar == nil || sqesPar == nil {
		c.und("store.Process/signature", fd.Pos(), "unexpected signature")
		return
	}
	// exactly one Execute call, not in a loop
	var exec *ast.CallExpr
	nExec := 0
	for _, call := range callsIn(fd.Body) {
		if se, ok := ast.Unparen(call.Fun).(*ast.SelectorExpr); ok && se.Sel.Name == "Execute" {
			if id, ok := ast.Unparen(se.X).(*ast.Ident); ok && info.Uses[id] == storePar {
				nExec++
				exec = call
			}
		}
	}
	inLoop := false
	if exec != nil {
		for _, par := range enclosing(fd.Body, exec) {
			switch par.(type) {
			case *ast.ForStmt, *ast.RangeStmt:
				inLoop = true
			}
		}
	}
	c.check(nExec == 1 && !inLoop, "store.Process/one-execute", fd.Pos(), "the whole batch is one Execute call", fmt.Sprintf("store.Process calls Execute %d times (in a loop: %v): a batch is no longer one SQL transaction", nExec, inLoop))
	if exec == nil {
		return
	}
	// results, err := store.Execute(transactions)
	var resObj, errObj, txsObj types.Object
	ast.Inspect(fd.Body, func(n ast.Node) bool {
		if as, ok := n.(*ast.AssignStmt); ok && len(as.Rhs) == 1 && as.Rhs[0] == ast.Expr(exec) && len(as.Lhs) == 2 {
			if id, ok := as.Lhs[0].(*ast.Ident); ok {
				resObj = info.Defs[id]
			}
			if id, ok := as.Lhs[1].(*ast.Ident); ok {
				errObj = info.Defs[id]
			}
		}
		return true
	})
	if id, ok := ast.Unparen(exec.Args[0]).(*ast.Ident); ok {
		txsObj = info.Uses[id]
	}
	if resObj == nil || errObj == nil || txsObj == nil {
		c.und("store.Process/shape", exec.Pos(), "Execute's results are not bound to variables")
		return
	}
	// transactions are collected in sqe order: for _, sqe := range sqes { transactions = append(transactions, sqe.Submission.Store.Transaction) }
	okCollect := false
	ast.Inspect(fd.Body, func(n ast.Node) bool {
		r, ok := n.(*ast.RangeStmt)
		if !ok || r.Pos() > exec.Pos() {
			return true
		}
		if id, ok := ast.Unparen(r.X).(*ast.Ident); !ok || info.Uses[id] != sqesPar {
			return true
		}
		rv, _ := r.Value.(*ast.Ident)
		for _, st := range r.Body.List {
			as, ok := st.(*ast.AssignStmt)
			if !ok || len(as.Rhs) != 1 {
				continue
			}
			call, ok := ast.Unparen(as.Rhs[0]).(*ast.CallExpr)
			if !ok || exprString(call.Fun) != "append" || len(call.Args) != 2 {
				continue
			}
			if lid, ok := as.Lhs[0].(*ast.Ident); ok && info.Uses[lid] == txsObj && rv != nil && mentions(info, call.Args[1], info.Defs[rv]) && strings.HasSuffix(exprString(call.Args[1]), ".Store.Transaction") {
				okCollect = true
			}
		}
		return true
	})
	c.check(okCollect, "store.Process/submission-order", fd.Pos(), "transactions[i] is the transaction of sqes[i]", "transactions are not collected one per SQE in SQE order before Execute")
	// fan-out loop after Execute
	var fan *ast.RangeStmt
	ast.Inspect(fd.Body, func(n ast.Node) bool {
		if r, ok := n.(*ast.RangeStmt); ok && r.Pos() > exec.End() {
			if id, ok := ast.Unparen(r.X).(*ast.Ident); ok && info.Uses[id] == sqesPar {
				fan = r
			}
		}
		return true
	})
	if fan == nil {
		c.bad("store.Process/fan-out", exec.Pos(), "no loop over the SQEs after Execute builds the completions")
		return
	}
	ik, _ := fan.Key.(*ast.Ident)
	iv, _ := fan.Value.(*ast.Ident)
	if ik == nil || iv == nil {
		c.und("store.Process/fan-out", fan.Pos(), "fan-out loop has no index/value")
		return
	}
	// no completion is built before Execute returned: every CQE literal of the function, and every
	// call of a helper that builds one, lies inside the fan-out loop
	isCQE := func(t types.Type) bool { return isNamed(t, pkgBus, "CQE") }
	okInside, nCQE := true, 0
	ast.Inspect(fd.Body, func(n ast.Node) bool {
		e, ok := n.(ast.Expr)
		if !ok {
			return true
		}
		built := false
		switch x := e.(type) {
		case *ast.CompositeLit:
			if tv, ok := info.Types[x]; ok && isCQE(tv.Type) {
				built = true
			}
		case *ast.CallExpr:
			if tv, ok := info.Types[x]; ok && isCQE(tv.Type) {
				if fn, ok := calleeOf(info, x).(*types.Func); ok && fn.Pkg() == pk.Types {
					built = true
				}
			}
		}
		if built {
			nCQE++
			if e.Pos() < fan.Body.Pos() || e.End() > fan.Body.End() {
				okInside = false
			}
		}
		return true
	})
	c.check(nCQE >= 1 && okInside, "store.Process/completion-after-execute", fan.Pos(), "completions are built only after Execute returned", "a completion is constructed outside the loop that follows Execute")
	// the slice the completions are appended to is the one returned
	var sliceObj types.Object
	if n := len(fd.Body.List); n > 0 {
		if rs, ok := fd.Body.List[n-1].(*ast.ReturnStmt); ok && len(rs.Results) == 1 {
			if id, ok := ast.Unparen(rs.Results[0]).(*ast.Ident); ok {
				sliceObj = info.Uses[id]
			}
		}
	}
	if sliceObj == nil {
		c.und("store.Process/fan-out", fan.Pos(), "the returned completion slice is not a variable")
		return
	}
	// every path through one iteration appends exactly one completion: on the paths where Execute
	// failed it carries the submission's id and callback and the error, and no results; on the
	// others the id, the callback and a store completion with the submission's tags and results[i]
	env := newProvEnv(pk, fd)
	env.sym = map[types.Object]string{info.Defs[iv]: "$sqe", info.Defs[ik]: "$i", errObj: "$err", resObj: "$results"}
	body := continueToReturn(fan.Body)
	g := cfg.New(body, func(*ast.CallExpr) bool { return true })
	paths, complete := enumPathsX(g, env.condFormula, nil, nil, 256)
	if !complete || len(paths) == 0 {
		c.und("store.Process/fan-out", fan.Pos(), "paths through the fan-out loop body could not be enumerated")
		return
	}
	// the loop variables, Execute's results and its error are kept symbolic (helpers that build
	// the completion are inlined with their parameters substituted by these symbols)
	sv, errV, resIdx := "$sqe", "$err", "$results[$i]"
	wantFail := builtObject{"Id": sv + ".Id", "Callback": sv + ".Callback", "Error": errV}
	okOne, okErr, okRes, okCb := true, true, true, true
	nFail, nOK := 0, 0
	var found []string
	for _, p := range paths {
		atoms, _, contra := decompose(p.Facts)
		if contra {
			continue
		}
		failed, known := false, false
		if os.Getenv("RESOLINT_DEBUG") != "" {
			fmt.Fprintf(os.Stderr, "fanout path atoms=%v\n", atoms)
		}
		for a, v := range atoms {
			switch a {
			case "(" + errV + " != nil)":
				failed, known = v, true
			case "(" + errV + " == nil)":
				failed, known = !v, true
			}
		}
		objs, understood := appendedOnPath(pk, env, p, sliceObj, isCQE)
		if !understood || len(objs) != 1 {
			okOne = false
			found = append(found, fmt.Sprintf("%d completions on a path", len(objs)))
			continue
		}
		o := objs[0]
		found = append(found, o.String())
		if o["Callback"] != wantFail["Callback"] || o["Id"] != wantFail["Id"] {
			okCb = false
		}
		if !known {
			okErr = false // a completion that does not depend on Execute's outcome
			continue
		}
		if failed {
			nFail++
			if o["Error"] != wantFail["Error"] || o["Completion"] != "" {
				okErr = false
			}
		} else {
			nOK++
			comp := o["Completion"]
			if o["Error"] != "" || !strings.Contains(comp, "Kind:Store") || !strings.Contains(comp, "Tags:"+sv+".Submission.Tags") {
				okErr = false
			}
			if !strings.Contains(comp, "Results:"+resIdx+"}") {
				okRes = false
			}
		}
	}
	sort.Strings(found)
	o1 := c.check(okOne, "store.Process/one-completion-per-submission", fan.Pos(), "each SQE yields exactly one CQE on every path", "some path through the fan-out loop appends no completion or more than one for a submission")
	o2 := c.check(okCb, "store.Process/callback", fan.Pos(), "completion i carries the id and callback of submission i", "the completion does not carry the id / callback of its own SQE")
	o3 := c.check(okErr && nFail >= 1 && nOK >= 1, "store.Process/error-to-all", fan.Pos(), "one Execute error fails every submission of the batch; results are attached only when err == nil", "the fan-out does not attach the error to every SQE of a failed batch / attaches results although Execute failed")
	o4 := c.check(okRes && nOK >= 1, "store.Process/result-index", fan.Pos(), "submission i receives results[i]", "a submission does not receive results[i] of its own transaction")
	for _, o := range []*Obl{o1, o2, o3, o4} {
		if o.Verdict != Discharged {
			o.Found = strings.Join(found, " ; ")
		}
	}
}

// ---- R3: SQL origin ----

func ruleSQLOrigin(c *Ctx) {
	m := c.sqlModel()
	if m.Err != nil {
		c.und("model", 0, m.Err.Error())
		return
	}
	nSites := 0
	for _, b := range m.Backends {
		info := b.Pkg.TypesInfo
		for _, s := range b.Sites {
			nSites++
			key := fmt.Sprintf("%s/%s/%s.%s", b.Name, s.Func, s.RecvType, s.Method)
			// (a) constant text
			if s.SQLArg != nil {
				_, _, holes, ok := b.sqlTextOf(s.SQLArg)
				if !ok {
					// the text is a parameter of a function of the package: constant iff every call
					// site passes a constant
					okSites := false
					if fd := findFuncDecl(b.Pkg, s.Pos); fd != nil {
						// … or of a local closure: constant iff every call of the closure passes one
						if pid, isId := ast.Unparen(s.SQLArg).(*ast.Ident); isId {
							if nCalls, allConst, isLitPar := closureParamConst(b, fd, info.Uses[pid]); isLitPar {
								okSites = nCalls > 0 && allConst
							}
						}
						if pid, isId := ast.Unparen(s.SQLArg).(*ast.Ident); isId && !okSites {
							if pv, isVar := info.Uses[pid].(*types.Var); isVar && isParamVar(info, fd.Type, pv) {
								idx := -1
								k := 0
								for _, f := range fd.Type.Params.List {
									for _, nm := range f.Names {
										if info.Defs[nm] == pv {
											idx = k
										}
										k++
									}
								}
								nCalls, allConst := 0, true
								for _, cfd := range allFuncDecls(b.Pkg) {
									if cfd.Body == nil {
										continue
									}
									for _, call := range callsInDeep(cfd.Body) {
										if calleeOf(info, call) == info.Defs[fd.Name] && idx >= 0 && idx < len(call.Args) {
											nCalls++
											if _, _, h2, ok2 := b.sqlTextOf(call.Args[idx]); !ok2 || len(h2) > 0 {
												allConst = false
											}
										}
									}
								}
								okSites = nCalls > 0 && allConst
							}
						}
					}
					c.check(okSites, key+"/constant-text", s.Pos, "SQL text is a parameter that every call site fills with a constant", "SQL text is not a compile-time constant: "+exprString(s.SQLArg))
				} else if len(holes) > 0 {
					fd := findFuncDecl(b.Pkg, s.Pos)
					var cmdPar *types.Var
					for _, h := range b.Handlers {
						if h.Decl == fd {
							cmdPar = h.CmdParam
						}
					}
					env := newLocalEnv(b.Pkg, fd, cmdPar)
					allConst := true
					for _, h := range holes {
						if _, ok := env.constOnlyString(h, 0); !ok {
							allConst = false
						}
					}
					c.check(allConst, key+"/constant-text", s.Pos, "format holes are filled from constant fragments only", "client data can reach the SQL text through a format hole")
				} else {
					c.ok(key+"/constant-text", s.Pos, "constant SQL text")
				}
			}
			// (b) inside a function that has a *sql.Tx parameter, everything runs on that tx (or a
			// statement parameter); *sql.DB is used only outside (schema creation, reset)
			fd := findFuncDecl(b.Pkg, s.Pos)
			var txPar types.Object
			var stmtPars []types.Object
			if fd != nil {
				sig := info.Defs[fd.Name].(*types.Func).Type().(*types.Signature)
				for i := 0; i < sig.Params().Len(); i++ {
					v := sig.Params().At(i)
					if isNamed(v.Type(), "database/sql", "Tx") {
						txPar = v
					}
					if isNamed(v.Type(), "database/sql", "Stmt") {
						stmtPars = append(stmtPars, v)
					}
				}
			}
			sel := ast.Unparen(s.Call.Fun).(*ast.SelectorExpr)
			rid, _ := ast.Unparen(sel.X).(*ast.Ident)
			switch {
			case txPar != nil:
				ok := false
				if rid != nil {
					if s.RecvType == "Tx" && info.Uses[rid] == txPar {
						ok = true
					}
					if s.RecvType == "Stmt" {
						for _, sp := range stmtPars {
							if info.Uses[rid] == sp {
								ok = true
							}
						}
					}
				}
				c.check(ok, key+"/on-transaction", s.Pos, "runs on the SQL transaction of this Execute", "statement does not run on the *sql.Tx (or a prepared statement) handed to this function: it escapes the batch's transaction")
			case s.RecvType == "DB":
				// only DDL / DROP outside of Execute
				txt, _ := constString(info, s.SQLArg)
				ss, err := parseSQLScript(txt)
				okDDL := err == nil
				for _, st := range ss {
					if st.Kind != "create_table" && st.Kind != "create_index" && st.Kind != "drop_table" && !(st.Kind == "insert" && st.Table == "migrations") {
						okDDL = false
					}
				}
				c.check(okDDL && fd != nil && fd != b.Execute, key+"/db-only-schema", s.Pos, "*sql.DB is used for schema statements only", "a data statement runs directly on *sql.DB, outside any Execute transaction")
			default:
				c.bad(key+"/on-transaction", s.Pos, "SQL executed in a function that has no *sql.Tx parameter")
			}
		}
	}
	c.count("sql_call_sites", nSites)
	c.floor("database/sql call sites", nSites, 50)
	// (c) who may use database/sql
	for _, pk := range c.P.Roots {
		if pk.PkgPath == pkgSqlite || pk.PkgPath == pkgPostgres {
			continue
		}
		for _, f := range pk.Syntax {
			if isTestFile(c.P, f.Pos()) {
				continue
			}
			for _, im := range f.Imports {
				if im.Path.Value == `"database/sql"` {
					c.bad("who-may-use/"+pk.PkgPath, im.Pos(), "package "+pk.PkgPath+" uses database/sql: durable state must be written by the two store backends only")
				}
			}
		}
	}
	c.ok("who-may-use", 0, "only the two store packages import database/sql")
}

func findFuncDecl(pk *packages.Package, pos token.Pos) *ast.FuncDecl {
	for _, fd := range allFuncDecls(pk) {
		if fd.Pos() <= pos && pos <= fd.End() {
			return fd
		}
	}
	return nil
}

// ---- error discipline ----

// ruleErrDiscipline: in the given packages every error produced by a call is, on every path,
// tested and returned (possibly wrapped) before it is overwritten or the function returns.
func ruleErrDiscipline(pkgs ...string) ruleFn {
	return func(c *Ctx) {
		n := 0
		for _, pp := range pkgs {
			pk := c.P.Pkg(pp)
			if pk == nil {
				c.und("pkg/"+pp, 0, "package not loaded")
				continue
			}
			for _, fd := range allFuncDecls(pk) {
				if isTestFile(c.P, fd.Pos()) {
					continue
				}
				n += c.errDisciplineFunc(pk, fd)
			}
		}
		c.count("error_producing_calls", n)
		c.floor("error-producing calls analysed", n, 150)
	}
}

func (c *Ctx) errDisciplineFunc(pk *packages.Package, fd *ast.FuncDecl) int {
	info := pk.TypesInfo
	g := buildCFG(pk, fd.Body)
	name := funcName(fd)
	short := pk.Name + "." + name
	count := 0
	occ := map[string]int{}
	// does the function return an error at all?
	sig := info.Defs[fd.Name].(*types.Func).Type().(*types.Signature)
	returnsErr := false
	for i := 0; i < sig.Results().Len(); i++ {
		if isErrorType(sig.Results().At(i).Type()) {
			returnsErr = true
		}
	}
	for _, b := range g.Blocks {
		for idx, nd := range b.Nodes {
			// dropped error: expression statement calling something that returns an error
			if es, ok := nd.(*ast.ExprStmt); ok {
				if call, ok := ast.Unparen(es.X).(*ast.CallExpr); ok {
					if tv, ok := info.Types[call]; ok && resultHasError(tv.Type) {
						cn := calleeName(info, call)
						if strings.HasSuffix(cn, ".Close") || strings.HasPrefix(cn, "fmt.") || strings.HasPrefix(cn, "Builder.") {
							continue
						}
						count++
						occ[cn]++
						c.bad(fmt.Sprintf("%s/%s#%d/dropped", short, cn, occ[cn]), call.Pos(), "the error returned by "+cn+" is discarded")
					}
				}
				continue
			}
			var lhsErr types.Object
			var call *ast.CallExpr
			switch s := nd.(type) {
			case *ast.AssignStmt:
				if len(s.Rhs) != 1 {
					continue
				}
				cl, ok := ast.Unparen(s.Rhs[0]).(*ast.CallExpr)
				if !ok {
					continue
				}
				for _, l := range s.Lhs {
					if id, ok := l.(*ast.Ident); ok && id.Name != "_" {
						o := info.Defs[id]
						if o == nil {
							o = info.Uses[id]
						}
						if o != nil && isErrorType(o.Type()) {
							lhsErr = o
						}
					}
					if id, ok := l.(*ast.Ident); ok && id.Name == "_" {
						// blank-assigned error?
						if tv, ok := info.Types[cl]; ok {
							if tup, ok := tv.Type.(*types.Tuple); ok {
								for i := 0; i < tup.Len() && i < len(s.Lhs); i++ {
									if s.Lhs[i] == l && isErrorType(tup.At(i).Type()) {
										cn := calleeName(info, cl)
										count++
										occ[cn]++
										c.bad(fmt.Sprintf("%s/%s#%d/dropped", short, cn, occ[cn]), cl.Pos(), "the error returned by "+cn+" is assigned to _")
									}
								}
							}
						}
					}
				}
				call = cl
			}
			if lhsErr == nil || call == nil {
				continue
			}
			// only calls that actually produce the error (not err = fmt.Errorf(… err …) re-wraps)
			if mentions(info, call, lhsErr) {
				continue
			}
			cn := calleeName(info, call)
			if !storageProducer(info, pk, call) {
				continue
			}
			count++
			occ[cn]++
			key := fmt.Sprintf("%s/%s#%d", short, cn, occ[cn])
			verdict, where := walkErr(info, g, b, idx+1, lhsErr, returnsErr)
			switch verdict {
			case "ok":
				c.ok(key, call.Pos(), "error is tested and propagated on every path")
			default:
				o := c.bad(key, call.Pos(), "the error of "+cn+" "+verdict)
				if where.IsValid() {
					o.Path = []string{"offending exit: " + c.P.pos(where)}
				}
			}
		}
	}
	return count
}

// storageProducer: the obligation covers errors produced by database/sql, by encoding/json (what is
// about to be stored), and by functions of the store packages themselves.
func storageProducer(info *types.Info, pk *packages.Package, call *ast.CallExpr) bool {
	fn, ok := calleeOf(info, call).(*types.Func)
	if !ok || fn.Pkg() == nil {
		return true // calls through function values / interfaces: keep the obligation
	}
	switch fn.Pkg().Path() {
	case "database/sql", "encoding/json", pkgStore, pkgSqlite, pkgPostgres:
		return true
	}
	return fn.Pkg().Path() == pk.PkgPath
}

func resultHasError(t types.Type) bool {
	if isErrorType(t) {
		return true
	}
	if tup, ok := t.(*types.Tuple); ok {
		for i := 0; i < tup.Len(); i++ {
			if isErrorType(tup.At(i).Type()) {
				return true
			}
		}
	}
	return false
}

// walkErr follows every path from (block, idx) while the error held in obj is pending.
// mode "pending": not yet tested; mode "must": known non-nil, must be returned/handed on.
func walkErr(info *types.Info, g *cfg.CFG, start *cfg.Block, idx int, obj types.Object, returnsErr bool) (string, token.Pos) {
	type state struct {
		b    *cfg.Block
		must bool
	}
	seen := map[state]bool{}
	var bad string
	var badPos token.Pos
	var walk func(b *cfg.Block, from int, must bool)
	walk = func(b *cfg.Block, from int, must bool) {
		if bad != "" {
			return
		}
		if from == 0 {
			st := state{b, must}
			if seen[st] {
				return
			}
			seen[st] = true
		}
		for i := from; i < len(b.Nodes); i++ {
			nd := b.Nodes[i]
			if rs, ok := nd.(*ast.ReturnStmt); ok {
				if returnsErr {
					for _, r := range rs.Results {
						if mentions(info, r, obj) {
							return
						}
					}
					if len(rs.Results) == 0 {
						return // named results
					}
					if must {
						bad, badPos = "is known to be non-nil but the function returns without it", rs.Pos()
					} else {
						bad, badPos = "is never tested before the function returns", rs.Pos()
					}
					return
				}
				if must {
					return // function cannot return errors; the non-nil branch ended (logged/handled locally)
				}
				bad, badPos = "is never tested before the function returns", rs.Pos()
				return
			}
			if rhs, ok := assignsTo(info, nd, obj); ok {
				uses := false
				for _, r := range rhs {
					if mentions(info, r, obj) {
						uses = true
					}
				}
				if !uses {
					if must {
						bad, badPos = "is overwritten on the failure path before being returned", nd.Pos()
					} else {
						bad, badPos = "is overwritten before being tested", nd.Pos()
					}
					return
				}
			}
			// wrapped into another error value (err = fmt.Errorf("… %v", err, rbErr)): handed on
			if as, ok := nd.(*ast.AssignStmt); ok && must {
				for i, l := range as.Lhs {
					if id, ok := l.(*ast.Ident); ok && i < len(as.Rhs) {
						lo := info.Uses[id]
						if lo == nil {
							lo = info.Defs[id]
						}
						if lo != nil && lo != obj && isErrorType(lo.Type()) && mentions(info, as.Rhs[i], obj) {
							return
						}
					}
				}
			}
			// handing the error to a call (send on error channel, callback) counts as propagation when the function cannot return it
			if must && !returnsErr {
				if _, isExpr := nd.(ast.Expr); !isExpr && mentions(info, nd, obj) {
					return
				}
			}
		}
		if len(b.Succs) == 0 {
			if must && !returnsErr {
				return
			}
			if !must {
				// falling off the end with an untested error
				bad, badPos = "is never tested before the function ends", token.NoPos
			} else {
				bad, badPos = "is known to be non-nil but the function ends without returning it", token.NoPos
			}
			return
		}
		if len(b.Succs) == 2 && len(b.Nodes) > 0 {
			if cond, ok := b.Nodes[len(b.Nodes)-1].(ast.Expr); ok {
				if o, nonNil, ok := nilTest(info, cond); ok && o == obj {
					t, f := b.Succs[0], b.Succs[1]
					if !nonNil {
						t, f = f, t
					}
					walk(t, 0, true) // non-nil branch
					_ = f            // nil branch: discharged
					return
				}
				// err == sql.ErrNoRows style sentinel comparison: the true branch handled the sentinel
				if be, ok := ast.Unparen(cond).(*ast.BinaryExpr); ok && (be.Op == token.EQL || be.Op == token.NEQ) && mentions(info, be, obj) {
					if _, _, isNilT := nilTest(info, cond); !isNilT {
						handled, other := b.Succs[0], b.Succs[1]
						if be.Op == token.NEQ {
							handled, other = other, handled
						}
						_ = handled
						walk(other, 0, must)
						return
					}
				}
				// errors.Is / errors.As guards
				if call, ok := ast.Unparen(cond).(*ast.CallExpr); ok && mentions(info, call, obj) {
					cn := calleeName(info, call)
					if cn == "errors.Is" || cn == "errors.As" {
						walk(b.Succs[1], 0, must)
						return
					}
				}
			}
		}
		for _, s := range b.Succs {
			walk(s, 0, must)
		}
	}
	walk(start, idx, false)
	if bad != "" {
		return bad, badPos
	}
	return "ok", token.NoPos
}

// ---- table ownership & schema facts ----

// ruleTableWriters: the statements that write table T are exactly those the spec lists for T, in
// both backends; nothing deletes from a table the caller declares append-only.
func ruleTableWriters(table string, allowDelete bool) ruleFn {
	return func(c *Ctx) {
		m := c.sqlModel()
		if m.Err != nil {
			c.und("model", 0, m.Err.Error())
			return
		}
		// expected writers from the spec
		want := map[string]bool{}
		for _, k := range m.Order {
			f := m.Spec[k].Facts
			if f.Table == table && f.Kind != "select" {
				want[f.Kind+" "+table+" "+strings.Join(f.Where, " AND ")+" "+mapString(f.Sets)] = true
			}
		}
		for _, b := range m.Backends {
			n := 0
			type st struct {
				name string
				text string
			}
			var texts []st
			var names []string
			for nme := range b.Consts {
				names = append(names, nme)
			}
			sort.Strings(names)
			for _, nme := range names {
				texts = append(texts, st{nme, b.Consts[nme]})
			}
			// SQL literals that are not named constants
			for _, s := range b.Sites {
				if s.SQLArg != nil {
					if cn, txt, _, ok := b.sqlTextOf(s.SQLArg); ok && cn == "" {
						texts = append(texts, st{"<literal in " + s.Func + ">", txt})
					}
				}
			}
			for _, t := range texts {
				low := strings.ToLower(t.text)
				if !strings.Contains(low, table) {
					continue
				}
				ss, err := parseSQLScript(t.text)
				if err != nil {
					// not SQL (format strings, paths): only a problem if it reaches database/sql, which bind reports
					continue
				}
				for _, s := range ss {
					if s.Table != table {
						continue
					}
					switch s.Kind {
					case "select", "create_table", "create_index":
						continue
					case "drop_table":
						// allowed only via Reset (checked by the lifecycle rule); note it
						c.ok(b.Name+"/"+table+"/drop-only-in-reset-constant", b.DDLPos, "DROP TABLE appears only in "+t.name)
						continue
					case "delete":
						if !allowDelete {
							c.bad(b.Name+"/"+table+"/no-delete/"+t.name, b.DDLPos, "statement "+t.name+" deletes rows of "+table+": a created "+strings.TrimSuffix(table, "s")+" must never disappear")
							continue
						}
					}
					n++
					f := factsOf(s, func(e *sqlExpr) string { return ":?" })
					// is it one of the dispatched statements? (those are compared with the spec by R1)
					dispatched := false
					for _, k := range b.ArmOrder {
						for _, r := range b.resolveArm(c.P, b.Arms[k]) {
							if r.Const == t.name {
								dispatched = true
							}
						}
					}
					c.check(dispatched, b.Name+"/"+table+"/writer/"+t.name, b.DDLPos, "writer "+t.name+" is dispatched through a command kind and checked against the spec ("+f.Kind+")",
						"statement "+t.name+" writes "+table+" but is not reachable through a dispatched command kind: an unchecked writer of "+table)
				}
			}
			c.count("writers_of_"+table+"_"+b.Name, n)
		}
		_ = want
	}
}

// ruleSchema checks schema facts the properties rest on.
func ruleSchema(facts map[string][]string) ruleFn {
	return func(c *Ctx) {
		m := c.sqlModel()
		if m.Err != nil {
			c.und("model", 0, m.Err.Error())
			return
		}
		for _, b := range m.Backends {
			df := ddlFacts(b)
			if len(b.DDL) == 0 {
				c.und(b.Name+"/schema", b.Perform.Pos(), "schema statement not found or does not parse")
				continue
			}
			var tables []string
			for t := range facts {
				tables = append(tables, t)
			}
			sort.Strings(tables)
			for _, t := range tables {
				desc, ok := df[t]
				if !ok {
					c.bad(b.Name+"/schema/"+t, b.DDLPos, "table "+t+" is not created")
					continue
				}
				cols := strings.Fields(desc)
				for _, want := range facts[t] {
					found := false
					for _, col := range cols {
						if col == want {
							found = true
						}
					}
					c.check(found, b.Name+"/schema/"+t+"/"+strings.SplitN(want, ":", 2)[0], b.DDLPos, want, "schema of "+t+" lacks "+want+" (have: "+desc+")")
				}
				c.check(!strings.Contains(desc, "without IF NOT EXISTS"), b.Name+"/schema/"+t+"/if-not-exists", b.DDLPos, "CREATE TABLE IF NOT EXISTS", "CREATE TABLE "+t+" without IF NOT EXISTS: a restart on an existing database fails or recreates the table")
			}
			for _, s := range b.DDL {
				if s.Kind == "create_index" {
					c.check(s.IfNotExists, b.Name+"/schema/index/"+s.IndexName, b.DDLPos, "CREATE INDEX IF NOT EXISTS", "index "+s.IndexName+" created without IF NOT EXISTS")
				}
				if s.Kind == "insert" {
					c.check(s.Conflict != nil && s.Conflict.DoNothing, b.Name+"/schema/seed/"+s.Table, b.DDLPos, "seed row inserted with ON CONFLICT DO NOTHING", "seed insert into "+s.Table+" fails on restart (no ON CONFLICT DO NOTHING)")
				}
				if s.Kind != "create_table" && s.Kind != "create_index" && s.Kind != "insert" {
					c.bad(b.Name+"/schema/stmt/"+s.Kind, b.DDLPos, "start-up schema script contains a "+s.Kind+" statement")
				}
			}
		}
	}
}

// alwaysCallsOnParam reports whether the package-level function fn calls <param i>.<method>() on
// every path from its entry to each of its returns.
func alwaysCallsOnParam(pk *packages.Package, fn *types.Func, i int, method string) bool {
	fd := funcDeclOf(pk, fn)
	sig := fn.Type().(*types.Signature)
	if fd == nil || fd.Body == nil || i >= sig.Params().Len() {
		return false
	}
	par := sig.Params().At(i)
	info := pk.TypesInfo
	g := buildCFG(pk, fd.Body)
	gen := func(n ast.Node) []string {
		for _, call := range callsIn(n) {
			if se, ok := ast.Unparen(call.Fun).(*ast.SelectorExpr); ok && se.Sel.Name == method {
				if id, ok := ast.Unparen(se.X).(*ast.Ident); ok && info.Uses[id] == par {
					return []string{"called"}
				}
			}
		}
		return nil
	}
	rets := mustFacts(g, gen, nil, func(n ast.Node) bool { _, ok := n.(*ast.ReturnStmt); return ok })
	if len(rets) == 0 {
		return false
	}
	for rs, f := range rets {
		if !f["called"] && len(gen(rs)) == 0 {
			return false
		}
	}
	return true
}

// ruleStmtPrepared (C16/C17): the store prepares each statement lazily, once per batch
// (`if stmt == nil { stmt, err = tx.Prepare(CONST) … }`) and hands it to the command's handler. On
// every path to a call that takes a *sql.Stmt variable, that variable was either found non-nil or
// has just been prepared (must-facts with the outcome of the nil test on the edges): otherwise the
// handler executes a nil statement and the store goroutine panics in the middle of a batch.
func ruleStmtPrepared(c *Ctx) {
	m := c.sqlModel()
	if m.Err != nil {
		c.und("model", 0, m.Err.Error())
		return
	}
	n := 0
	for _, b := range m.Backends {
		info := b.Pkg.TypesInfo
		fd := b.Perform
		g := buildCFG(b.Pkg, fd.Body)
		isStmt := func(t types.Type) bool { return isNamed(t, "database/sql", "Stmt") }
		gen := func(nd ast.Node) []string {
			as, ok := nd.(*ast.AssignStmt)
			if !ok || len(as.Rhs) != 1 || len(as.Lhs) < 1 {
				return nil
			}
			call, ok := ast.Unparen(as.Rhs[0]).(*ast.CallExpr)
			if !ok {
				return nil
			}
			// a local closure that prepares into the variable it is handed by address
			if v, isVar := calleeOf(info, call).(*types.Var); isVar {
				if pi, _, isHelper := prepareHelperObj(b.Pkg, v, b.Perform.Body); isHelper && pi < len(call.Args) {
					if u, ok := ast.Unparen(call.Args[pi]).(*ast.UnaryExpr); ok && u.Op == token.AND {
						if id, ok := ast.Unparen(u.X).(*ast.Ident); ok {
							return []string{"ready:" + id.Name}
						}
					}
				}
				return nil
			}
			fn, ok := calleeOf(info, call).(*types.Func)
			if !ok {
				return nil
			}
			// a helper of the package that prepares into the variable it is handed by address (it
			// returns nil only with the statement set)
			if fn.Pkg() == b.Pkg.Types {
				if pi, _, isHelper := prepareHelper(b.Pkg, fn); isHelper && pi < len(call.Args) {
					if u, ok := ast.Unparen(call.Args[pi]).(*ast.UnaryExpr); ok && u.Op == token.AND {
						if id, ok := ast.Unparen(u.X).(*ast.Ident); ok {
							return []string{"ready:" + id.Name}
						}
					}
				}
				return nil
			}
			if fn.Name() != "Prepare" || fn.Pkg() == nil || fn.Pkg().Path() != "database/sql" {
				return nil
			}
			if id, ok := as.Lhs[0].(*ast.Ident); ok {
				return []string{"ready:" + id.Name}
			}
			return nil
		}
		edge := func(blk *cfg.Block, i int) []string {
			if len(blk.Succs) != 2 || len(blk.Nodes) == 0 {
				return nil
			}
			cond, ok := blk.Nodes[len(blk.Nodes)-1].(ast.Expr)
			if !ok {
				return nil
			}
			obj, nonNil, ok := nilTest(info, cond)
			if !ok || !isStmt(obj.Type()) {
				return nil
			}
			if (i == 0) == nonNil { // edge on which the statement is not nil
				return []string{"ready:" + obj.Name()}
			}
			return nil
		}
		uses := mustFacts(g, gen, edge, func(nd ast.Node) bool {
			found := false
			for _, call := range callsIn(nd) {
				for _, a := range call.Args {
					if id, ok := ast.Unparen(a).(*ast.Ident); ok {
						if v, ok := info.Uses[id].(*types.Var); ok && isStmt(v.Type()) {
							found = true
						}
					}
				}
			}
			return found
		})
		occ := map[string]int{}
		var nodes []ast.Node
		for nd := range uses {
			nodes = append(nodes, nd)
		}
		sort.Slice(nodes, func(i, j int) bool { return nodes[i].Pos() < nodes[j].Pos() })
		for _, nd := range nodes {
			f := uses[nd]
			for _, call := range callsIn(nd) {
				for _, a := range call.Args {
					id, ok := ast.Unparen(a).(*ast.Ident)
					if !ok {
						continue
					}
					v, ok := info.Uses[id].(*types.Var)
					if !ok || !isStmt(v.Type()) {
						continue
					}
					n++
					occ[id.Name]++
					key := fmt.Sprintf("stmt-prepared/%s/%s#%d", b.Name, id.Name, occ[id.Name])
					c.check(f["ready:"+id.Name], key, call.Pos(), id.Name+" is non-nil or freshly prepared on every path to this call", "the statement "+id.Name+" handed to "+calleeName(info, call)+" can still be nil here (it is prepared lazily): executing it panics on the store goroutine and fails the whole batch")
				}
			}
		}
	}
	c.count("prepared_statement_uses", n)
	c.floor("handler calls that take a prepared statement", n, 30)
}

// txWrapperOf: Execute hands a function literal to a method of the same package that begins the SQL
// transaction: returns that method, the literal and the call.
func txWrapperOf(pk *packages.Package, fd *ast.FuncDecl) (*ast.FuncDecl, *ast.FuncLit, *ast.CallExpr) {
	info := pk.TypesInfo
	var wfd *ast.FuncDecl
	var lit *ast.FuncLit
	var wcall *ast.CallExpr
	n := 0
	ast.Inspect(fd.Body, func(nd ast.Node) bool {
		call, ok := nd.(*ast.CallExpr)
		if !ok {
			return true
		}
		fn, ok := calleeOf(info, call).(*types.Func)
		if !ok || fn.Pkg() != pk.Types {
			return true
		}
		var fl *ast.FuncLit
		for _, a := range call.Args {
			if l, ok := ast.Unparen(a).(*ast.FuncLit); ok {
				fl = l
			}
		}
		if fl == nil {
			return true
		}
		cand := funcDeclOf(pk, fn)
		if cand == nil || cand.Body == nil {
			return true
		}
		begins := false
		ast.Inspect(cand.Body, func(x ast.Node) bool {
			if c2, ok := x.(*ast.CallExpr); ok {
				if f2, ok := calleeOf(info, c2).(*types.Func); ok && f2.Pkg() != nil && f2.Pkg().Path() == "database/sql" && strings.HasPrefix(f2.Name(), "Begin") {
					begins = true
				}
			}
			return true
		})
		if begins {
			wfd, lit, wcall = cand, fl, call
			n++
		}
		return true
	})
	if n != 1 {
		return nil, nil, nil
	}
	return wfd, lit, wcall
}

// closureParamConst: par is a parameter of a function literal of fd that is bound to a local
// variable; reports the number of calls of that variable and whether each passes constant SQL text
// in par's position.
func closureParamConst(b *backend, fd *ast.FuncDecl, par types.Object) (nCalls int, allConst bool, isLitPar bool) {
	info := b.Pkg.TypesInfo
	if par == nil || fd.Body == nil {
		return 0, false, false
	}
	var lit *ast.FuncLit
	idx := -1
	ast.Inspect(fd.Body, func(nd ast.Node) bool {
		fl, ok := nd.(*ast.FuncLit)
		if !ok {
			return true
		}
		k := 0
		for _, f := range fl.Type.Params.List {
			for _, nm := range f.Names {
				if info.Defs[nm] == par {
					lit, idx = fl, k
				}
				k++
			}
		}
		return true
	})
	if lit == nil {
		return 0, false, false
	}
	// the variable the literal is bound to
	var v types.Object
	ast.Inspect(fd.Body, func(nd ast.Node) bool {
		if as, ok := nd.(*ast.AssignStmt); ok && len(as.Lhs) == len(as.Rhs) {
			for i, r := range as.Rhs {
				if ast.Unparen(r) == ast.Expr(lit) {
					if id, ok := as.Lhs[i].(*ast.Ident); ok {
						v = info.Defs[id]
						if v == nil {
							v = info.Uses[id]
						}
					}
				}
			}
		}
		return true
	})
	if v == nil || closureOf(info, fd.Body, v) != lit {
		return 0, false, true
	}
	allConst = true
	for _, call := range callsInDeep(fd.Body) {
		if calleeOf(info, call) == v && idx < len(call.Args) {
			nCalls++
			if _, _, h2, ok2 := b.sqlTextOf(call.Args[idx]); !ok2 || len(h2) > 0 {
				allConst = false
			}
		}
	}
	// the closure must not escape (be passed on or stored): every use of v is a call
	uses := 0
	ast.Inspect(fd.Body, func(nd ast.Node) bool {
		if id, ok := nd.(*ast.Ident); ok && info.Uses[id] == v {
			uses++
		}
		return true
	})
	if uses != nCalls {
		allConst = false
	}
	return nCalls, allConst, true
}
