package main

// M-SQL / M-BIND / M-DISPATCH: the model of one store backend, extracted from the source on every
// run. Anchors are roles (the type implementing store.Store, the switch over t_aio.StoreKind, the
// calls that reach database/sql), never names or positions.

import (
	"fmt"
	"go/ast"
	"go/token"
	"go/types"
	"sort"
	"strings"

	"golang.org/x/tools/go/packages"
)

type sqlSite struct {
	Pos      token.Pos
	Func     string // enclosing function
	Method   string // Exec, Query, QueryRow, Prepare, ExecContext, ...
	RecvType string // DB, Tx, Stmt
	RecvExpr string
	Call     *ast.CallExpr
	SQLArg   ast.Expr // nil for Stmt methods
}

type execSite struct {
	Site      *sqlSite
	Const     string // name of the SQL constant (or "" if literal)
	Text      string // SQL text with %s hole kept
	HoleArgs  []ast.Expr
	StmtPar   int      // index of the *sql.Stmt parameter the call runs on (-1: runs on tx directly)
	Args      []string // normalised operands, in call order (variadic slices expanded)
	ArgPos    []token.Pos
	Scan      []string // record field names scanned, in order (selects)
	ScanPos   token.Pos
	Undecided []string
}

type subCall struct {
	Handler  string
	StmtPar  int    // which of this handler's stmt params is passed on
	CmdField string // cmd.<Field> passed as the sub-handler's command
	Pos      token.Pos
}

type handler struct {
	Name     string
	Decl     *ast.FuncDecl
	CmdType  string // e.g. UpdatePromiseCommand
	CmdParam *types.Var
	TxParam  *types.Var
	StmtPars []*types.Var
	Execs    []*execSite
	Subs     []subCall
}

type arm struct {
	Kind     string // StoreKind constant name
	Pos      token.Pos
	Handler  string
	StmtVars []string // prepared-statement variables passed, in order
	CmdField string   // command.<Field> handed to the handler
	Call     *ast.CallExpr
	Clause   *ast.CaseClause
	AssignOK bool // results[i][j], err = handler(...)
}

type backend struct {
	Name     string
	Pkg      *packages.Package
	Worker   string
	Execute  *ast.FuncDecl
	Perform  *ast.FuncDecl
	Switch   *ast.SwitchStmt
	Arms     map[string]*arm
	ArmOrder []string
	Handlers map[string]*handler
	Prepares map[string][]string // stmt var -> constant names assigned via tx.Prepare
	PrepPos  map[string]token.Pos
	Sites    []*sqlSite
	Consts   map[string]string // SQL constant name -> text
	DDL      []*sqlStmt
	DDLPos   token.Pos
	Problems []string
}

func sqlRecvKind(t types.Type) string {
	if isNamed(t, "database/sql", "DB") {
		return "DB"
	}
	if isNamed(t, "database/sql", "Tx") {
		return "Tx"
	}
	if isNamed(t, "database/sql", "Stmt") {
		return "Stmt"
	}
	if isNamed(t, "database/sql", "Conn") {
		return "Conn"
	}
	return ""
}

var sqlTextMethods = map[string]bool{"Exec": true, "Query": true, "QueryRow": true, "Prepare": true,
	"ExecContext": true, "QueryContext": true, "QueryRowContext": true, "PrepareContext": true}

// sqlSitesIn lists every call in pk that executes or prepares SQL through database/sql.
func sqlSitesIn(p *Program, pk *packages.Package) []*sqlSite {
	var out []*sqlSite
	for _, fd := range allFuncDecls(pk) {
		if isTestFile(p, fd.Pos()) {
			continue
		}
		name := funcName(fd)
		ast.Inspect(fd.Body, func(n ast.Node) bool {
			call, ok := n.(*ast.CallExpr)
			if !ok {
				return true
			}
			sel, ok := ast.Unparen(call.Fun).(*ast.SelectorExpr)
			if !ok {
				return true
			}
			obj := calleeOf(pk.TypesInfo, call)
			fn, ok := obj.(*types.Func)
			if !ok || fn.Pkg() == nil || fn.Pkg().Path() != "database/sql" || !sqlTextMethods[fn.Name()] {
				return true
			}
			sig := fn.Type().(*types.Signature)
			if sig.Recv() == nil {
				return true
			}
			rk := sqlRecvKind(sig.Recv().Type())
			if rk == "" {
				return true
			}
			s := &sqlSite{Pos: call.Pos(), Func: name, Method: fn.Name(), RecvType: rk, RecvExpr: exprString(sel.X), Call: call}
			if rk != "Stmt" {
				idx := 0
				if strings.HasSuffix(fn.Name(), "Context") {
					idx = 1
				}
				if idx < len(call.Args) {
					s.SQLArg = call.Args[idx]
				}
			}
			out = append(out, s)
			return true
		})
	}
	return out
}

func extractBackend(p *Program, name, pkgPath string) (*backend, error) {
	pk := p.Pkg(pkgPath)
	if pk == nil {
		return nil, fmt.Errorf("package %s not loaded", pkgPath)
	}
	b := &backend{Name: name, Pkg: pk, Arms: map[string]*arm{}, Handlers: map[string]*handler{},
		Prepares: map[string][]string{}, PrepPos: map[string]token.Pos{}, Consts: map[string]string{}}
	info := pk.TypesInfo

	// the type implementing store.Store
	storePk := p.Pkg(pkgStore)
	if storePk == nil {
		return nil, fmt.Errorf("package %s not loaded", pkgStore)
	}
	ifaceObj := storePk.Types.Scope().Lookup("Store")
	if ifaceObj == nil {
		return nil, fmt.Errorf("store.Store not found")
	}
	iface, ok := ifaceObj.Type().Underlying().(*types.Interface)
	if !ok {
		return nil, fmt.Errorf("store.Store is not an interface")
	}
	for _, n := range pk.Types.Scope().Names() {
		tn, ok := pk.Types.Scope().Lookup(n).(*types.TypeName)
		if !ok {
			continue
		}
		if types.Implements(types.NewPointer(tn.Type()), iface) {
			if b.Worker != "" {
				return nil, fmt.Errorf("%s: two types implement store.Store (%s, %s)", name, b.Worker, n)
			}
			b.Worker = n
		}
	}
	if b.Worker == "" {
		return nil, fmt.Errorf("%s: no type implements store.Store", name)
	}
	// every method of iface
	b.Execute = funcDecl(pk, b.Worker, "Execute")
	if b.Execute == nil {
		return nil, fmt.Errorf("%s: %s.Execute not found", name, b.Worker)
	}

	// SQL constants
	for _, n := range pk.Types.Scope().Names() {
		if c, ok := pk.Types.Scope().Lookup(n).(*types.Const); ok && c.Val().Kind().String() == "String" {
			var s string
			fmt.Sscanf(c.Val().ExactString(), "%q", &s)
			b.Consts[n] = s
		}
	}

	// the method with the switch over t_aio.StoreKind
	for _, fd := range allFuncDecls(pk) {
		if fd.Recv == nil || recvTypeName(fd.Recv.List[0].Type) != b.Worker {
			continue
		}
		ast.Inspect(fd.Body, func(n ast.Node) bool {
			sw, ok := n.(*ast.SwitchStmt)
			if !ok || sw.Tag == nil {
				return true
			}
			if tv, ok := info.Types[sw.Tag]; ok && isNamed(tv.Type, pkgTAio, "StoreKind") {
				if b.Switch != nil {
					b.Problems = append(b.Problems, "more than one switch over StoreKind in "+b.Worker)
				}
				b.Switch = sw
				b.Perform = fd
			}
			return true
		})
	}
	if b.Switch == nil {
		return nil, fmt.Errorf("%s: no switch over t_aio.StoreKind in a method of %s", name, b.Worker)
	}

	// prepared statement variables: v, err = tx.Prepare(CONST)
	ast.Inspect(b.Perform.Body, func(n ast.Node) bool {
		as, ok := n.(*ast.AssignStmt)
		if !ok || len(as.Rhs) != 1 {
			return true
		}
		call, ok := as.Rhs[0].(*ast.CallExpr)
		if !ok {
			return true
		}
		fn, ok := calleeOf(info, call).(*types.Func)
		if !ok || fn.Pkg() == nil || fn.Pkg().Path() != "database/sql" || !strings.HasPrefix(fn.Name(), "Prepare") {
			return true
		}
		id, ok := as.Lhs[0].(*ast.Ident)
		if !ok {
			b.Problems = append(b.Problems, "Prepare result not assigned to a variable at "+p.pos(as.Pos()))
			return true
		}
		arg := call.Args[len(call.Args)-1]
		cn := ""
		if aid, ok := ast.Unparen(arg).(*ast.Ident); ok {
			if _, ok := info.Uses[aid].(*types.Const); ok {
				cn = aid.Name
			}
		}
		if cn == "" {
			if _, ok := constString(info, arg); ok {
				cn = "<literal>"
			} else {
				cn = "<non-constant>"
			}
		}
		b.Prepares[id.Name] = append(b.Prepares[id.Name], cn)
		b.PrepPos[id.Name] = as.Pos()
		return true
	})
	// … or through a helper of the package that prepares its query parameter into the statement
	// variable it is handed by address: prepare(tx, &v, CONST, …)
	ast.Inspect(b.Perform.Body, func(n ast.Node) bool {
		call, ok := n.(*ast.CallExpr)
		if !ok {
			return true
		}
		fn := calleeOf(info, call)
		if fn == nil || fn.Pkg() != pk.Types {
			return true
		}
		if _, isBuiltinOrType := fn.(*types.TypeName); isBuiltinOrType {
			return true
		}
		pi, qi, ok := prepareHelperObj(pk, fn, b.Perform.Body)
		if !ok || pi >= len(call.Args) || qi >= len(call.Args) {
			return true
		}
		u, ok := ast.Unparen(call.Args[pi]).(*ast.UnaryExpr)
		if !ok || u.Op != token.AND {
			b.Problems = append(b.Problems, "statement prepared by "+fn.Name()+" is not stored in a variable at "+p.pos(call.Pos()))
			return true
		}
		id, ok := ast.Unparen(u.X).(*ast.Ident)
		if !ok {
			b.Problems = append(b.Problems, "statement prepared by "+fn.Name()+" is not stored in a variable at "+p.pos(call.Pos()))
			return true
		}
		arg := call.Args[qi]
		cn := ""
		if aid, ok := ast.Unparen(arg).(*ast.Ident); ok {
			if _, ok := info.Uses[aid].(*types.Const); ok {
				cn = aid.Name
			}
		}
		if cn == "" {
			if _, ok := constString(info, arg); ok {
				cn = "<literal>"
			} else {
				cn = "<non-constant>"
			}
		}
		b.Prepares[id.Name] = append(b.Prepares[id.Name], cn)
		b.PrepPos[id.Name] = call.Pos()
		return true
	})

	// arms
	for _, st := range b.Switch.Body.List {
		cc := st.(*ast.CaseClause)
		if cc.List == nil {
			continue
		}
		for _, ce := range cc.List {
			kn := ""
			switch e := ast.Unparen(ce).(type) {
			case *ast.SelectorExpr:
				kn = e.Sel.Name
			case *ast.Ident:
				kn = e.Name
			}
			a := &arm{Kind: kn, Pos: cc.Pos(), Clause: cc}
			// find the handler call: an assignment whose RHS is a call of a method of the worker
			for _, s := range cc.Body {
				as, ok := s.(*ast.AssignStmt)
				if !ok || len(as.Rhs) != 1 {
					continue
				}
				call, ok := as.Rhs[0].(*ast.CallExpr)
				if !ok {
					continue
				}
				fn, ok := calleeOf(info, call).(*types.Func)
				if !ok {
					continue
				}
				sig := fn.Type().(*types.Signature)
				if sig.Recv() == nil || namedName(sig.Recv().Type()) != b.Worker {
					continue
				}
				if a.Handler != "" {
					b.Problems = append(b.Problems, "arm "+kn+" calls more than one handler")
				}
				a.Handler = fn.Name()
				a.Call = call
				if len(as.Lhs) == 2 {
					l0 := exprString(as.Lhs[0])
					l1 := exprString(as.Lhs[1])
					a.AssignOK = strings.HasPrefix(l0, "results[") && l1 == "err"
				}
				for _, arg := range call.Args {
					tv := info.Types[arg]
					switch {
					case isNamed(tv.Type, "database/sql", "Stmt"):
						a.StmtVars = append(a.StmtVars, exprString(arg))
					case isNamed(tv.Type, "database/sql", "Tx"):
					default:
						if se, ok := ast.Unparen(arg).(*ast.SelectorExpr); ok {
							a.CmdField = se.Sel.Name
						} else {
							a.CmdField = "?" + exprString(arg)
						}
					}
				}
			}
			b.Arms[kn] = a
			b.ArmOrder = append(b.ArmOrder, kn)
		}
	}

	// all SQL sites
	b.Sites = sqlSitesIn(p, pk)

	// handlers: methods of the worker taking a *t_aio.XCommand
	for _, fd := range allFuncDecls(pk) {
		if fd.Recv == nil || recvTypeName(fd.Recv.List[0].Type) != b.Worker {
			continue
		}
		obj := info.Defs[fd.Name].(*types.Func)
		sig := obj.Type().(*types.Signature)
		h := &handler{Name: fd.Name.Name, Decl: fd}
		for i := 0; i < sig.Params().Len(); i++ {
			v := sig.Params().At(i)
			switch {
			case isNamed(v.Type(), "database/sql", "Tx"):
				h.TxParam = v
			case isNamed(v.Type(), "database/sql", "Stmt"):
				h.StmtPars = append(h.StmtPars, v)
			case namedPkgPath(v.Type()) == pkgTAio && strings.HasSuffix(namedName(v.Type()), "Command"):
				h.CmdParam = v
				h.CmdType = namedName(v.Type())
			}
		}
		if h.CmdParam == nil {
			continue
		}
		b.extractHandler(p, h)
		b.Handlers[h.Name] = h
	}

	// DDL: the constant executed on the *sql.DB in a Start method
	for _, s := range b.Sites {
		if s.RecvType == "DB" && strings.HasSuffix(s.Func, ".Start") && s.SQLArg != nil {
			if txt, ok := constString(info, s.SQLArg); ok {
				ss, err := parseSQLScript(txt)
				if err != nil {
					b.Problems = append(b.Problems, "schema does not parse: "+err.Error())
				}
				b.DDL = ss
				b.DDLPos = s.Pos
			}
		}
	}
	return b, nil
}

// sqlTextOf resolves the SQL text argument of a site: a constant, or fmt.Sprintf(CONST, holes...).
func (b *backend) sqlTextOf(e ast.Expr) (constName, text string, holes []ast.Expr, ok bool) {
	info := b.Pkg.TypesInfo
	e = ast.Unparen(e)
	if id, isId := e.(*ast.Ident); isId {
		if _, isConst := info.Uses[id].(*types.Const); isConst {
			constName = id.Name
		}
	}
	if s, isConst := constString(info, e); isConst {
		return constName, s, nil, true
	}
	if call, isCall := e.(*ast.CallExpr); isCall {
		if fn, isFn := calleeOf(info, call).(*types.Func); isFn && fn.Pkg() != nil && fn.Pkg().Path() == "fmt" && fn.Name() == "Sprintf" && len(call.Args) >= 1 {
			cn, s, _, ok2 := b.sqlTextOf(call.Args[0])
			if ok2 {
				return cn, s, call.Args[1:], true
			}
		}
	}
	return "", "", nil, false
}

// extractHandler fills Execs/Subs: the SQL calls of a handler with their normalised operands.
func (b *backend) extractHandler(p *Program, h *handler) {
	info := b.Pkg.TypesInfo
	env := newLocalEnv(b.Pkg, h.Decl, h.CmdParam)
	ast.Inspect(h.Decl.Body, func(n ast.Node) bool {
		call, ok := n.(*ast.CallExpr)
		if !ok {
			return true
		}
		fn, ok := calleeOf(info, call).(*types.Func)
		if !ok {
			return true
		}
		sig := fn.Type().(*types.Signature)
		// sub-handler call
		if sig.Recv() != nil && namedName(sig.Recv().Type()) == b.Worker && namedPkgPath(sig.Recv().Type()) == b.Pkg.PkgPath {
			sc := subCall{Handler: fn.Name(), StmtPar: -1, Pos: call.Pos()}
			for _, arg := range call.Args {
				tv := info.Types[arg]
				if isNamed(tv.Type, "database/sql", "Stmt") {
					if id, ok := ast.Unparen(arg).(*ast.Ident); ok {
						for i, sp := range h.StmtPars {
							if info.Uses[id] == sp {
								sc.StmtPar = i
							}
						}
					}
				} else if namedPkgPath(tv.Type) == pkgTAio {
					sc.CmdField = env.norm(arg)
				}
			}
			h.Subs = append(h.Subs, sc)
			return true
		}
		if fn.Pkg() == nil || fn.Pkg().Path() != "database/sql" || sig.Recv() == nil {
			return true
		}
		rk := sqlRecvKind(sig.Recv().Type())
		if rk == "" || !sqlTextMethods[fn.Name()] || strings.HasPrefix(fn.Name(), "Prepare") {
			return true
		}
		sel := ast.Unparen(call.Fun).(*ast.SelectorExpr)
		es := &execSite{StmtPar: -1}
		for _, s := range b.Sites {
			if s.Call == call {
				es.Site = s
			}
		}
		if es.Site == nil {
			es.Site = &sqlSite{Pos: call.Pos(), Func: funcName(h.Decl), Method: fn.Name(), RecvType: rk, Call: call}
		}
		args := call.Args
		if strings.HasSuffix(fn.Name(), "Context") {
			args = args[1:]
		}
		if rk == "Stmt" {
			if id, ok := ast.Unparen(sel.X).(*ast.Ident); ok {
				for i, sp := range h.StmtPars {
					if info.Uses[id] == sp {
						es.StmtPar = i
					}
				}
			}
			if es.StmtPar < 0 {
				es.Undecided = append(es.Undecided, "statement receiver "+exprString(sel.X)+" is not a *sql.Stmt parameter")
			}
		} else {
			cn, txt, holes, ok := b.sqlTextOf(args[0])
			if !ok {
				es.Undecided = append(es.Undecided, "SQL text is not a compile-time constant: "+exprString(args[0]))
			}
			es.Const, es.Text, es.HoleArgs = cn, txt, holes
			args = args[1:]
		}
		// operands
		for i, a := range args {
			if call.Ellipsis.IsValid() && i == len(args)-1 {
				elems, ok := env.sliceElems(a)
				if !ok {
					es.Undecided = append(es.Undecided, "variadic operand list "+exprString(a)+" not understood")
				}
				for _, e := range elems {
					es.Args = append(es.Args, e)
					es.ArgPos = append(es.ArgPos, a.Pos())
				}
			} else {
				es.Args = append(es.Args, env.norm(a))
				es.ArgPos = append(es.ArgPos, a.Pos())
			}
		}
		h.Execs = append(h.Execs, es)
		return true
	})
	// scans: calls of (*sql.Row).Scan / (*sql.Rows).Scan; attach to the preceding query site. The
	// scan loop may live in a helper of the package that is handed the rows.
	scanBodies := []ast.Node{h.Decl.Body}
	for _, call := range callsIn(h.Decl.Body) {
		fn, ok := calleeOf(info, call).(*types.Func)
		if !ok || fn.Pkg() != b.Pkg.Types {
			continue
		}
		takesRows := false
		for _, a := range call.Args {
			if tv, ok := info.Types[a]; ok && (isNamed(tv.Type, "database/sql", "Rows") || isNamed(tv.Type, "database/sql", "Row")) {
				takesRows = true
			}
		}
		if takesRows {
			if hd := funcDeclOf(b.Pkg, fn); hd != nil && hd.Body != nil {
				scanBodies = append(scanBodies, hd.Body)
			}
		}
	}
	for _, scanBody := range scanBodies {
		ast.Inspect(scanBody, func(n ast.Node) bool {
			call, ok := n.(*ast.CallExpr)
			if !ok {
				return true
			}
			fn, ok := calleeOf(info, call).(*types.Func)
			if !ok || fn.Pkg() == nil || fn.Pkg().Path() != "database/sql" || fn.Name() != "Scan" {
				return true
			}
			var fields []string
			for _, a := range call.Args {
				f := "?" + exprString(a)
				if u, ok := ast.Unparen(a).(*ast.UnaryExpr); ok && u.Op == token.AND {
					if se, ok := ast.Unparen(u.X).(*ast.SelectorExpr); ok {
						f = se.Sel.Name
					}
				}
				fields = append(fields, f)
			}
			// the query site of this handler (handlers have exactly one query)
			var q *execSite
			for _, es := range h.Execs {
				if strings.HasPrefix(es.Site.Method, "Query") {
					if q != nil {
						q = nil
						break
					}
					q = es
				}
			}
			if q != nil {
				if q.Scan != nil {
					q.Undecided = append(q.Undecided, "more than one Scan call")
				}
				q.Scan = fields
				q.ScanPos = call.Pos()
			}
			return true
		})
	}
	sort.SliceStable(h.Execs, func(i, j int) bool { return h.Execs[i].Site.Pos < h.Execs[j].Site.Pos })
}

// ---- local environment: normalising Go operand expressions to operand names ----

type localEnv struct {
	pk   *packages.Package
	fd   *ast.FuncDecl
	cmd  *types.Var
	defs map[types.Object][]ast.Node // every node that assigns the object
	encl map[ast.Node][]ast.Node     // parents chain for assignment nodes
	// roots: parameters of an extracted helper that stand for a field path of the caller's command
	roots map[types.Object]string
	depth int
}

func newLocalEnv(pk *packages.Package, fd *ast.FuncDecl, cmd *types.Var) *localEnv {
	env := &localEnv{pk: pk, fd: fd, cmd: cmd, defs: map[types.Object][]ast.Node{}, encl: map[ast.Node][]ast.Node{}}
	info := pk.TypesInfo
	var stack []ast.Node
	ast.Inspect(fd.Body, func(n ast.Node) bool {
		if n == nil {
			stack = stack[:len(stack)-1]
			return true
		}
		record := func(id *ast.Ident, node ast.Node) {
			var obj types.Object
			if o := info.Defs[id]; o != nil {
				obj = o
			} else {
				obj = info.Uses[id]
			}
			if obj != nil {
				env.defs[obj] = append(env.defs[obj], node)
				env.encl[node] = append([]ast.Node(nil), stack...)
			}
		}
		switch s := n.(type) {
		case *ast.AssignStmt:
			for _, l := range s.Lhs {
				if id, ok := l.(*ast.Ident); ok && id.Name != "_" {
					record(id, s)
				}
			}
		case *ast.ValueSpec:
			for _, id := range s.Names {
				record(id, s)
			}
		case *ast.IncDecStmt:
			if id, ok := s.X.(*ast.Ident); ok {
				record(id, s)
			}
		case *ast.RangeStmt:
			if id, ok := s.Key.(*ast.Ident); ok && id.Name != "_" {
				record(id, s)
			}
			if id, ok := s.Value.(*ast.Ident); ok && id.Name != "_" {
				record(id, s)
			}
		}
		stack = append(stack, n)
		return true
	})
	return env
}

// path renders cmd.A.B as "A.B"; ok=false if e is not a field path of the command parameter.
func (env *localEnv) path(e ast.Expr) (string, bool) {
	e = ast.Unparen(e)
	switch x := e.(type) {
	case *ast.Ident:
		if env.cmd != nil && env.pk.TypesInfo.Uses[x] == env.cmd {
			return "", true
		}
		if r, ok := env.roots[env.pk.TypesInfo.Uses[x]]; ok {
			return r, true
		}
	case *ast.SelectorExpr:
		if base, ok := env.path(x.X); ok {
			if base == "" {
				return x.Sel.Name, true
			}
			return base + "." + x.Sel.Name, true
		}
	}
	return "", false
}

func (env *localEnv) isCall(e ast.Expr, pkg, name string) (*ast.CallExpr, bool) {
	call, ok := ast.Unparen(e).(*ast.CallExpr)
	if !ok {
		return nil, false
	}
	fn, ok := calleeOf(env.pk.TypesInfo, call).(*types.Func)
	if !ok || fn.Pkg() == nil || fn.Pkg().Path() != pkg || fn.Name() != name {
		return nil, false
	}
	return call, true
}

// norm gives the operand name of a Go expression used as a SQL argument.
func (env *localEnv) norm(e ast.Expr) string {
	e = ast.Unparen(e)
	if pth, ok := env.path(e); ok && pth != "" {
		return pth
	}
	info := env.pk.TypesInfo
	if tv, ok := info.Types[e]; ok && tv.Value != nil {
		return "const:" + tv.Value.ExactString()
	}
	id, ok := e.(*ast.Ident)
	if !ok {
		return "?" + exprString(e)
	}
	obj := info.Uses[id]
	defs := env.defs[obj]
	// P0: handed back by a helper of the package
	if sub, re, ok := env.helperResult(id); ok {
		// P4 through a helper: `if len(tags) == 0 { return nil, nil } … return util.ToPointer(string(json)), nil`
		if call, ok := sub.isCall(re, pkgUtil, "ToPointer"); ok && len(call.Args) == 1 {
			inner := ast.Unparen(call.Args[0])
			if conv, ok := inner.(*ast.CallExpr); ok && len(conv.Args) == 1 {
				inner = ast.Unparen(conv.Args[0])
			}
			if tid, ok := inner.(*ast.Ident); ok {
				if js := sub.norm(tid); strings.HasPrefix(js, "json(") {
					field := strings.TrimSuffix(strings.TrimPrefix(js, "json("), ")")
					guarded := false
					ast.Inspect(sub.fd.Body, func(n ast.Node) bool {
						ifs, ok := n.(*ast.IfStmt)
						if !ok || !terminates(ifs.Body.List) {
							return true
						}
						if be, ok := ast.Unparen(ifs.Cond).(*ast.BinaryExpr); ok && be.Op == token.EQL {
							if lc, ok := ast.Unparen(be.X).(*ast.CallExpr); ok && exprString(lc.Fun) == "len" && len(lc.Args) == 1 {
								if pth, ok := sub.path(lc.Args[0]); ok && pth == field && exprString(be.Y) == "0" {
									guarded = true
								}
							}
						}
						return true
					})
					if guarded {
						return "jsonOrNull(" + field + ")"
					}
				}
			}
		}
		if r := sub.norm(re); !strings.HasPrefix(r, "?") {
			return r
		}
	}
	// P1/P2: a single defining assignment from json.Marshal / strings.ReplaceAll
	if len(defs) == 1 {
		if as, ok := defs[0].(*ast.AssignStmt); ok && len(as.Rhs) == 1 {
			if call, ok := env.isCall(as.Rhs[0], "encoding/json", "Marshal"); ok {
				if pth, ok := env.path(call.Args[0]); ok {
					return "json(" + pth + ")"
				}
			}
			if call, ok := env.isCall(as.Rhs[0], "strings", "ReplaceAll"); ok && len(call.Args) == 3 {
				from, ok1 := constString(info, call.Args[1])
				to, ok2 := constString(info, call.Args[2])
				if pth, ok := env.path(call.Args[0]); ok && ok1 && ok2 && from == "*" && to == "%" {
					return "like(" + pth + ")"
				}
			}
		}
	}
	// P3: bit mask accumulated over a range of a command field
	if len(defs) == 2 {
		var init, acc ast.Node
		for _, d := range defs {
			switch s := d.(type) {
			case *ast.ValueSpec:
				if len(s.Values) == 0 {
					init = d
				}
			case *ast.AssignStmt:
				if s.Tok == token.DEFINE && len(s.Rhs) == 1 {
					if v, ok := info.Types[s.Rhs[0]]; ok && v.Value != nil && v.Value.ExactString() == "0" {
						init = d
					}
				} else {
					acc = d
				}
			}
		}
		if init != nil && acc != nil {
			as := acc.(*ast.AssignStmt)
			var rng *ast.RangeStmt
			for _, par := range env.encl[acc] {
				if r, ok := par.(*ast.RangeStmt); ok {
					rng = r
				}
			}
			if rng != nil {
				if pth, ok := env.path(rng.X); ok {
					valObj := types.Object(nil)
					if vid, ok := rng.Value.(*ast.Ident); ok {
						valObj = info.Defs[vid]
					}
					uses := func(x ast.Expr) bool {
						found := false
						ast.Inspect(x, func(n ast.Node) bool {
							if i, ok := n.(*ast.Ident); ok && valObj != nil && info.Uses[i] == valObj {
								found = true
							}
							return true
						})
						return found
					}
					okAcc := false
					if as.Tok == token.OR_ASSIGN && uses(as.Rhs[0]) {
						okAcc = true
					}
					if as.Tok == token.ASSIGN {
						if be, ok := ast.Unparen(as.Rhs[0]).(*ast.BinaryExpr); ok && be.Op == token.OR {
							if l, ok := ast.Unparen(be.X).(*ast.Ident); ok && info.Uses[l] == obj && uses(be.Y) {
								okAcc = true
							}
						}
					}
					if okAcc {
						return "mask(" + pth + ")"
					}
				}
			}
		}
	}
	// P4: *string that is nil unless the map is non-empty, then its JSON
	if len(defs) == 2 {
		var decl *ast.ValueSpec
		var set *ast.AssignStmt
		for _, d := range defs {
			switch s := d.(type) {
			case *ast.ValueSpec:
				if len(s.Values) == 0 {
					decl = s
				}
			case *ast.AssignStmt:
				set = s
			}
		}
		if decl != nil && set != nil && len(set.Rhs) == 1 {
			if call, ok := env.isCall(set.Rhs[0], pkgUtil, "ToPointer"); ok && len(call.Args) == 1 {
				// string(t) where t := json.Marshal(cmd.X)
				inner := ast.Unparen(call.Args[0])
				if conv, ok := inner.(*ast.CallExpr); ok && len(conv.Args) == 1 {
					inner = ast.Unparen(conv.Args[0])
				}
				if tid, ok := inner.(*ast.Ident); ok {
					js := env.norm(tid)
					if strings.HasPrefix(js, "json(") {
						field := strings.TrimSuffix(strings.TrimPrefix(js, "json("), ")")
						// guarded by len(cmd.X) > 0
						for _, par := range env.encl[set] {
							if ifs, ok := par.(*ast.IfStmt); ok {
								if be, ok := ast.Unparen(ifs.Cond).(*ast.BinaryExpr); ok && be.Op == token.GTR {
									if lc, ok := ast.Unparen(be.X).(*ast.CallExpr); ok && exprString(lc.Fun) == "len" && len(lc.Args) == 1 {
										if pth, ok := env.path(lc.Args[0]); ok && pth == field {
											if v, ok := info.Types[be.Y]; ok && v.Value != nil && v.Value.ExactString() == "0" {
												return "jsonOrNull(" + field + ")"
											}
										}
									}
								}
							}
						}
					}
				}
			}
		}
	}
	return "?" + exprString(e)
}

// helperResult: the variable is defined once, by `a, b := helper(args…)` where helper is a function
// of the same package with a single return statement (its last statement). The result is the
// environment of the helper, with the parameters that receive command field paths bound to those
// paths, and the returned expression that the variable receives.
func (env *localEnv) helperResult(id *ast.Ident) (*localEnv, ast.Expr, bool) {
	if env.depth > 2 {
		return nil, nil, false
	}
	info := env.pk.TypesInfo
	obj := info.Uses[id]
	defs := env.defs[obj]
	if len(defs) != 1 {
		return nil, nil, false
	}
	as, ok := defs[0].(*ast.AssignStmt)
	if !ok || len(as.Rhs) != 1 {
		return nil, nil, false
	}
	call, ok := ast.Unparen(as.Rhs[0]).(*ast.CallExpr)
	if !ok {
		return nil, nil, false
	}
	fn, ok := calleeOf(info, call).(*types.Func)
	if !ok || fn.Pkg() != env.pk.Types {
		return nil, nil, false
	}
	fd := funcDeclOf(env.pk, fn)
	if fd == nil || fd.Body == nil || fd == env.fd || len(fd.Body.List) == 0 {
		return nil, nil, false
	}
	k := -1
	for i, l := range as.Lhs {
		if lid, ok := l.(*ast.Ident); ok && (info.Defs[lid] == obj || info.Uses[lid] == obj) {
			k = i
		}
	}
	// exactly one value-carrying return, the last statement; other returns must be error exits
	// (a non-nil value in an error-typed result position)
	nret := 0
	fsig := fn.Type().(*types.Signature)
	ast.Inspect(fd.Body, func(n ast.Node) bool {
		if _, ok := n.(*ast.FuncLit); ok {
			return false
		}
		if rs, ok := n.(*ast.ReturnStmt); ok {
			errExit := false
			if len(rs.Results) == fsig.Results().Len() {
				for j, r := range rs.Results {
					if isErrorType(fsig.Results().At(j).Type()) {
						if id, isId := ast.Unparen(r).(*ast.Ident); !isId || id.Name != "nil" {
							errExit = true
						}
					}
				}
			}
			// `return nil, nil`: the value stays its zero value (the variable of the inlined form was
			// declared without a value and assigned only in the other branch)
			zeroExit := !errExit && len(rs.Results) == fsig.Results().Len() && ast.Node(rs) != ast.Node(fd.Body.List[len(fd.Body.List)-1])
			if zeroExit {
				for _, r := range rs.Results {
					if id, isId := ast.Unparen(r).(*ast.Ident); !isId || id.Name != "nil" {
						zeroExit = false
					}
				}
			}
			if zeroExit {
				return true
			}
			if !errExit || ast.Node(rs) == ast.Node(fd.Body.List[len(fd.Body.List)-1]) {
				nret++
			}
		}
		return true
	})
	ret, ok := fd.Body.List[len(fd.Body.List)-1].(*ast.ReturnStmt)
	if !ok || nret != 1 || k < 0 || k >= len(ret.Results) || len(ret.Results) != len(as.Lhs) {
		return nil, nil, false
	}
	sub := newLocalEnv(env.pk, fd, nil)
	sub.depth = env.depth + 1
	sub.roots = map[types.Object]string{}
	sig := fn.Type().(*types.Signature)
	if sig.Variadic() || sig.Params().Len() != len(call.Args) {
		return nil, nil, false
	}
	for i := 0; i < sig.Params().Len(); i++ {
		if pth, ok := env.path(call.Args[i]); ok && pth != "" {
			sub.roots[sig.Params().At(i)] = pth
		}
	}
	return sub, ret.Results[k], true
}

// sliceElems abstractly evaluates a []any variable that is built by a literal followed by appends
// at the top level of the function, and by appends inside one range over a command map field.
func (env *localEnv) sliceElems(e ast.Expr) ([]string, bool) {
	id, ok := ast.Unparen(e).(*ast.Ident)
	if !ok {
		return nil, false
	}
	info := env.pk.TypesInfo
	obj := info.Uses[id]
	if sub, re, ok := env.helperResult(id); ok {
		return sub.sliceElems(re)
	}
	var out []string
	okAll := true
	for _, d := range env.defs[obj] {
		as, ok := d.(*ast.AssignStmt)
		if !ok || len(as.Rhs) != 1 {
			return nil, false
		}
		rhs := ast.Unparen(as.Rhs[0])
		// are we inside a range statement?
		var rng *ast.RangeStmt
		for _, par := range env.encl[d] {
			if r, ok := par.(*ast.RangeStmt); ok {
				rng = r
			}
			switch par.(type) {
			case *ast.IfStmt, *ast.SwitchStmt, *ast.ForStmt:
				return nil, false // conditional construction of operands is not understood
			}
		}
		if rng != nil {
			// an iteration that can be left early (continue / break / return / goto) contributes its
			// operands only conditionally (seed C14-9: blank tag values skipped) — not understood either
			leaves := false
			ast.Inspect(rng.Body, func(n ast.Node) bool {
				switch n.(type) {
				case *ast.BranchStmt, *ast.ReturnStmt:
					leaves = true
				case *ast.FuncLit:
					return false
				}
				return true
			})
			if leaves {
				return nil, false
			}
		}
		switch x := rhs.(type) {
		case *ast.CompositeLit:
			if rng != nil {
				return nil, false
			}
			out = nil
			for _, el := range x.Elts {
				out = append(out, env.norm(el))
			}
		case *ast.CallExpr:
			if exprString(x.Fun) != "append" || len(x.Args) < 1 {
				return nil, false
			}
			if first, ok := ast.Unparen(x.Args[0]).(*ast.Ident); !ok || info.Uses[first] != obj {
				return nil, false
			}
			if rng != nil {
				pth, ok := env.path(rng.X)
				if !ok {
					return nil, false
				}
				kObj, vObj := types.Object(nil), types.Object(nil)
				if k, ok := rng.Key.(*ast.Ident); ok {
					kObj = info.Defs[k]
				}
				if v, ok := rng.Value.(*ast.Ident); ok {
					vObj = info.Defs[v]
				}
				var per []string
				for _, a := range x.Args[1:] {
					a = ast.Unparen(a)
					switch y := a.(type) {
					case *ast.Ident:
						if info.Uses[y] == vObj && vObj != nil {
							per = append(per, "value")
							continue
						}
						if info.Uses[y] == kObj && kObj != nil {
							per = append(per, "key")
							continue
						}
					case *ast.BinaryExpr:
						if y.Op == token.ADD {
							if pre, ok := constString(info, y.X); ok {
								if r, ok := ast.Unparen(y.Y).(*ast.Ident); ok && info.Uses[r] == kObj && kObj != nil {
									per = append(per, fmt.Sprintf("%q+key", pre))
									continue
								}
							}
						}
					case *ast.BasicLit:
						if s, ok := constString(info, y); ok {
							per = append(per, fmt.Sprintf("const:%q", s))
							continue
						}
					}
					if s, ok := constString(info, a); ok {
						per = append(per, fmt.Sprintf("const:%q", s))
						continue
					}
					okAll = false
					per = append(per, "?"+exprString(a))
				}
				out = append(out, "each("+pth+": "+strings.Join(per, ", ")+")")
			} else if x.Ellipsis.IsValid() {
				sub, ok := env.sliceElems(x.Args[1])
				if !ok {
					return nil, false
				}
				out = append(out, sub...)
			} else {
				for _, a := range x.Args[1:] {
					out = append(out, env.norm(a))
				}
			}
		default:
			return nil, false
		}
	}
	return out, okAll
}

// constOnlyString reports whether a string expression is built from compile-time constants only,
// (through +, strings.Join over a slice of constants, and variables assigned only such values).
// It returns a description of the shape for the report.
func (env *localEnv) constOnlyString(e ast.Expr, depth int) (string, bool) {
	if depth > 6 {
		return "", false
	}
	info := env.pk.TypesInfo
	e = ast.Unparen(e)
	if s, ok := constString(info, e); ok {
		return fmt.Sprintf("%q", s), true
	}
	switch x := e.(type) {
	case *ast.BinaryExpr:
		if x.Op == token.ADD {
			l, ok1 := env.constOnlyString(x.X, depth+1)
			r, ok2 := env.constOnlyString(x.Y, depth+1)
			return l + "+" + r, ok1 && ok2
		}
	case *ast.CallExpr:
		if call, ok := env.isCall(x, "strings", "Join"); ok && len(call.Args) == 2 {
			sep, ok1 := constString(info, call.Args[1])
			elems, ok2 := env.sliceElems(call.Args[0])
			if ok1 && ok2 {
				for _, el := range elems {
					// each(Field: const:"…")
					if !strings.HasPrefix(el, "const:") && !(strings.HasPrefix(el, "each(") && strings.Contains(el, ": const:") && !strings.Contains(el, "key") && !strings.Contains(el, "value")) {
						return "", false
					}
				}
				return fmt.Sprintf("join(%s, %q)", strings.Join(elems, ","), sep), true
			}
		}
	case *ast.Ident:
		obj := info.Uses[x]
		defs := env.defs[obj]
		if len(defs) == 0 {
			return "", false
		}
		if sub, re, ok := env.helperResult(x); ok {
			return sub.constOnlyString(re, depth+1)
		}
		var parts []string
		for _, d := range defs {
			switch s := d.(type) {
			case *ast.ValueSpec:
				if len(s.Values) == 0 {
					parts = append(parts, `""`)
					continue
				}
				return "", false
			case *ast.AssignStmt:
				if len(s.Rhs) != 1 || len(s.Lhs) != 1 {
					return "", false
				}
				r, ok := env.constOnlyString(s.Rhs[0], depth+1)
				if !ok {
					return "", false
				}
				parts = append(parts, r)
			default:
				return "", false
			}
		}
		return strings.Join(parts, " | "), true
	}
	return "", false
}

// prepareHelper: fn prepares its query parameter (index qi) on the transaction it is given and
// stores the statement through its **sql.Stmt parameter (index pi).
func prepareHelper(pk *packages.Package, fn *types.Func) (pi, qi int, ok bool) {
	return prepareHelperObj(pk, fn, nil)
}

// closureOf: the function literal a local variable is defined as (`v := func(…) {…}`), under root.
func closureOf(info *types.Info, root ast.Node, v types.Object) *ast.FuncLit {
	var lit *ast.FuncLit
	n := 0
	if root == nil || v == nil {
		return nil
	}
	ast.Inspect(root, func(nd ast.Node) bool {
		as, ok := nd.(*ast.AssignStmt)
		if !ok || len(as.Lhs) != len(as.Rhs) {
			return true
		}
		for i, l := range as.Lhs {
			if id, ok := l.(*ast.Ident); ok && (info.Defs[id] == v || info.Uses[id] == v) {
				n++
				if fl, ok := ast.Unparen(as.Rhs[i]).(*ast.FuncLit); ok {
					lit = fl
				}
			}
		}
		return true
	})
	if n != 1 {
		return nil
	}
	return lit
}

// prepareHelperObj is prepareHelper for a callee that is a function of the package or a local
// closure defined once under root (it may capture the transaction).
func prepareHelperObj(pk *packages.Package, callee types.Object, root ast.Node) (pi, qi int, ok bool) {
	info := pk.TypesInfo
	var body *ast.BlockStmt
	var params []types.Object
	switch c := callee.(type) {
	case *types.Func:
		fd := funcDeclOf(pk, c)
		if fd == nil || fd.Body == nil {
			return 0, 0, false
		}
		body = fd.Body
		sig := c.Type().(*types.Signature)
		for i := 0; i < sig.Params().Len(); i++ {
			params = append(params, sig.Params().At(i))
		}
	case *types.Var:
		lit := closureOf(info, root, c)
		if lit == nil {
			return 0, 0, false
		}
		body = lit.Body
		for _, f := range lit.Type.Params.List {
			for _, nm := range f.Names {
				params = append(params, info.Defs[nm])
			}
		}
	default:
		return 0, 0, false
	}
	parIdx := func(o types.Object) int {
		for i, p := range params {
			if p == o && o != nil {
				return i
			}
		}
		return -1
	}
	pi, qi = -1, -1
	var prepared types.Object
	ast.Inspect(body, func(n ast.Node) bool {
		switch x := n.(type) {
		case *ast.AssignStmt:
			if len(x.Rhs) == 1 {
				if call, isCall := ast.Unparen(x.Rhs[0]).(*ast.CallExpr); isCall {
					if f2, isFn := calleeOf(info, call).(*types.Func); isFn && f2.Pkg() != nil && f2.Pkg().Path() == "database/sql" && strings.HasPrefix(f2.Name(), "Prepare") && len(call.Args) >= 1 {
						if aid, isId := ast.Unparen(call.Args[len(call.Args)-1]).(*ast.Ident); isId {
							qi = parIdx(info.Uses[aid])
						}
						if lid, isId := x.Lhs[0].(*ast.Ident); isId {
							prepared = info.Defs[lid]
							if prepared == nil {
								prepared = info.Uses[lid]
							}
						}
					}
				}
			}
			// *p = s
			for i, l := range x.Lhs {
				if st, isStar := ast.Unparen(l).(*ast.StarExpr); isStar && i < len(x.Rhs) {
					if pid, isId := ast.Unparen(st.X).(*ast.Ident); isId && prepared != nil && isObj(info, x.Rhs[i], prepared) {
						pi = parIdx(info.Uses[pid])
					}
				}
			}
		}
		return true
	})
	return pi, qi, pi >= 0 && qi >= 0
}
