#!/usr/bin/env python3
"""Generates /verif/MANIFEST.json from the table below (kept next to the checker so the claim text
and the rule lists in tools/resolint/props.go are edited together)."""
import json, os, sys

BASE = "for m in $(cat /w/out/gomods.txt); do MF=$(cd /repo/$m && . /w/out/goenv.sh && gomodflag); (cd /repo/$m && go test $MF -json -vet=off -count=1 -timeout 25m ./...); done"
try:
    BASE = json.load(open("/root/.vp/BASELINE.json"))["cmd"]
except Exception:
    pass

NOTE = ("Trusted: go/types and golang.org/x/tools v0.29.0; the semantics SQLite/Postgres give to the parsed statements; "
        "database/sql, gin, grpc, encoding/json, cron, jwt, gocoro as documented; the spec tables (tools/resolint/spec, spec_*.go) as a reading "
        "of the property statement; the subset SQL parser. Decides code-shape clauses only; no execution, no histories.")

# property -> (claim text, technique, design section)
CLAIMS = {}

def claim(pid, text, technique, ref):
    CLAIMS[pid] = (text, technique, ref)

exec(open(os.path.join(os.path.dirname(__file__), "claims.py")).read())

NA = {}
exec(open(os.path.join(os.path.dirname(__file__), "not_applicable.py")).read())

checks = []
for pid in sorted(CLAIMS):
    text, tech, ref = CLAIMS[pid]
    checks.append({
        "property_id": pid,
        "quick_cmd": f"./check {pid} quick",
        "thorough_cmd": f"./check {pid} thorough",
        "evidence_file": f"/verif/evidence/{pid}.json",
        "replay_cmd_template": "./check replay {path}",
        "engine": "resolint",
        "level_claimed": {"category": "other", "text": text, "design_ref": ref},
        "level_note": NOTE,
        "technique": tech,
    })

manifest = {
    "version": 1,
    "setup_cmd": "cd /verif/tools/resolint && GOFLAGS=-mod=mod GOPROXY=off GOSUMDB=off GOTOOLCHAIN=local GOWORK=off go build -o /verif/bin/resolint .",
    "hooks": {
        "guard": "verif",
        "enable": "none needed: static analysis reads the source; the loader passes -tags=verif so a guarded file would be analysed",
        "baseline_off_cmd": BASE,
        "source_commits": [],
        "add_only": True,
    },
    "engines": [{
        "name": "resolint",
        "path": "/verif/tools/resolint",
        "serves_properties": sorted(CLAIMS),
        "kind_free_text": "repository-specific static analyzer (go/packages + go/types + go/cfg + SQL subset parser); rule families R1-R17, see DESIGN.md",
    }],
    "checks": checks,
    "not_applicable": [{"property_id": k, "reason": v} for k, v in sorted(NA.items()) if k not in CLAIMS],
    "notes": "All checks are static: they load /repo's current working tree with go/packages on every run. thorough = quick + self-validation with overlay mutants (each must be reported).",
}
json.dump(manifest, open("/verif/MANIFEST.json", "w"), indent=1)
print("wrote MANIFEST.json with", len(checks), "checks and", len(manifest["not_applicable"]), "not_applicable")
