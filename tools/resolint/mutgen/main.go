// mutgen: generates a survey of small syntactic mutants of the property-carrying source files of
// /repo (one position-based overlay each). It is a development aid: the survivors of the survey
// (mutants that no check reports) are triaged by hand to find blind spots of the rules. It does not
// decide any property.
package main

import (
	"encoding/json"
	"flag"
	"fmt"
	"go/ast"
	"go/parser"
	"go/token"
	"os"
	"path/filepath"
	"regexp"
	"strings"
)

type Mut struct {
	ID      string `json:"id"`
	File    string `json:"file"`
	Offset  int    `json:"offset"`
	Length  int    `json:"length"`
	Find    string `json:"find"`
	Replace string `json:"replace"`
	Op      string `json:"op"`
	Line    int    `json:"line"`
	Func    string `json:"func"`
}

// families of sibling constants (per package qualifier)
var families = map[string][][]string{
	"task":    {{"Init", "Enqueued", "Claimed", "Completed", "Timedout"}},
	"promise": {{"Pending", "Resolved", "Rejected", "Canceled", "Timedout"}},
	"message": {{"Invoke", "Resume", "Notify"}},
	"t_api": {{"StatusOK", "StatusCreated", "StatusNoContent"},
		{"StatusPromiseAlreadyResolved", "StatusPromiseAlreadyRejected", "StatusPromiseAlreadyCanceled", "StatusPromiseAlreadyTimedout"},
		{"StatusPromiseNotFound", "StatusScheduleNotFound", "StatusLockNotFound", "StatusTaskNotFound"},
		{"StatusTaskAlreadyClaimed", "StatusTaskAlreadyCompleted", "StatusTaskInvalidCounter", "StatusTaskInvalidState"},
		{"StatusPromiseAlreadyExists", "StatusScheduleAlreadyExists", "StatusLockAlreadyAcquired"}},
	"codes": {{"InvalidArgument", "PermissionDenied", "NotFound", "AlreadyExists", "Internal", "Unavailable"}},
}

var skipCallPrefixes = []string{"slog.", "log.", "fmt.Print", "metrics.", "util.Assert", "counter.", "w.metrics", "s.metrics", "a.metrics"}

func main() {
	repo := flag.String("repo", "/repo", "")
	set2 := flag.Bool("set2", false, "second operator set: sibling constants, swapped call arguments, copied field values")
	set3 := flag.Bool("set3", false, "third operator set: forced / deleted branches, break↔continue, swapped statements, sibling fields, = → :=, SQL clause drops")
	flag.Parse()
	globs := flag.Args()
	var files []string
	for _, g := range globs {
		m, _ := filepath.Glob(filepath.Join(*repo, g))
		for _, f := range m {
			if strings.HasSuffix(f, "_test.go") || strings.HasSuffix(f, ".pb.go") {
				continue
			}
			files = append(files, f)
		}
	}
	enc := json.NewEncoder(os.Stdout)
	n := 0
	// field name -> sibling field names of the same declared type in the same struct (syntactic)
	siblings := map[string][]string{}
	if *set3 {
		all, _ := filepath.Glob(filepath.Join(*repo, "internal/*/*.go"))
		for _, pat := range []string{"internal/*/*/*.go", "internal/*/*/*/*.go", "internal/*/*/*/*/*.go", "internal/*/*/*/*/*/*.go", "pkg/*/*.go"} {
			m, _ := filepath.Glob(filepath.Join(*repo, pat))
			all = append(all, m...)
		}
		for _, path := range all {
			if strings.HasSuffix(path, "_test.go") || strings.HasSuffix(path, ".pb.go") {
				continue
			}
			src, err := os.ReadFile(path)
			if err != nil {
				continue
			}
			fs := token.NewFileSet()
			f, err := parser.ParseFile(fs, path, src, 0)
			if err != nil {
				continue
			}
			ast.Inspect(f, func(nd ast.Node) bool {
				st, ok := nd.(*ast.StructType)
				if !ok {
					return true
				}
				byType := map[string][]string{}
				for _, fl := range st.Fields.List {
					tt := string(src[fs.Position(fl.Type.Pos()).Offset:fs.Position(fl.Type.End()).Offset])
					for _, nm := range fl.Names {
						byType[tt] = append(byType[tt], nm.Name)
					}
				}
				for _, names := range byType {
					if len(names) < 2 {
						continue
					}
					for i, a := range names {
						b := names[(i+1)%len(names)]
						dup := false
						for _, x := range siblings[a] {
							if x == b {
								dup = true
							}
						}
						if !dup && len(siblings[a]) < 2 {
							siblings[a] = append(siblings[a], b)
						}
					}
				}
				return true
			})
		}
	}
	for _, path := range files {
		src, err := os.ReadFile(path)
		if err != nil {
			continue
		}
		rel, _ := filepath.Rel(*repo, path)
		fset := token.NewFileSet()
		f, err := parser.ParseFile(fset, path, src, parser.ParseComments)
		if err != nil {
			continue
		}
		emit := func(op string, fn string, from, to token.Pos, repl string) {
			o1, o2 := fset.Position(from).Offset, fset.Position(to).Offset
			if o1 < 0 || o2 > len(src) || o2 < o1 {
				return
			}
			n++
			_ = enc.Encode(Mut{ID: fmt.Sprintf("m%05d", n), File: rel, Offset: o1, Length: o2 - o1, Find: string(src[o1:o2]), Replace: repl, Op: op, Line: fset.Position(from).Line, Func: fn})
		}
		text := func(a, b token.Pos) string { return string(src[fset.Position(a).Offset:fset.Position(b).Offset]) }
		for _, d := range f.Decls {
			switch dd := d.(type) {
			case *ast.FuncDecl:
				if dd.Body == nil {
					continue
				}
				fn := dd.Name.Name
				if dd.Recv != nil && len(dd.Recv.List) == 1 {
					fn = strings.TrimPrefix(text(dd.Recv.List[0].Type.Pos(), dd.Recv.List[0].Type.End()), "*") + "." + fn
				}
				if fn == "String" || strings.HasSuffix(fn, ".String") {
					continue
				}
				var skipDepth []ast.Node
				ast.Inspect(dd.Body, func(nd ast.Node) bool {
					if nd == nil {
						return true
					}
					_ = skipDepth
					// do not mutate inside logging / metrics / assertion-message calls
					if call, ok := nd.(*ast.CallExpr); ok {
						ft := text(call.Fun.Pos(), call.Fun.End())
						for _, p := range skipCallPrefixes {
							if strings.HasPrefix(ft, p) {
								if p == "util.Assert" && len(call.Args) > 0 {
									// the asserted condition itself is interesting only to C13; skip
								}
								return false
							}
						}
						if strings.HasSuffix(ft, ".Inc") || strings.HasSuffix(ft, ".Dec") || strings.HasSuffix(ft, ".Observe") || strings.Contains(ft, "WithLabelValues") {
							return false
						}
					}
					if *set3 {
						switch x := nd.(type) {
						case *ast.IfStmt:
							if x.Cond != nil {
								emit("cond→true", fn, x.Cond.Pos(), x.Cond.End(), "true")
								emit("cond→false", fn, x.Cond.Pos(), x.Cond.End(), "false")
								if x.Else != nil {
									emit("delete else", fn, x.Body.End(), x.Else.End(), "")
								}
							}
						case *ast.BranchStmt:
							if x.Label == nil && x.Tok == token.BREAK {
								emit("break→continue", fn, x.Pos(), x.End(), "continue")
							} else if x.Label == nil && x.Tok == token.CONTINUE {
								emit("continue→break", fn, x.Pos(), x.End(), "break")
							}
						case *ast.BlockStmt:
							simple := func(st ast.Stmt) bool {
								switch s := st.(type) {
								case *ast.ExprStmt:
									if call, ok := s.X.(*ast.CallExpr); ok {
										ft := text(call.Fun.Pos(), call.Fun.End())
										for _, p := range skipCallPrefixes {
											if strings.HasPrefix(ft, p) {
												return false
											}
										}
										return true
									}
								case *ast.AssignStmt:
									return true
								case *ast.IfStmt:
									return true
								}
								return false
							}
							for i := 0; i+1 < len(x.List); i++ {
								a, b := x.List[i], x.List[i+1]
								if simple(a) && simple(b) {
									emit("swap stmts", fn, a.Pos(), b.End(), text(b.Pos(), b.End())+text(a.End(), b.Pos())+text(a.Pos(), a.End()))
								}
							}
							for _, st := range x.List {
								if as, ok := st.(*ast.AssignStmt); ok && as.Tok == token.ASSIGN && len(as.Lhs) <= 2 {
									allId := true
									for _, l := range as.Lhs {
										if _, ok := l.(*ast.Ident); !ok {
											allId = false
										}
									}
									if allId && x != dd.Body {
										emit("= → :=", fn, as.TokPos, as.TokPos+1, ":=")
									}
								}
							}
						case *ast.SelectorExpr:
							for _, alt := range siblings[x.Sel.Name] {
								emit("field "+x.Sel.Name+"→"+alt, fn, x.Sel.Pos(), x.Sel.End(), alt)
							}
						}
						return true
					}
					if *set2 {
						switch x := nd.(type) {
						case *ast.SelectorExpr:
							// sibling constant of the same family
							if pid, ok := x.X.(*ast.Ident); ok {
								fam := families[pid.Name]
								for _, group := range fam {
									for i, nm := range group {
										if nm == x.Sel.Name {
											alt := group[(i+1)%len(group)]
											emit("const "+nm+"→"+alt, fn, x.Sel.Pos(), x.Sel.End(), alt)
										}
									}
								}
							}
						case *ast.CallExpr:
							ft := text(x.Fun.Pos(), x.Fun.End())
							if ft == "append" || ft == "make" || ft == "len" {
								return true
							}
							for i := 0; i+1 < len(x.Args); i++ {
								a, b := x.Args[i], x.Args[i+1]
								if _, isLit := a.(*ast.BasicLit); isLit {
									continue
								}
								if _, isLit := b.(*ast.BasicLit); isLit {
									continue
								}
								emit("swap args", fn, a.Pos(), b.End(), text(b.Pos(), b.End())+text(a.End(), b.Pos())+text(a.Pos(), a.End()))
							}
						case *ast.CompositeLit:
							var kvs []*ast.KeyValueExpr
							for _, el := range x.Elts {
								if kv, ok := el.(*ast.KeyValueExpr); ok {
									if _, isId := kv.Key.(*ast.Ident); isId {
										kvs = append(kvs, kv)
									}
								}
							}
							for i := 0; i+1 < len(kvs); i++ {
								a, b := kvs[i], kvs[i+1]
								emit("copy value "+text(b.Key.Pos(), b.Key.End())+"→"+text(a.Key.Pos(), a.Key.End()), fn, a.Value.Pos(), a.Value.End(), text(b.Value.Pos(), b.Value.End()))
								emit("copy value "+text(a.Key.Pos(), a.Key.End())+"→"+text(b.Key.Pos(), b.Key.End()), fn, b.Value.Pos(), b.Value.End(), text(a.Value.Pos(), a.Value.End()))
							}
						}
						return true
					}
					switch x := nd.(type) {
					case *ast.BinaryExpr:
						swap := map[token.Token]string{token.LSS: "<=", token.LEQ: "<", token.GTR: ">=", token.GEQ: ">", token.EQL: "!=", token.NEQ: "==", token.LAND: "||", token.LOR: "&&", token.ADD: "-", token.SUB: "+"}
						if r, ok := swap[x.Op]; ok {
							// skip string concatenation
							if x.Op == token.ADD {
								if bl, ok := x.X.(*ast.BasicLit); ok && bl.Kind == token.STRING {
									return true
								}
								if bl, ok := x.Y.(*ast.BasicLit); ok && bl.Kind == token.STRING {
									return true
								}
							}
							emit("binop "+x.Op.String()+"→"+r, fn, x.OpPos, x.OpPos+token.Pos(len(x.Op.String())), r)
						}
					case *ast.UnaryExpr:
						if x.Op == token.NOT {
							emit("drop !", fn, x.OpPos, x.OpPos+1, "")
						}
					case *ast.IfStmt:
						if x.Cond != nil {
							emit("negate if", fn, x.Cond.Pos(), x.Cond.End(), "!("+text(x.Cond.Pos(), x.Cond.End())+")")
						}
					case *ast.BlockStmt:
						for _, st := range x.List {
							switch s := st.(type) {
							case *ast.ExprStmt:
								if call, ok := s.X.(*ast.CallExpr); ok {
									ft := text(call.Fun.Pos(), call.Fun.End())
									skip := false
									for _, p := range skipCallPrefixes {
										if strings.HasPrefix(ft, p) {
											skip = true
										}
									}
									if strings.HasSuffix(ft, ".Inc") || strings.HasSuffix(ft, ".Dec") || strings.Contains(ft, "WithLabelValues") || strings.HasSuffix(ft, ".Observe") {
										skip = true
									}
									if !skip {
										emit("delete call", fn, s.Pos(), s.End(), "")
									}
								}
							case *ast.AssignStmt:
								if s.Tok == token.ASSIGN || s.Tok == token.ADD_ASSIGN || s.Tok == token.OR_ASSIGN {
									emit("delete assign", fn, s.Pos(), s.End(), "")
								}
							case *ast.IncDecStmt:
								emit("delete incdec", fn, s.Pos(), s.End(), "")
							case *ast.BranchStmt:
								if s.Label == nil {
									emit("delete "+s.Tok.String(), fn, s.Pos(), s.End(), "")
								}
							case *ast.ReturnStmt:
								if len(s.Results) == 0 {
									emit("delete return", fn, s.Pos(), s.End(), "")
								}
							case *ast.DeferStmt:
								emit("delete defer", fn, s.Pos(), s.End(), "")
							case *ast.GoStmt:
								emit("go→call", fn, s.Pos(), s.Pos()+2, "")
							}
						}
					case *ast.BasicLit:
						if x.Kind == token.INT {
							switch x.Value {
							case "0":
								emit("0→1", fn, x.Pos(), x.End(), "1")
							case "1":
								emit("1→0", fn, x.Pos(), x.End(), "0")
							}
						}
					case *ast.Ident:
						if x.Name == "true" {
							emit("true→false", fn, x.Pos(), x.End(), "false")
						} else if x.Name == "false" {
							emit("false→true", fn, x.Pos(), x.End(), "true")
						}
					case *ast.CompositeLit:
						// delete a keyed field; swap the values of two adjacent keyed fields
						var kvs []*ast.KeyValueExpr
						for _, el := range x.Elts {
							if kv, ok := el.(*ast.KeyValueExpr); ok {
								if _, isId := kv.Key.(*ast.Ident); isId {
									kvs = append(kvs, kv)
								}
							}
						}
						for i, kv := range kvs {
							end := kv.End()
							// include the trailing comma
							rest := string(src[fset.Position(end).Offset:])
							if strings.HasPrefix(rest, ",") {
								end++
							}
							emit("delete field "+text(kv.Key.Pos(), kv.Key.End()), fn, kv.Pos(), end, "")
							if i+1 < len(kvs) {
								a, b := kv, kvs[i+1]
								emit("swap fields "+text(a.Key.Pos(), a.Key.End())+"/"+text(b.Key.Pos(), b.Key.End()), fn, a.Value.Pos(), b.Value.End(),
									text(b.Value.Pos(), b.Value.End())+text(a.Value.End(), b.Value.Pos())+text(a.Value.Pos(), a.Value.End()))
							}
						}
					}
					return true
				})
			case *ast.GenDecl:
				if dd.Tok != token.CONST {
					continue
				}
				for _, sp := range dd.Specs {
					vs, ok := sp.(*ast.ValueSpec)
					if !ok || len(vs.Values) != 1 || len(vs.Names) != 1 {
						continue
					}
					bl, ok := vs.Values[0].(*ast.BasicLit)
					if !ok || bl.Kind != token.STRING || !strings.HasPrefix(bl.Value, "`") {
						continue
					}
					name := vs.Names[0].Name
					if !strings.HasSuffix(name, "_STATEMENT") {
						continue
					}
					base := bl.Pos()
					body := bl.Value
					if *set3 {
						off := 0
						for _, line := range strings.SplitAfter(body, "\n") {
							t := strings.TrimSpace(line)
							switch {
							case strings.HasPrefix(t, "ORDER BY"):
								emit("sql drop order", name, base+token.Pos(off), base+token.Pos(off+len(line)), "")
							case strings.HasPrefix(t, "LIMIT"):
								emit("sql drop limit", name, base+token.Pos(off), base+token.Pos(off+len(line)), "")
							case regexp.MustCompile(`^[a-z_]+ = [^,]+,$`).MatchString(t):
								emit("sql drop set-assign", name, base+token.Pos(off), base+token.Pos(off+len(line)), "")
							}
							off += len(line)
						}
						for _, pr := range [][2]string{{"$1", "$2"}, {"$2", "$3"}, {"$3", "$4"}} {
							i1 := regexp.MustCompile(regexp.QuoteMeta(pr[0]) + `\b`).FindStringIndex(body)
							i2 := regexp.MustCompile(regexp.QuoteMeta(pr[1]) + `\b`).FindStringIndex(body)
							if i1 != nil && i2 != nil && i1[1] <= i2[0] {
								emit("sql swap "+pr[0]+"/"+pr[1], name, base+token.Pos(i1[0]), base+token.Pos(i2[1]), pr[1]+body[i1[1]:i2[0]]+pr[0])
							}
						}
						for _, col := range [][2]string{{"timeout", "expires_at"}, {"expires_at", "timeout"}, {"created_on", "completed_on"}, {"next_run_time", "last_run_time"}, {"root_promise_id", "id"}, {"process_id", "execution_id"}, {"execution_id", "process_id"}} {
							for _, loc := range regexp.MustCompile(`\b`+col[0]+`\b`).FindAllStringIndex(body, -1) {
								emit("sql col "+col[0]+"→"+col[1], name, base+token.Pos(loc[0]), base+token.Pos(loc[1]), col[1])
							}
						}
						continue
					}
					// token swaps
					for _, re := range []struct{ re, repl, op string }{
						{`<=`, "<", "sql <=→<"}, {`>=`, ">", "sql >=→>"}, {` < `, " <= ", "sql <→<="}, {` > `, " >= ", "sql >→>="},
						{`\bDESC\b`, "ASC", "sql DESC→ASC"}, {`\bAND\b`, "OR", "sql AND→OR"}, {`\bOR\b`, "AND", "sql OR→AND"},
						{`DO NOTHING`, "DO UPDATE SET id = excluded.id", "sql DO NOTHING→update"}, {`\bDISTINCT\b`, "", "sql drop DISTINCT"},
					} {
						for _, loc := range regexp.MustCompile(re.re).FindAllStringIndex(body, -1) {
							emit(re.op, name, base+token.Pos(loc[0]), base+token.Pos(loc[1]), re.repl)
						}
					}
					// delete one AND-conjunct line
					off := 0
					for _, line := range strings.SplitAfter(body, "\n") {
						t := strings.TrimSpace(line)
						if strings.HasPrefix(t, "AND ") && !strings.Contains(t, "(") {
							emit("sql drop conjunct", name, base+token.Pos(off), base+token.Pos(off+len(line)), "")
						}
						if strings.HasPrefix(t, "ON CONFLICT") && strings.Contains(t, "DO NOTHING") {
							emit("sql drop on-conflict", name, base+token.Pos(off), base+token.Pos(off+len(line)), "")
						}
						off += len(line)
					}
				}
			}
		}
	}
	fmt.Fprintf(os.Stderr, "mutgen: %d mutants from %d files\n", n, len(files))
}
