# every property is claimed (level "other": structural clauses only; see each claim's text for what is NOT decided)
