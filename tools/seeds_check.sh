#!/bin/bash
# Re-validates every seeded change under /verif/seeded against the current checks:
# applies patch.diff to /repo, runs every claimed check (quick), restores /repo, and reports which
# properties raised a (non-known) violation. A seed that no check reports is printed as MISSED.
set -u
cd /verif
export GOFLAGS=-mod=mod GOPROXY=off GOSUMDB=off GOTOOLCHAIN=local GOWORK=off
[ -n "${RESOLINT_NOBUILD:-}" ] || (cd tools/resolint && go build -o /verif/bin/resolint .) || exit 2   # RESOLINT_NOBUILD=1: use bin/resolint as it is (development: the source is being edited)
PROPS=$(python3 -c 'import json; print(" ".join(c["property_id"] for c in json.load(open("/verif/MANIFEST.json"))["checks"]))')
rc=0
if [ -n "$(git -C /repo status --porcelain)" ]; then echo "/repo has uncommitted changes; refusing"; exit 2; fi
for d in /verif/seeded/*/; do
  n=$(basename "$d")
  prop=$(python3 -c 'import json,sys; print(json.load(open(sys.argv[1]))["property"])' "$d/meta.json")
  if ! git -C /repo apply "$d/patch.diff" 2>/dev/null; then echo "$n: PATCH DOES NOT APPLY"; rc=1; continue; fi
  tmp=$(mktemp -d); cp /verif/known_findings.json "$tmp/"
  det=""
  for p in $PROPS; do
    ( ./bin/resolint -repo /repo -verif "$tmp" -prop "$p" > "$tmp/$p.log" 2>&1 ) &
    while [ $(jobs -r | wc -l) -ge 8 ]; do sleep 0.1; done
  done
  wait
  git -C /repo checkout -- .
  for p in $PROPS; do grep -q "^VIOLATION" "$tmp/$p.log" && det="$det $p"; done
  rm -rf "$tmp"
  case " $det " in
    *" $prop "*) echo "$n ($prop): detected by$det";;
    *) if [ -n "$det" ]; then echo "$n ($prop): detected by$det (not by its own property)"; else echo "$n ($prop): MISSED"; rc=1; fi;;
  esac
done
exit $rc
