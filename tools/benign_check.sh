#!/bin/bash
# benign_check.sh: every behaviour-preserving refactoring under /verif/benign must leave all 20 checks silent.
# (patches written by independent sub-agents that saw nothing of /verif; applied to /repo, checked, reverted)
set -u
cd /verif
rc=0
for d in benign/*/; do
  mkdir -p /tmp/benign-run/REFACTOR; rm -f /tmp/benign-run/REFACTOR/*; cp "$d"patch_*.diff /tmp/benign-run/REFACTOR/
  out=$(tools/refac_eval.sh /tmp/benign-run 2>&1 | grep -v conda)
  echo "## $d"; echo "$out"
  echo "$out" | grep -q "ALARMS\|DOES NOT APPLY" && rc=1
done
rm -rf /tmp/benign-run
exit $rc
