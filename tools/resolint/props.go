package main

func allKinds(m *sqlModel) []string { return m.Order }

func kindsOf(tables ...string) func(m *sqlModel) []string {
	return func(m *sqlModel) []string { return m.kindsFor(tables...) }
}

func kindList(ks ...string) func(m *sqlModel) []string {
	return func(m *sqlModel) []string { return ks }
}

var storePkgs = []string{pkgSqlite, pkgPostgres, pkgStore}

func init() {
	regProp("C16",
		[]string{
			"every one of the 26 DML statements of both backends has exactly the guard, written columns, conflict clause, ordering and limit of spec/sql.spec, with every placeholder bound to the command field the spec names (R1/R2)",
			"dispatch: every StoreKind has an arm; transactions run in submission order, commands in list order, results[i][j] ↔ transactions[i].Commands[j]; the first failing command aborts the batch (M-DISPATCH)",
			"every result's row count / records come from the command's own statement (provenance)",
			"nothing a command read or produced is kept in memory that outlives the transaction, so every command is decided on the current database state (store-stateless)",
			"one SQL transaction per Execute, success returned only after Commit succeeded, rollback on every error path; store.Process maps one error to every SQE and results[i] to SQE i",
			"all SQL text is constant, every statement of a batch runs on the batch's *sql.Tx, only the store packages use database/sql, no database error is dropped (R3)",
		},
		[]string{"isolation/visibility to other connections (engine semantics)", "behaviour on every reachable database state (the guards are checked, not executed)"}).
		rule("R1R2-sql-spec", ruleSQLSpec(allKinds)).
		rule("store-stateless", ruleStoreStateless).
		rule("R12-store-result-union", ruleStoreResultUnion).
		rule("M-DISPATCH", ruleDispatch).
		rule("result-provenance", ruleResults(allKinds)).
		rule("commit-before-ack", ruleExecute).
		rule("store-open-options", ruleStoreOpenOptions).
		rule("store-process", ruleStoreProcess).
		rule("R3-sql-origin", ruleSQLOrigin).
		rule("R3-error-discipline", ruleErrDiscipline(storePkgs...)).
		rule("R10-batches-processed", ruleBatchesProcessed).
		rule("M-stmt-prepared", ruleStmtPrepared)

	regProp("C17",
		[]string{
			"for each of the 27 command kinds the Postgres backend has the same dispatch arm, the same statement after normalisation (dialect table: placeholder style, casts, tag filter, GROUP BY vs DISTINCT ON, qualified own-table column, column types), the same operand binding, the same Scan targets and the same result construction as the SQLite backend (R4)",
			"both schemas have the same tables, columns, defaults, uniqueness and auto-increment keys",
			"both backends satisfy spec/sql.spec independently (R1/R2), so they agree with the statement of each guarantee and not merely with each other",
		},
		[]string{"engine semantics that differ under identical text (LIKE case sensitivity, JSON path syntax: finding F15)", "driver behaviour (lib/pq vs go-sqlite3)"}).
		rule("R12-store-result-union", ruleStoreResultUnion).
		rule("R4-backend-siblings", ruleSiblings).
		rule("R1R2-sql-spec", ruleSQLSpec(allKinds)).
		rule("M-DISPATCH", ruleDispatch).
		rule("commit-before-ack", ruleExecute).
		rule("store-open-options", ruleStoreOpenOptions).
		rule("M-stmt-prepared", ruleStmtPrepared)
}

var allCmdTypes = []string{"UpdatePromiseCommand", "CreatePromiseCommand", "UpdateScheduleCommand", "CreateScheduleCommand",
	"CreateCallbackCommand", "CompleteTasksCommand", "CreateTasksCommand", "DeleteCallbacksCommand", "CreateTaskCommand",
	"CreatePromiseAndTaskCommand", "UpdateTaskCommand", "AcquireLockCommand", "ReleaseLockCommand", "HeartbeatLocksCommand",
	"TimeoutLocksCommand", "HeartbeatTasksCommand", "ReadPromisesCommand", "ReadSchedulesCommand", "ReadTasksCommand",
	"ReadEnqueueableTasksCommand", "SearchPromisesCommand", "SearchSchedulesCommand", "DeleteScheduleCommand",
	"ReadPromiseCommand", "ReadScheduleCommand", "ReadTaskCommand"}

var groupOwners = map[string][]string{
	"UpdatePromise":        {"completePromise"},
	"CompleteTasks":        {"completePromise"},
	"CreateTasks":          {"completePromise"},
	"DeleteCallbacks":      {"completePromise"},
	"CreatePromise":        {"createPromise"},
	"CreatePromiseAndTask": {"createPromise"},
	"UpdateSchedule":       {"bg:SchedulePromises"},
}

var promiseSchema = map[string][]string{"promises": {"id:text:unique", "state:int:default=1", "sort_id:int:auto", "timeout:int"}}
var taskSchema = map[string][]string{"tasks": {"id:text:unique", "state:int:default=1", "counter:int:default=1", "attempt:int:default=0", "sort_id:int:auto"}}
var lockSchema = map[string][]string{"locks": {"resource_id:text:unique"}}
var scheduleSchema = map[string][]string{"schedules": {"id:text:unique", "sort_id:int:auto"}}
var callbackSchema = map[string][]string{"callbacks": {"id:text:unique"}}

func mergeSchemas(ms ...map[string][]string) map[string][]string {
	out := map[string][]string{}
	for _, m := range ms {
		for k, v := range m {
			out[k] = v
		}
	}
	return out
}

var objAll = []string{"Promise", "Promise.patch", "Task", "Task.patch", "Lock", "Schedule", "Callback", "SenderSubmission", "SearchPromisesRequest", "SearchSchedulesRequest"}

func init() {
	regProp("C01",
		[]string{
			"table promises is written only by the dispatched insert (creation half only, ON CONFLICT DO NOTHING, state from DEFAULT 1) and the dispatched update (completion half only, guard id = · AND state = 1) in both backends; no statement deletes or rewrites a promise row (R1/R2 + table ownership)",
			"every UpdatePromise command is one of three templates (caller completion while now < timeout; forced time-out; sweep) and is constructed only inside the completion group; every CreatePromise command is the request's or the schedule's (R9, R5)",
			"every promise object put into a response is the stored record, or the record with exactly the completion half of the command that was written (R6 objects); when the guarded write affects 0 rows the coroutine retries (R6 cas)",
			"all SQL is constant text run on the batch's transaction, no other package uses database/sql (R3)",
		},
		[]string{"that a guarded UPDATE/INSERT is atomic in the engine", "agreement of responses built from different reads (follows by induction from the above; argued in DESIGN.md, not machine-checked)", "crash points (C06)"}).
		rule("R13-completion-state", ruleCompletionStateValidated).
		rule("R1R2-sql-spec", ruleSQLSpec(kindsOf("promises"))).
		rule("R1-table-writers", ruleTableWriters("promises", false)).
		rule("schema", ruleSchema(promiseSchema)).
		rule("R3-sql-origin", ruleSQLOrigin).
		rule("R9-command-provenance", ruleCmdProvenance("UpdatePromiseCommand", "CreatePromiseCommand")).
		rule("R5-groups", ruleWhoConstructs(groupOwners)).
		rule("R5-completion-group", ruleCompletionGroup).
		rule("R6-object-provenance", ruleObjProvenance("Promise", "Promise.patch")).
		rule("R16-name-agreement", ruleNameAgreement).
		rule("R6-cas", ruleCAS("ReadPromise", "CreatePromise", "CreatePromiseAndTask", "CompletePromise", "SearchPromises", "CreateCallback", "CreateSubscription")).
		rule("R16-converter-complete", ruleConverterCompleteness).
		rule("M-DISPATCH", ruleDispatch)

	regProp("C02",
		[]string{
			"mechanism only: every guarded write of every request coroutine has its row count examined, and on the 0-row path the coroutine retries or answers without data from the earlier read (R6)",
			"coroutine code is confined to the single-threaded kernel: no go statement, channel operation, package-level state or sync primitive; the only clock is c.Time() (R14/R8)",
			"the store backends keep nothing a command read or produced (any value of a type declared in this module) in a member of the worker / store or a package-level variable: a command is answered from the database, not from what an earlier transaction left in memory (store-stateless)",
			"each command's guard re-validates what the decision read (R1/R2 on all statements) and each command literal is built from request/record/clock as specified (R9)",
			"the objects shown in responses are the stored record patched with exactly what this request wrote (value, key, state and time of the written command — not of the request), so a response never shows a state that no sequential execution produces (R6 objects)",
		},
		[]string{"linearizability of histories (no history is explored)", "batch orders, fault sequences, kernel configurations", "correctness of the decisions themselves (C03, C04, C07, C09)"}).
		rule("R6-cas", ruleCAS()).
		rule("R14-coroutine-confinement", ruleCoroutineConfinement).
		rule("store-stateless", ruleStoreStateless).
		rule("R1R2-sql-spec", ruleSQLSpec(allKinds)).
		rule("R9-command-provenance", ruleCmdProvenance(allCmdTypes...)).
		rule("R6-response-shapes", ruleRespProvenance(allRespTypes...)).
		rule("R6-object-provenance", ruleObjProvenance("Promise", "Promise.patch", "Task.patch", "Lock", "Schedule", "Callback")).
		rule("M-DISPATCH", ruleDispatch)

	regProp("C04",
		[]string{
			"every forced time-out command has state GetTimedoutState(record), empty value, no key, CompletedOn = record.Timeout and is governed by state == Pending ∧ timeout <= now (non-strict); the caller's state is installed only under now < timeout (R9 + R8)",
			"the sweep selects state = 1 AND timeout <= · with the operand bound to a command field whose provenance is c.Time() (R1/R2 + R9)",
			"responses after a lazy time-out show the written completion half (CompletedOn = &written.CompletedOn); the only clock in coroutine code is c.Time() (R6 objects, R14)",
		},
		[]string{"tick placement and the three-way race (reduced to C01's write-once)", "a fresh create with a timeout already in the past answers 201 pending (see DESIGN.md §5 C04: read as outside the statement)"}).
		rule("R13-completion-state", ruleCompletionStateValidated).
		rule("R7-decision-tables", ruleTables(tblComplete, tblRead, tblCreate, tblTimedoutState)).
		rule("R9-command-provenance", ruleCmdProvenance("UpdatePromiseCommand", "ReadPromisesCommand", "ReadPromiseCommand")).
		rule("R1R2-sql-spec", ruleSQLSpec(kindList("ReadPromises", "UpdatePromise"))).
		rule("R6-object-provenance", ruleObjProvenance("Promise", "Promise.patch")).
		rule("R6-cas", ruleCAS("ReadPromise", "CreatePromise", "CreatePromiseAndTask", "CompletePromise", "SearchPromises")).
		rule("R14-coroutine-confinement", ruleCoroutineConfinement).
		rule("R14-clock-fresh", ruleClockFresh).
		rule("R6-response-shapes", ruleRespProvenance("ReadPromiseResponse", "CompletePromiseResponse"))

	regProp("C05",
		[]string{
			"the completion transaction is one Transaction [UpdatePromise, CompleteTasks, CreateTasks, DeleteCallbacks, extra…], all keyed by the same id, tasks created before registrations are deleted; these kinds are constructed nowhere else (R5, R9)",
			"CreateTasks inserts one task per registration of that promise; DeleteCallbacks removes exactly those; the callback insert is guarded by EXISTS(pending promise) AND NOT EXISTS(same id), operands bound as specified (R1/R2)",
			"a callback is reported only when the guarded insert affected a row; on 0 rows the answer must not reuse the stale read (R6: finding F12)",
			"derived ids: callback id = f(root, leaf), subscription id = f(promise, id), embedded raw; injectivity of the format (R15: finding F30)",
		},
		[]string{"both orders inside one store batch (engine)", "crash between steps (C06)"}).
		rule("R7-decision-tables", ruleTables(tblCreateCallback, tblCreateSubscription)).
		rule("R5-completion-group", ruleCompletionGroup).
		rule("R5-groups", ruleWhoConstructs(groupOwners)).
		rule("R9-command-provenance", ruleCmdProvenance("CreateCallbackCommand", "CompleteTasksCommand", "CreateTasksCommand", "DeleteCallbacksCommand", "UpdatePromiseCommand", "ReadPromiseCommand")).
		rule("R1R2-sql-spec", ruleSQLSpec(kindList("CreateCallback", "DeleteCallbacks", "CreateTasks", "UpdatePromise", "CompleteTasks"))).
		rule("R1-table-writers", ruleTableWriters("callbacks", true)).
		rule("schema", ruleSchema(callbackSchema)).
		rule("R6-object-provenance", ruleObjProvenance("Callback")).
		rule("R6-cas", ruleCAS("CreateCallback", "CreateSubscription")).
		rule("R15-derived-ids", ruleDerivedIds).
		rule("R6-response-shapes", ruleRespProvenance("CreateCallbackResponse", "CreateSubscriptionResponse"))

	regProp("C07",
		[]string{
			"task update guard id = · AND state & mask(CurrentStates) != 0 AND counter = CurrentCounter; heartbeat touches only process_id = · AND state = 4; complete-by-root only states (1,2,4); sweep state & · != 0 AND (expires_at <= · OR timeout <= ·) (R1/R2)",
			"the 8 UpdateTask literals match their templates: only claim sets Claimed (from {Init,Enqueued}, same counter, lease now+ttl, requester as holder); complete from {Claimed}; lease sweep bumps the counter by one; no literal re-activates a finished task or lowers the counter (R9 + R8)",
			"a new claimed task row can only be born through INSERT … ON CONFLICT(id) DO NOTHING (never re-claims an existing task)",
			"0 rows ⇒ retry in claim and complete; the response shows what was written (R6)",
			"every task command of a batch (claim, complete, heartbeat) is executed by its own dispatch arm and its result comes from its own statement — a heartbeat is never answered from an earlier one (M-DISPATCH always-executed)",
		},
		[]string{"interleavings of several workers", "ttl arithmetic overflow"}).
		rule("R7-decision-tables", ruleTables(tblClaim, tblCompleteTask)).
		rule("M-DISPATCH", ruleDispatch).
		// seed C07-9: "a holder that renews its lease in time keeps the task" presupposes that every heartbeat command of a batch is executed (always-executed), not answered from an earlier one
		rule("R1R2-sql-spec", ruleSQLSpec(kindsOf("tasks"))).
		rule("schema", ruleSchema(taskSchema)).
		rule("R9-command-provenance", ruleCmdProvenance("UpdateTaskCommand", "CreateTaskCommand", "HeartbeatTasksCommand", "ReadTasksCommand", "ReadTaskCommand", "ReadPromiseCommand")).
		rule("R6-object-provenance", ruleObjProvenance("Task.patch")).
		rule("R6-cas", ruleCAS("ClaimTask", "CompleteTask", "HeartbeatTasks")).
		rule("R14-coroutine-confinement", ruleCoroutineConfinement).
		rule("R14-clock-fresh", ruleClockFresh).
		rule("R17-commands-submitted", ruleCommandsSubmitted).
		rule("R6-response-shapes", ruleRespProvenance("ClaimTaskResponse", "CompleteTaskResponse", "HeartbeatTasksResponse"))

	regProp("C08",
		[]string{
			"a routed promise and its task are ONE command (CreatePromiseAndTask) of one transaction; the task insert happens iff the promise insert affected a row (both backends); creation kinds are constructed only in the creation helper (R5, R1)",
			"the store write must not be reachable after a failed router submission (finding F13)",
			"CompleteTasks(root = the completed id) is part of the completion group (R5/R9)",
			"dispatchable = state = 1 AND NOT EXISTS(sibling of the same root in (2,4)), one per root, LIMIT batch (R1/R2)",
			"the four dispatch-cycle UpdateTask literals and the dispatched message match their templates: Enqueued only after err == nil ∧ Success, retry counts the attempt, notify finished after the hand-off, all guarded {Init} + counter; hrefs from exactly (task id, counter) (R9, objects)",
		},
		[]string{"interleavings of dispatch with claims", "the sender's delivery itself"}).
		rule("R5-creation-group", ruleCreationGroup).
		rule("R5-completion-group", ruleCompletionGroup).
		rule("R5-groups", ruleWhoConstructs(groupOwners)).
		rule("router-error-stops", ruleRouterErrorStops).
		rule("R17-tick", ruleTick).
		rule("sweep-answers", ruleSweepAnswers).
		rule("record-loops", ruleRecordLoopsComplete).
		rule("sweep-early-exit", ruleSweepEarlyExit).
		rule("R1R2-sql-spec", ruleSQLSpec(kindList("CreatePromiseAndTask", "CreatePromise", "CreateTask", "ReadEnqueueableTasks", "CompleteTasks", "UpdateTask"))).
		rule("R9-command-provenance", ruleCmdProvenance("CreateTaskCommand", "CreatePromiseAndTaskCommand", "UpdateTaskCommand", "CompleteTasksCommand", "ReadEnqueueableTasksCommand", "ReadPromiseCommand")).
		rule("R6-object-provenance", ruleObjProvenance("Task", "SenderSubmission")).
		rule("R17-commands-submitted", ruleCommandsSubmitted).
		rule("R7-http-plugin-outcome", ruleHttpPluginOutcome)

	regProp("C09",
		[]string{
			"resource_id is unique; acquire = insert … ON CONFLICT(resource_id) DO UPDATE SET process_id, ttl, expires_at (never execution_id) WHERE execution_id = excluded.execution_id; release deletes only resource_id = · AND execution_id = ·; heartbeat is an UPDATE of expires_at keyed by process_id; sweep deletes only expires_at <= · (R1/R2, both backends)",
			"ExpiresAt = c.Time() + ttl; heartbeat and sweep operands are c.Time() (R9/R8)",
			"0 rows ⇒ the answer does not claim the lock; the lock shown is the one written (R6)",
			"the execution / process id the kernel compares is the one this request carried: every request body is decoded into storage fresh for the message (decode-fresh)",
		},
		[]string{"interleavings", "clock positions beyond comparator strictness"}).
		rule("R7-decision-tables", ruleTables(tblAcquire, tblRelease)).
		rule("R1R2-sql-spec", ruleSQLSpec(kindsOf("locks"))).
		rule("R1-table-writers", ruleTableWriters("locks", true)).
		rule("schema", ruleSchema(lockSchema)).
		rule("R9-command-provenance", ruleCmdProvenance("AcquireLockCommand", "ReleaseLockCommand", "HeartbeatLocksCommand", "TimeoutLocksCommand")).
		rule("R6-object-provenance", ruleObjProvenance("Lock")).
		rule("R6-cas", ruleCAS("AcquireLock", "ReleaseLock", "HeartbeatLocks")).
		rule("R14-clock-fresh", ruleClockFresh).
		rule("R6-response-shapes", ruleRespProvenance("AcquireLockResponse", "ReleaseLockResponse", "HeartbeatLocksResponse")).
		// seed C09-7: "a release by any other execution has no effect" presupposes that the execution id the kernel compares is the one this request carried — every request body is decoded into storage fresh for the message
		rule("R16-decode-fresh", ruleDecodeFresh)

	regProp("C10",
		[]string{
			"due = next_run_time <= c.Time(), ordered next_run_time ASC, sort_id ASC, LIMIT batch; advance = SET last_run_time = next_run_time, next_run_time = · WHERE id = · AND next_run_time = · with operands (NextRunTime, Id, LastRunTime) (R1/R2)",
			"next = Next(occurrence just fired, cron); promise id from the template with (schedule id, occurrence); timeout = occurrence + configured timeout; configured param and tags; create: first occurrence after c.Time() (R9)",
			"the advance is an extra command of the promise creation: one transaction (R5)",
			"the id template is rendered by an engine that inserts its operands verbatim: no identifier of the coroutine package resolves into html/template, html or net/url (R15)",
		},
		[]string{"the cron library", "catch-up counts", "crashes mid-cycle (C06)", "template engine behaviour on client templates (findings F8, F10, F17: see C13/C20)"}).
		rule("R7-decision-tables", ruleTables(tblCreateSchedule, tblDeleteSchedule)).
		rule("R1R2-sql-spec", ruleSQLSpec(kindsOf("schedules"))).
		rule("schema", ruleSchema(scheduleSchema)).
		rule("R9-command-provenance", ruleCmdProvenance("CreatePromiseCommand", "UpdateScheduleCommand", "CreateScheduleCommand", "ReadSchedulesCommand", "DeleteScheduleCommand", "ReadScheduleCommand")).
		rule("R5-creation-group", ruleCreationGroup).
		rule("R17-tick", ruleTick).
		rule("R5-groups", ruleWhoConstructs(groupOwners)).
		rule("R6-object-provenance", ruleObjProvenance("Schedule")).
		rule("R6-cas", ruleCAS("CreateSchedule", "DeleteSchedule")).
		rule("R14-clock-fresh", ruleClockFresh).
		rule("R9-schedule-marker-tags", ruleScheduleMarkerTags).
		rule("R6-response-shapes", ruleRespProvenance("CreateScheduleResponse", "ReadScheduleResponse", "DeleteScheduleResponse")).
		rule("R7-decision-tables-2", ruleTables(tblReadSchedule)).
		rule("R15-id-template-verbatim", ruleIdTemplateVerbatim)

	regProp("C14",
		[]string{
			"search statements: (· IS NULL OR sort_id < ·) strict with both operands the request's SortId, id LIKE pattern(Id), state mask, every tag, ORDER BY sort_id DESC, LIMIT ← Limit; sort_id unique and auto-increment (R1/R2, schema)",
			"cursor present iff RowsReturned == Limit; Next repeats Id/States/Tags/Limit with SortId = &LastSortId; LastSortId is the sort_id of the last scanned row (objects, provenance)",
			"lazily timed-out hits ⇒ the search runs again (R6)",
		},
		[]string{"completeness across pages under concurrent writes (follows from sort_id monotonicity, engine-trusted)", "LIKE wildcard/case semantics and JSON path syntax (finding F15)"}).
		rule("R1R2-sql-spec", ruleSQLSpec(kindList("SearchPromises", "SearchSchedules"))).
		rule("schema", ruleSchema(mergeSchemas(promiseSchema, scheduleSchema))).
		rule("result-provenance", ruleResults(kindList("SearchPromises", "SearchSchedules"))).
		rule("R9-command-provenance", ruleCmdProvenance("SearchPromisesCommand", "SearchSchedulesCommand")).
		rule("R6-object-provenance", ruleObjProvenance("SearchPromisesRequest", "SearchSchedulesRequest")).
		rule("R15-search-text", ruleSearchText(false)).
		rule("R12-cursor", ruleCursorVerified).
		rule("R12-request-asserts", ruleRequestAsserts).
		rule("R6-cas", ruleCAS("SearchPromises")).
		rule("R6-response-shapes", ruleRespProvenance("SearchPromisesResponse", "SearchSchedulesResponse")).
		rule("R9-cursor-carry", ruleCursorCarry).
		rule("record-loops", ruleRecordLoopsComplete).
		rule("R13-definitions", ruleSmallDefinitions).
		rule("R13-outcome-maps", ruleOutcomeMaps).
		rule("R16-swapped-arguments", ruleSwappedArguments)
}

func init() {
	regProp("C15",
		[]string{
			"every switch over a closed kernel enum (StatusCode, request Kind, promise/task state) whose default panics lists every constant of the enum (R11) — in particular StatusCode.String and the gRPC code table",
			"HTTP code = status/100, an intended HTTP code for all 30 constants; each gRPC outcome flag compares the status of its own kind with the constant that denotes the flagged outcome and that the kind's coroutine can produce (R13)",
			"for each request kind both front ends submit it, populate the same fields of the kernel request, and a coroutine is registered for it; every HTTP handler path writes exactly one reply (R10)",
			"every error of a binding / validation / decode in the front ends is examined and, when it is not nil, the kernel submission is unreachable; the API helper renders an error entry as a server error, an unsuccessful status as a request error and otherwise hands the completion on (R7 api-process); an object filed under a string key (root / leaf of a claim) is built from the members named after the key; the requested completion state is Resolved / Rejected / Canceled at every site",
		},
		[]string{"wire encoding by gin/grpc/protobuf", "correspondence of the *values* each protocol puts into a field beyond the field set and the identically named source (name agreement R16: a field fed, on any path, from a differently named field of the client message is reported; a request field that holds what the client sent is not assigned again (client-fields); defaults computed from constants for fields the client did not send are not compared between the protocols)"}).
		rule("R13-completion-state", ruleCompletionStateValidated).
		rule("R16-name-agreement", ruleNameAgreement).
		rule("R16-client-fields", ruleClientFieldsNotRewritten).
		rule("R16-keyed-subobjects", ruleKeyedSubobjects).
		rule("R13-keyed-entries-agree", ruleKeyedEntriesAgree).
		rule("R11-exhaustive", ruleExhaustive(nil)).
		rule("R13-grpc-flags", ruleGrpcFlags).
		// seed C15-8: "equivalent HTTP and gRPC requests are translated into the same kernel request" — an id rewritten by one front end only (trim / clean / case-fold) breaks it
		rule("R15-no-normalisers", ruleNoNormalisers).
		rule("R13-http-code", ruleHttpCode).
		rule("R13-front-end-siblings", ruleFrontEndSiblings).
		rule("R12-unwrap-nil", ruleUnwrapNil).
		rule("R13-error-rendered", ruleErrorRendered).
		rule("R10-http-reply-once", ruleHttpReplyOnce).
		rule("R6-response-shapes", ruleRespProvenance(allRespTypes...)).
		rule("R12-union-literals", ruleUnionLiterals).
		rule("R3-errors-examined", ruleErrorsExamined(pkgHttp, pkgGrpc, pkgSubApi, pkgTApi, pkgPromise, pkgSchedule, pkgTask, pkgUtil)).
		rule("R12-request-union", ruleRequestUnionAccess).
		rule("R12-store-result-union", ruleStoreResultUnion).
		rule("R7-decision-tables", ruleTables(tblReadSchedule, tblHeartbeatLocks, tblHeartbeatTasks, tblSearchSchedules, tblAcquire, tblRelease, tblDeleteSchedule, tblApiProcess)).
		rule("R16-converter-complete", ruleConverterCompleteness).
		rule("R16-zero-value-locals", ruleZeroValueLocals).
		rule("R16-shadowed-state", ruleNoShadowedState).
		rule("R13-definitions", ruleSmallDefinitions).
		rule("R13-outcome-maps", ruleOutcomeMaps).
		rule("R16-swapped-arguments", ruleSwappedArguments)
}

func init() {
	regProp("C03",
		[]string{
			"the status decision of create (fresh / existing / overdue × strict × key match), complete (not found / pending before or after the deadline / completed × strict × key match × state) and of read is extracted path by path from the control-flow graph and equals the table written from the statement (R7)",
			"Key.Match is true only for two non-nil equal keys (R7, truth table)",
			"the idempotency key and the strict flag the client sent reach the kernel: both front ends populate the same fields of every create / complete request (R13 siblings)",
			"no repeat changes the promise: the only writes reachable from the existing-promise branches are the forced time-out group; the promise insert is ON CONFLICT DO NOTHING and the task insert of create-with-task is conditional on it, in both backends (R5/R1); a lost guarded write retries (R6)",
		},
		[]string{"retries racing with the original (C01/C02's discipline)", "histories and fault sequences"}).
		rule("R7-decision-tables", ruleTables(tblCreate, tblComplete, tblRead)).
		rule("R7-key-match", ruleKeyMatch).
		rule("R1R2-sql-spec", ruleSQLSpec(kindList("CreatePromise", "UpdatePromise", "CreatePromiseAndTask", "CreateTask"))).
		rule("R5-groups", ruleWhoConstructs(groupOwners)).
		rule("R5-completion-group", ruleCompletionGroup).
		rule("R5-creation-group", ruleCreationGroup).
		rule("R9-command-provenance", ruleCmdProvenance("UpdatePromiseCommand", "CreatePromiseCommand", "CreateTaskCommand", "ReadPromiseCommand")).
		rule("R6-cas", ruleCAS("CreatePromise", "CreatePromiseAndTask", "CompletePromise")).
		rule("R6-response-shapes", ruleRespProvenance("CreatePromiseResponse", "CreatePromiseAndTaskResponse", "CompletePromiseResponse")).
		rule("R13-outcome-maps", ruleOutcomeMaps).
		rule("R13-front-end-siblings", ruleFrontEndSiblings)
}

func init() {
	regProp("C06",
		[]string{
			"commit-before-acknowledge: in both backends every success return of Execute is dominated by a successful tx.Commit(), every error return by Rollback / failed Begin / failed Commit; store.Process builds completions only after Execute returned and attaches results only when err == nil; the store workers enqueue completions only from Process's return (must-pass-through on go/cfg)",
			"the SQLite database is opened with the configured path and no option outside an allow-list that cannot weaken durability (journal on disk, synchronous FULL/EXTRA); no durability-weakening PRAGMA / SET statement is executed (store-open-options)",
			"one SQL transaction per Execute: every statement of every handler runs on the tx (or a statement prepared from it) (R3)",
			"one Transaction per multi-effect operation: the completion group, routed create = the single CreatePromiseAndTask command, schedule firing = creation + advance in one command list (R5)",
			"defaults and shutdown: Config.Reset defaults to false and Reset()/os.Remove/DROP TABLE are reachable only from Stop under `if config.Reset`; the sqlite path defaults to a file; schema statements are IF NOT EXISTS; serve stops the API and then the AIO only after Loop returned; coroutine code keeps no package-level state and each background coroutine starts from a store read (R17)",
		},
		[]string{"SQLite's/Postgres' own durability settings, the filesystem, kill points inside the driver", "repeated crashes during recovery; no process is started or killed"}).
		rule("commit-before-ack", ruleExecute).
		rule("store-open-options", ruleStoreOpenOptions).
		rule("store-process", ruleStoreProcess).
		rule("R3-sql-origin", ruleSQLOrigin).
		rule("R3-error-discipline", ruleErrDiscipline(storePkgs...)).
		rule("R5-completion-group", ruleCompletionGroup).
		rule("R5-creation-group", ruleCreationGroup).
		rule("R5-groups", ruleWhoConstructs(groupOwners)).
		rule("R1R2-sql-spec", ruleSQLSpec(kindList("CreatePromiseAndTask", "UpdatePromise", "CreateTasks", "DeleteCallbacks", "CompleteTasks", "UpdateSchedule"))).
		rule("schema", ruleSchema(mergeSchemas(promiseSchema, taskSchema, lockSchema, scheduleSchema, callbackSchema))).
		rule("R17-store-lifecycle", ruleStoreLifecycle).
		rule("R17-serve-shutdown", ruleServeShutdown).
		rule("R17-background", ruleBackground(false)).
		rule("R14-coroutine-confinement", ruleCoroutineConfinement).
		rule("R10-exactly-once", ruleExactlyOnce)

	regProp("C11",
		[]string{
			"progress mechanism only: a background coroutine is re-added iff the API is not done, the interval elapsed and the previous instance completed; each of the five returns (nil, nil) on every path, has only bounded loops and no self call (R17)",
			"each sweep reads a LIMITed batch bound to its configured batch size with exactly the overdue predicate, and each selected record is answered by a command that removes it from that predicate (R1/R2, R9 templates)",
			"a selected record is skipped only for internal reasons (decoding server-written bytes, a cron expression both front ends validated); a skip on client-controlled data is reported (finding F17)",
			"every dispatched submission is completed exactly once, also in the simulated AIO, so awaiting coroutines resume (R10)",
			"a loop over the selected records (or over the hand-offs made for them) is never left early (no break / goto / labelled branch), and a sweep returns before or between its loops only after a failed read or an empty selection",
		},
		[]string{"the number of cycles (no bound is computed)", "fairness between the five coroutines", "transient-failure sequences"}).
		rule("R10-enqueue-non-blocking", ruleEnqueueNonBlocking).
		rule("R17-tick", ruleTick).
		rule("R17-background", ruleBackground(true)).
		rule("sweep-answers", ruleSweepAnswers).
		rule("record-loops", ruleRecordLoopsComplete).
		rule("sweep-early-exit", ruleSweepEarlyExit).
		rule("R10-exactly-once", ruleExactlyOnce).
		rule("R1R2-sql-spec", ruleSQLSpec(kindList("ReadPromises", "ReadSchedules", "ReadTasks", "ReadEnqueueableTasks", "TimeoutLocks", "UpdatePromise", "UpdateSchedule", "UpdateTask"))).
		rule("R9-command-provenance", ruleCmdProvenance("ReadPromisesCommand", "ReadSchedulesCommand", "ReadTasksCommand", "ReadEnqueueableTasksCommand", "TimeoutLocksCommand", "UpdatePromiseCommand", "UpdateScheduleCommand", "UpdateTaskCommand")).
		rule("R17-commands-submitted", ruleCommandsSubmitted).
		rule("R17-lifecycle-calls", ruleLifecycleCalls).
		rule("R12-await-non-nil", ruleAwaitNonNil).
		rule("R10-worker-loops", ruleWorkerLoops)

	regProp("C12",
		[]string{
			"for each of 33 owners of a one-shot obligation (API/AIO enqueue with their wrappers, Dispatch, the kernel's SQE and CQE loops, the AddOnRequest wrapper, every subsystem/plugin Enqueue, the store/router/echo/sender/plugin workers, the Done closure, the simulated AIO flush, the front-end reply channel) every control-flow path discharges the obligation exactly once (R10)",
			"Loop returns only under Done(); Done ⇔ api done ∧ queue empty ∧ scheduler empty; background coroutines are not added once the API is done; serve stops API then AIO only after Loop returned (R17)",
			"the shutdown flag must be set and tested-then-sent under one lock (R14: finding F14)",
			"every subsystem / plugin Enqueue is non-blocking (each send is an arm of a select with a default arm): the kernel goroutine, sole consumer of the completion queue, never waits on a subsystem queue",
		},
		[]string{"arrival patterns, queue pressure, goroutine scheduling", "gocoro's scheduler (read, not analysed)"}).
		rule("R10-enqueue-non-blocking", ruleEnqueueNonBlocking).
		rule("R10-exactly-once", ruleExactlyOnce).
		rule("R17-tick", ruleTick).
		rule("R17-serve-shutdown", ruleServeShutdown).
		rule("R14-shutdown-flag", ruleShutdownFlag).
		rule("store-process", ruleStoreProcess).
		rule("R10-http-reply-once", ruleHttpReplyOnce).
		rule("R10-batches-processed", ruleBatchesProcessed).
		rule("R10-kernel-queues", ruleKernelQueues).
		rule("R17-lifecycle-calls", ruleLifecycleCalls).
		rule("R10-cqe-well-formed", ruleCQEWellFormed).
		rule("R10-dequeue-bound", ruleDequeueBound).
		rule("R10-worker-loops", ruleWorkerLoops).
		rule("R10-request-wrapper", ruleRequestWrapper).
		rule("R10-worker-entries", ruleWorkerEntriesCarryCallback)
}

func init() {
	regProp("C13",
		[]string{
			"every switch over a closed kernel enum whose default panics is exhaustive (R11)",
			"decode-nil: a pointer filled by a JSON decoder from stored client bytes (routing tag, receiver, plugin data) is nil-tested before its first dereference and is not the subject of an assertion (JSON `null` ⇒ nil with err == nil)",
			"union-access: a member of the store Result union is read only where the submission's command list makes it the one that is set, or under a Kind test; a member of the Request union is selected only by the coroutine registered for exactly that kind (or under a test of the request's Kind); every union literal — also those written with an elided type inside a slice literal — sets the member named after its Kind",
			"a value (pointer, slice, flag or number) obtained together with an error is dereferenced / read only where that error was found nil (err-dominates-use)",
			"must-helpers: no Must-style helper is applied to run-time data",
			"request-asserts: every util.Assert over request fields in a request coroutine is implied by what each front end (and the shared search helper, including its cursor path) validates before submitting",
			"all SQL text is constant (no injection); every submit-able kind is registered; cursors are decoded only with signature verification",
			"row-count asserts: every kernel assertion over the row counts the store reports (0 or 1 rows; created task rows == deleted callback rows; promise rows == task rows) is backed by the statement that produces the count: guard, row source, conflict clause and LIMIT of every asserted kind equal spec/sql.spec (R1/R2 restricted to these facets)",
		},
		[]string{"oversized bodies, stalls, library internals", "implicit (control-dependent) flows of client data", "assertions inside the store handlers beyond those fed by the checked request fields"}).
		rule("R11-exhaustive", ruleExhaustive(nil)).
		rule("R12-decode-nil", ruleDecodeNil).
		rule("R12-union-access", ruleUnionAccess).
		rule("R12-must-helpers", ruleMustHelpers).
		rule("R12-library-panics", ruleLibraryPanics).
		rule("R12-request-asserts", ruleRequestAsserts).
		rule("R12-cursor", ruleCursorVerified).
		rule("R12-pb-nil", rulePbNil).
		rule("R12-use-before-err", ruleUseBeforeErrCheck).
		rule("R12-unwrap-nil", ruleUnwrapNil).
		rule("R3-sql-origin", ruleSQLOrigin).
		rule("R12-row-count-asserts", ruleSQLRowCounts).
		rule("R12-union-literals", ruleUnionLiterals).
		rule("R3-errors-examined", ruleErrorsExamined(pkgHttp, pkgGrpc, pkgSubApi, pkgTApi, pkgPromise, pkgSchedule, pkgTask, pkgUtil)).
		rule("R12-request-union", ruleRequestUnionAccess).
		rule("R12-store-result-union", ruleStoreResultUnion).
		rule("R12-err-dominates-use", ruleErrDominatesUse).
		rule("R12-records-index", ruleRecordsIndex).
		rule("R12-nil-and-deref", ruleNilAndDeref).
		rule("R12-nil-on-path", ruleNilOnPath(append(append([]string{pkgHttp, pkgGrpc, pkgSubApi, pkgCoroutines, pkgSystem, pkgIAio, pkgIApi, pkgStore, pkgPromise, pkgTask, pkgSchedule, pkgUtil}, workerPkgs...), storePkgs...)...)).
		rule("R13-front-end-siblings", ruleFrontEndSiblings).
		rule("M-stmt-prepared", ruleStmtPrepared).
		rule("R10-cqe-well-formed", ruleCQEWellFormed).
		rule("R10-dequeue-bound", ruleDequeueBound).
		rule("R12-await-non-nil", ruleAwaitNonNil).
		rule("R10-request-wrapper", ruleRequestWrapper)
}

func init() {
	regProp("C18",
		[]string{
			"the connection registry and every send/close on a listener's channel are in functions reachable only from the worker goroutine's Start; the HTTP handler goroutine only hands connections over and reads its own channel (R14)",
			"close-then-unregister: every close of a listener's channel is followed by its removal from the registry (or happens before it was ever added), so no registered connection is ever closed — the necessary condition for never sending on a closed channel",
			"lookup: only the addressed group is searched; an empty group is `not found`; a listener with the addressed id is preferred; a notification goes only to the exact id (R7)",
			"Done is called exactly once per message and Done(true) only in the select arm whose non-blocking send was taken (R10); a null receiver payload is rejected instead of dereferenced (R12)",
			"bookkeeping: what arrives on `connect` is registered and what arrives on `disconnect` is removed with the channel match (the handler's Connect / Disconnect send on the channel of their name); the registry map is indexed only by the group; the count is incremented with the one append and decremented with every close, the limit is only read, and add refuses exactly when len >= max; ServeHTTP ends the request when the registration is refused; Stop closes the queue and both channels",
		},
		[]string{"timing of sends against connection churn, buffer occupancy", "net/http's handling of the stream"}).
		rule("R14-poll-confinement", rulePollConfinement).
		rule("R7-poll-lookup", rulePollLookup).
		rule("R7-poll-replace", rulePollReplace).
		rule("R7-poll-channels", rulePollChannels).
		rule("R7-poll-registry", rulePollRegistry).
		rule("R7-poll-refusal", rulePollRefusal).
		rule("R7-poll-handler-disconnects", rulePollHandlerDisconnects).
		rule("R17-lifecycle-calls", ruleLifecycleCalls).
		rule("R10-poll-done", func(c *Ctx) { n := 0; c.pollDoneOnce(&n) }).
		rule("R12-decode-nil", ruleDecodeNil).
		rule("R16-swapped-arguments", ruleSwappedArguments)

	regProp("C19",
		[]string{
			"TagSource decides exactly: tag absent ⇒ no match; valid JSON decoding strictly into a receiver with a type ⇒ physical; other JSON ⇒ no match; anything else ⇒ logical string (R7 by path enumeration); first matching source wins; coerce accepts a physical receiver or a string",
			"sender: logical name ⇒ configured target, else by URL scheme (http/https ⇒ http transport with that URL, poll://group/id ⇒ poll transport), physical as given; unresolvable receiver or missing plugin ⇒ error completion; plugin chosen by receiver type; message = (type, receiver data, body)",
			"body keys type/task/href{claim,complete,heartbeat} or type/promise from this submission; hrefs formatted from exactly the task id and counter; the task created for a routed promise carries the router's receiver (R9/objects)",
			"both decoders reject null instead of dereferencing nil (R12); every decode of receiver data, routing tags, request bodies and stored columns targets storage that is fresh for that message (zero-valued local of the invocation or a target handed in by the caller), so nothing of the previous message's address or headers is merged into this one (decode-fresh); bytes handed to a plugin do not alias a buffer that outlives the message (encode-fresh); where the worker is built every configured target is entered under its name unconditionally and a built-in entry only fills an absent name (sender-targets); the http receiver built from a routing-tag URL carries that URL verbatim (the String() of url.Parse's own result)",
		},
		[]string{"the plugins' network behaviour", "url.Parse's treatment of odd URLs"}).
		rule("R7-decision-tables", ruleTables(tblTagSource, tblSchemeToRecv)).
		rule("sender-scheme-url", ruleSchemeURLVerbatim).
		rule("router-first-match", ruleRouterFirstMatch).
		rule("sender-resolution", ruleSenderResolution).
		rule("sender-targets", ruleSenderTargets).
		rule("sender-poll-address", rulePollAddress).
		rule("R9-command-provenance", ruleCmdProvenance("CreateTaskCommand", "CreatePromiseAndTaskCommand")).
		rule("R6-object-provenance", ruleObjProvenance("SenderSubmission", "Task", "Promise")).
		rule("R12-decode-nil", ruleDecodeNil).
		rule("R10-exactly-once", ruleExactlyOnce).
		rule("R10-cqe-well-formed", ruleCQEWellFormed).
		rule("R7-http-plugin-outcome", ruleHttpPluginOutcome).
		rule("R7-sender-process", ruleSenderTables).
		rule("R16-decode-fresh", ruleDecodeFresh).
		rule("R16-encode-fresh", ruleEncodeFresh).
		rule("R16-swapped-arguments", ruleSwappedArguments)
}

func init() {
	regProp("C20",
		[]string{
			"INSERT bindings and SELECT/Scan alignment: every client column is written from and read into the identically named field, in both backends (R1/R2); stored maps are written with json.Marshal and read with the plain inverse",
			"name agreement (R16): in both front ends and in the record decoders every field of a request / API object / protobuf message is fed from the identically named station (or a listed alias)",
			"command literals copy request fields unaltered (R9); responses and dispatched messages carry the stored record unaltered (objects)",
			"no normalising or escaping function lies on an id or payload path (allowed sites are listed with their reason); html/template is not used; the wildcard-route id loses exactly its leading slash; derived ids embed the client id raw; time-valued fields are int64 at every station (R15/R16)",
			"a client datum is replaced by an empty map / slice only under a nil / empty test of that same datum (zero-defaults); every decode targets storage fresh for the message (decode-fresh); bytes handed on do not alias a buffer that outlives the message (encode-fresh); no package-level map is handed out by a decoder / converter (no-shared-maps); no column carries a case-folding / trimming collation",
		},
		[]string{"byte-level behaviour of drivers and codecs (database/sql, encoding/json base64, protobuf)", "LIKE/JSON-path semantics of search (finding F15)"}).
		rule("R16-name-agreement", ruleNameAgreement).
		rule("R16-decode-fresh", ruleDecodeFresh).
		rule("R16-encode-fresh", ruleEncodeFresh).
		rule("R16-no-shared-maps", ruleNoSharedMaps).
		rule("R3-errors-examined", ruleErrorsExamined(pkgHttp, pkgGrpc, pkgSubApi, pkgTApi, pkgPromise, pkgSchedule, pkgTask, pkgUtil)).
		rule("R16-zero-defaults", ruleDefaultsOnlyForZero).
		rule("R16-client-fields", ruleClientFieldsNotRewritten).
		rule("R16-keyed-subobjects", ruleKeyedSubobjects).
		rule("R15-no-normalisers", ruleNoNormalisers).
		rule("R16-widths", ruleTimeoutWidth).
		rule("R16-codecs", ruleCodecPairs).
		rule("R15-derived-ids", ruleDerivedIdsRaw).
		rule("R1R2-sql-spec", ruleSQLSpec(allKinds)).
		rule("R9-command-provenance", ruleCmdProvenance("CreatePromiseCommand", "UpdatePromiseCommand", "CreateScheduleCommand", "CreateCallbackCommand", "CreateTaskCommand")).
		rule("R6-object-provenance", ruleObjProvenance(objAll...)).
		rule("R16-converter-complete", ruleConverterCompleteness).
		rule("R16-zero-value-locals", ruleZeroValueLocals).
		rule("R16-shadowed-state", ruleNoShadowedState).
		rule("R16-swapped-arguments", ruleSwappedArguments)
}
