#!/bin/bash
# seed_eval.sh <worktree> <name>
# Confirms a sub-agent's seeded change (demo fails with it, passes without it, existing suite
# passes), stores it under /verif/seeded/<name>/ and records which checks report it.
set -u
WT="$1"; NAME="$2"
export GOFLAGS=-mod=mod GOPROXY=off GOSUMDB=off GOTOOLCHAIN=local
OUT=/verif/seeded/$NAME
mkdir -p "$OUT"
cp "$WT/SEED/patch.diff" "$OUT/patch.diff"
rm -rf "$OUT/demo"; cp -r "$WT/SEED/demo" "$OUT/demo"
cp "$WT/SEED/meta.json" "$OUT/agent_meta.json"
DEMO=$(python3 -c 'import json,sys; print(json.load(open(sys.argv[1]))["demo_cmd"])' "$WT/SEED/meta.json")
DEMO=$(echo "$DEMO" | sed -E "s#cd <[a-z]+> && ##")
PROP=$(python3 -c 'import json,sys; print(json.load(open(sys.argv[1]))["property"])' "$WT/SEED/meta.json")
cd "$WT" || exit 2
# keep the SEED directory out of ./...
[ -f SEED/go.mod ] || printf 'module seed\n' > SEED/go.mod
echo "== demo with change: $DEMO"
( eval "$DEMO" ) > "$OUT/.demo_with.log" 2>&1; with_rc=$?
echo "   exit $with_rc"
echo "== existing suite with change"
go build ./... > "$OUT/.build.log" 2>&1; build_rc=$?
# run the suite without the demo test files
DEMOFILES=$(git status --porcelain | grep '^??' | awk '{print $2}' | grep '_test.go$\|/$' | grep -v '^SEED' )
mkdir -p /tmp/.seedhold-$NAME
for f in $DEMOFILES; do mkdir -p /tmp/.seedhold-$NAME/$(dirname $f); mv "$f" /tmp/.seedhold-$NAME/$f; done
go test -vet=off -count=1 ./... > "$OUT/.suite.log" 2>&1; suite_rc=$?
for f in $DEMOFILES; do mkdir -p $(dirname $f); mv /tmp/.seedhold-$NAME/$f "$f"; done
rm -rf /tmp/.seedhold-$NAME
echo "   build $build_rc suite $suite_rc"
echo "== demo without change"
# (not git stash: the stash is shared by all worktrees of /repo)
git apply -R "$OUT/patch.diff"
( eval "$DEMO" ) > "$OUT/.demo_without.log" 2>&1; without_rc=$?
git apply "$OUT/patch.diff"
echo "   exit $without_rc"
# apply to /repo, run every claimed check, revert
# (REPO=<clean worktree of /repo at HEAD> and RESOLINT_BIN=<binary> let this step run while a
# regression is patching /repo itself; tools/seeds_check.sh repeats it on /repo for every seed)
cd /verif
REPO=${REPO:-/repo}
RESOLINT_BIN=${RESOLINT_BIN:-./bin/resolint}
if ! git -C $REPO apply --check "$OUT/patch.diff" 2>/dev/null; then echo "PATCH DOES NOT APPLY to $REPO"; fi
git -C $REPO apply "$OUT/patch.diff"
PROPS=$(python3 -c 'import json; print(" ".join(c["property_id"] for c in json.load(open("/verif/MANIFEST.json"))["checks"]))')
mkdir -p /tmp/.seedev-$NAME; cp /verif/known_findings.json /tmp/.seedev-$NAME/
for p in $PROPS; do
  ( VERIF_NOEVIDENCE=1 $RESOLINT_BIN -repo $REPO -verif /tmp/.seedev-$NAME -prop $p > /tmp/.seedev-$NAME/$p.log 2>&1 ) &
  while [ $(jobs -r | wc -l) -ge 6 ]; do sleep 0.2; done
done
wait
git -C $REPO checkout -- .
DET=""
for p in $PROPS; do
  if grep -q "^VIOLATION" /tmp/.seedev-$NAME/$p.log; then DET="$DET $p"; grep -v "^VIOLATION\|^analysed\|^    " /tmp/.seedev-$NAME/$p.log | grep "violation\|undecided" | cut -c1-300 | sed "s/^/   [$p] /" | head -4; fi
done
echo "== detected by:$DET"
python3 - "$OUT" "$PROP" "$with_rc" "$without_rc" "$build_rc" "$suite_rc" "$DET" "$DEMO" <<'PY'
import json,sys,os
out,prop,w,wo,b,s,det,demo=sys.argv[1:9]
a=json.load(open(out+"/agent_meta.json"))
keys={}
for p in det.split():
    ks=[]
    for l in open("/tmp/.seedev-%s/%s.log"%(os.path.basename(out),p)):
        if ("violation" in l or "undecided" in l) and "[" in l and not l.startswith("VIOLATION"):
            ks.append(l[l.rfind("[")+1:l.rfind("]")])
    keys[p]=sorted(set(ks))
meta={"property":prop,"breaks":a.get("summary") or a.get("breaks"),"needs_to_manifest":a.get("needs_to_manifest"),"files_changed":a.get("files_changed"),
 "what_i_ran":{"demo_cmd":demo,"demo_with_change_exit":int(w),"demo_without_change_exit":int(wo),"go_build_exit":int(b),"existing_suite_exit":int(s),
   "checks":"every claimed check's quick command against /repo with patch.diff applied (git apply), then git checkout -- ."},
 "confirmed": int(w)!=0 and int(wo)==0 and int(b)==0 and int(s)==0,
 "detected_by":det.split(),"reported_obligations":keys}
json.dump(meta,open(out+"/meta.json","w"),indent=1)
print("confirmed:",meta["confirmed"])
PY
rm -rf /tmp/.seedev-$NAME
