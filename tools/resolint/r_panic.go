package main

// R12 panic obligations, as a set of targeted sub-rules (explicit-flow only; see DESIGN.md §5 C13):
//   decode-nil      pointers filled by a JSON decoder from client-controlled bytes are nil-tested
//                   before the first dereference / are not the subject of an assertion
//   union-access    a member of the t_aio.Result union is read only where the submission's command
//                   list makes that member the one that is set (or a Kind test dominates)
//   must-helpers    Must-style helpers are not applied to non-constant data
//   request-asserts every util.Assert over request fields in a request coroutine is implied by
//                   what each front end validates before it submits the request

import (
	"fmt"
	"go/ast"
	"go/token"
	"go/types"
	"reflect"
	"sort"
	"strings"

	"golang.org/x/tools/go/packages"
)

var workerPkgs = []string{pkgRouter, pkgSender, pkgPoll, pkgHttpPlugin, pkgEcho}

// ---- decode-nil ----

func isDecodeCall(info *types.Info, call *ast.CallExpr) bool {
	fn, ok := calleeOf(info, call).(*types.Func)
	if !ok || fn.Pkg() == nil {
		return false
	}
	switch {
	case fn.Pkg().Path() == "encoding/json" && (fn.Name() == "Unmarshal" || fn.Name() == "Decode"):
		return true
	case fn.Pkg().Path() == pkgUtil && fn.Name() == "UnmarshalChain":
		return true
	}
	return false
}

func ruleDecodeNil(c *Ctx) {
	n := 0
	for _, pp := range workerPkgs {
		pk := c.P.Pkg(pp)
		if pk == nil {
			c.und("decode-nil/"+pp, 0, "package not loaded")
			continue
		}
		info := pk.TypesInfo
		for _, fd := range allFuncDecls(pk) {
			if isTestFile(c.P, fd.Pos()) || fd.Name.Name == "New" {
				continue // constructors decode configuration, not client data
			}
			// decode targets: &x where x is a local pointer variable
			targets := map[types.Object]*ast.CallExpr{}
			ast.Inspect(fd.Body, func(nd ast.Node) bool {
				call, ok := nd.(*ast.CallExpr)
				if !ok || !isDecodeCall(info, call) {
					return true
				}
				for _, a := range call.Args {
					if u, ok := ast.Unparen(a).(*ast.UnaryExpr); ok && u.Op == token.AND {
						if id, ok := ast.Unparen(u.X).(*ast.Ident); ok {
							if v, ok := info.Uses[id].(*types.Var); ok {
								if _, isPtr := v.Type().Underlying().(*types.Pointer); isPtr {
									targets[v] = call
								}
							}
						}
					}
				}
				return true
			})
			var objs []types.Object
			for o := range targets {
				objs = append(objs, o)
			}
			sort.Slice(objs, func(i, j int) bool { return objs[i].Pos() < objs[j].Pos() })
			for _, obj := range objs {
				n++
				call := targets[obj]
				key := fmt.Sprintf("decode-nil/%s.%s/%s", pk.Name, funcName(fd), obj.Name())
				var problems []string
				var where token.Pos
				ast.Inspect(fd.Body, func(nd ast.Node) bool {
					if nd == nil || nd.Pos() < call.End() {
						return true
					}
					var site ast.Node
					switch x := nd.(type) {
					case *ast.SelectorExpr:
						if isObj(info, x.X, obj) {
							site = x
						}
					case *ast.StarExpr:
						if isObj(info, x.X, obj) {
							site = x
						}
					case *ast.CallExpr:
						if fn, ok := calleeOf(info, x).(*types.Func); ok && fn.Pkg() != nil && fn.Pkg().Path() == pkgUtil && fn.Name() == "Assert" && mentionsObj(info, x.Args[0], obj) && !validatedBefore(info, fd.Body, x, obj, call.End()) {
							problems = append(problems, "util.Assert over the decoded value at "+c.P.pos(x.Pos())+" (JSON `null` decodes to nil without an error)")
							where = x.Pos()
							return false
						}
					}
					if site == nil {
						return true
					}
					if !nilGuarded(info, fd.Body, site, obj) && !testedEarlier(info, fd.Body, site, obj, call.End()) {
						problems = append(problems, "dereferenced at "+c.P.pos(site.Pos())+" without a nil test")
						if !where.IsValid() {
							where = site.Pos()
						}
					}
					return true
				})
				if len(problems) == 0 {
					c.ok(key, call.Pos(), "decoded pointer is nil-tested before use")
				} else {
					o := c.bad(key, call.Pos(), fmt.Sprintf("%s is filled by a JSON decoder from stored client bytes; the literal `null` leaves it nil with err == nil, and it is then %s: a panic on a worker goroutine (no recover) terminates the server", obj.Name(), strings.Join(uniq(problems), "; ")))
					o.Path = []string{"decode: " + c.P.pos(call.Pos()), "offending use: " + c.P.pos(where)}
				}
			}
		}
	}
	c.count("decode_targets", n)
	c.floor("pointer decode targets in worker code", n, 4)
}

// testedEarlier: a nil comparison of obj occurs in some condition between the decode and the site
// (in source order). The dereference then relies on a correlation between branches that this rule
// does not analyse; it is accepted (the rule is armed for pointers that are never nil-tested).
func testedEarlier(info *types.Info, root *ast.BlockStmt, site ast.Node, obj types.Object, after token.Pos) bool {
	found := false
	ast.Inspect(root, func(n ast.Node) bool {
		ifs, ok := n.(*ast.IfStmt)
		if !ok || ifs.Pos() < after || ifs.Cond.End() > site.Pos() {
			return true
		}
		ast.Inspect(ifs.Cond, func(x ast.Node) bool {
			if be, ok := x.(*ast.BinaryExpr); ok && (be.Op == token.EQL || be.Op == token.NEQ) && isObj(info, be.X, obj) && exprString(be.Y) == "nil" {
				found = true
			}
			return true
		})
		return true
	})
	return found
}

// validatedBefore: between the decode and the site an `if … { return }` over the decoded value
// rejected the nil case (the assertion that follows is then an internal invariant).
func validatedBefore(info *types.Info, root *ast.BlockStmt, site ast.Node, obj types.Object, after token.Pos) bool {
	for _, st := range root.List {
		if st.Pos() < after || st.End() > site.Pos() {
			continue
		}
		if ifs, ok := st.(*ast.IfStmt); ok && exits(ifs.Body) {
			found := false
			ast.Inspect(ifs.Cond, func(n ast.Node) bool {
				if be, ok := n.(*ast.BinaryExpr); ok && be.Op == token.EQL && isObj(info, be.X, obj) && exprString(be.Y) == "nil" {
					found = true
				}
				return true
			})
			if found {
				return true
			}
		}
	}
	return false
}

// nilGuarded: site is protected by a test that obj != nil — an enclosing if whose condition has
// `obj != nil` as a conjunct, the right operand of `obj != nil && …`, or an earlier
// `if obj == nil { return / continue / break }` in an enclosing block.
func nilGuarded(info *types.Info, root ast.Node, site ast.Node, obj types.Object) bool {
	isNilCmp := func(e ast.Expr, op token.Token) bool {
		be, ok := ast.Unparen(e).(*ast.BinaryExpr)
		return ok && be.Op == op && ((isObj(info, be.X, obj) && exprString(be.Y) == "nil") || (isObj(info, be.Y, obj) && exprString(be.X) == "nil"))
	}
	var hasConj func(e ast.Expr) bool
	hasConj = func(e ast.Expr) bool {
		e = ast.Unparen(e)
		if isNilCmp(e, token.NEQ) {
			return true
		}
		if be, ok := e.(*ast.BinaryExpr); ok && be.Op == token.LAND {
			return hasConj(be.X) || hasConj(be.Y)
		}
		return false
	}
	chain := enclosing(root, site)
	chain = append(chain, site)
	for i, nd := range chain {
		switch x := nd.(type) {
		case *ast.IfStmt:
			if i+1 < len(chain) && chain[i+1] == ast.Node(x.Body) && hasConj(x.Cond) {
				return true
			}
			// else branch of `if obj == nil`
			if i+1 < len(chain) && x.Else != nil && chain[i+1] == ast.Node(x.Else) && isNilCmp(x.Cond, token.EQL) {
				return true
			}
		case *ast.BinaryExpr:
			if x.Op == token.LAND && i+1 < len(chain) && chain[i+1] == ast.Node(x.Y) && hasConj(x.X) {
				return true
			}
			// `obj == nil || obj.f …`: the right operand is evaluated only when the left one is false
			if x.Op == token.LOR && i+1 < len(chain) && chain[i+1] == ast.Node(x.Y) {
				var hasDisjL func(e ast.Expr) bool
				hasDisjL = func(e ast.Expr) bool {
					e = ast.Unparen(e)
					if isNilCmp(e, token.EQL) {
						return true
					}
					if be, ok := e.(*ast.BinaryExpr); ok && be.Op == token.LOR {
						return hasDisjL(be.X) || hasDisjL(be.Y)
					}
					return false
				}
				if hasDisjL(x.X) {
					return true
				}
			}
		case *ast.BlockStmt:
			for _, st := range x.List {
				if st.End() > site.Pos() {
					break
				}
				if ifs, ok := st.(*ast.IfStmt); ok && exits(ifs.Body) {
					// `if obj == nil { return }` or `if … || obj == nil { return }`
					var hasDisj func(e ast.Expr) bool
					hasDisj = func(e ast.Expr) bool {
						e = ast.Unparen(e)
						if isNilCmp(e, token.EQL) {
							return true
						}
						if be, ok := e.(*ast.BinaryExpr); ok && be.Op == token.LOR {
							return hasDisj(be.X) || hasDisj(be.Y)
						}
						return false
					}
					if hasDisj(ifs.Cond) {
						return true
					}
				}
			}
		}
	}
	return false
}

func exits(b *ast.BlockStmt) bool {
	if len(b.List) == 0 {
		return false
	}
	switch x := b.List[len(b.List)-1].(type) {
	case *ast.ReturnStmt:
		return true
	case *ast.BranchStmt:
		return x.Tok == token.CONTINUE || x.Tok == token.BREAK
	case *ast.ExprStmt:
		if call, ok := x.X.(*ast.CallExpr); ok {
			if id, ok := call.Fun.(*ast.Ident); ok && id.Name == "panic" {
				return true
			}
		}
	}
	return false
}

// ---- union-access ----

// ruleUnionAccess: `…Store.Results[i].<Member>` must be the member the i-th command sets.
func ruleUnionAccess(c *Ctx) {
	m := c.coroModel()
	if m.Err != nil {
		c.und("model", 0, m.Err.Error())
		return
	}
	info := m.Pk.TypesInfo
	// kinds submitted by the helpers (functions returning a CoroutineFunc)
	helperKinds := map[string][]string{}
	for _, name := range m.Order {
		cf := m.Funcs[name]
		sig := info.Defs[cf.Decl.Name].(*types.Func).Type().(*types.Signature)
		if sig.Results().Len() == 1 && namedName(sig.Results().At(0).Type()) == "CoroutineFunc" {
			if subs := cf.storeSubmissions(m); len(subs) > 0 {
				helperKinds[name] = subs[len(subs)-1].Kinds
			}
		}
	}
	n := 0
	occ := map[string]int{}
	for _, name := range m.Order {
		cf := m.Funcs[name]
		ast.Inspect(cf.Decl.Body, func(nd ast.Node) bool {
			se, ok := nd.(*ast.SelectorExpr)
			if !ok {
				return true
			}
			if tv, ok := info.Types[se.X]; !ok || !isNamed(tv.Type, pkgTAio, "Result") {
				return true
			}
			if se.Sel.Name == "Kind" {
				return true
			}
			// the result expression, possibly through a local variable: <base>[<idx>]
			full := cf.Env.prov(se.X)
			lb := strings.LastIndex(full, "[")
			if lb < 0 || !strings.HasSuffix(full, "]") {
				c.und(fmt.Sprintf("union-access/%s/%s", name, se.Sel.Name), se.Pos(), "cannot relate "+exprString(se)+" to a submission ("+full+")")
				return true
			}
			base := full[:lb] // await(Store:K1+K2).Store.Results
			// a plain helper reading a completion passed in by its (single) caller: the parameter
			// stands for the caller's argument
			if strings.HasPrefix(base, "param:") {
				if r, ok := m.substParam(name, base); ok {
					base = r
				}
			}
			idx := full[lb+1 : len(full)-1]
			member := se.Sel.Name
			n++
			occ[name+"/"+member]++
			key := fmt.Sprintf("union-access/%s/%s", name, member)
			if occ[name+"/"+member] > 1 {
				key += fmt.Sprintf("#%d", occ[name+"/"+member])
			}
			var kinds []string
			switch {
			case strings.HasPrefix(base, "await(Store:"):
				end := strings.Index(base, ")")
				kinds = strings.Split(base[len("await(Store:"):end], "+")
			case strings.HasPrefix(base, "await("):
				h := base[len("await("):strings.Index(base, ")")]
				kinds = helperKinds[h]
			}
			if kinds == nil {
				// results of a variable-built transaction inside the same helper (len asserted): fall
				// back to the helper's own submission
				if hk, ok := helperKinds[name]; ok {
					kinds = hk
				}
			}
			if kinds == nil {
				c.und(key, se.Pos(), "cannot relate "+exprString(se)+" to a submission ("+base+")")
				return true
			}
			var at string
			switch {
			case idx == "0" || idx == "1" || idx == "2" || idx == "3":
				i := int(idx[0] - '0')
				if i < len(kinds) {
					at = kinds[i]
				} else if len(kinds) > 0 && strings.HasSuffix(kinds[len(kinds)-1], "*") {
					at = kinds[len(kinds)-1]
				}
			default:
				// indexed by a loop variable: all elements have the repeated kind
				for _, k := range kinds {
					if strings.HasSuffix(k, "*") {
						at = k
					}
				}
			}
			at = strings.TrimSuffix(at, "*")
			memberKind := member
			if member == "ReadEnquableTasks" {
				memberKind = "ReadEnqueueableTasks"
			}
			alts := strings.Split(at, "|")
			switch {
			case len(alts) == 1 && alts[0] == memberKind:
				c.ok(key, se.Pos(), "command "+idx+" of the submission is "+at)
			case contains(alts, memberKind):
				// several kinds possible: a Kind test must govern the access
				guarded := false
				want := "(" + full + ".Kind == " + memberKind + ")"
				for _, a := range cf.Env.enclosingConds(cf.Decl.Body, se) {
					if a == want {
						guarded = true
					}
				}
				// the else branch of a test for the only other alternative
				if !guarded && len(alts) == 2 {
					other := alts[0]
					if other == memberKind {
						other = alts[1]
					}
					wantNot := "(" + full + ".Kind != " + other + ")"
					for _, a := range cf.Env.enclosingConds(cf.Decl.Body, se) {
						if a == wantNot {
							guarded = true
						}
					}
				}
				c.check(guarded, key, se.Pos(), "access to ."+member+" is governed by a Kind test", "result "+idx+" of this submission is one of "+at+" but ."+member+" is read without a Kind test: when the other kind was submitted the member is nil and the dereference panics on the kernel goroutine")
			default:
				c.bad(key, se.Pos(), "result "+idx+" of this submission is "+at+", but ."+member+" is read (always nil)")
			}
			return true
		})
	}
	c.count("result_union_accesses", n)
	c.floor("result union accesses", n, 30)
}

// substParam rewrites a provenance rooted at a parameter of the package-level function fn into the
// provenance of the argument at fn's call sites, when every call site in the package passes an
// argument with the same provenance.
func (m *coroModel) substParam(fn string, pv string) (string, bool) {
	cf := m.Funcs[fn]
	if cf == nil {
		return "", false
	}
	rest := strings.TrimPrefix(pv, "param:")
	pname := rest
	tail := ""
	if i := strings.IndexAny(rest, ".["); i >= 0 {
		pname, tail = rest[:i], rest[i:]
	}
	idx := -1
	k := 0
	for _, f := range cf.Decl.Type.Params.List {
		for _, n := range f.Names {
			if n.Name == pname {
				idx = k
			}
			k++
		}
	}
	if idx < 0 {
		return "", false
	}
	obj := m.Pk.TypesInfo.Defs[cf.Decl.Name]
	var got []string
	for _, name := range m.Order {
		caller := m.Funcs[name]
		for _, call := range callsInDeep(caller.Decl.Body) {
			if calleeOf(m.Pk.TypesInfo, call) != obj || idx >= len(call.Args) {
				continue
			}
			got = append(got, caller.Env.prov(call.Args[idx]))
		}
	}
	if len(got) == 0 {
		return "", false
	}
	for _, g := range got[1:] {
		if g != got[0] {
			return "", false
		}
	}
	return got[0] + tail, true
}

func contains(xs []string, x string) bool {
	for _, y := range xs {
		if y == x {
			return true
		}
	}
	return false
}

// ---- must-helpers ----

func ruleMustHelpers(c *Ctx) {
	n := 0
	for _, pk := range c.P.Roots {
		if strings.HasPrefix(pk.PkgPath, modPath+"/cmd") || strings.Contains(pk.PkgPath, "/test") || pk.PkgPath == pkgPb || strings.HasPrefix(pk.PkgPath, modPath+"/pkg/client") {
			continue
		}
		info := pk.TypesInfo
		for _, fd := range allFuncDecls(pk) {
			if isTestFile(c.P, fd.Pos()) {
				continue
			}
			for _, call := range callsInDeep(fd.Body) {
				fn, ok := calleeOf(info, call).(*types.Func)
				if !ok || !strings.HasPrefix(fn.Name(), "Must") || fn.Pkg() == nil || strings.HasPrefix(fn.Pkg().Path(), modPath) {
					continue
				}
				n++
				// no argument (transitively, for nested calls) is run-time DATA (string / bytes / map):
				// registering collectors or compiling constant patterns at start-up is not client-reachable
				allConst := true
				ast.Inspect(call, func(x ast.Node) bool {
					if id, ok := x.(*ast.Ident); ok {
						if v, ok := info.Uses[id].(*types.Var); ok && !v.IsField() {
							switch u := v.Type().Underlying().(type) {
							case *types.Basic:
								if u.Info()&types.IsString != 0 {
									allConst = false
								}
							case *types.Slice, *types.Map:
								allConst = false
							}
						}
					}
					return true
				})
				key := fmt.Sprintf("must/%s.%s/%s.%s", pk.Name, funcName(fd), fn.Pkg().Name(), fn.Name())
				c.check(allConst, key, call.Pos(), "Must helper over constants only", fn.Pkg().Name()+"."+fn.Name()+" panics on bad input and is applied to run-time data ("+exprString(call)+"): stored client data can crash the goroutine that processes it")
			}
		}
	}
	c.count("must_calls", n)
}

// ---- request-asserts ----

type feFact struct{ nonempty, ge0, gt0, nonnil bool }

// tagOf returns the binding tag of the struct field a selector expression denotes.
func bindingTag(info *types.Info, e ast.Expr) (string, types.Type, bool) {
	se, ok := ast.Unparen(e).(*ast.SelectorExpr)
	if !ok {
		return "", nil, false
	}
	sel, ok := info.Selections[se]
	if !ok {
		return "", nil, false
	}
	fld, ok := sel.Obj().(*types.Var)
	if !ok || !fld.IsField() {
		return "", nil, false
	}
	// find the struct that declares the field
	recv := sel.Recv()
	for {
		if p, ok := recv.(*types.Pointer); ok {
			recv = p.Elem()
			continue
		}
		break
	}
	st, ok := recv.Underlying().(*types.Struct)
	if !ok {
		return "", nil, false
	}
	for i := 0; i < st.NumFields(); i++ {
		if st.Field(i) == fld {
			return reflect.StructTag(st.Tag(i)).Get("binding"), fld.Type(), true
		}
	}
	return "", nil, false
}

// factsOfSource derives what is known about a request field from its source expression at a
// front-end site; before is the position of the Process call (guards must precede it).
func factsOfSource(pk *packages.Package, fd *ast.FuncDecl, src ast.Expr, before token.Pos) feFact {
	info := pk.TypesInfo
	var f feFact
	src = ast.Unparen(src)
	// conversions
	if call, ok := src.(*ast.CallExpr); ok {
		if tv, ok := info.Types[call.Fun]; ok && tv.IsType() && len(call.Args) == 1 {
			return factsOfSource(pk, fd, call.Args[0], before)
		}
		cn := calleeName(info, call)
		switch {
		case strings.HasSuffix(cn, ".TaskProcessId"): // "<id>/<counter>": never empty
			f.nonempty = true
		case strings.HasSuffix(cn, ".Milliseconds"): // a configured duration
			f.ge0 = true
		case strings.HasSuffix(cn, "Context.Param"): // gin path parameter of a matched route
			f.nonempty = true
		}
		return f
	}
	if tag, typ, ok := bindingTag(info, src); ok {
		for _, t := range strings.Split(tag, ",") {
			t = strings.TrimSpace(t)
			switch {
			case t == "required":
				if b, ok := typ.Underlying().(*types.Basic); ok && b.Info()&types.IsString != 0 {
					f.nonempty = true
				}
				f.nonnil = true
			case t == "min=0" || t == "gte=0":
				f.ge0 = true
			case t == "min=1" || t == "gte=1" || t == "gt=0":
				f.ge0, f.gt0 = true, true
			}
		}
	}
	// a validating helper of the package: `a, b, err := helper(x, y); if err != nil { …return }`.
	// What is known about x after the call is what the helper's guards establish for the matching
	// parameter on its successful return; when the variable itself is re-assigned from the call, what
	// is known is what holds for the returned expression at the helper's (single, final) success
	// return.
	if id, ok := src.(*ast.Ident); ok {
		obj := info.Uses[id]
		var lastAssign *ast.AssignStmt
		var lastIdx int
		var passed []struct {
			call *ast.CallExpr
			idx  int
			as   *ast.AssignStmt
		}
		ast.Inspect(fd.Body, func(n ast.Node) bool {
			as, ok := n.(*ast.AssignStmt)
			if !ok || as.End() > before || len(as.Rhs) != 1 {
				return true
			}
			call, ok := ast.Unparen(as.Rhs[0]).(*ast.CallExpr)
			if !ok {
				return true
			}
			fn, ok := calleeOf(info, call).(*types.Func)
			if !ok || fn.Pkg() != pk.Types || funcDeclOf(pk, fn) == nil {
				return true
			}
			for i, l := range as.Lhs {
				if lid, ok := l.(*ast.Ident); ok && (info.Uses[lid] == obj || info.Defs[lid] == obj) && obj != nil {
					if lastAssign == nil || as.Pos() > lastAssign.Pos() {
						lastAssign, lastIdx = as, i
					}
				}
			}
			for i, a := range call.Args {
				if aid, ok := ast.Unparen(a).(*ast.Ident); ok && info.Uses[aid] == obj && obj != nil {
					passed = append(passed, struct {
						call *ast.CallExpr
						idx  int
						as   *ast.AssignStmt
					}{call, i, as})
				}
			}
			return true
		})
		// the caller leaves when the helper reports an error
		errChecked := func(as *ast.AssignStmt) bool {
			var errObj types.Object
			for _, l := range as.Lhs {
				if lid, ok := l.(*ast.Ident); ok {
					o := info.Defs[lid]
					if o == nil {
						o = info.Uses[lid]
					}
					if o != nil && (isErrorType(o.Type()) || isNamed(o.Type(), pkgSubApi, "Error")) {
						errObj = o
					}
				}
			}
			if errObj == nil {
				return false
			}
			found := false
			ast.Inspect(fd.Body, func(n ast.Node) bool {
				ifs, ok := n.(*ast.IfStmt)
				if !ok || ifs.Pos() < as.End() || ifs.End() > before || !exits(ifs.Body) {
					return true
				}
				if o, nonNil, ok := nilTest(info, ifs.Cond); ok && o == errObj && nonNil {
					found = true
				}
				return true
			})
			return found
		}
		successReturn := func(hd *ast.FuncDecl) *ast.ReturnStmt {
			if n := len(hd.Body.List); n > 0 {
				if rs, ok := hd.Body.List[n-1].(*ast.ReturnStmt); ok {
					return rs
				}
			}
			return nil
		}
		if lastAssign != nil && errChecked(lastAssign) {
			call := ast.Unparen(lastAssign.Rhs[0]).(*ast.CallExpr)
			hd := funcDeclOf(pk, calleeOf(info, call).(*types.Func))
			if rs := successReturn(hd); rs != nil && lastIdx < len(rs.Results) {
				return factsOfSource(pk, hd, rs.Results[lastIdx], rs.Pos())
			}
		}
		for _, p := range passed {
			if !errChecked(p.as) {
				continue
			}
			fn := calleeOf(info, p.call).(*types.Func)
			hd := funcDeclOf(pk, fn)
			rs := successReturn(hd)
			if rs == nil || p.idx >= fn.Type().(*types.Signature).Params().Len() {
				continue
			}
			par := fn.Type().(*types.Signature).Params().At(p.idx)
			// the parameter must not be re-assigned in the helper for its guards to speak about x
			reassigned := false
			ast.Inspect(hd.Body, func(n ast.Node) bool {
				if as, ok := n.(*ast.AssignStmt); ok {
					for _, l := range as.Lhs {
						if lid, ok := l.(*ast.Ident); ok && info.Uses[lid] == types.Object(par) {
							reassigned = true
						}
					}
				}
				return true
			})
			if reassigned {
				continue
			}
			hf := factsOfSource(pk, hd, &ast.Ident{Name: par.Name(), NamePos: rs.Pos()}, rs.Pos())
			f.nonempty = f.nonempty || hf.nonempty
			f.ge0 = f.ge0 || hf.ge0
			f.gt0 = f.gt0 || hf.gt0
			f.nonnil = f.nonnil || hf.nonnil
		}
	}
	// guards of the form `if X < 0 { … return }` / `if X == "" { … return }` before the submission
	s := exprString(src)
	// a guard speaks about the value submitted only if the variable is not assigned again between
	// the guard and the submission (seed C13-8: the limit is validated, then replaced by the
	// cursor's); an assignment inside the guard's own statement precedes its end and does not count
	var writes []token.Pos
	ast.Inspect(fd.Body, func(n ast.Node) bool {
		switch a := n.(type) {
		case *ast.AssignStmt:
			for _, l := range a.Lhs {
				if exprString(l) == s && a.Tok != token.DEFINE {
					writes = append(writes, a.Pos())
				}
			}
		case *ast.IncDecStmt:
			if exprString(a.X) == s {
				writes = append(writes, a.Pos())
			}
		}
		return true
	})
	ast.Inspect(fd.Body, func(n ast.Node) bool {
		ifs, ok := n.(*ast.IfStmt)
		if !ok || ifs.End() > before || !exits(ifs.Body) {
			return true
		}
		for _, w := range writes {
			if w > ifs.End() && w < before {
				return true
			}
		}
		var disj func(e ast.Expr)
		disj = func(e ast.Expr) {
			e = ast.Unparen(e)
			be, ok := e.(*ast.BinaryExpr)
			if !ok {
				return
			}
			if be.Op == token.LOR {
				disj(be.X)
				disj(be.Y)
				return
			}
			l, r := exprString(be.X), exprString(be.Y)
			if l != s {
				return
			}
			switch {
			case be.Op == token.LSS && r == "0":
				f.ge0 = true
			case be.Op == token.LSS && r == "1", be.Op == token.LEQ && r == "0":
				f.ge0, f.gt0 = true, true
			case be.Op == token.EQL && r == `""`:
				f.nonempty = true
			case be.Op == token.EQL && r == "nil":
				f.nonnil = true
			}
		}
		disj(ifs.Cond)
		return true
	})
	return f
}

type reqObligation struct {
	Kind  string // request kind
	Field string // field path in the XRequest
	Need  string // nonempty | ge0 | gt0 | eq:<other field>
	Pos   token.Pos
	Text  string
}

// requestAsserts extracts the obligations from util.Assert calls over request fields at the top
// of each request coroutine.
func (m *coroModel) requestAsserts() []reqObligation {
	var out []reqObligation
	info := m.Pk.TypesInfo
	var kinds []string
	for k := range m.Request {
		kinds = append(kinds, k)
	}
	sort.Strings(kinds)
	for _, k := range kinds {
		cf := m.Request[k]
		for _, st := range cf.Decl.Body.List {
			es, ok := st.(*ast.ExprStmt)
			if !ok {
				continue
			}
			call, ok := es.X.(*ast.CallExpr)
			if !ok || len(call.Args) != 2 {
				continue
			}
			if fn, ok := calleeOf(info, call).(*types.Func); !ok || fn.Pkg() == nil || fn.Pkg().Path() != pkgUtil || fn.Name() != "Assert" {
				continue
			}
			f := cf.Env.condFormula(call.Args[0], 0)
			var conj []*formula
			if f.Op == "and" {
				conj = f.Args
			} else {
				conj = []*formula{f}
			}
			for _, a := range conj {
				neg := false
				for a.Op == "not" {
					neg = !neg
					a = a.Args[0]
				}
				if a.Op != "atom" {
					continue
				}
				l, op, r, ok := splitCmpOp(a.Atom)
				if !ok {
					continue
				}
				ob := reqObligation{Kind: k, Pos: call.Pos(), Text: exprString(call.Args[0])}
				switch {
				case op == "==" && r == `""` && neg && strings.HasPrefix(l, "req."):
					ob.Field, ob.Need = strings.TrimPrefix(l, "req."), "nonempty"
				case op == "<=" && l == "0" && !neg && strings.HasPrefix(r, "req."):
					ob.Field, ob.Need = strings.TrimPrefix(r, "req."), "ge0"
				case op == "<=" && r == "0" && neg && strings.HasPrefix(l, "req."):
					ob.Field, ob.Need = strings.TrimPrefix(l, "req."), "gt0"
				case op == "==" && !neg && strings.HasPrefix(l, "req.") && strings.HasPrefix(r, "req."):
					ob.Field, ob.Need = strings.TrimPrefix(l, "req."), "eq:"+strings.TrimPrefix(r, "req.")
				default:
					continue
				}
				out = append(out, ob)
			}
		}
	}
	return out
}

func ruleRequestAsserts(c *Ctx) {
	m := c.coroModel()
	if m.Err != nil {
		c.und("model", 0, m.Err.Error())
		return
	}
	obs := m.requestAsserts()
	c.count("request_assert_obligations", len(obs))
	c.floor("assertions over request fields", len(obs), 6)
	sites := append(frontEndRequests(c.P, "http", pkgHttp), frontEndRequests(c.P, "grpc", pkgGrpc)...)
	occ := map[string]int{}
	for _, ob := range obs {
		for _, s := range sites {
			if s.Kind != ob.Kind {
				continue
			}
			occ[s.Proto+s.Handler+ob.Field+ob.Need]++
			key := fmt.Sprintf("request-assert/%s/%s/%s/%s", ob.Kind, s.Proto+"."+s.Handler, ob.Field, strings.SplitN(ob.Need, ":", 2)[0])
			if k := occ[s.Proto+s.Handler+ob.Field+ob.Need]; k > 1 {
				key += fmt.Sprintf("#%d", k)
			}
			if s.Helper != "" {
				c.helperFacts(key, s, ob)
				continue
			}
			if s.Lit == nil {
				c.und(key, s.Pos, "request literal not resolved")
				continue
			}
			src := fieldSource(s.Lit, ob.Field, s.Pk.TypesInfo)
			if src == nil {
				c.bad(key, s.Pos, fmt.Sprintf("%s %s leaves %s.%s unset, but the %s coroutine asserts `%s` (kernel goroutine: a failed assertion terminates the server)", s.Proto, s.Handler, ob.Kind, ob.Field, ob.Kind, ob.Text))
				continue
			}
			ok := false
			f := factsOfSource(s.Pk, s.Decl, src, s.Process.Pos())
			switch {
			case ob.Need == "nonempty":
				ok = f.nonempty
			case ob.Need == "ge0":
				ok = f.ge0
			case ob.Need == "gt0":
				ok = f.gt0
			case strings.HasPrefix(ob.Need, "eq:"):
				of := strings.TrimPrefix(ob.Need, "eq:")
				other := fieldSource(s.Lit, of, s.Pk.TypesInfo)
				ok = other != nil && exprString(other) == exprString(src)
				// through a request-building helper the two sources are compared in the handler's terms
				if a, b := s.Fields[ob.Field], s.Fields[of]; !ok && a != "" && a == b {
					ok = true
				}
			}
			c.check(ok, key, src.Pos(), fmt.Sprintf("%s ← %s satisfies `%s`", ob.Field, exprString(src), ob.Text),
				fmt.Sprintf("%s %s feeds %s.%s from %s with no validation that implies `%s` before the request is submitted; the %s coroutine asserts it on the kernel goroutine, where a failed assertion terminates the server", s.Proto, s.Handler, ob.Kind, ob.Field, exprString(src), ob.Text, ob.Kind))
		}
	}
}

// fieldSource finds the value expression of a (possibly nested) field path in a request literal.
func fieldSource(lit *ast.CompositeLit, path string, info *types.Info) ast.Expr {
	parts := strings.SplitN(path, ".", 2)
	for _, el := range lit.Elts {
		kv, ok := el.(*ast.KeyValueExpr)
		if !ok || exprString(kv.Key) != parts[0] {
			continue
		}
		if len(parts) == 1 {
			return kv.Value
		}
		v := ast.Unparen(kv.Value)
		if u, ok := v.(*ast.UnaryExpr); ok {
			v = ast.Unparen(u.X)
		}
		if inner, ok := v.(*ast.CompositeLit); ok {
			return fieldSource(inner, parts[1], info)
		}
		// the nested request is built by a helper of the front end
		if hc, ok := v.(*ast.CallExpr); ok && curProgram != nil {
			for _, pk := range curProgram.Roots {
				if pk.TypesInfo == info {
					if hl := helperLiteral(pk, hc); hl != nil {
						return fieldSource(hl, parts[1], info)
					}
				}
			}
		}
	}
	return nil
}

// helperFacts: the request is produced by a helper of the API type (SearchPromises /
// SearchSchedules): every return of the helper must establish the obligation.
func (c *Ctx) helperFacts(key string, s *feRequest, ob reqObligation) {
	pk := c.P.Pkg(pkgSubApi)
	fd := funcDecl(pk, "API", s.Helper)
	if fd == nil {
		c.und(key, s.Pos, "helper "+s.Helper+" not found")
		return
	}
	info := pk.TypesInfo
	nRet := 0
	var bad []string
	var badPos token.Pos
	ast.Inspect(fd.Body, func(n ast.Node) bool {
		rs, ok := n.(*ast.ReturnStmt)
		if !ok || len(rs.Results) != 2 || exprString(rs.Results[0]) == "nil" {
			return true
		}
		nRet++
		v := ast.Unparen(rs.Results[0])
		if u, ok := v.(*ast.UnaryExpr); ok {
			v = ast.Unparen(u.X)
		}
		lit, ok := v.(*ast.CompositeLit)
		if !ok {
			bad = append(bad, "returns "+exprString(rs.Results[0])+" (decoded from the client's cursor) without validating it")
			badPos = rs.Pos()
			return true
		}
		src := fieldSource(lit, ob.Field, info)
		if src == nil {
			bad = append(bad, "leaves "+ob.Field+" unset")
			badPos = rs.Pos()
			return true
		}
		f := factsOfSource(pk, fd, src, rs.Pos())
		ok2 := (ob.Need == "nonempty" && f.nonempty) || (ob.Need == "ge0" && f.ge0) || (ob.Need == "gt0" && f.gt0)
		if !ok2 {
			bad = append(bad, ob.Field+" ← "+exprString(src)+" is not validated")
			badPos = rs.Pos()
		}
		return true
	})
	if nRet == 0 {
		c.und(key, fd.Pos(), "helper has no successful return")
		return
	}
	if len(bad) == 0 {
		c.ok(key, fd.Pos(), fmt.Sprintf("every return of api.%s establishes `%s`", s.Helper, ob.Text))
		return
	}
	c.bad(key, badPos, fmt.Sprintf("api.%s %s, but the %s coroutine asserts `%s` on the kernel goroutine", s.Helper, strings.Join(uniq(bad), "; "), ob.Kind, ob.Text))
}

// ruleCursorVerified (C14/C13): a cursor is decoded only through jwt.ParseWithClaims with a key
// function; no unverified parse.
func ruleCursorVerified(c *Ctx) {
	pk := c.P.Pkg(pkgTApi)
	info := pk.TypesInfo
	nParse := 0
	for _, fd := range allFuncDecls(pk) {
		for _, call := range callsInDeep(fd.Body) {
			fn, ok := calleeOf(info, call).(*types.Func)
			if !ok || fn.Pkg() == nil || !strings.Contains(fn.Pkg().Path(), "golang-jwt") {
				continue
			}
			switch fn.Name() {
			case "ParseWithClaims", "Parse":
				nParse++
				_, isLit := ast.Unparen(call.Args[len(call.Args)-1]).(*ast.FuncLit)
				c.check(isLit || len(call.Args) >= 2, "cursor/verified-parse/"+funcName(fd), call.Pos(), "cursor decoded with signature verification (ParseWithClaims + key function)", "cursor parsed without a key function")
			case "ParseUnverified":
				c.bad("cursor/unverified/"+funcName(fd), call.Pos(), "cursor decoded with ParseUnverified: a forged cursor is accepted")
			}
			if fn.Name() == "WithoutClaimsValidation" || fn.Name() == "UnsafeAllowNoneSignatureType" {
				c.bad("cursor/unverified/"+funcName(fd), call.Pos(), "signature/claims validation switched off")
			}
		}
	}
	c.check(nParse >= 1, "cursor/decode-path", 0, "one verified decode path", "no cursor decode path found")
}

// rulePbNil (gRPC): protobuf sub-messages are pointers that a client may leave unset; direct field
// access through one (as opposed to the nil-safe getters) must be nil-guarded. The handler's own
// request parameter is non-nil by grpc's contract; parameters of helper functions are fed from
// request sub-messages and count as possibly nil.
func rulePbNil(c *Ctx) {
	pk := c.P.Pkg(pkgGrpc)
	if pk == nil {
		c.und("pb-nil", 0, "grpc package not loaded")
		return
	}
	info := pk.TypesInfo
	isPbPtr := func(t types.Type) bool {
		p, ok := t.(*types.Pointer)
		if !ok {
			return false
		}
		n, ok := p.Elem().(*types.Named)
		return ok && n.Obj().Pkg() != nil && n.Obj().Pkg().Path() == pkgPb
	}
	n := 0
	for _, fd := range allFuncDecls(pk) {
		if isTestFile(c.P, fd.Pos()) {
			continue
		}
		sig := info.Defs[fd.Name].(*types.Func).Type().(*types.Signature)
		isHandler := sig.Params().Len() == 2 && isNamed(sig.Params().At(0).Type(), "context", "Context")
		reported := map[string]bool{}
		ast.Inspect(fd.Body, func(nd ast.Node) bool {
			se, ok := nd.(*ast.SelectorExpr)
			if !ok {
				return true
			}
			tv, ok := info.Types[se.X]
			if !ok || !isPbPtr(tv.Type) {
				return true
			}
			if _, isField := info.Selections[se]; !isField {
				return true
			}
			if sel := info.Selections[se]; sel.Kind() != types.FieldVal {
				return true // method calls (getters) are nil-safe
			}
			base := ast.Unparen(se.X)
			// the handler's own request parameter
			if id, ok := base.(*ast.Ident); ok && isHandler {
				if v, ok := info.Uses[id].(*types.Var); ok && v == sig.Params().At(1) {
					return true
				}
			}
			// locals assigned from composite literals / loop variables over server data are not client pointers
			if id, ok := base.(*ast.Ident); ok {
				if v, ok := info.Uses[id].(*types.Var); ok {
					isParam := false
					for i := 0; i < sig.Params().Len(); i++ {
						if sig.Params().At(i) == v {
							isParam = true
						}
					}
					if !isParam {
						return true
					}
					// a helper that is only ever handed messages built by the server itself
					// (`p := &pb.Promise{…}; fill(p, …)`): not a client pointer
					if !isHandler {
						idx := -1
						for i := 0; i < sig.Params().Len(); i++ {
							if sig.Params().At(i) == v {
								idx = i
							}
						}
						sites, fresh := 0, true
						self := info.Defs[fd.Name]
						for _, cfd := range allFuncDecls(pk) {
							if cfd.Body == nil {
								continue
							}
							cenv := newLocalEnv(pk, cfd, nil)
							for _, call := range callsInDeep(cfd.Body) {
								if calleeOf(info, call) != self || idx >= len(call.Args) {
									continue
								}
								sites++
								a := ast.Unparen(call.Args[idx])
								if u, ok := a.(*ast.UnaryExpr); ok && u.Op == token.AND {
									a = ast.Unparen(u.X)
								}
								isLit := false
								if _, ok := a.(*ast.CompositeLit); ok {
									isLit = true
								}
								if aid, ok := a.(*ast.Ident); ok {
									ds := cenv.defs[info.Uses[aid]]
									if len(ds) == 1 {
										if as, ok := ds[0].(*ast.AssignStmt); ok && len(as.Rhs) == 1 {
											r := ast.Unparen(as.Rhs[0])
											if u, ok := r.(*ast.UnaryExpr); ok && u.Op == token.AND {
												r = ast.Unparen(u.X)
											}
											if _, ok := r.(*ast.CompositeLit); ok {
												isLit = true
											}
										}
									}
								}
								if !isLit {
									fresh = false
								}
							}
						}
						if sites > 0 && fresh {
							return true
						}
					}
				}
			}
			xs := exprString(base)
			if reported[xs] {
				return true
			}
			n++
			if exprGuarded(fd.Body, se, xs) {
				c.ok("pb-nil/"+funcName(fd)+"/"+xs, se.Pos(), xs+" is nil-tested before its fields are read")
			} else {
				reported[xs] = true
				c.bad("pb-nil/"+funcName(fd)+"/"+xs, se.Pos(), "the protobuf sub-message "+xs+" may be absent in a client request; "+exprString(se)+" dereferences it without a nil test: the gRPC handler goroutine panics and, with no recovery interceptor installed, the server process terminates")
			}
			return true
		})
	}
	c.count("pb_submessage_derefs", n)
	c.floor("protobuf sub-message field accesses", n, 10)
}

// exprGuarded: like nilGuarded, for an arbitrary expression compared textually.
func exprGuarded(root ast.Node, site ast.Node, xs string) bool {
	isCmp := func(e ast.Expr, op token.Token) bool {
		be, ok := ast.Unparen(e).(*ast.BinaryExpr)
		return ok && be.Op == op && ((exprString(be.X) == xs && exprString(be.Y) == "nil") || (exprString(be.Y) == xs && exprString(be.X) == "nil"))
	}
	var conj func(e ast.Expr) bool
	conj = func(e ast.Expr) bool {
		e = ast.Unparen(e)
		if isCmp(e, token.NEQ) {
			return true
		}
		if be, ok := e.(*ast.BinaryExpr); ok && be.Op == token.LAND {
			return conj(be.X) || conj(be.Y)
		}
		return false
	}
	var disj func(e ast.Expr) bool
	disj = func(e ast.Expr) bool {
		e = ast.Unparen(e)
		if isCmp(e, token.EQL) {
			return true
		}
		if be, ok := e.(*ast.BinaryExpr); ok && be.Op == token.LOR {
			return disj(be.X) || disj(be.Y)
		}
		return false
	}
	chain := append(enclosing(root, site), site)
	for i, nd := range chain {
		switch x := nd.(type) {
		case *ast.IfStmt:
			if i+1 < len(chain) && chain[i+1] == ast.Node(x.Body) && conj(x.Cond) {
				return true
			}
		case *ast.BinaryExpr:
			if x.Op == token.LAND && i+1 < len(chain) && chain[i+1] == ast.Node(x.Y) && conj(x.X) {
				return true
			}
		case *ast.BlockStmt:
			for _, st := range x.List {
				if st.End() > site.Pos() {
					break
				}
				if ifs, ok := st.(*ast.IfStmt); ok && exits(ifs.Body) && disj(ifs.Cond) {
					return true
				}
			}
		}
	}
	return false
}

// ruleUnwrapNil: the error renderers of the front ends must not call a method on the result of
// Unwrap without a nil test (kernel errors created with a nil cause are common: queue full,
// shutting down).
func ruleUnwrapNil(c *Ctx) {
	pk := c.P.Pkg(pkgSubApi)
	if pk == nil {
		c.und("unwrap-nil", 0, "package not loaded")
		return
	}
	info := pk.TypesInfo
	n := 0
	for _, fd := range allFuncDecls(pk) {
		if isTestFile(c.P, fd.Pos()) {
			continue
		}
		env := newLocalEnv(pk, fd, nil)
		fromUnwrap := func(e ast.Expr) bool {
			found := false
			var visit func(e ast.Expr, d int)
			visit = func(e ast.Expr, d int) {
				if d > 4 || found {
					return
				}
				ast.Inspect(e, func(x ast.Node) bool {
					switch y := x.(type) {
					case *ast.CallExpr:
						if strings.HasSuffix(calleeName(info, y), "Unwrap") {
							found = true
						}
					case *ast.Ident:
						for _, def := range env.defs[info.Uses[y]] {
							if as, ok := def.(*ast.AssignStmt); ok {
								for _, r := range as.Rhs {
									visit(r, d+1)
								}
							}
						}
					}
					return !found
				})
			}
			visit(e, 0)
			return found
		}
		ast.Inspect(fd.Body, func(nd ast.Node) bool {
			call, ok := nd.(*ast.CallExpr)
			if !ok {
				return true
			}
			se, ok := ast.Unparen(call.Fun).(*ast.SelectorExpr)
			if !ok {
				return true
			}
			tv, ok := info.Types[se.X]
			if !ok || !types.IsInterface(tv.Type) || !isErrorType(tv.Type) {
				return true
			}
			if !fromUnwrap(se.X) {
				return true
			}
			// x.Unwrap() itself on a concrete receiver is fine; we are looking at METHOD CALLS ON the unwrapped value
			if inner, ok := ast.Unparen(se.X).(*ast.CallExpr); ok {
				_ = inner
			}
			n++
			xs := exprString(ast.Unparen(se.X))
			c.check(exprGuarded(fd.Body, call, xs), "unwrap-nil/"+funcName(fd)+"/"+xs+"."+se.Sel.Name, call.Pos(), xs+" is nil-tested before ."+se.Sel.Name+"()", "the cause "+xs+" comes from Unwrap and is nil for kernel errors created without a cause (queue full, shutting down); calling ."+se.Sel.Name+"() on it panics in the request handler: HTTP drops the reply, gRPC terminates the process")
			return true
		})
	}
	c.count("unwrapped_cause_uses", n)
	c.floor("uses of an unwrapped cause", n, 1)
}

// ruleUseBeforeErrCheck: a pointer returned together with an error must not be dereferenced before
// the error has been tested (url.Parse, json decoders, … return nil with the error).
func ruleUseBeforeErrCheck(c *Ctx) {
	n := 0
	pkgs := append([]string{pkgCoroutines, pkgSubApi, pkgHttp, pkgGrpc, pkgUtil}, workerPkgs...)
	for _, pp := range pkgs {
		pk := c.P.Pkg(pp)
		if pk == nil {
			continue
		}
		info := pk.TypesInfo
		for _, fd := range allFuncDecls(pk) {
			if isTestFile(c.P, fd.Pos()) {
				continue
			}
			occ := map[string]int{}
			ast.Inspect(fd.Body, func(nd ast.Node) bool {
				as, ok := nd.(*ast.AssignStmt)
				if !ok || len(as.Lhs) != 2 || len(as.Rhs) != 1 {
					return true
				}
				if _, isCall := ast.Unparen(as.Rhs[0]).(*ast.CallExpr); !isCall {
					return true
				}
				pid, ok1 := as.Lhs[0].(*ast.Ident)
				eid, ok2 := as.Lhs[1].(*ast.Ident)
				if !ok1 || !ok2 || pid.Name == "_" || eid.Name == "_" {
					return true
				}
				pobj := info.Defs[pid]
				if pobj == nil {
					pobj = info.Uses[pid]
				}
				eobj := info.Defs[eid]
				if eobj == nil {
					eobj = info.Uses[eid]
				}
				if pobj == nil || eobj == nil || !isErrorType(eobj.Type()) {
					return true
				}
				if _, isPtr := pobj.Type().Underlying().(*types.Pointer); !isPtr {
					return true
				}
				// the callee is outside the module (library contract: nil result with the error)
				if fn, ok := calleeOf(info, ast.Unparen(as.Rhs[0]).(*ast.CallExpr)).(*types.Func); !ok || fn.Pkg() == nil || strings.HasPrefix(fn.Pkg().Path(), modPath) || fn.Pkg().Path() == pkgGocoro {
					return true
				}
				n++
				// first dereference and first error test after the assignment, in evaluation order
				var firstUse, firstTest token.Pos
				ast.Inspect(fd.Body, func(x ast.Node) bool {
					if x == nil || x.Pos() <= as.End() {
						return true
					}
					switch y := x.(type) {
					case *ast.SelectorExpr:
						if isObj(info, y.X, pobj) && !firstUse.IsValid() {
							firstUse = y.Pos()
						}
					case *ast.StarExpr:
						if isObj(info, y.X, pobj) && !firstUse.IsValid() {
							firstUse = y.Pos()
						}
					case *ast.BinaryExpr:
						if (y.Op == token.NEQ || y.Op == token.EQL) && isObj(info, y.X, eobj) && exprString(y.Y) == "nil" && !firstTest.IsValid() {
							firstTest = y.Pos()
						}
					case *ast.AssignStmt:
						// re-assignment of the error variable ends the window
						for _, l := range y.Lhs {
							if isObj(info, l, eobj) && !firstTest.IsValid() {
								firstTest = y.Pos()
							}
						}
					}
					return true
				})
				cn := calleeName(info, ast.Unparen(as.Rhs[0]).(*ast.CallExpr))
				occ[cn]++
				key := fmt.Sprintf("use-before-err/%s.%s/%s#%d", pk.Name, funcName(fd), cn, occ[cn])
				bad := firstUse.IsValid() && (!firstTest.IsValid() || firstUse < firstTest)
				c.check(!bad, key, as.Pos(), "the error of "+cn+" is tested before its result is dereferenced", pid.Name+" (returned by "+cn+" together with an error) is dereferenced at "+c.P.pos(firstUse)+" before the error is tested: on the error path it is nil and the goroutine panics on client-controlled input")
				return true
			})
		}
	}
	c.count("pointer_and_error_results", n)
	c.floor("library calls returning (pointer, error)", n, 3)
}

// ruleRecordsIndex (C13): a query result's Records slice has RowsReturned elements. A constant
// index into it must be 0 and must be governed by a fact that at least one row was returned
// (RowsReturned == 1 / != 0 / > 0 on the same result, through an if, an early exit or an assertion):
// anything else indexes past the end on the kernel goroutine.
func ruleRecordsIndex(c *Ctx) {
	m := c.coroModel()
	if m.Err != nil {
		c.und("model", 0, m.Err.Error())
		return
	}
	info := m.Pk.TypesInfo
	n := 0
	occ := map[string]int{}
	for _, name := range m.Order {
		cf := m.Funcs[name]
		ast.Inspect(cf.Decl.Body, func(nd ast.Node) bool {
			ix, ok := nd.(*ast.IndexExpr)
			if !ok {
				return true
			}
			se, ok := ast.Unparen(ix.X).(*ast.SelectorExpr)
			if !ok || se.Sel.Name != "Records" {
				return true
			}
			if tv, ok := info.Types[se.X]; !ok || namedPkgPath(tv.Type) != pkgTAio || !strings.HasPrefix(namedName(tv.Type), "Query") {
				return true
			}
			tv, isConst := info.Types[ix.Index]
			if !isConst || tv.Value == nil {
				return true // indexed by a loop variable over the same records
			}
			n++
			occ[name]++
			key := fmt.Sprintf("records-index/%s#%d", name, occ[name])
			base := cf.Env.prov(se.X)
			okIdx := tv.Value.ExactString() == "0"
			governed := false
			for _, a := range cf.Env.enclosingConds(cf.Decl.Body, ix) {
				switch a {
				case "(" + base + ".RowsReturned == 1)", "(" + base + ".RowsReturned != 0)", "(0 < " + base + ".RowsReturned)", "(1 <= " + base + ".RowsReturned)":
					governed = true
				}
			}
			c.check(okIdx && governed, key, ix.Pos(), "Records[0] read only where a row was returned", "Records["+tv.Value.ExactString()+"] of "+base+" is read without a governing fact that a row was returned (or with an index other than 0): the index is out of range on the kernel goroutine")
			return true
		})
	}
	c.count("constant_record_indexes", n)
	c.floor("constant indexes into result records", n, 15)
}

// ruleNilAndDeref (C13): `x == nil && x.f …` and `x != nil || x.f …` dereference x exactly when it
// is nil (the usual slip when a validation `x == nil || bad(x.f)` is edited). Checked in every
// package of the module that handles client data.
func ruleNilAndDeref(c *Ctx) {
	n := 0
	for _, pk := range c.P.Roots {
		if strings.Contains(pk.PkgPath, "/test") || strings.HasSuffix(pk.PkgPath, "/dst") || pk.PkgPath == pkgPb {
			continue
		}
		info := pk.TypesInfo
		for _, fd := range allFuncDecls(pk) {
			if fd.Body == nil || isTestFile(c.P, fd.Pos()) {
				continue
			}
			occ := 0
			ast.Inspect(fd.Body, func(nd ast.Node) bool {
				be, ok := nd.(*ast.BinaryExpr)
				if !ok || (be.Op != token.LAND && be.Op != token.LOR) {
					return true
				}
				// the left operand (possibly a chain of the same operator) tests some expression against nil
				var tests []*ast.BinaryExpr
				var collect func(e ast.Expr)
				collect = func(e ast.Expr) {
					e = ast.Unparen(e)
					if b2, ok := e.(*ast.BinaryExpr); ok {
						if b2.Op == be.Op {
							collect(b2.X)
							collect(b2.Y)
							return
						}
						if (b2.Op == token.EQL || b2.Op == token.NEQ) && exprString(b2.Y) == "nil" {
							tests = append(tests, b2)
						}
					}
				}
				collect(be.X)
				for _, t := range tests {
					// the test must make the right operand run when the value IS nil
					if !((be.Op == token.LAND && t.Op == token.EQL) || (be.Op == token.LOR && t.Op == token.NEQ)) {
						continue
					}
					if tv, ok := info.Types[t.X]; !ok || !isPointerLike(tv.Type) {
						continue
					}
					subject := exprString(t.X)
					deref := false
					ast.Inspect(be.Y, func(x ast.Node) bool {
						switch y := x.(type) {
						case *ast.SelectorExpr:
							if exprString(y.X) == subject {
								if _, isMethod := info.Selections[y]; isMethod && info.Selections[y].Kind() == types.MethodVal {
									return true // a method may accept a nil receiver
								}
								deref = true
							}
						case *ast.StarExpr:
							if exprString(y.X) == subject {
								deref = true
							}
						case *ast.IndexExpr:
							if exprString(y.X) == subject {
								if _, isMap := info.Types[y.X].Type.Underlying().(*types.Map); !isMap {
									deref = true
								}
							}
						}
						return true
					})
					n++
					if deref {
						occ++
						c.bad(fmt.Sprintf("nil-and-deref/%s.%s#%d", pk.Name, funcName(fd), occ), be.Pos(), subject+" is dereferenced in the operand that is evaluated exactly when "+subject+" is nil: "+exprString(be))
					}
				}
				return true
			})
		}
	}
	c.count("nil_guard_conjunctions", n)
	c.ok("nil-and-deref/scan", 0, fmt.Sprintf("%d nil-test conjunctions/disjunctions inspected", n))
}

func isPointerLike(t types.Type) bool {
	switch t.Underlying().(type) {
	case *types.Pointer, *types.Slice, *types.Map, *types.Interface:
		return true
	}
	return false
}

// ruleZeroValueLocals (C15/C20): a local declared without a value (`var key *Key`) that is read but
// never assigned (nor has its address taken) always holds the zero value: the request field or reply
// member built from it is silently empty. In the front ends and the coroutines every such local has
// at least one assignment.
func ruleZeroValueLocals(c *Ctx) {
	n := 0
	for _, pp := range []string{pkgHttp, pkgGrpc, pkgSubApi, pkgCoroutines} {
		pk := c.P.Pkg(pp)
		if pk == nil {
			continue
		}
		info := pk.TypesInfo
		for _, fd := range allFuncDecls(pk) {
			if fd.Body == nil || isTestFile(c.P, fd.Pos()) {
				continue
			}
			declared := map[types.Object]*ast.Ident{}
			ast.Inspect(fd.Body, func(x ast.Node) bool {
				if ds, ok := x.(*ast.DeclStmt); ok {
					if gd, ok := ds.Decl.(*ast.GenDecl); ok && gd.Tok == token.VAR {
						for _, sp := range gd.Specs {
							if vs, ok := sp.(*ast.ValueSpec); ok && len(vs.Values) == 0 {
								for _, nm := range vs.Names {
									if nm.Name != "_" {
										declared[info.Defs[nm]] = nm
									}
								}
							}
						}
					}
				}
				return true
			})
			if len(declared) == 0 {
				continue
			}
			assigned, read := map[types.Object]bool{}, map[types.Object]bool{}
			ast.Inspect(fd.Body, func(x ast.Node) bool {
				switch y := x.(type) {
				case *ast.AssignStmt:
					for _, l := range y.Lhs {
						// x = …, x.f = …, x[i] = … all give the variable content
						e := ast.Unparen(l)
						for {
							switch z := e.(type) {
							case *ast.SelectorExpr:
								e = ast.Unparen(z.X)
								continue
							case *ast.IndexExpr:
								e = ast.Unparen(z.X)
								continue
							}
							break
						}
						if id, ok := e.(*ast.Ident); ok {
							assigned[info.Uses[id]] = true
						}
					}
				case *ast.UnaryExpr:
					if y.Op == token.AND {
						if id, ok := ast.Unparen(y.X).(*ast.Ident); ok {
							assigned[info.Uses[id]] = true
						}
					}
				case *ast.RangeStmt:
					for _, kv := range []ast.Expr{y.Key, y.Value} {
						if id, ok := kv.(*ast.Ident); ok {
							assigned[info.Uses[id]] = true
						}
					}
				case *ast.IncDecStmt:
					if id, ok := ast.Unparen(y.X).(*ast.Ident); ok {
						assigned[info.Uses[id]] = true
					}
				case *ast.Ident:
					if o := info.Uses[y]; o != nil && declared[o] != nil {
						read[o] = true
					}
				}
				return true
			})
			for o, id := range declared {
				if !read[o] {
					continue
				}
				n++
				c.check(assigned[o], fmt.Sprintf("zero-value-local/%s.%s/%s", pk.Name, funcName(fd), id.Name), id.Pos(), "assigned somewhere", "the local "+id.Name+" is declared without a value, read, and never assigned: whatever is built from it (a request field, a reply member) is always empty")
			}
		}
	}
	c.count("valueless_locals", n)
	c.floor("locals declared without a value", n, 20)
}

// ruleRequestUnionAccess (C13/C15): t_api.Request is a tagged union — only the member named after
// its Kind is set. A coroutine registered for kind K may therefore select only `r.K`; a helper that
// receives the request may select `r.M` only under a test `r.Kind == M` (if / switch case). Any other
// member is nil for this request and selecting a field of it panics on the kernel goroutine.
func ruleRequestUnionAccess(c *Ctx) {
	m := c.coroModel()
	if m.Err != nil {
		c.und("model", 0, m.Err.Error())
		return
	}
	info := m.Pk.TypesInfo
	n := 0
	for _, name := range m.Order {
		cf := m.Funcs[name]
		// the request parameter(s)
		var reqs []types.Object
		for _, fl := range cf.Decl.Type.Params.List {
			for _, nm := range fl.Names {
				if o := info.Defs[nm]; o != nil {
					if p, ok := o.Type().(*types.Pointer); ok && isNamed(p.Elem(), pkgTApi, "Request") {
						reqs = append(reqs, o)
					}
				}
			}
		}
		if len(reqs) == 0 {
			continue
		}
		allowed := map[string]bool{}
		for _, k := range cf.Kinds {
			allowed[k] = true
		}
		if len(cf.Kinds) == 0 {
			allowed[name] = true // not registered by the server (Echo): named after its kind
		}
		env := cf.Env
		occ := map[string]int{}
		ast.Inspect(cf.Decl.Body, func(nd ast.Node) bool {
			se, ok := nd.(*ast.SelectorExpr)
			if !ok {
				return true
			}
			id, ok := ast.Unparen(se.X).(*ast.Ident)
			if !ok {
				return true
			}
			isReq := false
			for _, r := range reqs {
				if info.Uses[id] == r {
					isReq = true
				}
			}
			if !isReq {
				return true
			}
			sel := info.Selections[se]
			if sel == nil || sel.Kind() != types.FieldVal {
				return true
			}
			p, ok := sel.Type().(*types.Pointer)
			if !ok || namedPkgPath(p.Elem()) != pkgTApi || !strings.HasSuffix(namedName(p.Elem()), "Request") {
				return true
			}
			member := se.Sel.Name
			n++
			occ[member]++
			key := fmt.Sprintf("request-union/%s/%s", name, member)
			if occ[member] > 1 {
				key += fmt.Sprintf("#%d", occ[member])
			}
			good := allowed[member] && len(allowed) == 1 // registered for several kinds: the Kind must be tested
			if !good {
				want := "(" + env.prov(&ast.SelectorExpr{X: id, Sel: ast.NewIdent("Kind")}) + " == " + member + ")"
				for _, a := range env.enclosingConds(cf.Decl.Body, se) {
					if a == want || strings.HasSuffix(a, ".Kind == "+member+")") || strings.HasSuffix(a, "Kind == "+member+")") {
						good = true
					}
				}
			}
			c.check(good, key, se.Pos(), "selects the member of its own kind", fmt.Sprintf("%s selects %s.%s, but it is registered for %v (and no test of the request's Kind governs the selection): for its requests that member is nil and the selection panics on the kernel goroutine", name, id.Name, member, cf.Kinds))
			return true
		})
	}
	c.count("request_union_accesses", n)
	c.floor("selections of a request union member", n, 60)
}

// ruleStoreResultUnion (C13/C16/C17): inside the store packages a handler sometimes calls another
// handler and inspects its *t_aio.Result (create-promise-and-task looks at the promise insert's row
// count). The Result is a tagged union: the member selected must be one the called handler sets in
// the result literal(s) it returns; any other member is nil and selecting a field of it panics on
// the store worker goroutine.
func ruleStoreResultUnion(c *Ctx) {
	n := 0
	for _, pp := range []string{pkgSqlite, pkgPostgres} {
		pk := c.P.Pkg(pp)
		if pk == nil {
			c.und("store-result-union/"+pp, 0, "package not loaded")
			continue
		}
		info := pk.TypesInfo
		// members set by each function's returned Result literals
		setBy := map[*types.Func]map[string]bool{}
		for _, fd := range allFuncDecls(pk) {
			fn, ok := info.Defs[fd.Name].(*types.Func)
			if !ok || fd.Body == nil {
				continue
			}
			ast.Inspect(fd.Body, func(nd ast.Node) bool {
				cl, ok := nd.(*ast.CompositeLit)
				if !ok || !isNamed(info.Types[cl].Type, pkgTAio, "Result") {
					return true
				}
				for _, el := range cl.Elts {
					if kv, ok := el.(*ast.KeyValueExpr); ok && exprString(kv.Key) != "Kind" {
						if setBy[fn] == nil {
							setBy[fn] = map[string]bool{}
						}
						setBy[fn][exprString(kv.Key)] = true
					}
				}
				return true
			})
		}
		for _, fd := range allFuncDecls(pk) {
			if fd.Body == nil || isTestFile(c.P, fd.Pos()) {
				continue
			}
			env := newLocalEnv(pk, fd, nil)
			occ := map[string]int{}
			ast.Inspect(fd.Body, func(nd ast.Node) bool {
				se, ok := nd.(*ast.SelectorExpr)
				if !ok {
					return true
				}
				id, ok := ast.Unparen(se.X).(*ast.Ident)
				if !ok {
					return true
				}
				v, ok := info.Uses[id].(*types.Var)
				if !ok || v.IsField() {
					return true
				}
				if p, isPtr := v.Type().(*types.Pointer); !isPtr || !isNamed(p.Elem(), pkgTAio, "Result") {
					return true
				}
				sel := info.Selections[se]
				if sel == nil || sel.Kind() != types.FieldVal {
					return true
				}
				if _, isPtr := sel.Type().(*types.Pointer); !isPtr {
					return true // Kind
				}
				// the handler call(s) that define the variable
				var producers []*types.Func
				for _, d := range env.defs[v] {
					as, ok := d.(*ast.AssignStmt)
					if !ok || len(as.Rhs) != 1 {
						continue
					}
					if call, ok := ast.Unparen(as.Rhs[0]).(*ast.CallExpr); ok {
						if fn, ok := calleeOf(info, call).(*types.Func); ok && fn.Pkg() == pk.Types {
							producers = append(producers, fn)
						}
					}
				}
				if len(producers) == 0 {
					return true
				}
				n++
				member := se.Sel.Name
				occ[member]++
				key := fmt.Sprintf("store-result-union/%s.%s/%s", pk.Name, funcName(fd), member)
				if occ[member] > 1 {
					key += fmt.Sprintf("#%d", occ[member])
				}
				good := true
				for _, fn := range producers {
					if !setBy[fn][member] {
						good = false
					}
				}
				c.check(good, key, se.Pos(), "selects a member the called handler sets", fmt.Sprintf("%s selects %s.%s, but the handler that produced %s sets %v: the member is nil and the selection panics on the store worker goroutine (the whole batch fails, on this backend only)", funcName(fd), id.Name, member, id.Name, keysOf(setBy[producers[0]])))
				return true
			})
		}
	}
	c.count("store_result_union_accesses", n)
	c.floor("selections of a handler's result member in the store packages", n, 2)
}

func keysOf(m map[string]bool) []string {
	var out []string
	for k := range m {
		out = append(out, k)
	}
	sort.Strings(out)
	return out
}

// ruleCompletionStateValidated (C01/C04/C15): the state a client asks a promise to be completed
// with is one of Resolved / Rejected / Canceled at every front-end site: a constant of that set
// (gRPC has one handler per state), or a bound value that an early exit rejects unless it is in
// exactly that set. The coroutine writes the requested state as it is: `PENDING` or a time-out state
// accepted from a client would "complete" a promise into a state the state machine does not have.
func ruleCompletionStateValidated(c *Ctx) {
	sites := append(frontEndRequests(c.P, "http", pkgHttp), frontEndRequests(c.P, "grpc", pkgGrpc)...)
	allowed := map[string]bool{"Resolved": true, "Rejected": true, "Canceled": true}
	n := 0
	occ := map[string]int{}
	for _, s := range sites {
		if s.Kind != "CompletePromise" || s.Lit == nil {
			continue
		}
		n++
		info := s.Pk.TypesInfo
		key := "completion-state/" + s.Proto + "." + s.Handler
		occ[key]++
		if occ[key] > 1 {
			key += fmt.Sprintf("#%d", occ[key])
		}
		src := fieldSource(s.Lit, "State", info)
		if src == nil {
			c.bad(key, s.Pos, s.Proto+" "+s.Handler+" submits a completion without a state")
			continue
		}
		ok := false
		if cn := constText(info, src); cn != "" {
			ok = allowed[cn]
		} else {
			want := exprString(ast.Unparen(src))
			ast.Inspect(s.Decl.Body, func(nd ast.Node) bool {
				ifs, isIf := nd.(*ast.IfStmt)
				if !isIf || ifs.Pos() > s.Process.Pos() || !terminates(ifs.Body.List) {
					return true
				}
				u, isNot := ast.Unparen(ifs.Cond).(*ast.UnaryExpr)
				if !isNot || u.Op != token.NOT {
					return true
				}
				call, isCall := ast.Unparen(u.X).(*ast.CallExpr)
				if !isCall || len(call.Args) != 1 {
					return true
				}
				se, isSel := ast.Unparen(call.Fun).(*ast.SelectorExpr)
				if !isSel || se.Sel.Name != "In" || exprString(ast.Unparen(se.X)) != want {
					return true
				}
				got := map[string]bool{}
				ast.Inspect(call.Args[0], func(x ast.Node) bool {
					if e, isE := x.(ast.Expr); isE {
						if cn := constText(info, e); cn != "" {
							if _, isSelector := x.(*ast.SelectorExpr); isSelector {
								got[cn] = true
							}
						}
					}
					return true
				})
				same := len(got) == len(allowed)
				for k := range allowed {
					if !got[k] {
						same = false
					}
				}
				if same {
					ok = true
				}
				return true
			})
		}
		c.check(ok, key, src.Pos(), "the requested state is Resolved, Rejected or Canceled", fmt.Sprintf("%s %s submits the completion state %s without rejecting everything but Resolved / Rejected / Canceled first: the coroutine writes the requested state as it is", s.Proto, s.Handler, exprString(src)))
	}
	c.count("completion_request_sites", n)
	c.floor("front-end sites submitting a completion", n, 4)
}

// ---- library parsers that panic on some input ----

// panickyParsers: third-party parsers known to panic (not return an error) on some inputs. The
// contract is read from the library source in the module cache, one reason per row.
var panickyParsers = map[string]string{
	"github.com/robfig/cron/v3.Parser.Parse":  "slices the spec at the first space after a TZ= / CRON_TZ= prefix without checking that there is one (spec[eq+1:i] with i == -1)",
	"github.com/robfig/cron/v3.ParseStandard": "calls Parser.Parse",
}

// ruleLibraryPanics (C13): a call of such a parser on run-time data sits in a function that
// recovers and reports the panic as its error result; otherwise a client string ("TZ=UTC" as a
// schedule's cron) panics the goroutine that validates or evaluates it (the gRPC server has no
// recovery interceptor, and the schedule sweep runs on the kernel goroutine).
func ruleLibraryPanics(c *Ctx) {
	n := 0
	for _, pk := range c.P.Roots {
		if strings.Contains(pk.PkgPath, "/test") || pk.PkgPath == pkgPb {
			continue
		}
		info := pk.TypesInfo
		for _, fd := range allFuncDecls(pk) {
			if fd.Body == nil || isTestFile(c.P, fd.Pos()) {
				continue
			}
			for _, call := range callsInDeep(fd.Body) {
				fn, ok := calleeOf(info, call).(*types.Func)
				if !ok || fn.Pkg() == nil {
					continue
				}
				name := fn.Pkg().Path() + "." + fn.Name()
				if sig := fn.Type().(*types.Signature); sig.Recv() != nil {
					name = fn.Pkg().Path() + "." + namedName(sig.Recv().Type()) + "." + fn.Name()
				}
				why, ok := panickyParsers[name]
				if !ok {
					continue
				}
				allConst := true
				for _, a := range call.Args {
					if tv, ok := info.Types[a]; !ok || tv.Value == nil {
						allConst = false
					}
				}
				if allConst {
					continue
				}
				n++
				key := fmt.Sprintf("library-panics/%s.%s/%s", pk.Name, funcName(fd), fn.Name())
				c.check(recoversIntoError(info, fd, call), key, call.Pos(),
					"the enclosing function recovers a panic of "+fn.Name()+" and reports it as its error result",
					fn.Pkg().Name()+"."+fn.Name()+" "+why+": it panics on some inputs, and "+pk.Name+"."+funcName(fd)+" applies it to run-time data ("+exprString(call)+") without recovering — a client string can crash the goroutine that parses it")
			}
		}
	}
	c.count("panicky_parser_calls", n)
	c.floor("calls of a library parser that can panic", n, 1)
}

// recoversIntoError: before the call, at the top level of fd's body, a function literal is
// deferred that calls recover() and assigns a named error result of fd.
func recoversIntoError(info *types.Info, fd *ast.FuncDecl, call *ast.CallExpr) bool {
	var errResults []types.Object
	if fd.Type.Results != nil {
		for _, f := range fd.Type.Results.List {
			for _, nm := range f.Names {
				if o := info.Defs[nm]; o != nil && isErrorType(o.Type()) {
					errResults = append(errResults, o)
				}
			}
		}
	}
	if len(errResults) == 0 {
		return false
	}
	for _, st := range fd.Body.List {
		if st.Pos() > call.Pos() {
			break
		}
		ds, ok := st.(*ast.DeferStmt)
		if !ok {
			continue
		}
		lit, ok := ast.Unparen(ds.Call.Fun).(*ast.FuncLit)
		if !ok {
			continue
		}
		recovers, assigns := false, false
		ast.Inspect(lit.Body, func(x ast.Node) bool {
			switch y := x.(type) {
			case *ast.CallExpr:
				if id, ok := ast.Unparen(y.Fun).(*ast.Ident); ok && id.Name == "recover" {
					if _, isBuiltin := info.Uses[id].(*types.Builtin); isBuiltin {
						recovers = true
					}
				}
			case *ast.AssignStmt:
				for _, l := range y.Lhs {
					for _, o := range errResults {
						if isObj(info, l, o) {
							assigns = true
						}
					}
				}
			}
			return true
		})
		if recovers && assigns {
			return true
		}
	}
	return false
}
