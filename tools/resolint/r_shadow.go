package main

// ruleNoShadowedState (C01–C15 response provenance, R16): `x := …` in a nested block that declares
// a new variable with the name and type of a variable of an enclosing block of the same function,
// where the outer variable is read after the nested block — the assignment was meant for the outer
// variable (`=`), and what is read afterwards (the promise put into the response, the status, the
// command list) is the zero value. Only this lost-assignment shape is reported: the outer variable is
// declared without a value and the block does not assign it otherwise. Errors are exempt (re-declaring `err` is idiomatic and
// each use is checked by err-dominates-use).

import (
	"fmt"
	"go/ast"
	"go/token"
	"go/types"
	"strings"
)

func ruleNoShadowedState(c *Ctx) {
	n := 0
	for path, pk := range c.P.ByPath {
		if !strings.HasPrefix(path, modPath+"/internal/") && !strings.HasPrefix(path, modPath+"/pkg/") {
			continue
		}
		if strings.HasPrefix(path, modPath+"/pkg/client") || strings.Contains(path, "/test") || strings.HasSuffix(path, "/pb") || strings.HasSuffix(path, "/dst") {
			continue
		}
		info := pk.TypesInfo
		for _, fd := range allFuncDecls(pk) {
			if fd.Body == nil || isTestFile(c.P, fd.Pos()) {
				continue
			}
			occ := map[string]int{}
			ast.Inspect(fd.Body, func(nd ast.Node) bool {
				as, ok := nd.(*ast.AssignStmt)
				if !ok || as.Tok != token.DEFINE {
					return true
				}
				// the block that directly contains the statement; init statements of if / for / switch
				// declare variables scoped to that statement on purpose
				chain := enclosing(fd.Body, as)
				if len(chain) == 0 {
					return true
				}
				var blk ast.Node
				switch b := chain[len(chain)-1].(type) {
				case *ast.BlockStmt:
					blk = b
				case *ast.CaseClause:
					blk = b
				case *ast.CommClause:
					if b.Comm == ast.Stmt(as) {
						return true
					}
					blk = b
				default:
					return true
				}
				if blk == ast.Node(fd.Body) {
					return true
				}
				for _, l := range as.Lhs {
					id, ok := l.(*ast.Ident)
					if !ok || id.Name == "_" {
						continue
					}
					inner, ok := info.Defs[id].(*types.Var)
					if !ok || inner == nil {
						continue // not newly declared by this statement
					}
					if isErrorType(inner.Type()) || id.Name == "ok" {
						continue
					}
					n++
					// an outer variable of the same name and type, declared earlier in an enclosing scope of this function
					scope := inner.Parent()
					if scope == nil {
						continue
					}
					var outer *types.Var
					for s := scope.Parent(); s != nil && s != pk.Types.Scope(); s = s.Parent() {
						if o, ok := s.Lookup(id.Name).(*types.Var); ok && o.Pos() < as.Pos() && o.Pos() >= fd.Pos() && o.Pos() <= fd.End() {
							outer = o
							break
						}
					}
					if outer == nil || !types.Identical(outer.Type(), inner.Type()) {
						continue
					}
					// the lost-assignment shape only: the outer variable is declared without a value
					// (`var p *T`, to be filled in by the branches) and this branch does not assign it
					// otherwise; a deliberate shadow of a variable that already has its value is legal
					declaredEmpty := false
					ast.Inspect(fd.Body, func(z ast.Node) bool {
						if vs, ok := z.(*ast.ValueSpec); ok && len(vs.Values) == 0 {
							for _, nm := range vs.Names {
								if info.Defs[nm] == outer {
									declaredEmpty = true
								}
							}
						}
						return true
					})
					assignedHere := false
					ast.Inspect(blk, func(z ast.Node) bool {
						if a2, ok := z.(*ast.AssignStmt); ok && a2.Tok == token.ASSIGN {
							for _, l2 := range a2.Lhs {
								if i2, ok := ast.Unparen(l2).(*ast.Ident); ok && info.Uses[i2] == outer {
									assignedHere = true
								}
							}
						}
						return true
					})
					if !declaredEmpty || assignedHere {
						continue
					}
					// is the outer variable read after the nested block?
					readAfter := token.NoPos
					lhs := map[*ast.Ident]bool{}
					ast.Inspect(fd.Body, func(z ast.Node) bool {
						if a2, ok := z.(*ast.AssignStmt); ok {
							for _, l2 := range a2.Lhs {
								if i2, ok := ast.Unparen(l2).(*ast.Ident); ok {
									lhs[i2] = true
								}
							}
						}
						return true
					})
					ast.Inspect(fd.Body, func(z ast.Node) bool {
						if i2, ok := z.(*ast.Ident); ok && info.Uses[i2] == outer && i2.Pos() > blk.End() && !lhs[i2] && !readAfter.IsValid() {
							readAfter = i2.Pos()
						}
						return true
					})
					if !readAfter.IsValid() {
						continue
					}
					occ[id.Name]++
					key := fmt.Sprintf("shadowed/%s.%s/%s", pk.Name, funcName(fd), id.Name)
					if occ[id.Name] > 1 {
						key += fmt.Sprintf("#%d", occ[id.Name])
					}
					c.bad(key, as.Pos(), fmt.Sprintf("`%s :=` declares a new %s inside the block; the %s of the enclosing scope (declared at %s) keeps its old value and is read at %s — the assignment was lost", id.Name, id.Name, id.Name, c.P.pos(outer.Pos()), c.P.pos(readAfter)))
				}
				return true
			})
		}
	}
	c.count("nested_short_declarations", n)
	c.floor("nested short variable declarations inspected", n, 100)
}
