package main

import (
	"go/ast"
	"go/types"
	"sort"
	"strings"

	"golang.org/x/tools/go/packages"
)

// originOf describes where the value of an expression comes from, in terms that survive renaming of
// locals and extraction of helpers: a struct field (by type and field name), the result of a call
// (by callee), a parameter of an exported function (by function and position; parameters of
// unexported functions are followed to the arguments at their call sites in the package), a
// constant, or a local with several definitions (their origins joined).
func originOf(pk *packages.Package, fd *ast.FuncDecl, e ast.Expr, depth int) string {
	if depth > 8 {
		return "…"
	}
	info := pk.TypesInfo
	e = ast.Unparen(e)
	if tv, ok := info.Types[e]; ok && tv.Value != nil {
		return "const"
	}
	short := func(t types.Type) string {
		for {
			if p, ok := t.(*types.Pointer); ok {
				t = p.Elem()
				continue
			}
			break
		}
		if n, ok := t.(*types.Named); ok {
			if n.Obj().Pkg() != nil {
				return n.Obj().Pkg().Name() + "." + n.Obj().Name()
			}
			return n.Obj().Name()
		}
		return t.String()
	}
	switch x := e.(type) {
	case *ast.SelectorExpr:
		if sel, ok := info.Selections[x]; ok && sel.Kind() == types.FieldVal {
			return "field:" + short(sel.Recv()) + "." + x.Sel.Name
		}
		return "sel:" + exprString(x)
	case *ast.CallExpr:
		if tv, ok := info.Types[x.Fun]; ok && tv.IsType() && len(x.Args) == 1 {
			return originOf(pk, fd, x.Args[0], depth+1)
		}
		if fn, ok := calleeOf(info, x).(*types.Func); ok {
			sig := fn.Type().(*types.Signature)
			if sig.Recv() != nil {
				return "call:" + short(sig.Recv().Type()) + "." + fn.Name()
			}
			if fn.Pkg() != nil {
				return "call:" + fn.Pkg().Name() + "." + fn.Name()
			}
		}
		return "call:" + exprString(x.Fun)
	case *ast.IndexExpr:
		return originOf(pk, fd, x.X, depth+1) + "[]"
	case *ast.SliceExpr:
		return originOf(pk, fd, x.X, depth+1) + "[:]"
	case *ast.StarExpr:
		return originOf(pk, fd, x.X, depth+1)
	case *ast.UnaryExpr:
		return originOf(pk, fd, x.X, depth+1)
	case *ast.BinaryExpr:
		return originOf(pk, fd, x.X, depth+1) + "+" + originOf(pk, fd, x.Y, depth+1)
	case *ast.Ident:
		obj, _ := info.Uses[x].(*types.Var)
		if obj == nil {
			return "ident:" + x.Name
		}
		if obj.IsField() {
			return "field:" + x.Name
		}
		// parameter of fd?
		fnObj, _ := info.Defs[fd.Name].(*types.Func)
		if fnObj != nil {
			sig := fnObj.Type().(*types.Signature)
			for i := 0; i < sig.Params().Len(); i++ {
				if sig.Params().At(i) != obj {
					continue
				}
				if !fnObj.Exported() || sig.Recv() == nil && !ast.IsExported(fd.Name.Name) {
					// follow to the call sites in the package
					set := map[string]bool{}
					for _, g := range allFuncDecls(pk) {
						if g.Body == nil {
							continue
						}
						for _, call := range callsInDeep(g.Body) {
							if calleeOf(info, call) == types.Object(fnObj) && i < len(call.Args) {
								set[originOf(pk, g, call.Args[i], depth+1)] = true
							}
						}
					}
					if len(set) > 0 {
						var l []string
						for k := range set {
							l = append(l, k)
						}
						sort.Strings(l)
						return strings.Join(l, "|")
					}
				}
				return "param:" + pk.Name + "." + funcName(fd) + "#" + itoa(i)
			}
			if sig.Recv() == obj {
				return "recv:" + short(obj.Type())
			}
		}
		// local: its definitions
		set := map[string]bool{}
		ast.Inspect(fd.Body, func(n ast.Node) bool {
			switch s := n.(type) {
			case *ast.AssignStmt:
				for k, l := range s.Lhs {
					id, ok := l.(*ast.Ident)
					if !ok || (info.Defs[id] != types.Object(obj) && info.Uses[id] != types.Object(obj)) {
						continue
					}
					if len(s.Rhs) == len(s.Lhs) {
						set[originOf(pk, fd, s.Rhs[k], depth+1)] = true
					} else if len(s.Rhs) == 1 {
						set[originOf(pk, fd, s.Rhs[0], depth+1)+"#"+itoa(k)] = true
					}
				}
			case *ast.ValueSpec:
				for k, id := range s.Names {
					if info.Defs[id] != types.Object(obj) {
						continue
					}
					if k < len(s.Values) {
						set[originOf(pk, fd, s.Values[k], depth+1)] = true
					} else {
						set["zero"] = true
					}
				}
			case *ast.RangeStmt:
				for _, kv := range []ast.Expr{s.Key, s.Value} {
					if id, ok := kv.(*ast.Ident); ok && info.Defs[id] == types.Object(obj) {
						set[originOf(pk, fd, s.X, depth+1)+"[]"] = true
					}
				}
			case *ast.UnaryExpr:
				// &v handed to a decoder
				if id, ok := ast.Unparen(s.X).(*ast.Ident); ok && s.Op.String() == "&" && info.Uses[id] == types.Object(obj) {
					set["addr-taken"] = true
				}
			}
			return true
		})
		if len(set) == 0 {
			return "local:" + short(obj.Type())
		}
		var l []string
		for k := range set {
			l = append(l, k)
		}
		sort.Strings(l)
		return strings.Join(l, "|")
	}
	return "expr"
}

func itoa(i int) string {
	return string(rune('0' + i%10))
}
