package main

import (
	"encoding/json"
	"fmt"
	"go/token"
	"os"
	"path/filepath"
	"regexp"
	"sort"
	"strings"
	"time"
)

type Verdict string

const (
	Discharged Verdict = "discharged"
	Violation  Verdict = "violation"
	Undecided  Verdict = "undecided"
	Known      Verdict = "known-finding"
)

// Obl is one obligation: a rule instance evaluated on one construct.
type Obl struct {
	Rule     string   `json:"rule"`
	Key      string   `json:"key"` // rule/construct[/site-role] — never a line number
	Pos      string   `json:"pos"`
	Verdict  Verdict  `json:"verdict"`
	Detail   string   `json:"detail,omitempty"`
	Expected string   `json:"expected,omitempty"`
	Found    string   `json:"found,omitempty"`
	Path     []string `json:"path,omitempty"`
}

type Floor struct {
	Name string `json:"name"`
	Got  int    `json:"got"`
	Min  int    `json:"min"`
}

type Control struct {
	Name     string `json:"name"`
	Reported bool   `json:"reported"`
}

type Ctx struct {
	respSpec  bool            // ruleTemplates reads spec/responses.spec
	sqlFacets map[string]bool // when set, compareToSpec judges only these facets of a statement
	P         *Program
	Prop      string
	Tier      string
	Seed      int64
	Obls      []*Obl
	Floors    []Floor
	Controls  []Control
	Analysed  map[string]int
	Notes     []string
	Clauses   []string // what is decided, in words
	NotDec    []string // what is not decided
	Assume    []string
	rule      string // current rule family
	start     time.Time
	shared    map[string]any
}

func (c *Ctx) add(v Verdict, key string, pos token.Pos, detail string) *Obl {
	o := &Obl{Rule: c.rule, Key: c.rule + "/" + key, Pos: c.P.pos(pos), Verdict: v, Detail: detail}
	c.Obls = append(c.Obls, o)
	return o
}

func (c *Ctx) ok(key string, pos token.Pos, detail string) *Obl {
	return c.add(Discharged, key, pos, detail)
}
func (c *Ctx) bad(key string, pos token.Pos, detail string) *Obl {
	return c.add(Violation, key, pos, detail)
}
func (c *Ctx) und(key string, pos token.Pos, detail string) *Obl {
	return c.add(Undecided, key, pos, detail)
}

// check records discharged when cond holds, a violation otherwise.
func (c *Ctx) check(cond bool, key string, pos token.Pos, okDetail, badDetail string) *Obl {
	if cond {
		return c.ok(key, pos, okDetail)
	}
	return c.bad(key, pos, badDetail)
}

func (c *Ctx) floor(name string, got, min int) {
	c.Floors = append(c.Floors, Floor{name, got, min})
}

func (c *Ctx) count(what string, n int) { c.Analysed[what] += n }

// ---- known findings ----

type Finding struct {
	Status   string `json:"status"` // known | fixed
	Property string `json:"property"`
	Key      string `json:"key"`
	What     string `json:"what"`
	Witness  string `json:"witness,omitempty"`
	Commit   string `json:"commit,omitempty"`
}

func loadFindings(path string) ([]Finding, error) {
	b, err := os.ReadFile(path)
	if err != nil {
		if os.IsNotExist(err) {
			return nil, nil
		}
		return nil, err
	}
	var fs []Finding
	if err := json.Unmarshal(b, &fs); err != nil {
		return nil, fmt.Errorf("%s: %v", path, err)
	}
	return fs, nil
}

var keySan = regexp.MustCompile(`[^A-Za-z0-9_.-]+`)

// finish applies known findings, writes evidence and replay files, prints the verdict lines and
// returns the process exit code.
func (c *Ctx) finish(verifDir string, findings []Finding, quiet bool) int {
	sort.SliceStable(c.Obls, func(i, j int) bool {
		a, b := c.Obls[i], c.Obls[j]
		if a.Key != b.Key {
			return a.Key < b.Key
		}
		return a.Pos < b.Pos
	})
	// floors and controls become obligations of their own so that they are counted and reported
	for _, f := range c.Floors {
		o := &Obl{Rule: "floor", Key: "floor/" + f.Name, Pos: "-", Detail: fmt.Sprintf("found %d, confirmed minimum %d", f.Got, f.Min)}
		if f.Got >= f.Min {
			o.Verdict = Discharged
		} else {
			o.Verdict = Violation
			o.Detail += " — the rule matches fewer instances than were confirmed by hand; it would pass vacuously"
		}
		c.Obls = append(c.Obls, o)
	}
	for _, k := range c.Controls {
		o := &Obl{Rule: "control", Key: "control/" + k.Name, Pos: "-"}
		if k.Reported {
			o.Verdict = Discharged
			o.Detail = "positive control was reported by the rule"
		} else {
			o.Verdict = Violation
			o.Detail = "positive control was NOT reported: the rule is blind"
		}
		c.Obls = append(c.Obls, o)
	}
	known := map[string]Finding{}
	for _, f := range findings {
		if f.Status == "known" && f.Property == c.Prop {
			known[f.Key] = f
		}
	}
	usedKnown := map[string]bool{}
	var viol []*Obl
	nDis := 0
	for _, o := range c.Obls {
		switch o.Verdict {
		case Discharged:
			nDis++
		case Violation, Undecided:
			if f, ok := known[o.Key]; ok && o.Verdict == Violation {
				o.Verdict = Known
				if !usedKnown[o.Key] {
					fmt.Printf("KNOWN-FINDING: property=%s %s [%s at %s]\n", c.Prop, f.What, o.Key, o.Pos)
				}
				usedKnown[o.Key] = true
				continue
			}
			viol = append(viol, o)
		}
	}
	var knownList []string
	for k := range usedKnown {
		knownList = append(knownList, k)
	}
	sort.Strings(knownList)
	// a listed known finding that no longer reproduces is only noted (never an alarm)
	for k := range known {
		if !usedKnown[k] {
			c.Notes = append(c.Notes, "known finding no longer reported (repaired or construct gone): "+k)
		}
	}

	outDir := filepath.Join(verifDir, "out", c.Prop)
	_ = os.RemoveAll(outDir)
	seenFile := map[string]int{}
	for _, o := range viol {
		_ = os.MkdirAll(outDir, 0o755)
		name := keySan.ReplaceAllString(o.Key, "_")
		if len(name) > 150 {
			name = name[:150]
		}
		seenFile[name]++
		if seenFile[name] > 1 {
			name = fmt.Sprintf("%s.%d", name, seenFile[name])
		}
		path := filepath.Join(outDir, name+".json")
		rec := map[string]any{
			"property": c.Prop, "kind": string(o.Verdict), "rule": o.Rule, "key": o.Key, "pos": o.Pos,
			"detail": o.Detail, "expected": o.Expected, "found": o.Found, "path": o.Path,
		}
		b, _ := json.MarshalIndent(rec, "", " ")
		_ = os.WriteFile(path, b, 0o644)
		fmt.Printf("%s: %s: %s [%s]\n", o.Pos, o.Verdict, o.Detail, o.Key)
		if o.Expected != "" || o.Found != "" {
			fmt.Printf("    expected: %s\n    found:    %s\n", o.Expected, o.Found)
		}
		fmt.Printf("VIOLATION property=%s replay=%s\n", c.Prop, path)
	}

	// evidence
	distinct := map[string]bool{}
	for _, o := range c.Obls {
		if o.Pos != "-" && o.Pos != "?" {
			distinct[o.Key] = true
		}
	}
	var samples []any
	perRule := map[string]int{}
	for _, o := range c.Obls {
		if perRule[o.Rule] < 4 || o.Verdict != Discharged {
			samples = append(samples, o)
			perRule[o.Rule]++
		}
		if len(samples) >= 80 {
			break
		}
	}
	ruleSet := map[string]int{}
	for _, o := range c.Obls {
		ruleSet[o.Rule]++
	}
	expl := "Static analysis of /repo's current source (go/packages + go/types + go/cfg, SQL subset parser). " +
		"Decided: " + strings.Join(c.Clauses, " | ") + ". NOT decided: " + strings.Join(c.NotDec, " | ") + "."
	cov := map[string]any{
		"explanation":         expl,
		"obligations":         len(c.Obls),
		"discharged":          nDis,
		"evaluations":         len(c.Obls),
		"distinct_nontrivial": len(distinct),
		"rule":                "one evaluation per rule instance (rule/construct key); non-trivial = the evaluation inspected at least one source site (has a file:line); distinct = distinct keys",
		"samples":             samples,
		"analysed":            c.Analysed,
		"floors":              c.Floors,
		"controls":            c.Controls,
		"rules":               ruleSet,
		"known_findings":      knownList,
		"notes":               c.Notes,
		"exhaustive":          false,
		"checker_cmd":         "bin/resolint -prop " + c.Prop + " -tier " + c.Tier,
		"trusted_base":        []string{"go/types (Go 1.23.5)", "golang.org/x/tools v0.29.0", "resolint SQL subset parser", "spec tables in /verif/tools/resolint/spec_*.go and /verif/spec", "SQLite/Postgres semantics of the parsed statements"},
	}
	ev := map[string]any{
		"property_id": c.Prop,
		"tier":        c.Tier,
		"seed":        c.Seed,
		"level":       "other",
		"coverage":    cov,
		"assumptions": c.Assume,
		"wall_s":      time.Since(c.start).Seconds(),
		"violations":  len(viol),
	}
	b, _ := json.MarshalIndent(ev, "", " ")
	_ = os.MkdirAll(filepath.Join(verifDir, "evidence"), 0o755)
	if err := os.WriteFile(filepath.Join(verifDir, "evidence", c.Prop+".json"), b, 0o644); err != nil {
		fmt.Fprintln(os.Stderr, "cannot write evidence:", err)
		return 2
	}
	if !quiet {
		fmt.Printf("%s %s: %d obligations, %d discharged, %d known findings, %d violations/undecided (%.1fs)\n",
			c.Prop, c.Tier, len(c.Obls), nDis, len(knownList), len(viol), time.Since(c.start).Seconds())
		var as []string
		for k, v := range c.Analysed {
			as = append(as, fmt.Sprintf("%s=%d", k, v))
		}
		sort.Strings(as)
		fmt.Println("analysed:", strings.Join(as, " "))
	}
	if len(viol) > 0 {
		return 1
	}
	return 0
}
