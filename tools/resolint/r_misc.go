package main

// Smaller structural rules of the coroutine layer.

import (
	"fmt"
	"go/ast"
	"go/token"
	"go/types"
	"sort"
	"strconv"
	"strings"

	"golang.org/x/tools/go/cfg"
)

// ruleCoroutineConfinement (R14 for the kernel / R8 clock): coroutine code is single-threaded and
// sees only the tick clock: no go statements, no package-level variables, no sync or channel
// operations, no wall clock.
func ruleCoroutineConfinement(c *Ctx) {
	m := c.coroModel()
	if m.Err != nil {
		c.und("model", 0, m.Err.Error())
		return
	}
	info := m.Pk.TypesInfo
	nFuncs := 0
	clean := true
	for _, f := range m.Pk.Syntax {
		if isTestFile(c.P, f.Pos()) {
			continue
		}
		for _, d := range f.Decls {
			if gd, ok := d.(*ast.GenDecl); ok && gd.Tok == token.VAR {
				for _, sp := range gd.Specs {
					vs := sp.(*ast.ValueSpec)
					for _, n := range vs.Names {
						// a read-only table of constants (never written, only indexed) is not state
						if v, ok := info.Defs[n].(*types.Var); ok && readOnlyTable(m.Pk, v) != nil {
							c.ok("no-package-state/"+n.Name, n.Pos(), "package-level "+n.Name+" is a table of constants that is only ever read by indexing")
							continue
						}
						clean = false
						c.bad("no-package-state/"+n.Name, n.Pos(), "package-level variable "+n.Name+" in internal/app/coroutines: coroutines must keep no state outside the store (it would be lost at a restart and shared between requests)")
					}
				}
			}
		}
		for _, im := range f.Imports {
			p := strings.Trim(im.Path.Value, `"`)
			if p == "sync" || p == "sync/atomic" || p == "database/sql" || p == "os" || p == "net/http" {
				clean = false
				c.bad("imports/"+p, im.Pos(), "internal/app/coroutines imports "+p+": effects must go through store/sender/router submissions only")
			}
		}
	}
	for _, name := range m.Order {
		cf := m.Funcs[name]
		nFuncs++
		ast.Inspect(cf.Decl.Body, func(n ast.Node) bool {
			switch x := n.(type) {
			case *ast.GoStmt:
				clean = false
				c.bad("no-goroutines/"+name, x.Pos(), "go statement in coroutine code: interleaving is no longer confined to store submissions")
			case *ast.SendStmt:
				clean = false
				c.bad("no-channels/"+name, x.Pos(), "channel send in coroutine code")
			case *ast.SelectStmt:
				clean = false
				c.bad("no-channels/"+name, x.Pos(), "select in coroutine code")
			case *ast.UnaryExpr:
				if x.Op == token.ARROW {
					clean = false
					c.bad("no-channels/"+name, x.Pos(), "channel receive in coroutine code")
				}
			case *ast.CallExpr:
				if fn, ok := calleeOf(info, x).(*types.Func); ok && fn.Pkg() != nil && fn.Pkg().Path() == "time" {
					switch fn.Name() {
					case "Now", "Since", "Until", "Sleep", "After", "Tick", "NewTimer", "NewTicker", "AfterFunc":
						clean = false
						c.bad("clock/"+name+"/time."+fn.Name(), x.Pos(), "time."+fn.Name()+" in coroutine code: the only clock a coroutine may read is c.Time() (the tick time)")
					}
				}
			}
			return true
		})
	}
	if clean {
		c.ok("single-threaded-tick-clock", m.Pk.Syntax[0].Pos(), fmt.Sprintf("%d coroutine functions: no go statement, channel operation, package variable, sync import or wall-clock read", nFuncs))
	}
	c.count("coroutine_functions", nFuncs)
	c.floor("coroutine functions scanned", nFuncs, 25)
}

// ruleCreationGroup (R5): the creation helper submits ONE store transaction whose first command is
// the promise creation (merged with its task when routed) followed by the caller's extra commands;
// the schedule advance is handed to it as such an extra command (same transaction).
func ruleCreationGroup(c *Ctx) {
	m := c.coroModel()
	if m.Err != nil {
		c.und("model", 0, m.Err.Error())
		return
	}
	info := m.Pk.TypesInfo
	var owner *coroFunc
	for _, s := range m.commandSites() {
		if s.Kind == "CreatePromise" || s.Kind == "CreatePromiseAndTask" {
			if owner != nil && owner.Name != s.Func {
				c.bad("creation-group/owner", s.Pos, "promise creation commands are constructed in more than one function")
			}
			owner = m.Funcs[s.Func]
		}
	}
	if owner == nil {
		c.bad("creation-group/owner", 0, "no function constructs a CreatePromise command")
		return
	}
	subs := owner.storeSubmissions(m)
	if len(subs) != 1 {
		c.bad("creation-group/one-submission", owner.Decl.Pos(), fmt.Sprintf("%s submits %d store transactions; promise, task and extra commands must be ONE transaction", owner.Name, len(subs)))
		return
	}
	got := strings.Join(subs[0].Kinds, ",")
	want := "CreatePromise|CreatePromiseAndTask,param*"
	o := c.check(got == want && subs[0].Exact, "creation-group/commands", subs[0].Pos, "creation = one Transaction [CreatePromise | CreatePromiseAndTask, extra…]", "the creation transaction is not [CreatePromise|CreatePromiseAndTask, extra…] in one submission")
	if got != want {
		o.Expected, o.Found = want, got
	}
	// the schedule advance travels as an extra command of the creation helper
	n := 0
	for _, s := range m.commandSites() {
		if s.Kind != "UpdateSchedule" {
			continue
		}
		n++
		cf := m.Funcs[s.Func]
		inHelperCall := false
		for _, par := range enclosing(cf.Decl.Body, s.Lit) {
			if call, ok := par.(*ast.CallExpr); ok {
				if fn, ok := calleeOf(info, call).(*types.Func); ok && fn == info.Defs[owner.Decl.Name] {
					inHelperCall = true
				}
			}
		}
		c.check(inHelperCall, "creation-group/schedule-advance/"+s.Func, s.Pos, "the schedule advance is an extra command of the promise creation (same transaction)", "the UpdateSchedule command is not handed to the creation helper: firing and advancing are no longer one atomic step")
	}
	c.floor("UpdateSchedule command sites", n, 1)
}

// ruleRouterErrorStops (C08, finding F13): in the creation helper the store write must not be
// reachable when the router submission failed — otherwise a promise whose tags route it is stored
// without its task.
func ruleRouterErrorStops(c *Ctx) {
	m := c.coroModel()
	if m.Err != nil {
		c.und("model", 0, m.Err.Error())
		return
	}
	info := m.Pk.TypesInfo
	found := 0
	for _, name := range m.Order {
		cf := m.Funcs[name]
		var router, store *ast.CallExpr
		for _, call := range callsInDeep(cf.Decl.Body) {
			fn, ok := calleeOf(info, call).(*types.Func)
			if !ok || fn.Pkg() == nil || fn.Pkg().Path() != pkgGocoro || len(call.Args) != 2 {
				continue
			}
			d := cf.Env.submissionDesc(call.Args[1])
			if d == "Router" {
				router = call
			}
			if strings.HasPrefix(d, "Store:") && router != nil && call.Pos() > router.Pos() {
				store = call
			}
		}
		if router == nil || store == nil || cf.Lit == nil {
			continue
		}
		found++
		g := buildCFG(m.Pk, cf.Lit.Body)
		gen := func(n ast.Node) []string { return nil }
		edge := errEdgeFacts(info, func(call *ast.CallExpr) string {
			if call == router {
				return "router"
			}
			return ""
		})
		// errEdgeFacts needs the test in the same block as the assignment; the helper tests `err`
		// several statements later, so track the error variable of the router await explicitly.
		var errObj types.Object
		ast.Inspect(cf.Lit.Body, func(n ast.Node) bool {
			if as, ok := n.(*ast.AssignStmt); ok && len(as.Rhs) == 1 && ast.Unparen(as.Rhs[0]) == ast.Expr(router) && len(as.Lhs) == 2 {
				if id, ok := as.Lhs[1].(*ast.Ident); ok {
					errObj = info.Defs[id]
					if errObj == nil {
						errObj = info.Uses[id]
					}
				}
			}
			return true
		})
		_ = edge
		edge2 := func(b *cfg.Block, i int) []string {
			if errObj == nil || len(b.Succs) != 2 || len(b.Nodes) == 0 {
				return nil
			}
			cond, ok := b.Nodes[len(b.Nodes)-1].(ast.Expr)
			if !ok || cond.Pos() > store.Pos() {
				return nil
			}
			obj, nonNil, ok := nilTest(info, cond)
			if !ok || obj != errObj {
				return nil
			}
			if (i == 0) != nonNil {
				return []string{"router-ok"}
			}
			return []string{"router-failed"}
		}
		var storeNode ast.Node
		res := mustFacts(g, gen, edge2, func(n ast.Node) bool {
			hit := false
			ast.Inspect(n, func(x ast.Node) bool {
				if x == ast.Node(store) {
					hit = true
				}
				return !hit
			})
			if hit {
				storeNode = n
			}
			return hit
		})
		facts := res[storeNode]
		o := c.check(facts["router-ok"], "router-error-stops/"+name, store.Pos(),
			"the store write is reached only when the router answered",
			"the store write is reachable although the router submission failed: a promise whose routing is unknown is stored without its invocation task (property: routed promise and task are born together)")
		o.Path = append([]string{"entry: " + name, "router await: " + c.P.pos(router.Pos()), "store write: " + c.P.pos(store.Pos())}, facts.list()...)
	}
	c.floor("functions that route then store", found, 1)
}

// ruleDerivedIds (R15): an id the server derives from client ids must be an injective function of
// its free-text operands: one %s operand after a constant prefix is; two %s operands joined by a
// separator that may occur inside the operands are not.
// ruleDerivedIdsRaw: only the "embeds raw" half (C20); injectivity belongs to C05.
func ruleDerivedIdsRaw(c *Ctx) { c.derivedIds(false) }

func ruleDerivedIds(c *Ctx) { c.derivedIds(true) }

func (c *Ctx) derivedIds(injective bool) {
	m := c.coroModel()
	if m.Err != nil {
		c.und("model", 0, m.Err.Error())
		return
	}
	info := m.Pk.TypesInfo
	// every Id of a store command that is formatted by the server (directly or through a
	// single-expression helper, which the provenance inlines): keyed by the constant prefix of the
	// format, so that renaming or inlining the helper changes nothing
	seen := map[string]bool{}
	n := 0
	for _, name := range m.Order {
		cf := m.Funcs[name]
		ast.Inspect(cf.Decl.Body, func(nd ast.Node) bool {
			cl, ok := nd.(*ast.CompositeLit)
			if !ok {
				return true
			}
			tv, ok := info.Types[cl]
			if !ok || namedPkgPath(tv.Type) != pkgTAio || !strings.HasSuffix(namedName(tv.Type), "Command") {
				return true
			}
			for _, el := range cl.Elts {
				kv, ok := el.(*ast.KeyValueExpr)
				if !ok || exprString(kv.Key) != "Id" {
					continue
				}
				pv := cf.Env.prov(kv.Value)
				if !strings.HasPrefix(pv, "fmt.Sprintf(") {
					continue
				}
				args := splitTopLevel(pv[len("fmt.Sprintf(") : len(pv)-1])
				if len(args) == 0 || !strings.HasPrefix(args[0], `"`) {
					c.und("derived-id/"+namedName(tv.Type), kv.Pos(), "non-constant format: "+pv)
					continue
				}
				format, err := strconv.Unquote(args[0])
				if err != nil {
					c.und("derived-id/"+namedName(tv.Type), kv.Pos(), "format: "+args[0])
					continue
				}
				prefix := format
				if k := strings.Index(prefix, "%"); k >= 0 {
					prefix = prefix[:k]
				}
				id := strings.Trim(prefix, "_:/-. ")
				if id == "" {
					id = "noprefix"
				}
				if seen[id+"|"+pv] {
					continue
				}
				first := !seen[id]
				seen[id], seen[id+"|"+pv] = true, true
				if first {
					n++
				}
				nS := strings.Count(format, "%s")
				other := strings.Count(format, "%") - nS
				rawOK := len(args)-1 == nS && other == 0
				for _, a := range args[1:] {
					// an operand is embedded unaltered when it is a plain path (no call, no operator)
					if strings.ContainsAny(a, "() +") {
						rawOK = false
					}
				}
				c.check(rawOK, "derived-id/"+id+"/embeds-raw", kv.Pos(), "embeds each client id unaltered with %s: "+format, "derived id "+pv+" does not embed each of its operands once, unaltered (%s)")
				if !injective {
					continue
				}
				c.check(nS <= 1, "derived-id/"+id+"/injective", kv.Pos(), "one free-text operand after a constant prefix: injective",
					fmt.Sprintf("derived id %q joins %d free-text operands with a separator that may occur inside them: distinct registrations can share an id", format, nS))
			}
			return true
		})
	}
	c.count("derived_id_formats", n)
	c.floor("derived-id formats", n, 3)
}

// splitTopLevel splits a provenance argument list at the commas outside quotes and brackets.
func splitTopLevel(s string) []string {
	var out []string
	depth, inq, start := 0, false, 0
	for i := 0; i < len(s); i++ {
		ch := s[i]
		switch {
		case inq:
			if ch == '\\' {
				i++
			} else if ch == '"' {
				inq = false
			}
		case ch == '"':
			inq = true
		case ch == '(' || ch == '[' || ch == '{':
			depth++
		case ch == ')' || ch == ']' || ch == '}':
			depth--
		case ch == ',' && depth == 0:
			out = append(out, s[start:i])
			start = i + 1
		}
	}
	return append(out, s[start:])
}

// ruleIdTemplateVerbatim (C10): the id of a fired promise is what the schedule's template produces
// for (schedule id, occurrence). That holds only if the engine that renders the template inserts
// its operands verbatim: an escaping engine (html/template) or an escaping function on the way
// rewrites ids that contain markup-significant characters. Type-resolved: every identifier of the
// coroutine package that resolves into an escaping package is reported, whatever the import is
// called.
func ruleIdTemplateVerbatim(c *Ctx) {
	m := c.coroModel()
	if m.Err != nil {
		c.und("model", 0, m.Err.Error())
		return
	}
	escaping := map[string]string{
		"html/template": "operands are HTML-escaped when the template is executed",
		"html":          "escapes markup-significant characters",
		"net/url":       "percent-encodes its operand",
	}
	info := m.Pk.TypesInfo
	nText, nBad := 0, 0
	var ids []*ast.Ident
	for id := range info.Uses {
		ids = append(ids, id)
	}
	sort.Slice(ids, func(i, j int) bool { return ids[i].Pos() < ids[j].Pos() })
	for _, id := range ids {
		if isTestFile(c.P, id.Pos()) {
			continue
		}
		obj := info.Uses[id]
		if obj == nil || obj.Pkg() == nil {
			continue
		}
		if _, isPkgName := obj.(*types.PkgName); isPkgName {
			continue
		}
		p := obj.Pkg().Path()
		if p == "text/template" {
			nText++
		}
		if why, ok := escaping[p]; ok {
			if _, isFn := obj.(*types.Func); !isFn {
				continue
			}
			nBad++
			c.bad("id-template-verbatim/"+p+"."+obj.Name(), id.Pos(), "the coroutine package renders text through "+p+"."+obj.Name()+": "+why+", so the id of a fired promise is no longer the one the schedule's template produces for that occurrence")
		}
	}
	c.count("text_template_uses", nText)
	if nBad == 0 {
		c.ok("id-template-verbatim", 0, fmt.Sprintf("no identifier of %s resolves into an escaping package (%d uses of text/template)", m.Pk.PkgPath, nText))
	}
}
