package main

import (
	"go/ast"
	"go/token"
	"go/types"
	"sort"

	"golang.org/x/tools/go/cfg"
	"golang.org/x/tools/go/packages"
)

// buildCFG builds the control-flow graph of a function body. Calls to panic, os.Exit, log.Fatal
// and util-style helpers that never return are treated as non-returning.
func buildCFG(pk *packages.Package, body *ast.BlockStmt) *cfg.CFG {
	mayReturn := func(call *ast.CallExpr) bool {
		switch f := ast.Unparen(call.Fun).(type) {
		case *ast.Ident:
			if f.Name == "panic" {
				if _, ok := pk.TypesInfo.Uses[f].(*types.Builtin); ok {
					return false
				}
			}
		case *ast.SelectorExpr:
			if fn, ok := pk.TypesInfo.Uses[f.Sel].(*types.Func); ok && fn.Pkg() != nil {
				if fn.Pkg().Path() == "os" && fn.Name() == "Exit" {
					return false
				}
			}
		}
		return true
	}
	return cfg.New(body, mayReturn)
}

type factSet map[string]bool

func (f factSet) clone() factSet {
	o := factSet{}
	for k := range f {
		o[k] = true
	}
	return o
}

func intersect(a, b factSet) factSet {
	o := factSet{}
	for k := range a {
		if b[k] {
			o[k] = true
		}
	}
	return o
}

func (f factSet) list() []string {
	var out []string
	for k := range f {
		out = append(out, k)
	}
	sort.Strings(out)
	return out
}

// mustFacts runs a forward must-analysis: facts that hold on EVERY path from entry.
//   gen(node)            facts established by executing a node
//   edge(block, i)       facts established by leaving block through successor i
// It returns, for each node of interest (selected by want), the facts that hold just before it.
func mustFacts(g *cfg.CFG, gen func(ast.Node) []string, edge func(b *cfg.Block, i int) []string, want func(ast.Node) bool) map[ast.Node]factSet {
	n := len(g.Blocks)
	in := make([]factSet, n)   // nil = top (unvisited)
	preds := make([][]struct{ b *cfg.Block; i int }, n)
	for _, b := range g.Blocks {
		for i, s := range b.Succs {
			preds[s.Index] = append(preds[s.Index], struct{ b *cfg.Block; i int }{b, i})
		}
	}
	outOf := func(b *cfg.Block) factSet {
		if in[b.Index] == nil {
			return nil
		}
		o := in[b.Index].clone()
		for _, nd := range b.Nodes {
			for _, f := range gen(nd) {
				o[f] = true
			}
		}
		return o
	}
	in[0] = factSet{}
	changed := true
	for iter := 0; changed && iter < 4*n+8; iter++ {
		changed = false
		for _, b := range g.Blocks {
			if b.Index == 0 {
				continue
			}
			var acc factSet
			for _, p := range preds[b.Index] {
				o := outOf(p.b)
				if o == nil {
					continue
				}
				if edge != nil {
					for _, f := range edge(p.b, p.i) {
						o[f] = true
					}
				}
				if acc == nil {
					acc = o
				} else {
					acc = intersect(acc, o)
				}
			}
			if acc == nil {
				continue
			}
			if in[b.Index] == nil || len(acc) != len(in[b.Index]) {
				in[b.Index] = acc
				changed = true
			}
		}
	}
	res := map[ast.Node]factSet{}
	for _, b := range g.Blocks {
		if in[b.Index] == nil {
			continue // unreachable
		}
		cur := in[b.Index].clone()
		for _, nd := range b.Nodes {
			if want(nd) {
				res[nd] = cur.clone()
			}
			for _, f := range gen(nd) {
				cur[f] = true
			}
		}
	}
	return res
}

// nilTest recognises `x != nil` / `x == nil` (either operand order) over an identifier and
// returns the identifier's object and whether the TRUE branch means "x is non-nil".
func nilTest(info *types.Info, e ast.Expr) (types.Object, bool, bool) {
	be, ok := ast.Unparen(e).(*ast.BinaryExpr)
	if !ok || (be.Op != token.NEQ && be.Op != token.EQL) {
		return nil, false, false
	}
	x, y := ast.Unparen(be.X), ast.Unparen(be.Y)
	isNil := func(e ast.Expr) bool {
		id, ok := e.(*ast.Ident)
		if !ok {
			return false
		}
		_, isNilObj := info.Uses[id].(*types.Nil)
		return isNilObj
	}
	var id *ast.Ident
	if isNil(y) {
		id, _ = x.(*ast.Ident)
	} else if isNil(x) {
		id, _ = y.(*ast.Ident)
	}
	if id == nil {
		return nil, false, false
	}
	obj := info.Uses[id]
	if obj == nil {
		return nil, false, false
	}
	return obj, be.Op == token.NEQ, true
}

func mentions(info *types.Info, n ast.Node, obj types.Object) bool {
	found := false
	ast.Inspect(n, func(x ast.Node) bool {
		if id, ok := x.(*ast.Ident); ok && (info.Uses[id] == obj || info.Defs[id] == obj) {
			found = true
		}
		return !found
	})
	return found
}

// assignsTo reports whether node assigns obj (as an identifier on the left-hand side).
func assignsTo(info *types.Info, n ast.Node, obj types.Object) (rhs []ast.Expr, ok bool) {
	switch s := n.(type) {
	case *ast.AssignStmt:
		for _, l := range s.Lhs {
			if id, isId := l.(*ast.Ident); isId && (info.Uses[id] == obj || info.Defs[id] == obj) {
				return s.Rhs, true
			}
		}
	case *ast.ValueSpec:
		for _, id := range s.Names {
			if info.Defs[id] == obj {
				return s.Values, true
			}
		}
	case *ast.DeclStmt:
		if gd, isGd := s.Decl.(*ast.GenDecl); isGd {
			for _, sp := range gd.Specs {
				if vs, isVs := sp.(*ast.ValueSpec); isVs {
					if r, ok := assignsTo(info, vs, obj); ok {
						return r, true
					}
				}
			}
		}
	}
	return nil, false
}

// calleeName returns a short name of the static callee of a call ("Recv.Method" or "pkg.Func").
func calleeName(info *types.Info, call *ast.CallExpr) string {
	obj := calleeOf(info, call)
	fn, ok := obj.(*types.Func)
	if !ok {
		if obj != nil {
			return obj.Name()
		}
		return exprString(call.Fun)
	}
	sig := fn.Type().(*types.Signature)
	if sig.Recv() != nil {
		return namedName(sig.Recv().Type()) + "." + fn.Name()
	}
	if fn.Pkg() != nil {
		return fn.Pkg().Name() + "." + fn.Name()
	}
	return fn.Name()
}

// callsIn lists the calls syntactically inside a node, not descending into function literals.
func callsIn(n ast.Node) []*ast.CallExpr {
	var out []*ast.CallExpr
	ast.Inspect(n, func(x ast.Node) bool {
		if _, ok := x.(*ast.FuncLit); ok {
			return false
		}
		if c, ok := x.(*ast.CallExpr); ok {
			out = append(out, c)
		}
		return true
	})
	return out
}

// enclosing returns the chain of ancestors of target inside root (outermost first).
func enclosing(root ast.Node, target ast.Node) []ast.Node {
	var stack, res []ast.Node
	ast.Inspect(root, func(n ast.Node) bool {
		if res != nil {
			return false
		}
		if n == nil {
			stack = stack[:len(stack)-1]
			return true
		}
		if n == target {
			res = append([]ast.Node(nil), stack...)
			return false
		}
		stack = append(stack, n)
		return true
	})
	return res
}
