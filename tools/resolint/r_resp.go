package main

// R6 compare-and-set discipline: in every request coroutine each guarded write has its row count
// examined; on the path where it affected no row the coroutine retries (calls itself) or answers
// without anything that derives from a read made before the write.

import (
	"fmt"
	"go/ast"
	"go/token"
	"go/types"
	"os"
	"sort"
	"strings"

	"golang.org/x/tools/go/cfg"
)

var readKinds = map[string]bool{"ReadPromise": true, "ReadPromises": true, "SearchPromises": true, "ReadSchedule": true,
	"ReadSchedules": true, "SearchSchedules": true, "ReadTask": true, "ReadTasks": true, "ReadEnqueueableTasks": true, "ReadLock": true}

type writePoint struct {
	Node  ast.Node
	Call  *ast.CallExpr
	Await string // provenance string of the awaited call, e.g. await(Store:UpdateTask)
	Kinds []string
	Spawn bool // Spawn without await (collected and awaited later)
}

// responders: functions of the coroutines package returning (*t_api.Response, error)
func (m *coroModel) responders() []*coroFunc {
	var out []*coroFunc
	for _, n := range m.Order {
		cf := m.Funcs[n]
		sig := m.Pk.TypesInfo.Defs[cf.Decl.Name].(*types.Func).Type().(*types.Signature)
		if sig.Results().Len() == 2 && isNamed(sig.Results().At(0).Type(), pkgTApi, "Response") {
			out = append(out, cf)
		}
	}
	return out
}

func (cf *coroFunc) writePoints(m *coroModel) []*writePoint {
	info := m.Pk.TypesInfo
	var out []*writePoint
	ast.Inspect(cf.Decl.Body, func(n ast.Node) bool {
		call, ok := n.(*ast.CallExpr)
		if !ok {
			return true
		}
		fn, ok := calleeOf(info, call).(*types.Func)
		if !ok || fn.Pkg() == nil || fn.Pkg().Path() != pkgGocoro || len(call.Args) != 2 {
			return true
		}
		switch fn.Name() {
		case "YieldAndAwait", "Yield":
			desc := cf.Env.submissionDesc(call.Args[1])
			if !strings.HasPrefix(desc, "Store:") {
				return true
			}
			kinds := strings.Split(strings.TrimPrefix(desc, "Store:"), "+")
			write := false
			for _, k := range kinds {
				k = strings.TrimSuffix(k, "*")
				for _, kk := range strings.Split(k, "|") {
					if !readKinds[kk] {
						write = true
					}
				}
			}
			if write {
				out = append(out, &writePoint{Node: call, Call: call, Await: "await(" + desc + ")", Kinds: kinds})
			}
		case "SpawnAndAwait", "Spawn":
			if hc, ok := ast.Unparen(call.Args[1]).(*ast.CallExpr); ok {
				name := calleeNameOf(info, hc)
				out = append(out, &writePoint{Node: call, Call: call, Await: "await(" + name + ")", Kinds: []string{name}, Spawn: fn.Name() == "Spawn"})
			}
		}
		return true
	})
	sort.Slice(out, func(i, j int) bool { return out[i].Call.Pos() < out[j].Call.Pos() })
	return out
}

// rowTest classifies an atom as a test of W's outcome. lostOnTrue tells which branch is the
// "affected no row" branch.
func rowTest(atom string, w *writePoint) (isTest, lostOnTrue bool) {
	if !strings.Contains(atom, w.Await) {
		return false, false
	}
	helperBool := "await(" + w.Kinds[0] + ")"
	switch {
	case atom == helperBool:
		return true, false
	case atom == "!"+helperBool:
		return true, true
	}
	if !strings.Contains(atom, "RowsAffected") {
		return false, false
	}
	switch {
	case strings.HasSuffix(atom, " == 0)"):
		return true, true
	case strings.HasSuffix(atom, " == 1)"), strings.HasSuffix(atom, " != 0)"), strings.HasPrefix(atom, "(0 < "), strings.HasPrefix(atom, "(1 <= "):
		return true, false
	case strings.HasSuffix(atom, " != 1)"), strings.HasSuffix(atom, " <= 0)"), strings.HasSuffix(atom, " < 1)"):
		return true, true
	}
	return false, false
}

// awaitOrigins collects the positions of the gocoro await calls an expression derives from.
func (pe *provEnv) awaitOrigins(e ast.Expr, depth int, out map[token.Pos]bool, path ...ast.Node) {
	if e == nil || depth > 12 {
		return
	}
	info := pe.pk.TypesInfo
	ast.Inspect(e, func(n ast.Node) bool {
		switch x := n.(type) {
		case *ast.FuncLit:
			return false
		case *ast.CallExpr:
			if fn, ok := calleeOf(info, x).(*types.Func); ok && fn.Pkg() != nil && fn.Pkg().Path() == pkgGocoro {
				switch fn.Name() {
				case "YieldAndAwait", "Yield", "SpawnAndAwait", "Spawn", "Await":
					out[x.Pos()] = true
				}
			}
		case *ast.Ident:
			obj := info.Uses[x]
			if _, ok := obj.(*types.Var); !ok {
				return true
			}
			// on a walked path the latest assignment along the path is the one that reaches
			for i := len(path) - 1; i >= 0; i-- {
				if path[i].Pos() >= x.Pos() {
					continue
				}
				if rhs, ok := assignsTo(info, path[i], obj); ok && len(rhs) > 0 {
					for _, r := range rhs {
						pe.awaitOrigins(r, depth+1, out, path[:i]...)
					}
					return true
				}
			}
			var real []ast.Node
			for _, d := range pe.defs[obj] {
				if vs, ok := d.(*ast.ValueSpec); ok && len(vs.Values) == 0 {
					continue
				}
				real = append(real, d)
			}
			if len(real) > 1 {
				if d := pe.reachingDef(real, x.Pos()); d != nil {
					real = []ast.Node{d}
				}
			}
			for _, d := range real {
				switch s := d.(type) {
				case *ast.AssignStmt:
					if d.Pos() >= x.Pos() && len(real) > 1 {
						continue
					}
					for _, r := range s.Rhs {
						pe.awaitOrigins(r, depth+1, out, path...)
					}
				case *ast.ValueSpec:
					for _, r := range s.Values {
						pe.awaitOrigins(r, depth+1, out, path...)
					}
				case *ast.RangeStmt:
					pe.awaitOrigins(s.X, depth+1, out, path...)
				}
			}
		}
		return true
	})
}

// rolesTransitive: the registration roles of a function, or of the registered functions that call it.
func (m *coroModel) rolesTransitive(fn string) []string {
	if r := m.roleOf(fn); len(r) > 0 {
		return r
	}
	info := m.Pk.TypesInfo
	seen := map[string]bool{}
	var out []string
	for _, n := range m.Order {
		cf := m.Funcs[n]
		for _, call := range callsInDeep(cf.Decl.Body) {
			if f, ok := calleeOf(info, call).(*types.Func); ok && f.Pkg() != nil && f.Pkg().Path() == pkgCoroutines && f.Name() == fn && n != fn {
				for _, r := range m.roleOf(n) {
					if !seen[r] {
						seen[r] = true
						out = append(out, r)
					}
				}
			}
		}
	}
	sort.Strings(out)
	return out
}

// ruleCAS checks the coroutines serving the given request kinds (none given = all).
func ruleCAS(kinds ...string) ruleFn {
	return func(c *Ctx) { c.casRule(kinds) }
}

func (c *Ctx) casRule(kinds []string) {
	m := c.coroModel()
	if m.Err != nil {
		c.und("model", 0, m.Err.Error())
		return
	}
	info := m.Pk.TypesInfo
	nW := 0
	want := map[string]bool{}
	for _, k := range kinds {
		want["kind:"+k] = true
	}
	for _, cf := range m.responders() {
		if len(kinds) > 0 {
			hit := false
			for _, r := range m.rolesTransitive(cf.Name) {
				if want[r] {
					hit = true
				}
			}
			if !hit {
				continue
			}
		}
		self := info.Defs[cf.Decl.Name]
		wps := cf.writePoints(m)
		if len(wps) == 0 {
			continue
		}
		g := buildCFG(m.Pk, cf.Decl.Body)
		occ := map[string]int{}
		for _, w := range wps {
			nW++
			occ[w.Await]++
			key := fmt.Sprintf("%s/%s", cf.Name, strings.TrimSuffix(strings.TrimPrefix(w.Await, "await("), ")"))
			if occ[w.Await] > 1 {
				key += fmt.Sprintf("#%d", occ[w.Await])
			}
			if w.Spawn {
				// spawned in a loop, awaited later: the coroutine must start over whenever anything was spawned
				c.checkSpawnRestart(cf, w, key, self)
				continue
			}
			// condition blocks that test W's outcome
			type test struct {
				b    *cfg.Block
				lost *cfg.Block
			}
			var tests []test
			for _, b := range g.Blocks {
				if len(b.Succs) != 2 || len(b.Nodes) == 0 {
					continue
				}
				cond, ok := b.Nodes[len(b.Nodes)-1].(ast.Expr)
				if !ok || cond.Pos() < w.Call.End() {
					continue
				}
				atoms := cf.Env.condAtoms(cond, false)
				if len(atoms) != 1 {
					continue
				}
				if isT, lostTrue := rowTest(atoms[0], w); isT {
					lost := b.Succs[1]
					if lostTrue {
						lost = b.Succs[0]
					}
					tests = append(tests, test{b, lost})
				}
			}
			if len(tests) == 0 {
				// accepted: the row count itself is reported to the client (heartbeats)
				reported := false
				ast.Inspect(cf.Decl.Body, func(n ast.Node) bool {
					if kv, ok := n.(*ast.KeyValueExpr); ok && kv.Pos() > w.Call.End() {
						p := cf.Env.prov(kv.Value)
						if strings.Contains(p, w.Await) && strings.HasSuffix(p, ".RowsAffected") {
							reported = true
						}
					}
					return true
				})
				c.check(reported, key+"/examined", w.Call.Pos(), "the affected-row count is reported to the client",
					"the row count of this guarded write is never examined: a lost compare-and-set is answered as if it had succeeded")
				continue
			}
			c.ok(key+"/examined", w.Call.Pos(), fmt.Sprintf("row count examined by %d condition(s)", len(tests)))
			// follow the lost branch
			var problems []string
			var where token.Pos
			outcomes := map[string]bool{}
			// walk every path from the write onwards; the outcome of the write is fixed by the first
			// row-count test met (later tests of the same count must agree); only paths on which the
			// write was LOST are judged, with the whole path since the write as their history
			lostSucc := map[*cfg.Block]*cfg.Block{}
			for _, t := range tests {
				lostSucc[t.b] = t.lost
			}
			var startBlock *cfg.Block
			startIdx := 0
			for _, b := range g.Blocks {
				for k, nd := range b.Nodes {
					if containsNode(nd, w.Call) && startBlock == nil {
						startBlock, startIdx = b, k+1
					}
				}
			}
			if startBlock == nil {
				c.und(key+"/lost-write", w.Call.Pos(), "the write is not a node of the control-flow graph")
				continue
			}
			{
				seen := map[*cfg.Block]bool{}
				var path []ast.Node
				const unknown, lostSt, wonSt = 0, 1, 2
				var walk func(b *cfg.Block, from int, st int)
				walk = func(b *cfg.Block, from int, st int) {
					if seen[b] {
						return
					}
					seen[b] = true
					mark := len(path)
					defer func() { path = path[:mark]; seen[b] = false }()
					nodes := b.Nodes
					if from > 0 && from <= len(nodes) {
						nodes = nodes[from:]
					}
					if st == lostSt {
						for _, nd := range nodes {
							path = append(path, nd)
							rs, ok := nd.(*ast.ReturnStmt)
							if !ok {
								continue
							}
							if len(rs.Results) == 1 {
								// return Self(c, r): a call yielding both results
								if call, ok := ast.Unparen(rs.Results[0]).(*ast.CallExpr); ok && selfCallee(info, cf.Decl.Body, call) == self {
									outcomes["retry"] = true
									return
								}
								problems = append(problems, "unrecognised return at "+c.P.pos(rs.Pos()))
								where = rs.Pos()
								return
							}
							if len(rs.Results) != 2 {
								continue
							}
							r0 := ast.Unparen(rs.Results[0])
							if id, ok := r0.(*ast.Ident); ok {
								if _, isNil := info.Uses[id].(*types.Nil); isNil {
									outcomes["error"] = true
									return
								}
							}
							if call, ok := r0.(*ast.CallExpr); ok {
								if selfCallee(info, cf.Decl.Body, call) == self {
									outcomes["retry"] = true
									return
								}
							}
							// a response: find its literal
							lit := c.responseLiteral(cf, r0, path)
							if lit == nil {
								problems = append(problems, "cannot resolve the response returned at "+c.P.pos(rs.Pos()))
								where = rs.Pos()
								return
							}
							stale := c.staleFields(cf, lit, w, path)
							if len(stale) > 0 {
								problems = append(problems, "the response returned at "+c.P.pos(rs.Pos())+" still carries "+strings.Join(stale, ", ")+" read before the write")
								where = rs.Pos()
							} else {
								outcomes["clean response"] = true
							}
							return
						}
					} else {
						for _, nd := range nodes {
							path = append(path, nd)
							if _, isRet := nd.(*ast.ReturnStmt); isRet {
								return
							}
						}
					}
					for _, sc := range b.Succs {
						ns := st
						if ls, isTest := lostSucc[b]; isTest {
							edge := wonSt
							if sc == ls {
								edge = lostSt
							}
							if st != unknown && st != edge {
								continue // contradicts the outcome established by an earlier test
							}
							ns = edge
						}
						walk(sc, 0, ns)
					}
				}
				walk(startBlock, startIdx, unknown)
			}
			var os []string
			for o := range outcomes {
				os = append(os, o)
			}
			sort.Strings(os)
			if len(problems) == 0 {
				c.ok(key+"/lost-write", w.Call.Pos(), "0 rows ⇒ "+strings.Join(os, " / "))
			} else {
				sort.Strings(problems)
				o := c.bad(key+"/lost-write", w.Call.Pos(), "when this guarded write affects 0 rows (another request won the race) the coroutine neither retries nor answers independently of its stale read: "+strings.Join(uniq(problems), "; "))
				if where.IsValid() {
					o.Path = []string{"entry: " + cf.Name, "write: " + c.P.pos(w.Call.Pos()), "offending exit: " + c.P.pos(where)}
				}
			}
		}
	}
	c.count("guarded_write_points", nW)
	min := 14
	if len(kinds) > 0 {
		min = len(kinds) / 2
		if min < 1 {
			min = 1
		}
	}
	c.floor("guarded write points in request coroutines", nW, min)
}

func uniq(xs []string) []string {
	var out []string
	seen := map[string]bool{}
	for _, x := range xs {
		if !seen[x] {
			out = append(out, x)
			seen[x] = true
		}
	}
	return out
}

// responseLiteral resolves the *t_api.Response literal a return expression denotes: the literal
// itself, or the latest assignment to the returned variable on the walked path, or (failing that)
// its lexically reaching definition.
func (c *Ctx) responseLiteral(cf *coroFunc, e ast.Expr, path []ast.Node) *ast.CompositeLit {
	info := cf.Env.pk.TypesInfo
	e = ast.Unparen(e)
	if u, ok := e.(*ast.UnaryExpr); ok {
		e = ast.Unparen(u.X)
	}
	if cl, ok := e.(*ast.CompositeLit); ok {
		return cl
	}
	// a response built by a helper of the package: what it carries is what the helper is handed
	if call, ok := e.(*ast.CallExpr); ok {
		if hl := helperLiteral(cf.Env.pk, call); hl != nil && isNamed(info.Types[hl].Type, pkgTApi, "Response") {
			if fn, ok := calleeOf(info, call).(*types.Func); ok {
				sig := fn.Type().(*types.Signature)
				syn := &ast.CompositeLit{Lbrace: call.Pos(), Rbrace: call.End()}
				for i, a := range call.Args {
					name := fmt.Sprintf("arg%d", i)
					if i < sig.Params().Len() && sig.Params().At(i).Name() != "" {
						name = sig.Params().At(i).Name()
					}
					if isObj(info, a, paramOfType(info, cf.Decl, pkgTApi, "Request")) {
						continue // the request itself (tags, kind) is not store data
					}
					syn.Elts = append(syn.Elts, &ast.KeyValueExpr{Key: ast.NewIdent(name), Value: a})
				}
				return syn
			}
		}
	}
	id, ok := e.(*ast.Ident)
	if !ok {
		return nil
	}
	obj := info.Uses[id]
	for i := len(path) - 1; i >= 0; i-- {
		if rhs, ok := assignsTo(info, path[i], obj); ok && len(rhs) == 1 {
			return c.responseLiteral(cf, rhs[0], nil)
		}
	}
	var real []ast.Node
	for _, d := range cf.Env.defs[obj] {
		if vs, ok := d.(*ast.ValueSpec); ok && len(vs.Values) == 0 {
			continue
		}
		real = append(real, d)
	}
	var d ast.Node
	if len(real) == 1 {
		d = real[0]
	} else if len(real) > 1 {
		d = cf.Env.reachingDef(real, id.Pos())
	}
	if as, ok := d.(*ast.AssignStmt); ok && len(as.Rhs) == 1 {
		return c.responseLiteral(cf, as.Rhs[0], nil)
	}
	return nil
}

// staleFields lists payload fields of a response literal that derive from a store read awaited
// before the write point w.
func (c *Ctx) staleFields(cf *coroFunc, lit *ast.CompositeLit, w *writePoint, path []ast.Node) []string {
	var out []string
	var visit func(cl *ast.CompositeLit, prefix string)
	visit = func(cl *ast.CompositeLit, prefix string) {
		for _, el := range cl.Elts {
			kv, ok := el.(*ast.KeyValueExpr)
			if !ok {
				continue
			}
			name := exprString(kv.Key)
			if name == "Kind" || name == "Tags" || name == "Status" {
				continue
			}
			v := ast.Unparen(kv.Value)
			if u, ok := v.(*ast.UnaryExpr); ok {
				v = ast.Unparen(u.X)
			}
			if inner, ok := v.(*ast.CompositeLit); ok && namedPkgPath(cf.Env.pk.TypesInfo.Types[inner].Type) == pkgTApi {
				visit(inner, prefix+name+".")
				continue
			}
			p := cf.Env.prov(kv.Value)
			// values that are (or may be: an unresolved variable) decoded from a store read
			if !strings.Contains(p, "rec") && !strings.Contains(p, "var:") && !strings.Contains(p, "phi(") {
				continue
			}
			origins := map[token.Pos]bool{}
			cf.Env.awaitOrigins(kv.Value, 0, origins, path...)
			if os.Getenv("RESOLINT_DEBUG") != "" {
				fmt.Fprintf(os.Stderr, "stale? %s.%s = %s prov=%s origins=%v write=%v pathlen=%d\n", cf.Name, name, exprString(kv.Value), p, origins, w.Call.Pos(), len(path))
			}
			for pos := range origins {
				if pos < w.Call.Pos() {
					out = append(out, prefix+name+" ("+exprString(kv.Value)+")")
					break
				}
			}
		}
	}
	visit(lit, "")
	sort.Strings(out)
	return out
}

// checkSpawnRestart: writes spawned in a loop and awaited later (lazy time-outs of a search): the
// coroutine must call itself again whenever at least one was spawned.
func (c *Ctx) checkSpawnRestart(cf *coroFunc, w *writePoint, key string, self types.Object) {
	info := cf.Env.pk.TypesInfo
	// the slice collecting the awaitables: X = append(X, gocoro.Spawn(...))
	var slice types.Object
	ast.Inspect(cf.Decl.Body, func(n ast.Node) bool {
		as, ok := n.(*ast.AssignStmt)
		if !ok || len(as.Rhs) != 1 || len(as.Lhs) != 1 {
			return true
		}
		if call, ok := ast.Unparen(as.Rhs[0]).(*ast.CallExpr); ok && exprString(call.Fun) == "append" {
			for _, a := range call.Args[1:] {
				if ast.Unparen(a) == ast.Expr(w.Call) {
					if id, ok := as.Lhs[0].(*ast.Ident); ok {
						slice = info.Uses[id]
					}
				}
			}
		}
		return true
	})
	if slice == nil {
		c.und(key+"/lost-write", w.Call.Pos(), "spawned write is not collected into a slice of awaitables")
		return
	}
	ok := false
	for _, st := range cf.Decl.Body.List {
		ifs, isIf := st.(*ast.IfStmt)
		if !isIf || ifs.Pos() < w.Call.End() {
			continue
		}
		be, isBe := ast.Unparen(ifs.Cond).(*ast.BinaryExpr)
		if !isBe || be.Op != token.GTR {
			continue
		}
		lc, isCall := ast.Unparen(be.X).(*ast.CallExpr)
		if !isCall || exprString(lc.Fun) != "len" || len(lc.Args) != 1 {
			continue
		}
		if id, isId := ast.Unparen(lc.Args[0]).(*ast.Ident); !isId || info.Uses[id] != slice {
			continue
		}
		if tv := info.Types[be.Y]; tv.Value == nil || tv.Value.ExactString() != "0" {
			continue
		}
		if n := len(ifs.Body.List); n > 0 {
			if rs, isRet := ifs.Body.List[n-1].(*ast.ReturnStmt); isRet && len(rs.Results) >= 1 {
				if call, isCall := ast.Unparen(rs.Results[0]).(*ast.CallExpr); isCall && selfCallee(info, cf.Decl.Body, call) == self {
					ok = true
				}
			}
		}
	}
	c.check(ok, key+"/lost-write", w.Call.Pos(), "any spawned lazy time-out ⇒ the search is run again", "after spawning guarded writes the coroutine does not start over: it answers from rows read before the writes")
}

// selfCallee: what a call invokes for the purpose of "the coroutine starts over": the callee itself,
// or — when the call goes through a local function value defined once by a literal whose whole body
// is `return f(args…)` — that f (`retry := func() (…) { return X(c, r) }; return retry()`).
func selfCallee(info *types.Info, fdBody *ast.BlockStmt, call *ast.CallExpr) types.Object {
	if o := calleeOf(info, call); o != nil {
		if _, isFn := o.(*types.Func); isFn {
			return o
		}
		// a local function value
		if v, isVar := o.(*types.Var); isVar && fdBody != nil {
			var lit *ast.FuncLit
			n := 0
			ast.Inspect(fdBody, func(x ast.Node) bool {
				if as, ok := x.(*ast.AssignStmt); ok {
					for i, l := range as.Lhs {
						if id, ok := l.(*ast.Ident); ok && (info.Defs[id] == v || info.Uses[id] == v) && i < len(as.Rhs) {
							n++
							lit, _ = ast.Unparen(as.Rhs[i]).(*ast.FuncLit)
						}
					}
				}
				return true
			})
			if n == 1 && lit != nil && len(lit.Body.List) == 1 {
				if rs, ok := lit.Body.List[0].(*ast.ReturnStmt); ok && len(rs.Results) == 1 {
					if inner, ok := ast.Unparen(rs.Results[0]).(*ast.CallExpr); ok {
						return calleeOf(info, inner)
					}
				}
			}
		}
		return o
	}
	return nil
}

// paramOfType: the parameter of fd whose type is *pkg.name (nil if none).
func paramOfType(info *types.Info, fd *ast.FuncDecl, pkg, name string) types.Object {
	if fd.Type.Params == nil {
		return nil
	}
	for _, f := range fd.Type.Params.List {
		for _, nm := range f.Names {
			if o := info.Defs[nm]; o != nil && isNamed(derefType(o.Type()), pkg, name) {
				return o
			}
		}
	}
	return nil
}
