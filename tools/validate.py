#!/usr/bin/env python3
import json, sys, glob, jsonschema
jsonschema.validate(json.load(open('/verif/MANIFEST.json')), json.load(open('/root/.vp/MANIFEST.schema.json')))
print('manifest valid')
es = json.load(open('/root/.vp/EVIDENCE.schema.json'))
for c in json.load(open('/verif/MANIFEST.json'))['checks']:
    f = c['evidence_file']
    try:
        jsonschema.validate(json.load(open(f)), es); print(f, 'valid')
    except Exception as e:
        print(f, 'INVALID', str(e)[:200]); sys.exit(1)
