package main

// Front-end rules: R11 exhaustive enum switches, R13 gRPC outcome flags / HTTP code / sibling
// request construction, reply-exactly-once for HTTP handlers.

import (
	"fmt"
	"go/ast"
	"go/constant"
	"go/token"
	"go/types"
	"regexp"
	"sort"
	"strings"

	"golang.org/x/tools/go/cfg"
	"golang.org/x/tools/go/packages"
)

// enumConsts lists the constants of a named type declared in its package.
func enumConsts(p *Program, pkg, typ string) map[string]constant.Value {
	out := map[string]constant.Value{}
	pk := p.Pkg(pkg)
	if pk == nil {
		return out
	}
	for _, n := range pk.Types.Scope().Names() {
		if c, ok := pk.Types.Scope().Lookup(n).(*types.Const); ok && isNamed(c.Type(), pkg, typ) {
			out[n] = c.Val()
		}
	}
	return out
}

var closedEnums = [][2]string{
	{pkgTApi, "StatusCode"}, {pkgTApi, "Kind"}, {pkgTAio, "StoreKind"}, {pkgTAio, "Kind"},
	{pkgPromise, "State"}, {pkgTask, "State"},
}

func panics(pk *packages.Package, stmts []ast.Stmt) bool {
	for _, s := range stmts {
		for _, call := range callsIn(s) {
			if id, ok := ast.Unparen(call.Fun).(*ast.Ident); ok && id.Name == "panic" {
				if _, ok := pk.TypesInfo.Uses[id].(*types.Builtin); ok {
					return true
				}
			}
		}
	}
	return false
}

// ruleExhaustive (R11): every switch over a closed enum whose default panics (or that has no
// default and is the last statement of a function with results, which then panics at run time by
// "missing return" — not legal Go, so only explicit panics matter) lists every constant of the
// enum, unless a guard at every call site excludes the missing constant.
func ruleExhaustive(only func(enumType, fn string) bool) ruleFn {
	return func(c *Ctx) {
		n := 0
		for _, pk := range c.P.Roots {
			if pk.PkgPath == pkgPb || strings.HasSuffix(pk.PkgPath, "/test") || strings.Contains(pk.PkgPath, "/test/") || strings.HasPrefix(pk.PkgPath, modPath+"/cmd/dst") || strings.HasPrefix(pk.PkgPath, modPath+"/pkg/client") {
				continue
			}
			for _, fd := range allFuncDecls(pk) {
				if isTestFile(c.P, fd.Pos()) {
					continue
				}
				ast.Inspect(fd.Body, func(nd ast.Node) bool {
					sw, ok := nd.(*ast.SwitchStmt)
					if !ok || sw.Tag == nil {
						return true
					}
					tv, ok := pk.TypesInfo.Types[sw.Tag]
					if !ok {
						return true
					}
					var enum [2]string
					for _, e := range closedEnums {
						if isNamed(tv.Type, e[0], e[1]) {
							enum = e
						}
					}
					if enum[0] == "" {
						return true
					}
					short := enum[0][strings.LastIndex(enum[0], "/")+1:] + "." + enum[1]
					if only != nil && !only(short, funcName(fd)) {
						return true
					}
					n++
					consts := enumConsts(c.P, enum[0], enum[1])
					listed := map[string]bool{}
					var def *ast.CaseClause
					for _, st := range sw.Body.List {
						cc := st.(*ast.CaseClause)
						if cc.List == nil {
							def = cc
							continue
						}
						for _, e := range cc.List {
							switch x := ast.Unparen(e).(type) {
							case *ast.SelectorExpr:
								if cn, ok := pk.TypesInfo.Uses[x.Sel].(*types.Const); ok {
									listed[cn.Name()] = true
								}
							case *ast.Ident:
								if cn, ok := pk.TypesInfo.Uses[x].(*types.Const); ok {
									listed[cn.Name()] = true
								}
							}
						}
					}
					key := fmt.Sprintf("%s.%s/%s", pk.Name, funcName(fd), short)
					var missing []string
					for name := range consts {
						if !listed[name] {
							missing = append(missing, name)
						}
					}
					sort.Strings(missing)
					if def == nil || !panics(pk, def.Body) {
						c.ok(key, sw.Pos(), fmt.Sprintf("switch over %s does not panic on an unlisted value (%d of %d listed)", short, len(listed), len(consts)))
						return true
					}
					// guards at the call sites
					var unexcused []string
					for _, mname := range missing {
						if !c.excludedAtCallSites(pk, fd, sw, mname) {
							unexcused = append(unexcused, mname)
						}
					}
					if len(unexcused) == 0 {
						d := fmt.Sprintf("all %d constants of %s listed", len(consts), short)
						if len(missing) > 0 {
							d = fmt.Sprintf("%d of %d constants listed; %s excluded by the guard at every call site", len(listed), len(consts), strings.Join(missing, ", "))
						}
						c.ok(key, sw.Pos(), d)
					} else {
						c.bad(key, sw.Pos(), fmt.Sprintf("switch over %s panics in its default but does not list %s: a value the kernel can produce crashes the caller", short, strings.Join(unexcused, ", ")))
					}
					return true
				})
			}
		}
		c.count("enum_switches", n)
		c.floor("switches over closed enums", n, 1)
	}
}

// excludedAtCallSites: the switch tag is a parameter of fd, and every call of fd in the module is
// governed by an atom (arg != Const).
func (c *Ctx) excludedAtCallSites(pk *packages.Package, fd *ast.FuncDecl, sw *ast.SwitchStmt, constName string) bool {
	id, ok := ast.Unparen(sw.Tag).(*ast.Ident)
	if !ok {
		return false
	}
	obj := pk.TypesInfo.Uses[id]
	sig := pk.TypesInfo.Defs[fd.Name].(*types.Func).Type().(*types.Signature)
	idx := -1
	for i := 0; i < sig.Params().Len(); i++ {
		if sig.Params().At(i) == obj {
			idx = i
		}
	}
	if idx < 0 {
		return false
	}
	return c.forEveryCallSite(pk.TypesInfo.Defs[fd.Name], func(rp *packages.Package, cfd *ast.FuncDecl, call *ast.CallExpr, env *provEnv) bool {
		if idx >= len(call.Args) {
			return false
		}
		return c.argExcluded(rp, cfd, call, env, env.prov(call.Args[idx]), constName, 0)
	})
}

// forEveryCallSite: f holds at every call of target in the module (and there is at least one).
func (c *Ctx) forEveryCallSite(target types.Object, f func(rp *packages.Package, cfd *ast.FuncDecl, call *ast.CallExpr, env *provEnv) bool) bool {
	sites := 0
	for _, rp := range c.P.Roots {
		for _, cfd := range allFuncDecls(rp) {
			if isTestFile(c.P, cfd.Pos()) {
				continue
			}
			var env *provEnv
			for _, call := range callsInDeep(cfd.Body) {
				if calleeOf(rp.TypesInfo, call) != target {
					continue
				}
				sites++
				if env == nil {
					env = newProvEnv(rp, cfd)
				}
				if !f(rp, cfd, call, env) {
					return false
				}
			}
		}
	}
	return sites > 0
}

// argExcluded: the value described by argProv (in cfd's terms) is known to differ from the constant
// at the node: a governing condition says so there, or — when the value comes from a parameter of a
// plain helper — at every call site of that helper (two levels).
func (c *Ctx) argExcluded(rp *packages.Package, cfd *ast.FuncDecl, at ast.Node, env *provEnv, argProv, constName string, depth int) bool {
	want := "(" + argProv + " != " + constName + ")"
	for _, a := range env.enclosingConds(cfd.Body, at) {
		if a == want {
			return true
		}
	}
	if depth >= 2 || !strings.Contains(argProv, "param:") {
		return false
	}
	fn, ok := rp.TypesInfo.Defs[cfd.Name].(*types.Func)
	if !ok {
		return false
	}
	sig := fn.Type().(*types.Signature)
	return c.forEveryCallSite(fn, func(rp2 *packages.Package, cfd2 *ast.FuncDecl, call2 *ast.CallExpr, env2 *provEnv) bool {
		sub := argProv
		for i := 0; i < sig.Params().Len() && i < len(call2.Args); i++ {
			pn := sig.Params().At(i).Name()
			if pn == "" || pn == "_" {
				continue
			}
			re := regexp.MustCompile(`param:` + regexp.QuoteMeta(pn) + `\b`)
			if re.MatchString(sub) {
				sub = re.ReplaceAllLiteralString(sub, env2.prov(call2.Args[i]))
			}
		}
		if sub == argProv {
			return false
		}
		return c.argExcluded(rp2, cfd2, call2, env2, sub, constName, depth+1)
	})
}

// ---- front-end model ----

type feRequest struct {
	Proto   string // http | grpc
	Handler string
	Kind    string
	Fields  map[string]string // field of the XRequest -> source expression (printed)
	Lit     *ast.CompositeLit // the XRequest literal (nil when the request comes from a helper)
	Pos     token.Pos
	Pk      *packages.Package
	Decl    *ast.FuncDecl
	Process *ast.CallExpr
	Helper  string // name of the API helper that produced the request (SearchPromises / SearchSchedules)
}

// frontEndRequests finds, in a front-end package, every call of (*api.API).Process with its
// t_api.Request literal, and resolves the XRequest literal(s) that can reach it.
func frontEndRequests(p *Program, proto, pkgPath string) []*feRequest {
	pk := p.Pkg(pkgPath)
	var out []*feRequest
	if pk == nil {
		return out
	}
	info := pk.TypesInfo
	for _, fd := range allFuncDecls(pk) {
		if isTestFile(p, fd.Pos()) {
			continue
		}
		env := newLocalEnv(pk, fd, nil)
		for _, call := range callsIn(fd.Body) {
			fn, ok := calleeOf(info, call).(*types.Func)
			if !ok || fn.Name() != "Process" || !isFuncOf(fn, pkgSubApi, "API") || len(call.Args) != 2 {
				continue
			}
			arg := ast.Unparen(call.Args[1])
			if u, ok := arg.(*ast.UnaryExpr); ok {
				arg = ast.Unparen(u.X)
			}
			rl, ok := arg.(*ast.CompositeLit)
			if !ok {
				out = append(out, &feRequest{Proto: proto, Handler: funcName(fd), Kind: "?", Pos: call.Pos(), Pk: pk, Decl: fd, Process: call})
				continue
			}
			kind := "?"
			var payload ast.Expr
			for _, el := range rl.Elts {
				kv, ok := el.(*ast.KeyValueExpr)
				if !ok {
					continue
				}
				if exprString(kv.Key) == "Kind" {
					if se, ok := ast.Unparen(kv.Value).(*ast.SelectorExpr); ok {
						kind = se.Sel.Name
					}
				} else if exprString(kv.Key) != "Tags" {
					payload = kv.Value
				}
			}
			// the payload: a literal, or a variable assigned literals in branches, or a helper result
			var lits []*ast.CompositeLit
			litSub := map[*ast.CompositeLit]map[types.Object]string{}
			helper := ""
			var collect func(e ast.Expr, depth int)
			collect = func(e ast.Expr, depth int) {
				e = ast.Unparen(e)
				if u, ok := e.(*ast.UnaryExpr); ok {
					e = ast.Unparen(u.X)
				}
				switch x := e.(type) {
				case *ast.CompositeLit:
					lits = append(lits, x)
				case *ast.CallExpr:
					// a helper of the front end that builds the request from what was bound
					if hl := helperLiteral(pk, x); hl != nil {
						lits = append(lits, hl)
						litSub[hl] = helperArgTexts(pk, x, nil)
					}
				case *ast.Ident:
					if depth > 3 {
						return
					}
					for _, d := range env.defs[info.Uses[x]] {
						if as, ok := d.(*ast.AssignStmt); ok {
							if len(as.Rhs) == 1 {
								if hc, ok := ast.Unparen(as.Rhs[0]).(*ast.CallExpr); ok {
									if hf, ok := calleeOf(info, hc).(*types.Func); ok && isFuncOf(hf, pkgSubApi, "API") {
										helper = hf.Name()
										continue
									}
								}
								collect(as.Rhs[0], depth+1)
							}
						}
					}
				}
			}
			if payload != nil {
				collect(payload, 0)
			}
			if len(lits) == 0 {
				out = append(out, &feRequest{Proto: proto, Handler: funcName(fd), Kind: kind, Pos: call.Pos(), Pk: pk, Decl: fd, Process: call, Helper: helper, Fields: map[string]string{}})
			}
			for _, l := range lits {
				r := &feRequest{Proto: proto, Handler: funcName(fd), Kind: kind, Lit: l, Pos: l.Pos(), Pk: pk, Decl: fd, Process: call, Fields: map[string]string{}}
				var fillS func(cl *ast.CompositeLit, prefix string, sub map[types.Object]string)
				fill := func(cl *ast.CompositeLit, prefix string) { fillS(cl, prefix, nil) }
				fillS = func(cl *ast.CompositeLit, prefix string, sub map[types.Object]string) {
					for _, el := range cl.Elts {
						kv, ok := el.(*ast.KeyValueExpr)
						if !ok {
							continue
						}
						v := ast.Unparen(kv.Value)
						if u, ok := v.(*ast.UnaryExpr); ok && u.Op == token.AND {
							v = ast.Unparen(u.X)
						}
						if inner, ok := v.(*ast.CompositeLit); ok && namedPkgPath(info.Types[inner].Type) == pkgTApi {
							fillS(inner, prefix+exprString(kv.Key)+".", sub)
							continue
						}
						if hc, ok := v.(*ast.CallExpr); ok {
							if hl := helperLiteral(pk, hc); hl != nil && namedPkgPath(info.Types[hl].Type) == pkgTApi {
								fillS(hl, prefix+exprString(kv.Key)+".", helperArgTexts(pk, hc, sub))
								continue
							}
						}
						r.Fields[prefix+exprString(kv.Key)] = exprStringSubst(info, kv.Value, sub)
					}
				}
				if sub, ok := litSub[l]; ok {
					fillS(l, "", sub)
				} else {
					fill(l, "")
				}
				out = append(out, r)
			}
		}
	}
	sort.Slice(out, func(i, j int) bool { return out[i].Pos < out[j].Pos })
	return out
}

// helperArgTexts: for a call of a same-package helper, its parameters ↦ the source text of the
// arguments (a leading & dropped: selectors dereference implicitly), themselves substituted by outer.
func helperArgTexts(pk *packages.Package, call *ast.CallExpr, outer map[types.Object]string) map[types.Object]string {
	info := pk.TypesInfo
	fn, ok := calleeOf(info, call).(*types.Func)
	if !ok {
		return nil
	}
	sig := fn.Type().(*types.Signature)
	out := map[types.Object]string{}
	for i := 0; i < sig.Params().Len() && i < len(call.Args); i++ {
		a := ast.Unparen(call.Args[i])
		if u, ok := a.(*ast.UnaryExpr); ok && u.Op == token.AND {
			a = ast.Unparen(u.X)
		}
		out[sig.Params().At(i)] = exprStringSubst(info, a, outer)
	}
	return out
}

// exprStringSubst prints an expression with the identifiers in sub replaced by their texts.
func exprStringSubst(info *types.Info, e ast.Expr, sub map[types.Object]string) string {
	if len(sub) == 0 {
		return exprString(e)
	}
	switch x := e.(type) {
	case *ast.Ident:
		if t, ok := sub[info.Uses[x]]; ok {
			return t
		}
	case *ast.ParenExpr:
		return "(" + exprStringSubst(info, x.X, sub) + ")"
	case *ast.SelectorExpr:
		return exprStringSubst(info, x.X, sub) + "." + x.Sel.Name
	case *ast.StarExpr:
		return "*" + exprStringSubst(info, x.X, sub)
	case *ast.UnaryExpr:
		return x.Op.String() + exprStringSubst(info, x.X, sub)
	case *ast.IndexExpr:
		return exprStringSubst(info, x.X, sub) + "[" + exprStringSubst(info, x.Index, sub) + "]"
	case *ast.CallExpr:
		var as []string
		for _, a := range x.Args {
			as = append(as, exprStringSubst(info, a, sub))
		}
		return exprStringSubst(info, x.Fun, sub) + "(" + strings.Join(as, ", ") + ")"
	case *ast.BinaryExpr:
		return exprStringSubst(info, x.X, sub) + " " + x.Op.String() + " " + exprStringSubst(info, x.Y, sub)
	}
	return exprString(e)
}

// helperLiteral: the composite literal a same-package function returns on its value-carrying return
// (a function whose returns are that one literal, possibly with `nil` / error exits besides).
func helperLiteral(pk *packages.Package, call *ast.CallExpr) *ast.CompositeLit {
	fn, ok := calleeOf(pk.TypesInfo, call).(*types.Func)
	if !ok || fn.Pkg() != pk.Types {
		return nil
	}
	fd := funcDeclOf(pk, fn)
	if fd == nil || fd.Body == nil {
		return nil
	}
	var lit *ast.CompositeLit
	n := 0
	ast.Inspect(fd.Body, func(x ast.Node) bool {
		if _, isFn := x.(*ast.FuncLit); isFn {
			return false
		}
		rs, ok := x.(*ast.ReturnStmt)
		if !ok || len(rs.Results) == 0 {
			return true
		}
		v := ast.Unparen(rs.Results[0])
		if u, ok := v.(*ast.UnaryExpr); ok && u.Op == token.AND {
			v = ast.Unparen(u.X)
		}
		if cl, ok := v.(*ast.CompositeLit); ok {
			lit = cl
			n++
		}
		return true
	})
	if n != 1 {
		return nil
	}
	return lit
}

// ruleFrontEndSiblings (R13): per request kind both front ends submit requests and populate the
// same fields of the kernel request.
func ruleFrontEndSiblings(c *Ctx) {
	h := frontEndRequests(c.P, "http", pkgHttp)
	g := frontEndRequests(c.P, "grpc", pkgGrpc)
	c.count("http_request_sites", len(h))
	c.count("grpc_request_sites", len(g))
	c.floor("http request construction sites", len(h), 17)
	c.floor("grpc request construction sites", len(g), 17)
	byKind := func(rs []*feRequest) map[string][]*feRequest {
		m := map[string][]*feRequest{}
		for _, r := range rs {
			m[r.Kind] = append(m[r.Kind], r)
		}
		return m
	}
	hk, gk := byKind(h), byKind(g)
	kinds := enumConsts(c.P, pkgTApi, "Kind")
	var names []string
	for k := range kinds {
		if k != "Echo" {
			names = append(names, k)
		}
	}
	sort.Strings(names)
	for _, k := range names {
		hs, gs := hk[k], gk[k]
		if len(hs) == 0 || len(gs) == 0 {
			var pos token.Pos
			for _, r := range append(hs, gs...) {
				pos = r.Pos
			}
			c.bad("siblings/"+k+"/served", pos, fmt.Sprintf("request kind %s is submitted by %d HTTP and %d gRPC sites: the operation is missing from one protocol", k, len(hs), len(gs)))
			continue
		}
		// field sets must agree (union over the sites of each protocol)
		fields := func(rs []*feRequest) ([]string, bool) {
			set := map[string]bool{}
			helper := false
			for _, r := range rs {
				if r.Helper != "" {
					helper = true
				}
				for f := range r.Fields {
					set[f] = true
				}
			}
			var out []string
			for f := range set {
				out = append(out, f)
			}
			sort.Strings(out)
			return out, helper
		}
		hf, hh := fields(hs)
		gf, gh := fields(gs)
		if hh || gh {
			c.check(hh && gh && hs[0].Helper == gs[0].Helper, "siblings/"+k+"/fields", gs[0].Pos, "both protocols build the request through api."+hs[0].Helper, "one protocol builds the "+k+" request through the shared helper and the other does not")
			continue
		}
		o := c.check(strings.Join(hf, ",") == strings.Join(gf, ","), "siblings/"+k+"/fields", gs[0].Pos, "same request fields populated: "+strings.Join(hf, ","), "HTTP and gRPC populate different fields of the "+k+" request")
		if o.Verdict != Discharged {
			o.Expected, o.Found = "http: "+strings.Join(hf, ","), "grpc: "+strings.Join(gf, ",")
		}
	}
	// every kind a front end can submit has a coroutine registered
	m := c.coroModel()
	for _, r := range append(h, g...) {
		if r.Kind == "?" {
			c.und("siblings/unknown-kind/"+r.Handler, r.Pos, "request kind of this submission is not a constant")
			continue
		}
		if _, ok := m.Request[r.Kind]; !ok {
			c.bad("registered/"+r.Kind, r.Pos, "front end submits "+r.Kind+" but no coroutine is registered for it in cmd/serve: the kernel asserts and the process dies")
		}
	}
	for _, k := range names {
		c.check(m.Request[k] != nil, "registered/"+k, m.RegPos[k], "coroutine registered", "no coroutine registered for request kind "+k)
	}
}

// statusesOf lists the t_api.Status* constants mentioned in the coroutine serving kind (and the
// same-package functions it calls).
func (m *coroModel) statusesOf(kind string) map[string]bool {
	out := map[string]bool{}
	cf := m.Request[kind]
	if cf == nil {
		return out
	}
	info := m.Pk.TypesInfo
	seen := map[string]bool{}
	var visit func(f *coroFunc)
	visit = func(f *coroFunc) {
		if seen[f.Name] {
			return
		}
		seen[f.Name] = true
		ast.Inspect(f.Decl.Body, func(n ast.Node) bool {
			switch x := n.(type) {
			case *ast.SelectorExpr:
				if cn, ok := info.Uses[x.Sel].(*types.Const); ok && isNamed(cn.Type(), pkgTApi, "StatusCode") {
					out[cn.Name()] = true
				}
			case *ast.CallExpr:
				if fn, ok := calleeOf(info, x).(*types.Func); ok && fn.Pkg() != nil && fn.Pkg().Path() == pkgCoroutines {
					if g := m.Funcs[fn.Name()]; g != nil {
						visit(g)
					}
				}
			}
			return true
		})
	}
	visit(cf)
	return out
}

// the outcome each gRPC flag denotes (from the property statement: acquired / released / claimed /
// completed / noop must agree with the kernel status)
var flagMeaning = map[string]string{
	"Noop":      "StatusOK",
	"Acquired":  "StatusCreated",
	"Released":  "StatusNoContent",
	"Claimed":   "StatusCreated",
	"Completed": "StatusCreated",
}

// ruleGrpcFlags (R13): each outcome flag compares the status of its own kind with the constant
// that denotes the flagged outcome, and that constant is one the kind's coroutine can produce.
func ruleGrpcFlags(c *Ctx) {
	pk := c.P.Pkg(pkgGrpc)
	m := c.coroModel()
	if pk == nil || m.Err != nil {
		c.und("model", 0, "grpc package or coroutine model missing")
		return
	}
	info := pk.TypesInfo
	reqs := frontEndRequests(c.P, "grpc", pkgGrpc)
	kindOf := map[string]string{}
	for _, r := range reqs {
		kindOf[r.Handler] = r.Kind
	}
	n := 0
	for _, fd := range allFuncDecls(pk) {
		kind := kindOf[funcName(fd)]
		if kind == "" {
			continue
		}
		// one-level resolution of a local that is defined once (`noop := res.X.Status == …`)
		defs := map[types.Object][]ast.Expr{}
		ast.Inspect(fd.Body, func(nd ast.Node) bool {
			if as, ok := nd.(*ast.AssignStmt); ok && len(as.Lhs) == len(as.Rhs) {
				for i, l := range as.Lhs {
					if id, ok := l.(*ast.Ident); ok {
						if o := info.ObjectOf(id); o != nil {
							defs[o] = append(defs[o], as.Rhs[i])
						}
					}
				}
			}
			return true
		})
		ast.Inspect(fd.Body, func(nd ast.Node) bool {
			cl, ok := nd.(*ast.CompositeLit)
			if !ok {
				return true
			}
			tv, okT := info.Types[cl]
			if !okT || tv.Type == nil {
				return true
			}
			nt, okN := tv.Type.(*types.Named)
			if !okN || !strings.HasSuffix(nt.Obj().Name(), "Response") {
				return true
			}
			for _, el := range cl.Elts {
				kv, ok := el.(*ast.KeyValueExpr)
				if !ok {
					continue
				}
				flag := exprString(kv.Key)
				want, isFlag := flagMeaning[flag]
				if !isFlag {
					continue
				}
				if vt, ok := info.Types[kv.Value]; !ok || vt.Type == nil || !types.Identical(vt.Type.Underlying(), types.Typ[types.Bool]) {
					continue
				}
				n++
				key := fmt.Sprintf("flag/%s/%s", funcName(fd), flag)
				val := ast.Unparen(kv.Value)
				if id, ok := val.(*ast.Ident); ok {
					if ds := defs[info.ObjectOf(id)]; len(ds) == 1 {
						val = ast.Unparen(ds[0])
					}
				}
				be, ok := val.(*ast.BinaryExpr)
				var cn *types.Const
				var lhsE ast.Expr
				if ok && (be.Op == token.EQL || be.Op == token.NEQ) {
					for _, pair := range [][2]ast.Expr{{be.X, be.Y}, {be.Y, be.X}} {
						if se, ok := ast.Unparen(pair[1]).(*ast.SelectorExpr); ok {
							if k, ok := info.Uses[se.Sel].(*types.Const); ok && isNamed(k.Type(), pkgTApi, "StatusCode") {
								cn, lhsE = k, pair[0]
								break
							}
						}
					}
				}
				if cn == nil {
					c.check(false, key+"/own-status", kv.Pos(), flag+" is computed from the status of "+kind, flag+" is computed as "+exprString(kv.Value)+", not as a comparison of the kernel status of "+kind+" with a status constant: the flag no longer follows the status ("+want+") the reply is rendered from")
					continue
				}
				lhs := exprString(lhsE)
				c.check(strings.HasSuffix(lhs, "."+kind+".Status"), key+"/own-status", kv.Pos(), flag+" is computed from the status of "+kind, flag+" is computed from "+lhs+", not from the status of "+kind)
				produced := m.statusesOf(kind)
				if be.Op == token.NEQ {
					// status != C on a successful reply: the other successful statuses the coroutine produces must be exactly the flagged one
					rest := []string{}
					for _, s := range []string{"StatusOK", "StatusCreated", "StatusNoContent"} {
						if produced[s] && s != cn.Name() {
							rest = append(rest, s)
						}
					}
					c.check(len(rest) == 1 && rest[0] == want, key+"/constant", kv.Pos(), fmt.Sprintf("%s ⇔ %s, produced by the %s coroutine", flag, want, kind), fmt.Sprintf("%s is computed as status != %s, which holds for %v; the outcome it reports is %s", flag, cn.Name(), rest, want))
					continue
				}
				okConst := cn.Name() == want && produced[cn.Name()]
				detail := fmt.Sprintf("%s is computed as status == %s, but the outcome it reports is %s", flag, cn.Name(), want)
				if cn.Name() == want {
					detail = fmt.Sprintf("%s compares with %s, which the %s coroutine never produces", flag, cn.Name(), kind)
				} else if !produced[cn.Name()] {
					detail += fmt.Sprintf(" (and the %s coroutine never produces %s: the flag is always false)", kind, cn.Name())
				}
				c.check(okConst, key+"/constant", kv.Pos(), fmt.Sprintf("%s ⇔ %s, produced by the %s coroutine", flag, want, kind), detail)
			}
			return true
		})
	}
	c.count("grpc_outcome_flags", n)
	c.floor("gRPC outcome flags", n, 12)
}

// ruleHttpCode (R13): the HTTP status is status/100 and is an intended HTTP code for every
// kernel status constant.
func ruleHttpCode(c *Ctx) {
	pk := c.P.Pkg(pkgHttp)
	fd := funcDecl(pk, "server", "code")
	if fd == nil {
		c.und("http-code", 0, "http server.code not found")
		return
	}
	ok := false
	if len(fd.Body.List) == 1 {
		if rs, isRet := fd.Body.List[0].(*ast.ReturnStmt); isRet && len(rs.Results) == 1 {
			s := exprString(rs.Results[0])
			ok = s == "int(status) / 100"
		}
	}
	c.check(ok, "http-code/status-div-100", fd.Pos(), "HTTP code = kernel status / 100", "the HTTP code is no longer the kernel status divided by 100")
	intended := map[int64]bool{200: true, 201: true, 204: true, 400: true, 403: true, 404: true, 409: true, 500: true, 503: true}
	n := 0
	for name, v := range enumConsts(c.P, pkgTApi, "StatusCode") {
		iv, _ := constant.Int64Val(v)
		n++
		c.check(intended[iv/100], "http-code/"+name, fd.Pos(), fmt.Sprintf("%s = %d ⇒ HTTP %d", name, iv, iv/100), fmt.Sprintf("%s = %d maps to HTTP %d, which is not an intended reply code", name, iv, iv/100))
	}
	c.floor("status constants", n, 30)
}

// ---- exactly one reply per HTTP handler path ----

// countEvents computes, for every exit of the function (return statements and falling off the
// end), the set of possible numbers of events (0, 1, 2=two or more) on paths from entry.
func countEvents(g *cfg.CFG, events func(ast.Node) int) map[token.Pos]int {
	n := len(g.Blocks)
	in := make([]int, n) // bitset: 1=zero events, 2=one, 4=two or more
	in[0] = 1
	bump := func(set, k int) int {
		for ; k > 0; k-- {
			ns := 0
			if set&1 != 0 {
				ns |= 2
			}
			if set&2 != 0 {
				ns |= 4
			}
			if set&4 != 0 {
				ns |= 4
			}
			set = ns
		}
		return set
	}
	changed := true
	exits := map[token.Pos]int{}
	for iter := 0; changed && iter < 8*n+16; iter++ {
		changed = false
		for _, b := range g.Blocks {
			cur := in[b.Index]
			if cur == 0 {
				continue
			}
			for _, nd := range b.Nodes {
				if rs, ok := nd.(*ast.ReturnStmt); ok {
					exits[rs.Pos()] |= bump(cur, eventsIn(rs, events))
					cur = 0
					break
				}
				cur = bump(cur, eventsIn(nd, events))
			}
			if cur == 0 {
				continue
			}
			if len(b.Succs) == 0 {
				pos := token.NoPos
				if len(b.Nodes) > 0 {
					pos = b.Nodes[len(b.Nodes)-1].End()
				}
				exits[pos] |= cur
			}
			for _, s := range b.Succs {
				if in[s.Index]|cur != in[s.Index] {
					in[s.Index] |= cur
					changed = true
				}
			}
		}
	}
	return exits
}

func eventsIn(n ast.Node, events func(ast.Node) int) int {
	k := 0
	ast.Inspect(n, func(x ast.Node) bool {
		if _, ok := x.(*ast.FuncLit); ok {
			return false
		}
		if x != nil {
			k += events(x)
		}
		return true
	})
	return k
}

// ruleHttpReplyOnce (R10): on every path through a gin handler exactly one reply is written.
func ruleHttpReplyOnce(c *Ctx) {
	pk := c.P.Pkg(pkgHttp)
	if pk == nil {
		c.und("model", 0, "http package missing")
		return
	}
	info := pk.TypesInfo
	n := 0
	for _, fd := range allFuncDecls(pk) {
		if isTestFile(c.P, fd.Pos()) || fd.Recv == nil {
			continue
		}
		sig := info.Defs[fd.Name].(*types.Func).Type().(*types.Signature)
		if sig.Params().Len() != 1 || !isNamed(sig.Params().At(0).Type(), "github.com/gin-gonic/gin", "Context") || sig.Results().Len() != 0 {
			continue
		}
		// only handlers that talk to the kernel
		talks := false
		for _, call := range callsIn(fd.Body) {
			if fn, ok := calleeOf(info, call).(*types.Func); ok && fn.Name() == "Process" && isFuncOf(fn, pkgSubApi, "API") {
				talks = true
			}
		}
		if !talks {
			continue
		}
		n++
		g := buildCFG(pk, fd.Body)
		exits := countEvents(g, func(x ast.Node) int {
			call, ok := x.(*ast.CallExpr)
			if !ok {
				return 0
			}
			if fn, ok := calleeOf(info, call).(*types.Func); ok && isFuncOf(fn, "github.com/gin-gonic/gin", "Context") {
				switch fn.Name() {
				case "JSON", "String", "Status", "AbortWithStatus", "AbortWithStatusJSON", "Data", "IndentedJSON", "PureJSON", "Stream", "SSEvent":
					return 1
				}
			}
			// a helper of the package whose whole body is one reply
			if w, _ := replyWrapper(pk, call); w {
				return 1
			}
			return 0
		})
		bad := []string{}
		for pos, set := range exits {
			if set != 2 {
				what := "no reply"
				if set&4 != 0 {
					what = "two replies"
				}
				if set&1 != 0 && set&4 != 0 {
					what = "no reply or two replies"
				}
				bad = append(bad, what+" on a path ending at "+c.P.pos(pos))
			}
		}
		sort.Strings(bad)
		c.check(len(bad) == 0, "reply-once/"+funcName(fd), fd.Pos(), fmt.Sprintf("exactly one reply on each of %d exits", len(exits)), "handler "+funcName(fd)+": "+strings.Join(bad, "; "))
	}
	c.count("http_handlers", n)
	c.floor("http handlers", n, 17)
}

// ruleErrorRendered (C15): in both front ends a kernel error (api.Process returned a non-nil
// *api.Error) is rendered as an error and nothing else: gRPC returns (nil, status.Error(code(err.Code),
// err.Error())) on every path where Process failed and returns a nil error only where Process
// succeeded; HTTP writes (code(err.Code), {"error": err}) on every path where Process failed and
// writes a resource only where it succeeded. Must-facts over the handler's CFG with the outcome of
// Process attached to the edges of the `err != nil` test.
func ruleErrorRendered(c *Ctx) {
	isProcess := func(info *types.Info, call *ast.CallExpr) bool {
		fn, ok := calleeOf(info, call).(*types.Func)
		return ok && fn.Name() == "Process" && isFuncOf(fn, pkgSubApi, "API")
	}
	apiErr := func(t types.Type) bool { return isNamed(t, pkgSubApi, "Error") || isNamed(t, pkgTApi, "Error") }
	nG, nH := 0, 0
	for _, pp := range []string{pkgGrpc, pkgHttp} {
		pk := c.P.Pkg(pp)
		if pk == nil {
			c.und("error-rendered/"+pp, 0, "package not loaded")
			continue
		}
		info := pk.TypesInfo
		for _, fd := range allFuncDecls(pk) {
			if fd.Body == nil || isTestFile(c.P, fd.Pos()) {
				continue
			}
			var proc *ast.CallExpr
			for _, call := range callsInDeep(fd.Body) {
				if isProcess(info, call) {
					proc = call
				}
			}
			if proc == nil {
				continue
			}
			// the error variable Process is assigned to
			var errObj types.Object
			ast.Inspect(fd.Body, func(n ast.Node) bool {
				if as, ok := n.(*ast.AssignStmt); ok && len(as.Rhs) == 1 && ast.Unparen(as.Rhs[0]) == ast.Expr(proc) && len(as.Lhs) == 2 {
					if id, ok := as.Lhs[1].(*ast.Ident); ok {
						errObj = info.Defs[id]
						if errObj == nil {
							errObj = info.Uses[id]
						}
					}
				}
				return true
			})
			key := "error-rendered/" + pk.Name + "/" + funcName(fd)
			if errObj == nil {
				// `return s.api.Process(...)`-style helpers hand both results to their caller
				continue
			}
			g := buildCFG(pk, fd.Body)
			edge := errEdgeFactsT(info, func(call *ast.CallExpr) string {
				if isProcess(info, call) {
					return "process"
				}
				return ""
			}, apiErr)
			isErrSel := func(e ast.Expr, field string) bool {
				se, ok := ast.Unparen(e).(*ast.SelectorExpr)
				return ok && se.Sel.Name == field && isObj(info, se.X, errObj)
			}
			codeOfErr := func(e ast.Expr) bool { // s.code(err.Code)
				call, ok := ast.Unparen(e).(*ast.CallExpr)
				if !ok || len(call.Args) != 1 {
					return false
				}
				se, ok := ast.Unparen(call.Fun).(*ast.SelectorExpr)
				return ok && se.Sel.Name == "code" && isErrSel(call.Args[0], "Code")
			}
			if pp == pkgGrpc {
				sig := info.Defs[fd.Name].(*types.Func).Type().(*types.Signature)
				if sig.Results().Len() != 2 || !isErrorType(sig.Results().At(1).Type()) {
					continue
				}
				nG++
				rets := mustFacts(g, func(ast.Node) []string { return nil }, edge, func(n ast.Node) bool { _, ok := n.(*ast.ReturnStmt); return ok })
				ok, where, why := true, fd.Pos(), ""
				nFail := 0
				for n, f := range rets {
					rs := n.(*ast.ReturnStmt)
					if len(rs.Results) != 2 {
						continue
					}
					_, errNil := info.Uses[identOf(rs.Results[1])].(*types.Nil)
					if f["failed:process"] {
						nFail++
						_, resNil := info.Uses[identOf(rs.Results[0])].(*types.Nil)
						good := resNil && mappedStatus(pk, rs.Results[1], errObj, 0)
						if !good {
							ok, where, why = false, rs.Pos(), "a kernel error is answered with something other than (nil, status.Error(code(err.Code), err.Error()))"
						}
					} else if errNil && !f["ok:process"] {
						ok, where, why = false, rs.Pos(), "an OK message is returned on a path where api.Process did not succeed"
					}
				}
				if nFail == 0 {
					ok, why = false, "no return on the path where api.Process failed"
				}
				c.check(ok, key, where, "kernel errors ⇒ (nil, mapped gRPC error); OK message only after Process succeeded", "gRPC handler "+funcName(fd)+": "+why+": a non-success kernel outcome would be rendered as success (or dropped), unlike the HTTP front end")
				continue
			}
			// HTTP: the JSON calls
			hasCtx := false
			for _, f := range fd.Type.Params.List {
				if isNamed(info.Types[f.Type].Type, "github.com/gin-gonic/gin", "Context") {
					hasCtx = true
				}
			}
			if !hasCtx {
				continue
			}
			nH++
			isJSON := func(n ast.Node) *ast.CallExpr {
				for _, call := range callsIn(n) {
					if se, ok := ast.Unparen(call.Fun).(*ast.SelectorExpr); ok && (se.Sel.Name == "JSON" || se.Sel.Name == "Data" || se.Sel.Name == "String" || se.Sel.Name == "Status" || se.Sel.Name == "AbortWithStatus" || se.Sel.Name == "AbortWithStatusJSON") {
						if isNamed(info.Types[se.X].Type, "github.com/gin-gonic/gin", "Context") {
							return call
						}
					}
					if w, _ := replyWrapper(pk, call); w {
						return call
					}
				}
				return nil
			}
			replies := mustFacts(g, func(ast.Node) []string { return nil }, edge, func(n ast.Node) bool { return isJSON(n) != nil })
			ok, where, why := true, fd.Pos(), ""
			nFail := 0
			for n, f := range replies {
				call := isJSON(n)
				mentionsRes := false
				if len(call.Args) >= 1 {
					ast.Inspect(call.Args[0], func(x ast.Node) bool {
						if se, isSel := x.(*ast.SelectorExpr); isSel && se.Sel.Name == "Status" {
							mentionsRes = true
						}
						return true
					})
				}
				switch {
				case f["failed:process"]:
					nFail++
					good := false
					if w, ep := replyWrapper(pk, call); w {
						// the error rendering lives in the helper; the kernel error is what it is handed
						good = ep >= 0 && ep < len(call.Args) && isObj(info, call.Args[ep], errObj)
					} else if len(call.Args) == 2 && codeOfErr(call.Args[0]) {
						if cl, isLit := ast.Unparen(call.Args[1]).(*ast.CompositeLit); isLit && len(cl.Elts) == 1 {
							if kv, isKV := cl.Elts[0].(*ast.KeyValueExpr); isKV && exprString(kv.Key) == `"error"` && isObj(info, kv.Value, errObj) {
								good = true
							}
						}
					}
					if !good {
						ok, where, why = false, call.Pos(), "a kernel error is answered with something other than (code(err.Code), {\"error\": err})"
					}
				case mentionsRes && !f["ok:process"]:
					ok, where, why = false, call.Pos(), "a resource reply is written on a path where api.Process did not succeed"
				}
			}
			if nFail == 0 {
				ok, why = false, "no reply on the path where api.Process failed"
			}
			c.check(ok, key, where, "kernel errors ⇒ (code(err.Code), {error}); resource only after Process succeeded", "HTTP handler "+funcName(fd)+": "+why)
		}
	}
	c.count("grpc_handlers_error_path", nG)
	c.count("http_handlers_error_path", nH)
	c.floor("gRPC handlers with a checked error path", nG, 17)
	c.floor("HTTP handlers with a checked error path", nH, 17)
}

func identOf(e ast.Expr) *ast.Ident {
	id, _ := ast.Unparen(e).(*ast.Ident)
	return id
}

// ruleUnionLiterals: the kernel's tagged unions (t_aio.Command, Submission, Completion, Result;
// t_api.Request, Response) are structs with a Kind and one pointer member per kind. Every literal
// of such a type names its kind and sets exactly the member of that kind: a literal whose Kind and
// member disagree (or that lacks one of them) is dispatched to a handler that dereferences a nil
// member, on the kernel or store goroutine.
func ruleUnionLiterals(c *Ctx) {
	unions := map[string]map[string]bool{ // pkg → type names
		pkgTAio: {"Command": true, "Submission": true, "Completion": true, "Result": true},
		pkgTApi: {"Request": true, "Response": true},
	}
	n := 0
	for _, pk := range c.P.Roots {
		if strings.Contains(pk.PkgPath, "/test") || strings.HasSuffix(pk.PkgPath, "/dst") || strings.HasPrefix(pk.PkgPath, modPath+"/pkg/client") || strings.HasPrefix(pk.PkgPath, modPath+"/cmd") && !strings.HasSuffix(pk.PkgPath, "/serve") {
			continue
		}
		info := pk.TypesInfo
		for _, fd := range allFuncDecls(pk) {
			if fd.Body == nil || isTestFile(c.P, fd.Pos()) {
				continue
			}
			occ := map[string]int{}
			ast.Inspect(fd.Body, func(nd ast.Node) bool {
				cl, ok := nd.(*ast.CompositeLit)
				if !ok {
					return true
				}
				tv, ok := info.Types[cl]
				if ok && cl.Type == nil {
					// an element of []*T{{…}}: the literal's type is written *T
					if p, isPtr := tv.Type.(*types.Pointer); isPtr {
						tv.Type = p.Elem()
					}
				}
				if !ok || !unions[namedPkgPath(tv.Type)][namedName(tv.Type)] {
					return true
				}
				st, ok := tv.Type.Underlying().(*types.Struct)
				if !ok {
					return true
				}
				// members: pointer-to-named-struct fields (the per-kind payloads)
				member := map[string]bool{}
				for i := 0; i < st.NumFields(); i++ {
					f := st.Field(i)
					if p, ok := f.Type().(*types.Pointer); ok {
						if _, ok := p.Elem().Underlying().(*types.Struct); ok {
							member[f.Name()] = true
						}
					}
				}
				kind, kindConst := "", false
				var set []string
				for _, el := range cl.Elts {
					kv, ok := el.(*ast.KeyValueExpr)
					if !ok {
						continue
					}
					k := exprString(kv.Key)
					if k == "Kind" {
						kind = exprString(kv.Value)
						var cobj types.Object
						switch v := ast.Unparen(kv.Value).(type) {
						case *ast.SelectorExpr:
							cobj = info.Uses[v.Sel]
						case *ast.Ident:
							cobj = info.Uses[v]
						}
						if cn, ok := cobj.(*types.Const); ok {
							kind, kindConst = cn.Name(), true
						}
						continue
					}
					if member[k] {
						if id, isId := ast.Unparen(kv.Value).(*ast.Ident); isId && id.Name == "nil" {
							continue
						}
						set = append(set, k)
					}
				}
				n++
				tn := namedName(tv.Type)
				occ[tn+kind]++
				key := fmt.Sprintf("union-literal/%s/%s/%s.%s", pk.Name, funcName(fd), tn, kind)
				if occ[tn+kind] > 1 {
					key += fmt.Sprintf("#%d", occ[tn+kind])
				}
				switch {
				case kind == "":
					c.bad(key, cl.Pos(), fmt.Sprintf("%s literal without a Kind (members set: %v): it is dispatched as the zero kind", tn, set))
				case !kindConst:
					// kind copied from another value: the member must be decided elsewhere
					c.ok(key, cl.Pos(), "kind copied from "+kind)
				case len(set) == 1 && (set[0] == kind || set[0] == "ReadEnquableTasks" && kind == "ReadEnqueueableTasks"):
					c.ok(key, cl.Pos(), "Kind "+kind+" with member "+set[0])
				case len(set) == 0 && (tn == "Completion" || tn == "Result"):
					c.bad(key, cl.Pos(), fmt.Sprintf("%s literal of kind %s sets no member", tn, kind))
				default:
					c.bad(key, cl.Pos(), fmt.Sprintf("%s literal of kind %s sets member(s) %v: the handler of %s dereferences the member named after the kind", tn, kind, set, kind))
				}
				return true
			})
		}
	}
	c.count("union_literals", n)
	c.floor("tagged-union literals", n, 150)
}

// ruleSmallDefinitions (C14/C15): three one-line definitions everything above relies on.
//   - StatusCode.IsSuccessful ⇔ 20000 ≤ s < 30000 (api.Process turns every other status into an error);
//   - Cursor.Encode signs claims that carry the cursor's Next request; Cursor.Decode copies the
//     verified claims' Next back.
func ruleSmallDefinitions(c *Ctx) {
	pk := c.P.Pkg(pkgTApi)
	if pk == nil {
		c.und("definitions", 0, "t_api not loaded")
		return
	}
	info := pk.TypesInfo
	if fd := funcDecl(pk, "StatusCode", "IsSuccessful"); fd == nil || len(fd.Body.List) != 1 {
		c.und("definitions/is-successful", 0, "StatusCode.IsSuccessful not found or not a single return")
	} else {
		got := ""
		if rs, ok := fd.Body.List[0].(*ast.ReturnStmt); ok && len(rs.Results) == 1 {
			env := newProvEnv(pk, fd)
			atoms := env.condAtoms(rs.Results[0], false)
			sort.Strings(atoms)
			got = strings.Join(atoms, " ∧ ")
		}
		want := "(20000 <= param:s) ∧ (param:s < 30000)"
		o := c.check(got == want, "definitions/is-successful", fd.Pos(), "successful ⇔ 20000 ≤ status < 30000", "StatusCode.IsSuccessful is no longer `20000 ≤ s < 30000`: api.Process would hand non-success outcomes to the front ends as results (or successes as errors)")
		if got != want {
			o.Expected, o.Found = want, got
		}
	}
	enc := funcDecl(pk, "Cursor", "Encode")
	dec := funcDecl(pk, "Cursor", "Decode")
	if enc == nil || dec == nil {
		c.und("definitions/cursor-next", 0, "Cursor.Encode / Decode not found")
		return
	}
	okEnc := false
	ast.Inspect(enc.Body, func(n ast.Node) bool {
		if cl, ok := n.(*ast.CompositeLit); ok && strings.HasPrefix(namedName(info.Types[cl].Type), "Claims") {
			for _, el := range cl.Elts {
				if kv, ok := el.(*ast.KeyValueExpr); ok && exprString(kv.Key) == "Next" && strings.HasSuffix(exprString(kv.Value), ".Next") {
					okEnc = true
				}
			}
		}
		return true
	})
	okDec := false
	ast.Inspect(dec.Body, func(n ast.Node) bool {
		if as, ok := n.(*ast.AssignStmt); ok && len(as.Lhs) == 1 && len(as.Rhs) == 1 && strings.HasSuffix(exprString(as.Lhs[0]), ".Next") && strings.HasSuffix(exprString(as.Rhs[0]), ".Next") {
			okDec = true
		}
		return true
	})
	c.check(okEnc && okDec, "definitions/cursor-next", enc.Pos(), "a cursor token carries the next request and decoding restores it", "the cursor token no longer carries (or restores) the next request: following a cursor cannot continue the query")
}

// replyWrapper: call is to a function of the package whose whole body is one gin reply on a
// *gin.Context parameter. errParam >= 0 when that reply is the error rendering
// c.JSON(code(P.Code), gin.H{"error": P}) of parameter number errParam.
func replyWrapper(pk *packages.Package, call *ast.CallExpr) (isWrapper bool, errParam int) {
	info := pk.TypesInfo
	errParam = -1
	fn, ok := calleeOf(info, call).(*types.Func)
	if !ok || fn.Pkg() != pk.Types {
		return false, -1
	}
	fd := funcDeclOf(pk, fn)
	if fd == nil || fd.Body == nil || len(fd.Body.List) == 0 {
		return false, -1
	}
	// the helper writes exactly one reply on each of its exits (a one-statement body, or a few
	// statements preparing the operands of the reply)
	isReply := func(x ast.Node) bool {
		call, ok := x.(*ast.CallExpr)
		if !ok {
			return false
		}
		ifn, ok := calleeOf(info, call).(*types.Func)
		if !ok || !isFuncOf(ifn, "github.com/gin-gonic/gin", "Context") {
			return false
		}
		switch ifn.Name() {
		case "JSON", "String", "Status", "AbortWithStatus", "AbortWithStatusJSON", "Data", "IndentedJSON", "PureJSON":
			return true
		}
		return false
	}
	var inner *ast.CallExpr
	nReplies := 0
	for _, cc := range callsIn(fd.Body) {
		if isReply(cc) {
			inner = cc
			nReplies++
		}
	}
	if nReplies == 0 {
		return false, -1
	}
	for _, set := range countEvents(buildCFG(pk, fd.Body), func(x ast.Node) int {
		if isReply(x) {
			return 1
		}
		return 0
	}) {
		if set != 2 {
			return false, -1
		}
	}
	if nReplies != 1 || len(fd.Body.List) != 1 {
		return true, -1
	}
	ifn := calleeOf(info, inner).(*types.Func)
	sig := fn.Type().(*types.Signature)
	if ifn.Name() == "JSON" && len(inner.Args) == 2 {
		for i := 0; i < sig.Params().Len(); i++ {
			par := sig.Params().At(i)
			codeOK := false
			if cc, ok := ast.Unparen(inner.Args[0]).(*ast.CallExpr); ok && len(cc.Args) == 1 {
				if se, ok := ast.Unparen(cc.Fun).(*ast.SelectorExpr); ok && se.Sel.Name == "code" {
					if as, ok := ast.Unparen(cc.Args[0]).(*ast.SelectorExpr); ok && as.Sel.Name == "Code" && isObj(info, as.X, par) {
						codeOK = true
					}
				}
			}
			bodyOK := false
			if cl, ok := ast.Unparen(inner.Args[1]).(*ast.CompositeLit); ok && len(cl.Elts) == 1 {
				if kv, ok := cl.Elts[0].(*ast.KeyValueExpr); ok && exprString(kv.Key) == `"error"` && isObj(info, kv.Value, par) {
					bodyOK = true
				}
			}
			if codeOK && bodyOK {
				errParam = i
			}
		}
	}
	return true, errParam
}

// mappedStatus: e is status.Error(<x>.code(obj.Code), obj.Error()), written out or produced by a
// helper of the package that returns exactly that for the parameter obj is passed as.
func mappedStatus(pk *packages.Package, e ast.Expr, obj types.Object, depth int) bool {
	info := pk.TypesInfo
	call, ok := ast.Unparen(e).(*ast.CallExpr)
	if !ok || obj == nil {
		return false
	}
	fn, ok := calleeOf(info, call).(*types.Func)
	if !ok || fn.Pkg() == nil {
		return false
	}
	isSel := func(x ast.Expr, field string) bool {
		se, ok := ast.Unparen(x).(*ast.SelectorExpr)
		return ok && se.Sel.Name == field && isObj(info, se.X, obj)
	}
	if fn.Pkg().Path() == "google.golang.org/grpc/status" && fn.Name() == "Error" && len(call.Args) == 2 {
		cc, ok := ast.Unparen(call.Args[0]).(*ast.CallExpr)
		if !ok || len(cc.Args) != 1 {
			return false
		}
		se, ok := ast.Unparen(cc.Fun).(*ast.SelectorExpr)
		if !ok || se.Sel.Name != "code" || !isSel(cc.Args[0], "Code") {
			return false
		}
		mc, ok := ast.Unparen(call.Args[1]).(*ast.CallExpr)
		return ok && len(mc.Args) == 0 && isSel(mc.Fun, "Error")
	}
	if fn.Pkg() != pk.Types || depth >= 2 {
		return false
	}
	fd := funcDeclOf(pk, fn)
	if fd == nil || fd.Body == nil || len(fd.Body.List) != 1 {
		return false
	}
	rs, ok := fd.Body.List[0].(*ast.ReturnStmt)
	if !ok || len(rs.Results) != 1 {
		return false
	}
	sig := fn.Type().(*types.Signature)
	for i := 0; i < sig.Params().Len() && i < len(call.Args); i++ {
		if isObj(info, call.Args[i], obj) && mappedStatus(pk, rs.Results[0], sig.Params().At(i), depth+1) {
			return true
		}
	}
	return false
}

// ruleKeyedEntriesAgree (C15): the sub-objects a front end files under constant keys of a reply
// ("root", "leaf" of a claimed task's message) are present under the same conditions on the
// kernel's outcome in both protocols. A key rendered by one protocol only, or under a stricter
// condition in one of them (gRPC omits "leaf" when the leaf promise could not be read, HTTP renders
// it with null data), gives two clients different accounts of the same kernel outcome.
func ruleKeyedEntriesAgree(c *Ctx) {
	type entry struct {
		conds string
		pos   token.Pos
	}
	byKind := map[string]map[string]map[string]entry{} // kind -> proto -> key -> entry
	mentionsRes := func(a string) bool {
		return strings.Contains(a, "res.") || strings.Contains(a, "res)") || a == "res"
	}
	// collect walks a function for keyed sub-objects built from the kernel's response (named by
	// sym), then the functions of the package it hands (parts of) the response to
	var collect func(pk *packages.Package, fd *ast.FuncDecl, sym map[types.Object]string, outer []string, depth int, put func(key string, e entry))
	collect = func(pk *packages.Package, fd *ast.FuncDecl, sym map[types.Object]string, outer []string, depth int, put func(key string, e entry)) {
		info := pk.TypesInfo
		pe := newProvEnv(pk, fd)
		pe.sym = sym
		pe.noAssertFacts = true
		condsAt := func(at ast.Node) []string {
			cs := append([]string(nil), outer...)
			for _, a := range pe.enclosingConds(fd.Body, at) {
				if mentionsRes(a) {
					cs = append(cs, a)
				}
			}
			return cs
		}
		ast.Inspect(fd.Body, func(nd ast.Node) bool {
			var keyE, valE ast.Expr
			var at ast.Node
			switch x := nd.(type) {
			case *ast.KeyValueExpr:
				keyE, valE, at = x.Key, x.Value, x
			case *ast.AssignStmt:
				if len(x.Lhs) == 1 && len(x.Rhs) == 1 {
					if ix, ok := ast.Unparen(x.Lhs[0]).(*ast.IndexExpr); ok {
						keyE, valE, at = ix.Index, x.Rhs[0], x
					}
				}
			case *ast.CallExpr:
				// a function of the package that is handed (part of) the response
				fn, ok := calleeOf(info, x).(*types.Func)
				if !ok || fn.Pkg() != pk.Types || depth >= 2 {
					return true
				}
				gd := funcDeclOf(pk, fn)
				if gd == nil || gd.Body == nil || gd == fd {
					return true
				}
				sig := fn.Type().(*types.Signature)
				sym2 := map[types.Object]string{}
				for k, a := range x.Args {
					if k >= sig.Params().Len() {
						break
					}
					if pv := pe.provD(a, 0); pv == "res" || strings.HasPrefix(pv, "res.") {
						sym2[sig.Params().At(k)] = pv
					}
				}
				if len(sym2) > 0 {
					collect(pk, gd, sym2, condsAt(x), depth+1, put)
				}
				return true
			}
			if keyE == nil {
				return true
			}
			kl, ok := ast.Unparen(keyE).(*ast.BasicLit)
			if !ok || kl.Kind != token.STRING {
				return true
			}
			v := ast.Unparen(valE)
			if u, ok := v.(*ast.UnaryExpr); ok && u.Op == token.AND {
				v = ast.Unparen(u.X)
			}
			sub, ok := v.(*ast.CompositeLit)
			if !ok {
				return true
			}
			// only sub-objects built from the kernel's response
			fromRes := false
			for _, el := range sub.Elts {
				if ekv, ok := el.(*ast.KeyValueExpr); ok {
					if _, isLit := ast.Unparen(ekv.Value).(*ast.CompositeLit); isLit {
						continue
					}
					if pv := pe.provD(ekv.Value, 0); strings.Contains(pv, "res.") {
						fromRes = true
					}
				}
			}
			if !fromRes {
				return true
			}
			conds := condsAt(at)
			sort.Strings(conds)
			var uniq []string
			for k, a := range conds {
				if k == 0 || a != conds[k-1] {
					uniq = append(uniq, a)
				}
			}
			put(strings.Trim(kl.Value, "\"`"), entry{strings.Join(uniq, " ∧ "), at.Pos()})
			return true
		})
	}
	for _, pr := range []struct{ proto, pkg string }{{"http", pkgHttp}, {"grpc", pkgGrpc}} {
		for _, r := range frontEndRequests(c.P, pr.proto, pr.pkg) {
			if r.Kind == "?" || r.Decl == nil || r.Decl.Body == nil {
				continue
			}
			info := r.Pk.TypesInfo
			// the variable holding the kernel's response
			var resObj types.Object
			ast.Inspect(r.Decl.Body, func(nd ast.Node) bool {
				if as, ok := nd.(*ast.AssignStmt); ok && len(as.Rhs) == 1 && ast.Unparen(as.Rhs[0]) == ast.Expr(r.Process) && len(as.Lhs) >= 1 {
					if id, ok := as.Lhs[0].(*ast.Ident); ok {
						resObj = info.Defs[id]
						if resObj == nil {
							resObj = info.Uses[id]
						}
					}
				}
				return true
			})
			if resObj == nil {
				continue
			}
			kind, proto := r.Kind, pr.proto
			collect(r.Pk, r.Decl, map[types.Object]string{resObj: "res"}, nil, 0, func(key string, e entry) {
				if byKind[kind] == nil {
					byKind[kind] = map[string]map[string]entry{}
				}
				if byKind[kind][proto] == nil {
					byKind[kind][proto] = map[string]entry{}
				}
				byKind[kind][proto][key] = e
			})
		}
	}
	var kinds []string
	for k := range byKind {
		kinds = append(kinds, k)
	}
	sort.Strings(kinds)
	n := 0
	for _, kind := range kinds {
		h, g := byKind[kind]["http"], byKind[kind]["grpc"]
		keys := map[string]bool{}
		for k := range h {
			keys[k] = true
		}
		for k := range g {
			keys[k] = true
		}
		var ks []string
		for k := range keys {
			ks = append(ks, k)
		}
		sort.Strings(ks)
		for _, k := range ks {
			he, hok := h[k]
			ge, gok := g[k]
			okey := fmt.Sprintf("keyed-entries-agree/%s/%s", kind, k)
			switch {
			case hok && !gok:
				// a protocol may nest differently (typed message fields instead of keys): only
				// keys that both file are compared, a one-sided key is reported only if the
				// other side files sibling keys of the same map
				if len(g) > 0 {
					c.bad(okey, he.pos, fmt.Sprintf("%s: the HTTP reply files a sub-object under %q, the gRPC reply files none", kind, k))
					n++
				}
			case gok && !hok:
				if len(h) > 0 {
					c.bad(okey, ge.pos, fmt.Sprintf("%s: the gRPC reply files a sub-object under %q, the HTTP reply files none", kind, k))
					n++
				}
			default:
				n++
				c.check(he.conds == ge.conds, okey, ge.pos, "filed under the same conditions on the kernel's outcome in both protocols: "+he.conds,
					fmt.Sprintf("%s: the entry %q is rendered when [%s] over HTTP but when [%s] over gRPC: the two protocols give different accounts of the same kernel outcome", kind, k, he.conds, ge.conds))
			}
		}
	}
	c.count("keyed_entries_compared", n)
	c.floor("keyed reply entries compared across protocols", n, 2)
}
