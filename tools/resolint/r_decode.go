package main

// ruleDecodeFresh (C19 / C20 / C13): a decoder merges into what it is given — encoding/json leaves
// fields that are absent from the input untouched and adds to an existing map. Every decode of a
// per-message datum (receiver data, routing tag, request body / header / query, stored record
// column) must therefore target storage that is fresh for that message: a zero-valued local of the
// function invocation (declared inside the loop, if the decode is in one), or a target handed in
// by the caller (parameter / receiver / range over a variadic parameter). A field of a long-lived
// object, a package variable or a variable captured from an enclosing function carries the previous
// message's address, headers or payload into the next one.

import (
	"fmt"
	"go/ast"
	"go/token"
	"go/types"
	"strings"
)

// decode sinks: callee short name -> index of the first target argument (all following arguments
// are targets too when variadic is set)
var decodeSinks = map[string]struct {
	arg      int
	variadic bool
}{
	"json.Unmarshal":            {1, false},
	"Decoder.Decode":            {0, false},
	"util.UnmarshalChain":       {1, true},
	"Context.ShouldBindJSON":    {0, false},
	"Context.ShouldBindHeader":  {0, false},
	"Context.ShouldBindQuery":   {0, false},
	"Context.ShouldBindUri":     {0, false},
	"Context.ShouldBind":        {0, false},
	"Context.BindJSON":          {0, false},
	"proto.Unmarshal":           {1, false},
	"protojson.Unmarshal":       {1, false},
	"jwt.ParseWithClaims":       {1, false},
	"Parser.ParseWithClaims":    {1, false},
	"yaml.Unmarshal":            {1, false},
	"Unmarshaler.UnmarshalJSON": {0, false},
}

func ruleDecodeFresh(c *Ctx) {
	n := 0
	for path, pk := range c.P.ByPath {
		if !strings.HasPrefix(path, modPath+"/internal/") && !strings.HasPrefix(path, modPath+"/pkg/") {
			continue
		}
		if strings.HasPrefix(path, modPath+"/pkg/client") || strings.Contains(path, "/test") || strings.HasSuffix(path, "/pb") {
			continue
		}
		info := pk.TypesInfo
		for _, fd := range allFuncDecls(pk) {
			if fd.Body == nil || isTestFile(c.P, fd.Pos()) {
				continue
			}
			occ := map[string]int{}
			ast.Inspect(fd.Body, func(nd ast.Node) bool {
				call, ok := nd.(*ast.CallExpr)
				if !ok {
					return true
				}
				name := calleeName(info, call)
				sink, ok := decodeSinks[name]
				if !ok {
					return true
				}
				if name == "Decoder.Decode" || name == "Unmarshaler.UnmarshalJSON" {
					if fn, _ := calleeOf(info, call).(*types.Func); fn == nil || fn.Pkg() == nil || fn.Pkg().Path() != "encoding/json" {
						return true
					}
				}
				last := sink.arg
				if sink.variadic {
					last = len(call.Args) - 1
				}
				for i := sink.arg; i <= last && i < len(call.Args); i++ {
					n++
					key := "decode-fresh/" + pk.Name + "." + funcName(fd) + "/" + name
					occ[key]++
					if occ[key] > 1 {
						key += "#" + itoa(occ[key])
					}
					why := staleTarget(info, fd, call, call.Args[i])
					c.check(why == "", key, call.Pos(), "decodes into storage fresh for this message", exprString(call.Args[i])+" "+why+": the decoder leaves absent fields untouched and merges maps, so what the previous message left there (address, headers, payload) leaks into this one")
				}
				return true
			})
		}
	}
	c.count("decode_targets", n)
	c.floor("decode targets", n, 40)
}

// staleTarget returns "" when the decode target is fresh for the invocation, otherwise why not.
func staleTarget(info *types.Info, fd *ast.FuncDecl, call *ast.CallExpr, target ast.Expr) string {
	e := ast.Unparen(target)
	addr := false
	if u, ok := e.(*ast.UnaryExpr); ok && u.Op == token.AND {
		e = ast.Unparen(u.X)
		addr = true
	}
	if cl, ok := e.(*ast.CompositeLit); ok && addr && len(cl.Elts) == 0 {
		return "" // &T{}
	}
	if cc, ok := e.(*ast.CallExpr); ok && exprString(cc.Fun) == "new" {
		return ""
	}
	id, ok := e.(*ast.Ident)
	if !ok {
		if _, isSel := e.(*ast.SelectorExpr); isSel {
			return "is a field of an object that outlives the message"
		}
		return "is not a local of this invocation"
	}
	v, ok := info.Uses[id].(*types.Var)
	if !ok {
		return "is not a variable"
	}
	if v.IsField() {
		return "is a field of an object that outlives the message"
	}
	if v.Parent() == v.Pkg().Scope() {
		return "is a package-level variable"
	}
	// innermost function (literal or declaration) and the loops between it and the call
	var fnBody *ast.BlockStmt = fd.Body
	var fnType *ast.FuncType = fd.Type
	var loops []ast.Node
	for _, a := range enclosing(fd.Body, call) {
		switch x := a.(type) {
		case *ast.FuncLit:
			fnBody, fnType, loops = x.Body, x.Type, nil
		case *ast.ForStmt, *ast.RangeStmt:
			loops = append(loops, x)
		}
	}
	// handed in by the caller: parameter or receiver of the innermost function
	isParam := func(fl *ast.FieldList) bool {
		if fl == nil {
			return false
		}
		for _, f := range fl.List {
			for _, nm := range f.Names {
				if info.Defs[nm] == v {
					return true
				}
			}
		}
		return false
	}
	if isParam(fnType.Params) || (fnBody == fd.Body && isParam(fd.Recv)) {
		return ""
	}
	if v.Pos() < fnBody.Pos() || v.Pos() > fnBody.End() {
		return "is captured from an enclosing function and outlives this invocation"
	}
	// range over a parameter (util.UnmarshalChain's `for _, v := range vs`)
	for _, l := range loops {
		if rs, ok := l.(*ast.RangeStmt); ok {
			if vid, ok := rs.Value.(*ast.Ident); ok && info.Defs[vid] == v {
				if xid, ok := ast.Unparen(rs.X).(*ast.Ident); ok {
					if xv, ok := info.Uses[xid].(*types.Var); ok && isParamVar(info, fnType, xv) {
						return ""
					}
				}
			}
		}
	}
	// declared inside the innermost loop that contains the call
	if len(loops) > 0 {
		in := loops[len(loops)-1]
		var body *ast.BlockStmt
		switch x := in.(type) {
		case *ast.ForStmt:
			body = x.Body
		case *ast.RangeStmt:
			body = x.Body
		}
		if v.Pos() < body.Pos() || v.Pos() > body.End() {
			return "is declared outside the loop and carries over from one iteration to the next"
		}
	}
	// zero-valued at its declaration
	var decl ast.Node
	ast.Inspect(fnBody, func(n ast.Node) bool {
		switch s := n.(type) {
		case *ast.AssignStmt:
			if s.Tok == token.DEFINE {
				for i, l := range s.Lhs {
					if lid, ok := l.(*ast.Ident); ok && info.Defs[lid] == v {
						if len(s.Rhs) == len(s.Lhs) {
							decl = s.Rhs[i]
						} else {
							decl = s
						}
					}
				}
			}
		case *ast.ValueSpec:
			for i, nm := range s.Names {
				if info.Defs[nm] == v {
					if len(s.Values) == 0 {
						decl = s
					} else if len(s.Values) == len(s.Names) {
						decl = s.Values[i]
					}
				}
			}
		}
		return true
	})
	switch d := decl.(type) {
	case nil:
		return "has no declaration in this function"
	case *ast.ValueSpec:
		return "" // var x T
	case ast.Expr:
		x := ast.Unparen(d)
		if u, ok := x.(*ast.UnaryExpr); ok && u.Op == token.AND {
			x = ast.Unparen(u.X)
		}
		switch y := x.(type) {
		case *ast.CompositeLit:
			if len(y.Elts) == 0 {
				return ""
			}
			return "is initialised with values before the decode"
		case *ast.CallExpr:
			if f := exprString(y.Fun); f == "new" || f == "make" {
				return ""
			}
		}
		return "is initialised from " + exprString(d) + " before the decode"
	}
	return "is not declared zero-valued"
}

func isParamVar(info *types.Info, ft *ast.FuncType, v *types.Var) bool {
	if ft.Params == nil {
		return false
	}
	for _, f := range ft.Params.List {
		for _, nm := range f.Names {
			if info.Defs[nm] == v {
				return true
			}
		}
	}
	return false
}

// ruleNoSharedMaps (C20): every map a decoder / converter / constructor hands out (tags, headers,
// promise tags) is the caller's own: no function of the data and store packages returns, or puts
// into an object it returns, a package-level map. A shared "empty map" is written by the first
// caller that adds an entry (the schedule sweep stamps its marker tags into the decoded promise
// tags) and from then on shows up in every object that was given the same map.
func ruleNoSharedMaps(c *Ctx) {
	n := 0
	for path, pk := range c.P.ByPath {
		if !strings.HasPrefix(path, modPath+"/pkg/") && !strings.HasPrefix(path, modPath+"/internal/") {
			continue
		}
		if strings.HasPrefix(path, modPath+"/pkg/client") || strings.Contains(path, "/test") || strings.HasSuffix(path, "/pb") || strings.HasSuffix(path, "/dst") || strings.Contains(path, "/cmd") {
			continue
		}
		info := pk.TypesInfo
		isSharedMap := func(e ast.Expr) (types.Object, bool) {
			id, ok := ast.Unparen(e).(*ast.Ident)
			if !ok {
				return nil, false
			}
			v, ok := info.Uses[id].(*types.Var)
			if !ok || v.Pkg() == nil || v.Parent() != v.Pkg().Scope() {
				return nil, false
			}
			if _, isMap := v.Type().Underlying().(*types.Map); !isMap {
				return nil, false
			}
			return v, true
		}
		for _, fd := range allFuncDecls(pk) {
			if fd.Body == nil || isTestFile(c.P, fd.Pos()) {
				continue
			}
			occ := map[string]int{}
			ast.Inspect(fd.Body, func(nd ast.Node) bool {
				var exprs []ast.Expr
				switch x := nd.(type) {
				case *ast.ReturnStmt:
					exprs = x.Results
				case *ast.KeyValueExpr:
					exprs = []ast.Expr{x.Value}
				case *ast.AssignStmt:
					// x.F = sharedMap
					for i, l := range x.Lhs {
						if _, isSel := ast.Unparen(l).(*ast.SelectorExpr); isSel && i < len(x.Rhs) {
							exprs = append(exprs, x.Rhs[i])
						}
					}
				default:
					return true
				}
				for _, e := range exprs {
					n++
					if v, shared := isSharedMap(e); shared {
						key := fmt.Sprintf("shared-map/%s.%s/%s", pk.Name, funcName(fd), v.Name())
						occ[key]++
						if occ[key] > 1 {
							key += fmt.Sprintf("#%d", occ[key])
						}
						c.bad(key, e.Pos(), fmt.Sprintf("%s hands out the package-level map %s: every object given it shares one map, and the first writer (marker tags, defaults) changes them all — data the client never sent appears in stored and returned objects", funcName(fd), v.Name()))
					}
				}
				return true
			})
		}
	}
	c.count("values_handed_out", n)
	c.floor("returned / stored values inspected for shared maps", n, 500)
}
