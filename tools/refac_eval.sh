#!/bin/bash
# refac_eval.sh <worktree> : apply each REFACTOR/patch_k.diff to /repo, run every property's rules, revert.
# Prints per patch the REPORT lines (a behaviour-preserving patch should give none).
set -u
WT=$1
REPO=${REPO:-/repo}   # REPO=<worktree> analyses the patches in the worktree itself, leaving /repo alone
cd /verif
export GOFLAGS=-mod=mod GOPROXY=off GOSUMDB=off GOTOOLCHAIN=local GOWORK=off
[ -n "${RESOLINT_NOBUILD:-}" ] || (cd tools/resolint && go build -o /verif/bin/resolint .) || exit 2   # RESOLINT_NOBUILD=1: use bin/resolint as it is (development: the source is being edited)
for p in "$WT"/REFACTOR/patch_*.diff; do
  [ -f "$p" ] || continue
  if ! git -C $REPO apply "$p" 2>/tmp/refac_apply.err; then echo "== $p: DOES NOT APPLY: $(head -2 /tmp/refac_apply.err)"; continue; fi
  out=$(for c in C01 C02 C03 C04 C05 C06 C07 C08 C09 C10 C11 C12 C13 C14 C15 C16 C17 C18 C19 C20; do echo $c; done | REPO=$REPO RESOLINT_BIN=${RESOLINT_BIN:-/verif/bin/resolint} xargs -P 5 -I{} bash -c '${RESOLINT_BIN:-/verif/bin/resolint} -repo $REPO -verif /verif -prop {} -no-evidence 2>&1 | grep -E "^(REPORT|resolint:)" | sed "s/^/{} /"')
  git -C $REPO checkout -- . ; git -C $REPO clean -fdq -e REFACTOR -- . >/dev/null 2>&1
  if [ -z "$out" ]; then echo "== $(basename $p): silent"; else echo "== $(basename $p): ALARMS"; printf '%s\n' "$out" | sort | cut -c1-400 | head -30; fi
done
