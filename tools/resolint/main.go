package main

import (
	"encoding/json"
	"flag"
	"fmt"
	"go/ast"
	"os"
	"path/filepath"
	"runtime/debug"
	"sort"
	"strconv"
	"strings"
	"time"
)

type ruleFn func(c *Ctx)

type propDef struct {
	ID    string
	Rules []struct {
		Name string
		Fn   ruleFn
	}
	Clauses []string
	NotDec  []string
}

var props = map[string]*propDef{}

func regProp(id string, clauses, notdec []string) *propDef {
	p := &propDef{ID: id, Clauses: clauses, NotDec: notdec}
	props[id] = p
	return p
}
func (p *propDef) rule(name string, fn ruleFn) *propDef {
	p.Rules = append(p.Rules, struct {
		Name string
		Fn   ruleFn
	}{name, fn})
	return p
}

func main() {
	prop := flag.String("prop", "", "property id (C01..C20)")
	tier := flag.String("tier", "quick", "quick|thorough")
	repo := flag.String("repo", "/repo", "repository root")
	verif := flag.String("verif", "/verif", "verif root")
	overlay := flag.String("overlay", "", "mutant file (JSON) applied as an in-memory overlay")
	dump := flag.String("dump", "", "debug: dump a model (sql)")
	only := flag.String("only", "", "replay: report only this obligation key")
	noEvidence := flag.Bool("no-evidence", false, "do not write evidence/replay files (used for mutant runs)")
	flag.Parse()

	if t := os.Getenv("VERIF_TIER"); t != "" && (t == "quick" || t == "thorough") {
		*tier = t
	}
	seed := int64(0)
	if s := os.Getenv("VERIF_SEED"); s != "" {
		if v, err := strconv.ParseInt(s, 10, 64); err == nil {
			seed = v
		}
	}
	start := time.Now()

	var overlays []Overlay
	if *overlay != "" {
		b, err := os.ReadFile(*overlay)
		if err != nil {
			fatal(*prop, *verif, err)
		}
		var m Mutant
		if err := json.Unmarshal(b, &m); err != nil {
			fatal(*prop, *verif, err)
		}
		overlays = m.Edits
	}

	prog, err := loadProgram(*repo, overlays, false)
	if err != nil {
		fatal(*prop, *verif, err)
	}
	if *dump != "" {
		dumpModel(prog, *dump)
		return
	}
	if *prop == "ALL" {
		// survey mode: every property's rules on one loaded program, verdict keys only
		findings, _ := loadFindings(filepath.Join(*verif, "known_findings.json"))
		var ids []string
		for id := range props {
			if len(id) == 3 && id[0] == 'C' {
				ids = append(ids, id)
			}
		}
		sort.Strings(ids)
		shared := map[string]any{}
		for _, id := range ids {
			pd := props[id]
			c := &Ctx{P: prog, Prop: id, Tier: *tier, Seed: seed, Analysed: map[string]int{}, start: start, shared: shared}
			for _, r := range pd.Rules {
				func() {
					defer func() {
						if rec := recover(); rec != nil {
							c.rule = r.Name
							c.und("analyzer-panic/"+r.Name, 0, fmt.Sprintf("analyzer panic: %v", rec))
						}
					}()
					c.rule = r.Name
					r.Fn(c)
				}()
			}
			known := map[string]bool{}
			for _, f := range findings {
				if f.Status == "known" && f.Property == id {
					known[f.Key] = true
				}
			}
			c.finishFloorsOnly()
			for _, o := range c.Obls {
				if (o.Verdict == Violation || o.Verdict == Undecided) && !(known[o.Key] && o.Verdict == Violation) {
					fmt.Printf("REPORT %s %s %s %s\n", id, o.Verdict, o.Key, o.Pos)
				}
			}
		}
		return
	}
	pd, ok := props[*prop]
	if !ok {
		fmt.Fprintf(os.Stderr, "unknown property %q\n", *prop)
		os.Exit(2)
	}
	c := &Ctx{P: prog, Prop: *prop, Tier: *tier, Seed: seed, Analysed: map[string]int{}, start: start, shared: map[string]any{}}
	c.Clauses = pd.Clauses
	c.NotDec = pd.NotDec
	c.count("packages_root", len(prog.Roots))
	c.count("packages_total", prog.All)
	c.Assume = []string{
		"the Go type checker and golang.org/x/tools v0.29.0 are correct",
		"SQLite and Postgres give the parsed statements their documented semantics (atomic guarded UPDATE/INSERT, transaction atomicity, monotone AUTOINCREMENT/SERIAL)",
		"database/sql, gin, grpc, encoding/json, robfig/cron, golang-jwt and gocoro behave as documented (read, not analysed)",
		"the spec tables are a faithful reading of the property statement",
	}
	for _, r := range pd.Rules {
		func() {
			defer func() {
				if rec := recover(); rec != nil {
					c.rule = r.Name
					c.und("analyzer-panic/"+r.Name, 0, fmt.Sprintf("analyzer panic: %v\n%s", rec, firstLines(string(debug.Stack()), 14)))
				}
			}()
			c.rule = r.Name
			r.Fn(c)
		}()
	}
	if *only != "" {
		var keep []*Obl
		for _, o := range c.Obls {
			if o.Key == *only {
				keep = append(keep, o)
			}
		}
		for _, o := range keep {
			fmt.Printf("%s: %s: %s [%s]\n", o.Pos, o.Verdict, o.Detail, o.Key)
			if o.Expected != "" || o.Found != "" {
				fmt.Printf("    expected: %s\n    found:    %s\n", o.Expected, o.Found)
			}
		}
		if len(keep) == 0 {
			fmt.Printf("obligation %s is not produced on the current tree\n", *only)
		}
		code := 0
		for _, o := range keep {
			if o.Verdict != Discharged {
				code = 1
			}
		}
		os.Exit(code)
	}
	findings, err := loadFindings(filepath.Join(*verif, "known_findings.json"))
	if err != nil {
		fatal(*prop, *verif, err)
	}
	if *noEvidence {
		// mutant mode: print verdict keys only
		known := map[string]bool{}
		for _, f := range findings {
			if f.Status == "known" && f.Property == c.Prop {
				known[f.Key] = true
			}
		}
		c.finishFloorsOnly()
		var keys []string
		for _, o := range c.Obls {
			if o.Verdict == Violation || o.Verdict == Undecided {
				tag := "REPORT"
				if known[o.Key] && o.Verdict == Violation {
					tag = "KNOWN"
				}
				keys = append(keys, fmt.Sprintf("%s %s %s %s :: %s", tag, o.Verdict, o.Key, o.Pos, firstLines(o.Detail, 1)))
			}
		}
		sort.Strings(keys)
		for _, k := range keys {
			fmt.Println(k)
		}
		return
	}
	os.Exit(c.finish(*verif, findings, false))
}

func (c *Ctx) finishFloorsOnly() {
	for _, f := range c.Floors {
		if f.Got < f.Min {
			c.Obls = append(c.Obls, &Obl{Rule: "floor", Key: "floor/" + f.Name, Pos: "-", Verdict: Violation, Detail: fmt.Sprintf("found %d, minimum %d", f.Got, f.Min)})
		}
	}
	for _, k := range c.Controls {
		if !k.Reported {
			c.Obls = append(c.Obls, &Obl{Rule: "control", Key: "control/" + k.Name, Pos: "-", Verdict: Violation, Detail: "control not reported"})
		}
	}
}

func firstLines(s string, n int) string {
	ls := strings.Split(s, "\n")
	if len(ls) > n {
		ls = ls[:n]
	}
	return strings.Join(ls, "\n")
}

// fatal: the loader failed (type errors, no packages, unreadable overlay). A check that cannot
// analyse the tree must not pass.
func fatal(prop, verif string, err error) {
	fmt.Fprintln(os.Stderr, "resolint:", err)
	if prop != "" {
		dir := filepath.Join(verif, "out", prop)
		_ = os.MkdirAll(dir, 0o755)
		path := filepath.Join(dir, "loader.json")
		b, _ := json.MarshalIndent(map[string]any{"property": prop, "kind": "undecided", "rule": "loader", "key": "loader", "detail": err.Error()}, "", " ")
		_ = os.WriteFile(path, b, 0o644)
		fmt.Printf("VIOLATION property=%s replay=%s\n", prop, path)
		os.Exit(1)
	}
	os.Exit(2)
}

func dumpModel(p *Program, what string) {
	if strings.HasPrefix(what, "paths:") {
		parts := strings.Split(what, ":")
		pk := p.Pkg(modPath + "/" + parts[1])
		recv := ""
		fn := parts[2]
		if i := strings.Index(fn, "."); i >= 0 {
			recv, fn = fn[:i], fn[i+1:]
		}
		fd := funcDecl(pk, recv, fn)
		env := newProvEnv(pk, fd)
		body := fd.Body
		for _, st := range fd.Body.List {
			if rs, ok := st.(*ast.ReturnStmt); ok && len(rs.Results) == 1 {
				if fl, ok := ast.Unparen(rs.Results[0]).(*ast.FuncLit); ok {
					body = fl.Body
				}
			}
		}
		g := buildCFG(pk, body)
		paths, complete := enumPaths(g, env.condFormula, 4000)
		fmt.Println("paths:", len(paths), "complete:", complete)
		for _, pa := range paths {
			out := statusOutcome(pk, env, pk.TypesInfo.Defs[fd.Name], pa)
			if len(parts) > 3 {
				out = returnOutcome(pk, env, pk.TypesInfo.Defs[fd.Name], pa)
			}
			fmt.Printf("%s  =>  %s\n", factString(pa.Facts), out)
		}
		return
	}
	switch what {
	case "cmds":
		c := &Ctx{P: p, Analysed: map[string]int{}, shared: map[string]any{}}
		m := c.coroModel()
		fmt.Println("err:", m.Err)
		var ks []string
		for k, f := range m.Request {
			ks = append(ks, k+"->"+f.Name)
		}
		sort.Strings(ks)
		fmt.Println("request:", ks)
		for k, f := range m.Background {
			fmt.Println("background:", k, f.Name)
		}
		for _, tp := range [][2]string{{pkgPromise, "Promise"}, {pkgTask, "Task"}, {pkgLock, "Lock"}, {pkgSchedule, "Schedule"}, {pkgCallback, "Callback"}, {pkgTAio, "SenderSubmission"}, {pkgTApi, "SearchPromisesRequest"}, {pkgTApi, "SearchSchedulesRequest"}, {pkgTApi, "ClaimTaskResponse"}} {
			ls := m.structLits(tp[0], tp[1])
			ls = append(ls, m.patches(tp[0], tp[1])...)
			for _, l := range ls {
				var fs []string
				for k, v := range l.Fields {
					fs = append(fs, k+"="+v)
				}
				sort.Strings(fs)
				fmt.Printf("%s in %s @%s\n   %s\n   conds=%v\n", l.Type, l.Func, p.pos(l.Pos), strings.Join(fs, "\n   "), l.Conds)
			}
		}
		if os.Getenv("DUMP_RESP") != "" {
			tapi := p.Pkg(pkgTApi)
			for _, n := range tapi.Types.Scope().Names() {
				if !strings.HasSuffix(n, "Response") || n == "Response" {
					continue
				}
				for _, l := range m.structLits(pkgTApi, n) {
					var fs []string
					for k, v := range l.Fields {
						fs = append(fs, k+"="+v)
					}
					sort.Strings(fs)
					fmt.Printf("%s in %s @%s\n   %s\n   conds=%v\n", l.Type, l.Func, p.pos(l.Pos), strings.Join(fs, "\n   "), l.Conds)
				}
			}
			return
		}
		if os.Getenv("DUMP_OBJ") != "" {
			return
		}
		taio := p.Pkg(pkgTAio)
		for _, n := range taio.Types.Scope().Names() {
			if !strings.HasSuffix(n, "Command") {
				continue
			}
			for _, l := range m.commandLits(n) {
				var fs []string
				for k, v := range l.Fields {
					fs = append(fs, k+"="+v)
				}
				sort.Strings(fs)
				fmt.Printf("%s in %s @%s\n   %s\n   conds=%v\n", l.Type, l.Func, p.pos(l.Pos), strings.Join(fs, "\n   "), l.Conds)
			}
		}
	case "sql":
		for _, be := range [][2]string{{"sqlite", pkgSqlite}, {"postgres", pkgPostgres}} {
			b, err := extractBackend(p, be[0], be[1])
			if err != nil {
				fmt.Println("ERR", err)
				continue
			}
			fmt.Printf("== %s worker=%s arms=%d handlers=%d sites=%d ddl=%d problems=%v\n", b.Name, b.Worker, len(b.Arms), len(b.Handlers), len(b.Sites), len(b.DDL), b.Problems)
			for _, k := range b.ArmOrder {
				a := b.Arms[k]
				fmt.Printf("arm %-22s -> %-22s stmts=%v cmd=%s assign=%v\n", a.Kind, a.Handler, a.StmtVars, a.CmdField, a.AssignOK)
			}
			var hs []string
			for n := range b.Handlers {
				hs = append(hs, n)
			}
			sort.Strings(hs)
			for _, n := range hs {
				h := b.Handlers[n]
				fmt.Printf("handler %s(%s) subs=%v\n", h.Name, h.CmdType, h.Subs)
				for _, es := range h.Execs {
					fmt.Printf("   %s.%s const=%s stmtpar=%d args=%v scan=%v und=%v\n", es.Site.RecvType, es.Site.Method, es.Const, es.StmtPar, es.Args, es.Scan, es.Undecided)
				}
			}
			fmt.Println("prepares:", b.Prepares)
		}
	}
}
