package main

// C20 round-trip rules (R16) and interpreted-text rules (R15).

import (
	"fmt"
	"go/ast"
	"go/token"
	"go/types"
	"sort"
	"strings"

	"golang.org/x/tools/go/packages"
)

// namesIn collects, lower-cased, the selector names, identifier names and string literals that
// occur in an expression (through single-definition locals of the enclosing function).
func namesIn(pk *packages.Package, env *localEnv, e ast.Expr, depth int, out map[string]bool) {
	if e == nil || depth > 4 {
		return
	}
	info := pk.TypesInfo
	ast.Inspect(e, func(n ast.Node) bool {
		switch x := n.(type) {
		case *ast.SelectorExpr:
			out[strings.ToLower(x.Sel.Name)] = true
			out[strings.TrimPrefix(strings.ToLower(x.Sel.Name), "get")] = true // protobuf getters
		case *ast.BasicLit:
			if x.Kind == token.STRING {
				out[strings.ToLower(strings.Trim(x.Value, "\"`"))] = true
			}
		case *ast.Ident:
			out[strings.ToLower(x.Name)] = true
			// a converter named after what it produces (protoMesg(…) feeds Mesg)
			if ln := strings.ToLower(x.Name); strings.HasPrefix(ln, "proto") && len(ln) > 5 {
				if _, isFn := info.Uses[x].(*types.Func); isFn {
					out[strings.TrimPrefix(ln, "proto")] = true
				}
			}
			if env != nil {
				if v, ok := info.Uses[x].(*types.Var); ok && !v.IsField() {
					for _, d := range env.defs[v] {
						switch s := d.(type) {
						case *ast.AssignStmt:
							for _, r := range s.Rhs {
								namesIn(pk, env, r, depth+1, out)
							}
						case *ast.ValueSpec:
							for _, r := range s.Values {
								namesIn(pk, env, r, depth+1, out)
							}
						}
					}
				}
			}
		}
		return true
	})
}

// defDisagrees follows a local variable to its definitions: a definition whose right-hand side
// reads a field (or getter) of some value must name the target field; definitions that read no
// field (literals, make, nil) are neutral. It returns the offending definition.
func defDisagrees(pk *packages.Package, env *localEnv, e ast.Expr, field string, aliases []string, depth int) (ast.Node, string) {
	if depth > 3 || env == nil {
		return nil, ""
	}
	info := pk.TypesInfo
	id, ok := ast.Unparen(e).(*ast.Ident)
	if !ok {
		return nil, ""
	}
	v, ok := info.Uses[id].(*types.Var)
	if !ok || v.IsField() {
		return nil, ""
	}
	// a variable filled by a decoder (`json.Unmarshal(r.Mesg, &mesg)`): the decoded bytes are its source
	var decoded []ast.Node
	decodedSrc := map[ast.Node]ast.Expr{}
	if env.fd != nil && env.fd.Body != nil {
		ast.Inspect(env.fd.Body, func(n ast.Node) bool {
			call, ok := n.(*ast.CallExpr)
			if !ok || len(call.Args) != 2 || calleeName(info, call) != "json.Unmarshal" {
				return true
			}
			if u, ok := ast.Unparen(call.Args[1]).(*ast.UnaryExpr); ok && u.Op == token.AND && isObj(info, u.X, v) {
				decoded = append(decoded, call)
				decodedSrc[call] = call.Args[0]
			}
			return true
		})
	}
	for _, d := range append(append([]ast.Node(nil), env.defs[v]...), decoded...) {
		var rhs ast.Expr
		switch s := d.(type) {
		case *ast.CallExpr:
			rhs = decodedSrc[s]
		case *ast.AssignStmt:
			if len(s.Lhs) != len(s.Rhs) {
				// a result of a call (`tags, err := decode(r.Tags)`): the variable's name is its
				// designation unless the call's arguments read a field — then that field is
				if call, isCall := ast.Unparen(s.Rhs[0]).(*ast.CallExpr); isCall && len(s.Rhs) == 1 && isObj(info, s.Lhs[0], v) && len(call.Args) == 1 {
					rhs = call.Args[0]
				} else {
					continue
				}
			} else {
				for i, l := range s.Lhs {
					if isObj(info, l, v) {
						rhs = s.Rhs[i]
					}
				}
			}
		case *ast.ValueSpec:
			if len(s.Names) != len(s.Values) {
				continue
			}
			for i, nm := range s.Names {
				if info.Defs[nm] == v {
					rhs = s.Values[i]
				}
			}
		}
		if rhs == nil {
			continue
		}
		if at, src := defDisagrees(pk, env, rhs, field, aliases, depth+1); at != nil {
			return at, src
		}
		readsField := false
		core := ast.Unparen(rhs)
		if u, ok := core.(*ast.UnaryExpr); ok && u.Op == token.AND {
			core = ast.Unparen(u.X)
		}
		if _, isLit := core.(*ast.CompositeLit); isLit {
			continue // a literal built here: its own fields are checked where they are written
		}
		ast.Inspect(rhs, func(n ast.Node) bool {
			if se, ok := n.(*ast.SelectorExpr); ok {
				if sel := info.Selections[se]; sel != nil && (sel.Kind() == types.FieldVal || strings.HasPrefix(se.Sel.Name, "Get")) {
					readsField = true
				}
			}
			return true
		})
		if !readsField {
			continue
		}
		names := map[string]bool{}
		namesIn(pk, nil, rhs, 0, names)
		// through locals too, but not through the variable's own name
		ast.Inspect(rhs, func(n ast.Node) bool {
			if x, ok := n.(*ast.Ident); ok && info.Uses[x] != v {
				namesIn(pk, env, x, 1, names)
			}
			return true
		})
		agree := names[strings.ToLower(field)]
		for _, a := range aliases {
			if names[a] {
				agree = true
			}
			if x, y, isPair := strings.Cut(a, "&"); isPair && names[x] && names[y] {
				agree = true
			}
		}
		if !agree {
			return d, exprString(rhs)
		}
	}
	return nil, ""
}

// field aliases: a field that is legitimately fed from a differently named source
var fieldAliases = map[string][]string{
	"ClaimTaskRequest.ProcessId":      {"taskprocessid"},
	"ClaimTaskRequest.Ttl":            {"taskfrequency"},
	"HeartbeatTasksRequest.ProcessId": {"taskprocessid"},
	"CreateTaskRequest.PromiseId":     {"id"},
	"Promise.Param":                   {"paramheaders", "paramdata"},
	"Promise.Value":                   {"valueheaders", "valuedata"},
	"Schedule.PromiseParam":           {"promiseparamheaders", "promiseparamdata"},
	"Value.Headers":                   {"paramheaders", "valueheaders", "promiseparamheaders"},
	"Value.Data":                      {"paramdata", "valuedata", "promiseparamdata"},
	"Promise.CreatedOn":               {"createdon"},
	"Callback.PromiseId":              {"promiseid"},
	"MesgPromise.Data":                {"rootpromise", "leafpromise"},
	"MesgPromise.Href":                {"rootpromisehref", "leafpromisehref"},
	"MesgPromise.Id":                  {"root", "leaf"},
	"Mesg.Promises":                   {"promises"},
	"Recv.Type":                       {"type"},
}

func dataObjectType(t types.Type) (string, bool) {
	n := namedName(t)
	p := namedPkgPath(t)
	switch {
	case p == pkgTApi && strings.HasSuffix(n, "Request"):
		return n, true
	case p == pkgPb && n != "":
		return n, true
	case strings.HasPrefix(p, modPath+"/pkg/") && n != "" && !strings.HasSuffix(n, "Record"):
		return n, true
	}
	return "", false
}

// ruleNameAgreement (R16): in the front ends and the record decoders every field of a data object
// is fed from the identically named station (request field ← body/proto field of that name, API
// object field ← record field of that name, proto field ← API field of that name).
func ruleNameAgreement(c *Ctx) {
	pkgs := []string{pkgHttp, pkgGrpc, pkgPromise, pkgTask, pkgSchedule, pkgLock, pkgCallback}
	n := 0
	for _, pp := range pkgs {
		pk := c.P.Pkg(pp)
		if pk == nil {
			c.und("names/"+pp, 0, "package not loaded")
			continue
		}
		info := pk.TypesInfo
		for _, fd := range allFuncDecls(pk) {
			if isTestFile(c.P, fd.Pos()) {
				continue
			}
			env := newLocalEnv(pk, fd, nil)
			occ := map[string]int{}
			// nested literals: the parent field names the station (Param: Value{Data: …} must come from param data)
			parentField := map[*ast.CompositeLit]string{}
			ast.Inspect(fd.Body, func(nd ast.Node) bool {
				if kv, ok := nd.(*ast.KeyValueExpr); ok {
					v := ast.Unparen(kv.Value)
					if u, ok := v.(*ast.UnaryExpr); ok && u.Op == token.AND {
						v = ast.Unparen(u.X)
					}
					if inner, ok := v.(*ast.CompositeLit); ok {
						if _, isObj := dataObjectType(info.Types[inner].Type); isObj {
							parentField[inner] = exprString(kv.Key)
						}
					}
				}
				return true
			})
			ast.Inspect(fd.Body, func(nd ast.Node) bool {
				cl, ok := nd.(*ast.CompositeLit)
				if !ok {
					return true
				}
				tn, ok := dataObjectType(info.Types[cl].Type)
				if !ok {
					return true
				}
				parent := strings.ToLower(parentField[cl])
				for _, el := range cl.Elts {
					kv, ok := el.(*ast.KeyValueExpr)
					if !ok {
						continue
					}
					f := exprString(kv.Key)
					v := ast.Unparen(kv.Value)
					if u, ok := v.(*ast.UnaryExpr); ok && u.Op == token.AND {
						v = ast.Unparen(u.X)
					}
					if _, isLit := v.(*ast.CompositeLit); isLit {
						continue // nested object: its own fields are checked
					}
					if hc, isCall := v.(*ast.CallExpr); isCall {
						if hl := helperLiteral(pk, hc); hl != nil && types.Identical(derefType(info.Types[hl].Type), derefType(info.Types[kv.Value].Type)) {
							if _, isObj := dataObjectType(info.Types[hl].Type); isObj {
								continue // nested object built by a helper: its fields are checked in the helper
							}
						}
					}
					if tv, ok := info.Types[kv.Value]; ok && tv.Value != nil {
						continue // constant
					}
					if tv, ok := info.Types[kv.Value]; ok {
						if b, ok := tv.Type.Underlying().(*types.Basic); ok && b.Kind() == types.Bool {
							if _, isCmp := v.(*ast.BinaryExpr); isCmp {
								continue // an outcome flag computed by a comparison (checked by R13), not client data
							}
						}
					}
					if se, ok := v.(*ast.SelectorExpr); ok {
						if _, isConst := info.Uses[se.Sel].(*types.Const); isConst {
							continue
						}
					}
					if id, ok := v.(*ast.Ident); ok {
						if _, isNil := info.Uses[id].(*types.Nil); isNil {
							continue
						}
					}
					names := map[string]bool{}
					namesIn(pk, env, kv.Value, 0, names)
					ok2 := names[strings.ToLower(f)]
					// a local that is assigned on several paths (a default, a fallback): every
					// definition that reads a field of some message must read the identically named one
					{
						wantField, wantAliases := f, fieldAliases[tn+"."+f]
						if parent != "" && tn == "Value" {
							// the station of a nested Value member: <parent><member> (paramheaders, valuedata, promiseparamdata)
							// (or the pair: `r.Param.Headers` names the parent and the member)
							wantField, wantAliases = parent+strings.ToLower(f), []string{parent + "&" + strings.ToLower(f), strings.TrimPrefix(parent, "promise") + strings.ToLower(f)}
						}
						if at, src := defDisagrees(pk, env, v, wantField, wantAliases, 0); at != nil {
							n++
							key := fmt.Sprintf("names/%s.%s/%s.%s/def:%s", pk.Name, funcName(fd), tn, f, src)
							c.check(false, key, at.Pos(), f+" ← "+src, fmt.Sprintf("%s.%s is fed from %s on some path (through %s): a client datum would be stored or returned under another field", tn, f, src, exprString(kv.Value)))
						}
					}
					for _, a := range fieldAliases[tn+"."+f] {
						if names[a] {
							ok2 = true
						}
					}
					if parent != "" && tn == "Value" {
						// a Value nested under Param / Value / PromiseParam: the source must be that station's
						lf := strings.ToLower(f)
						ok2 = names[parent+lf] || (names[parent] && names[lf]) || names[strings.TrimPrefix(parent, "promise")+lf] && strings.HasPrefix(parent, "promise") && names["promise"+strings.TrimPrefix(parent, "promise")+lf]
						if names[parent+lf] || (names[parent] && names[lf]) {
							ok2 = true
						}
					}
					n++
					occ[tn+"."+f]++
					key := fmt.Sprintf("names/%s.%s/%s.%s", pk.Name, funcName(fd), tn, f)
					if occ[tn+"."+f] > 1 {
						key += fmt.Sprintf("#%d", occ[tn+"."+f])
					}
					c.check(ok2, key, kv.Pos(), f+" ← "+exprString(kv.Value), fmt.Sprintf("%s.%s is fed from %s, which does not come from a station named %s: a client datum would be stored or returned under another field", tn, f, exprString(kv.Value), f))
				}
				return true
			})
		}
	}
	c.count("data_object_fields", n)
	c.floor("data-object fields with a named source", n, 150)
}

// normalisers that must not lie on the path of an id or payload
var normaliserFuncs = map[string]bool{
	"strings.ToLower": true, "strings.ToUpper": true, "strings.TrimSpace": true, "strings.Trim": true, "strings.TrimLeft": true,
	"strings.TrimRight": true, "strings.TrimPrefix": true, "strings.TrimSuffix": true, "strings.Title": true, "strings.ToTitle": true,
	"strings.Map": true, "strings.Fields": true, "strings.ReplaceAll": true, "strings.Replace": true, "strings.NewReplacer": true,
	"strings.EqualFold": true, "util.RemoveWhitespace": true, "html.EscapeString": true, "html.UnescapeString": true,
	"url.QueryEscape": true, "url.PathEscape": true, "url.QueryUnescape": true, "url.PathUnescape": true,
	"template.HTMLEscapeString": true, "template.JSEscapeString": true, "strconv.Quote": true, "bytes.ToLower": true, "bytes.TrimSpace": true,
	"path.Clean": true, "filepath.Clean": true, "norm.String": true,
}

// the sites where a normaliser is applied to something that is not an id or payload
var allowedNormalisers = map[string]string{
	// keyed by package, normaliser and the ORIGIN of its operands (origin.go): stable under renaming
	// of locals and extraction of helpers; operands without a nameable origin carry the function
	"api/strings.ToLower(param:api.API.SearchPromises#1)":                      "the search state WORD (pending/resolved/rejected), not an id",
	"api/strings.ToLower(call:validator.FieldError.Field)":                     "the validator's field NAME in an error message",
	"api/strings.ReplaceAll(call:validator.FieldError.Field)":                  "error message text",
	"promise/State.UnmarshalJSON/strings.ToUpper(addr-taken|zero)":             "the state WORD in a request body",
	"http/strings.EqualFold(call:reflect.Value.String & call:strings.Split[])": "the state WORD validator",
	"sqlite/strings.ReplaceAll(field:t_aio.SearchPromisesCommand.Id)":          "search PATTERN: * → % (search patterns are exempt by the statement)",
	"sqlite/strings.ReplaceAll(field:t_aio.SearchSchedulesCommand.Id)":         "search PATTERN: * → %",
	"postgres/strings.ReplaceAll(field:t_aio.SearchPromisesCommand.Id)":        "search PATTERN: * → %",
	"postgres/strings.ReplaceAll(field:t_aio.SearchSchedulesCommand.Id)":       "search PATTERN: * → %",
	"sender/strings.TrimPrefix(field:url.URL.Path)":                            "URL syntax: the path of poll://group/id without its leading slash is the listener id",
	"util/RemoveWhitespace/strings.Map(expr & param:util.RemoveWhitespace#0)":  "helper definition (its call sites are judged)",
	"config/strings.NewReplacer()":                                             "configuration keys",
}

// ruleNoNormalisers (R15): no normalising / escaping function is applied in the packages that
// carry ids and payloads, except at the listed sites.
func ruleNoNormalisers(c *Ctx) {
	n := 0
	for _, pk := range c.P.Roots {
		if strings.HasPrefix(pk.PkgPath, modPath+"/cmd") || strings.Contains(pk.PkgPath, "/test") || pk.PkgPath == pkgPb || strings.HasPrefix(pk.PkgPath, modPath+"/pkg/client") || strings.HasSuffix(pk.PkgPath, "/metrics") || strings.HasSuffix(pk.PkgPath, "/pkg/log") {
			continue
		}
		info := pk.TypesInfo
		for _, fd := range allFuncDecls(pk) {
			if isTestFile(c.P, fd.Pos()) {
				continue
			}
			for _, call := range callsInDeep(fd.Body) {
				cn := calleeName(info, call)
				if !normaliserFuncs[cn] {
					continue
				}
				n++
				var ops []string
				for _, a := range call.Args {
					if tv, ok := info.Types[a]; ok && tv.Value == nil {
						ops = append(ops, originOf(pk, fd, a, 0))
					}
				}
				opd := strings.Join(ops, " & ")
				site := pk.Name + "/" + cn + "(" + opd + ")"
				for _, vague := range []string{"addr-taken", "expr", "local:", "zero", "…", "ident:", "sel:"} {
					if strings.Contains(opd, vague) {
						site = pk.Name + "/" + funcName(fd) + "/" + cn + "(" + opd + ")"
						break
					}
				}
				why, ok := allowedNormalisers[site]
				c.check(ok, "normaliser/"+site, call.Pos(), cn+" applied to "+why, cn+" is applied in "+pk.Name+"."+funcName(fd)+" ("+exprString(call)+"): ids and payloads must be stored, compared and returned exactly as supplied (no case folding, trimming or escaping)")
			}
		}
		// html/template escapes its operands
		for _, f := range pk.Syntax {
			if isTestFile(c.P, f.Pos()) {
				continue
			}
			for _, im := range f.Imports {
				if im.Path.Value == `"html/template"` {
					c.bad("R15-interpreted-text/html-template/"+pk.Name, im.Pos(), pk.PkgPath+" imports html/template: operands (client ids) are HTML-escaped when the template is executed")
				}
			}
		}
	}
	c.count("normaliser_call_sites", n)
	c.floor("normaliser call sites judged", n, 6)
	// router options that rewrite the request path before the wildcard id is extracted
	if hp := c.P.Pkg(pkgHttp); hp != nil {
		for _, fd := range allFuncDecls(hp) {
			ast.Inspect(fd.Body, func(nd ast.Node) bool {
				as, ok := nd.(*ast.AssignStmt)
				if !ok || len(as.Lhs) != 1 {
					return true
				}
				se, ok := as.Lhs[0].(*ast.SelectorExpr)
				if !ok || !isNamed(hp.TypesInfo.Types[se.X].Type, "github.com/gin-gonic/gin", "Engine") {
					return true
				}
				switch se.Sel.Name {
				case "RemoveExtraSlash", "RedirectFixedPath", "UseRawPath", "UnescapePathValues":
					c.bad("normaliser/gin."+se.Sel.Name, as.Pos(), "the HTTP router option "+se.Sel.Name+" is changed: request paths are cleaned / re-encoded before the wildcard id is extracted, so ids with empty, '.', '..' or escaped segments address a different promise than the one created through a body or gRPC")
				}
				return true
			})
		}
		c.ok("normaliser/gin-options", 0, "the HTTP router keeps gin's default path handling (no path cleaning)")
	}
	// extractId removes exactly the leading slash
	pk := c.P.Pkg(pkgHttp)
	fd := funcDecl(pk, "", "extractId")
	if fd == nil {
		c.und("extract-id", 0, "http.extractId not found")
	} else {
		ok := false
		if rs, isRet := fd.Body.List[len(fd.Body.List)-1].(*ast.ReturnStmt); isRet && len(rs.Results) == 1 {
			ok = exprString(rs.Results[0]) == "id[1:]"
		}
		c.check(ok, "extract-id", fd.Pos(), "wildcard route id minus exactly the leading '/'", "extractId no longer returns id[1:]: ids with slashes are altered")
	}
}

// ruleTimeoutWidth (R16): timeouts are int64 at every station.
func ruleTimeoutWidth(c *Ctx) {
	n := 0
	for _, pp := range []string{pkgTApi, pkgTAio, pkgPromise, pkgTask, pkgSchedule, pkgCallback, pkgPb, pkgHttp} {
		pk := c.P.Pkg(pp)
		if pk == nil {
			continue
		}
		for _, name := range pk.Types.Scope().Names() {
			tn, ok := pk.Types.Scope().Lookup(name).(*types.TypeName)
			if !ok {
				continue
			}
			st, ok := tn.Type().Underlying().(*types.Struct)
			if !ok {
				continue
			}
			for i := 0; i < st.NumFields(); i++ {
				f := st.Field(i)
				switch f.Name() {
				case "Timeout", "PromiseTimeout", "CreatedOn", "CompletedOn", "NextRunTime", "LastRunTime", "ExpiresAt":
					n++
					t := f.Type()
					if p, ok := t.(*types.Pointer); ok {
						t = p.Elem()
					}
					b, ok := t.Underlying().(*types.Basic)
					c.check(ok && b.Kind() == types.Int64, fmt.Sprintf("width/%s.%s.%s", pk.Name, name, f.Name()), f.Pos(), "int64", fmt.Sprintf("%s.%s.%s is %s, not int64: timeouts over the full 64-bit range are truncated at this station", pk.Name, name, f.Name(), f.Type()))
				}
			}
		}
	}
	c.count("time_fields", n)
	c.floor("time-valued fields", n, 40)
}

// ruleScanTargets is covered by R1/R2 (scan alignment); ruleCodecPairs: maps are written with
// json.Marshal and read with json.Unmarshal into the same map type; bytes are passed through.
func ruleCodecPairs(c *Ctx) {
	n := 0
	for _, t := range [][3]string{{pkgPromise, "PromiseRecord", "Promise"}, {pkgSchedule, "ScheduleRecord", "Schedule"}} {
		pk := c.P.Pkg(t[0])
		rec := funcDecl(pk, t[1], t[2])
		key := "codec/" + pk.Name + ".bytesToMap"
		if rec == nil {
			c.und("codec/"+pk.Name, 0, t[1]+"."+t[2]+" not found in "+t[0])
			continue
		}
		// the decoder of the stored map columns: whatever function the record decoder hands a []byte
		// column to and gets a map[string]string (and an error) from — wherever it lives
		decoders := map[*types.Func]bool{}
		for _, call := range callsInDeep(rec.Body) {
			fn, ok := calleeOf(pk.TypesInfo, call).(*types.Func)
			if !ok || fn.Pkg() == nil || !strings.HasPrefix(fn.Pkg().Path(), modPath) {
				continue
			}
			sig := fn.Type().(*types.Signature)
			if sig.Results().Len() == 2 && isErrorType(sig.Results().At(1).Type()) {
				if m, ok := sig.Results().At(0).Type().Underlying().(*types.Map); ok && m.Key().String() == "string" && m.Elem().String() == "string" {
					decoders[fn] = true
				}
			}
		}
		if len(decoders) == 0 {
			// decoded in place (a loop over the columns): the record decoder itself is the codec
			decoders[pk.TypesInfo.Defs[rec.Name].(*types.Func)] = true
		}
		n++
		okJSON, other := true, false
		for fn := range decoders {
			dpk := c.P.Pkg(fn.Pkg().Path())
			fd := funcDeclOf(dpk, fn)
			if fd == nil || fd.Body == nil {
				okJSON = false
				continue
			}
			has := false
			for _, call := range callsInDeep(fd.Body) {
				cn := calleeName(dpk.TypesInfo, call)
				if cn == "json.Unmarshal" {
					has = true
				}
				if normaliserFuncs[cn] {
					other = true
				}
			}
			if !has {
				okJSON = false
			}
		}
		c.check(okJSON && !other, key, rec.Pos(), "stored maps are decoded with plain json.Unmarshal (inverse of the json.Marshal that wrote them)", "the decoder of the stored map columns is no longer the plain inverse of json.Marshal")
	}
	c.count("codec_pairs", n)
	_ = sort.Strings
}

// ruleSearchText (R15, findings F15): the client's id pattern and tag keys reach positions where
// SQL interprets them — the LIKE pattern (where '_' and '%' are wildcards besides the documented
// '*') and, on SQLite, the JSON path built from a tag key.
func ruleSearchText(dialectOnly bool) ruleFn {
	return func(c *Ctx) {
		m := c.sqlModel()
		if m.Err != nil {
			c.und("model", 0, m.Err.Error())
			return
		}
		n := 0
		for _, b := range m.Backends {
			for _, k := range []string{"SearchPromises", "SearchSchedules"} {
				a := b.Arms[k]
				if a == nil {
					continue
				}
				for _, r := range b.resolveArm(c.P, a) {
					if r.Problem != "" || r.Facts == nil {
						continue
					}
					n++
					likeRaw := false
					for _, w := range r.Facts.Where {
						if strings.Contains(w, " LIKE :like(") {
							likeRaw = true
						}
					}
					hasEscape := strings.Contains(strings.ToUpper(r.Text), "ESCAPE")
					if dialectOnly {
						// C17: LIKE is ASCII-case-insensitive in SQLite and case-sensitive in Postgres
						c.check(!likeRaw, "dialect/like-case/"+k+"/"+b.Name, r.Pos, "no dialect-sensitive pattern operator", "the id filter uses LIKE, whose case sensitivity differs between the engines (SQLite folds ASCII case, Postgres does not): the same search returns different rows on the two backends")
						continue
					}
					c.check(!likeRaw || hasEscape, "like-pattern/"+b.Name+"/"+k, r.Pos, "LIKE operand is escaped", "the id pattern reaches LIKE with only '*' translated to '%': '_' and '%' inside the client's pattern are wildcards too (and on SQLite the match ignores ASCII case), so a search returns promises that do not match the query")
					if b.Name == "sqlite" {
						jsonPath := false
						for _, arg := range r.E.Args {
							if strings.Contains(arg, `"$."+key`) {
								jsonPath = true
							}
						}
						c.check(!jsonPath, "json-path/"+b.Name+"/"+k, r.Pos, "tag keys are not spliced into a JSON path", "the tag key is concatenated into a JSON path (\"$.\"+key): a key containing '.', '[' or '\"' addresses a different member, so promises carrying the tag are not returned")
					}
				}
			}
		}
		c.floor("search statements inspected", n, 4)
	}
}

// ruleDefaultsOnlyForZero (R16): a client datum (a field of a request, command or decoded object, or
// a parameter) is replaced by an empty map / slice only where it was found to be nil / empty — the
// "normalise nil to empty" idiom. The same assignment outside such a test silently drops the
// client's headers, data or tags.
func ruleDefaultsOnlyForZero(c *Ctx) {
	n := 0
	for path, pk := range c.P.ByPath {
		if !strings.HasPrefix(path, modPath+"/internal/app/") && !strings.HasPrefix(path, modPath+"/internal/kernel/") {
			continue
		}
		info := pk.TypesInfo
		for _, fd := range allFuncDecls(pk) {
			if fd.Body == nil || isTestFile(c.P, fd.Pos()) {
				continue
			}
			occ := map[string]int{}
			ast.Inspect(fd.Body, func(nd ast.Node) bool {
				as, ok := nd.(*ast.AssignStmt)
				if !ok || as.Tok != token.ASSIGN || len(as.Lhs) != len(as.Rhs) {
					return true
				}
				for i, l := range as.Lhs {
					cl, ok := ast.Unparen(as.Rhs[i]).(*ast.CompositeLit)
					if !ok || !emptyishLiteral(info, cl) {
						continue
					}
					switch info.Types[cl].Type.Underlying().(type) {
					case *types.Map, *types.Slice:
					case *types.Struct:
						// a whole value replaced by "the empty value" (Value{Headers: {}, Data: {}})
					default:
						continue
					}
					// target: a field path or a parameter (not a local being initialised)
					target := ast.Unparen(l)
					switch x := target.(type) {
					case *ast.SelectorExpr:
					case *ast.Ident:
						v, ok := info.Uses[x].(*types.Var)
						if !ok || !isParamVar(info, fd.Type, v) {
							continue
						}
					default:
						continue
					}
					n++
					key := fmt.Sprintf("zero-default/%s.%s/%s", pk.Name, funcName(fd), exprString(target))
					occ[key]++
					if occ[key] > 1 {
						key += fmt.Sprintf("#%d", occ[key])
					}
					c.check(underZeroTest(fd.Body, as, target), key, as.Pos(), "assigned only where "+exprString(target)+" was nil / empty",
						exprString(target)+" is replaced by an empty value without having been found nil / empty: what the client sent there is dropped")
				}
				return true
			})
		}
	}
	c.count("zero_defaults", n)
	c.floor("zero defaults", n, 10)
}

// underZeroTest: the innermost if statement around the node tests the target for nil / emptiness
// and the node is on the side where it is nil / empty.
func underZeroTest(root ast.Node, node ast.Node, target ast.Expr) bool {
	want := exprString(target)
	var zeroTest func(e ast.Expr) (isZero bool, ok bool)
	zeroTest = func(e ast.Expr) (bool, bool) {
		e = ast.Unparen(e)
		switch x := e.(type) {
		case *ast.UnaryExpr:
			if x.Op == token.NOT {
				z, ok := zeroTest(x.X)
				return !z, ok
			}
		case *ast.BinaryExpr:
			if x.Op == token.LOR || x.Op == token.LAND {
				// nil-or-empty / non-nil-and-non-empty of the same target
				z1, ok1 := zeroTest(x.X)
				z2, ok2 := zeroTest(x.Y)
				if ok1 && ok2 && z1 == z2 && ((x.Op == token.LOR) == z1) {
					return z1, true
				}
				return false, false
			}
			if x.Op != token.EQL && x.Op != token.NEQ && x.Op != token.GTR {
				return false, false
			}
			l, r := ast.Unparen(x.X), ast.Unparen(x.Y)
			if exprString(l) == "nil" || exprString(l) == "0" {
				if x.Op == token.GTR {
					return false, false
				}
				l, r = r, l
			}
			subject := ""
			switch {
			case exprString(r) == "nil":
				subject = exprString(l)
			case exprString(r) == "0":
				if call, ok := l.(*ast.CallExpr); ok && exprString(call.Fun) == "len" && len(call.Args) == 1 {
					subject = exprString(ast.Unparen(call.Args[0]))
				} else {
					subject = exprString(l) // a number compared with its zero value
				}
			case exprString(r) == `""`:
				subject = exprString(l)
			}
			if subject != want {
				return false, false
			}
			return x.Op == token.EQL, true
		}
		return false, false
	}
	chain := enclosing(root, node)
	for i := len(chain) - 1; i >= 0; i-- {
		ifs, ok := chain[i].(*ast.IfStmt)
		if !ok {
			continue
		}
		z, ok := zeroTest(ifs.Cond)
		if !ok {
			return false
		}
		if containsNode(ifs.Body, node) {
			return z
		}
		return !z
	}
	return false
}

// ruleClientFieldsNotRewritten (C15/C20, R16): what a front end copied from the client's message
// into a field of the kernel request is what the kernel gets. A later assignment to that field on a
// path on which the field holds the client's value — typically a default applied "when it is zero"
// after the branches of the GET-link form and the POST-body form were merged — replaces a value the
// client legitimately sent (ttl 0, an empty id) by the server's, in this protocol only.
func ruleClientFieldsNotRewritten(c *Ctx) {
	n := 0
	for _, pp := range []string{pkgHttp, pkgGrpc} {
		pk := c.P.Pkg(pp)
		if pk == nil {
			c.und("client-fields/"+pp, 0, "package not loaded")
			continue
		}
		info := pk.TypesInfo
		clientSourced := func(fd *ast.FuncDecl, e ast.Expr) bool {
			found := false
			ast.Inspect(e, func(x ast.Node) bool {
				se, ok := x.(*ast.SelectorExpr)
				if !ok {
					return true
				}
				root := ast.Unparen(se.X)
				for {
					if s2, ok := root.(*ast.SelectorExpr); ok {
						root = ast.Unparen(s2.X)
						continue
					}
					break
				}
				id, ok := root.(*ast.Ident)
				if !ok {
					return true
				}
				v, ok := info.Uses[id].(*types.Var)
				if !ok {
					return true
				}
				t := derefType(v.Type())
				switch {
				case namedPkgPath(t) == pkgPb:
					found = true
				case namedPkgPath(t) == pp:
					if _, isStruct := t.Underlying().(*types.Struct); isStruct && !isParamVar(info, fd.Type, v) && (fd.Recv == nil || !isParamVarList(info, fd.Recv, v)) {
						found = true // a binding struct (header / body / query) declared in the handler
					}
				}
				return true
			})
			return found
		}
		for _, fd := range allFuncDecls(pk) {
			if fd.Body == nil || isTestFile(c.P, fd.Pos()) {
				continue
			}
			// request-typed locals
			isReqVar := func(e ast.Expr) types.Object {
				id, ok := ast.Unparen(e).(*ast.Ident)
				if !ok {
					return nil
				}
				o := info.Uses[id]
				if o == nil {
					o = info.Defs[id]
				}
				if o == nil {
					return nil
				}
				t := derefType(o.Type())
				if namedPkgPath(t) == pkgTApi && strings.HasSuffix(namedName(t), "Request") {
					return o
				}
				return nil
			}
			type fact struct {
				obj types.Object
				f   string
			}
			gen := func(nd ast.Node) (sets []fact, resets []types.Object) {
				var lhs, rhs []ast.Expr
				switch s := nd.(type) {
				case *ast.AssignStmt:
					if len(s.Lhs) == len(s.Rhs) {
						lhs, rhs = s.Lhs, s.Rhs
					}
				case *ast.DeclStmt:
					if gd, ok := s.Decl.(*ast.GenDecl); ok {
						for _, sp := range gd.Specs {
							if vs, ok := sp.(*ast.ValueSpec); ok && len(vs.Names) == len(vs.Values) {
								for i := range vs.Names {
									lhs = append(lhs, vs.Names[i])
									rhs = append(rhs, vs.Values[i])
								}
							}
						}
					}
				}
				for i, l := range lhs {
					o := isReqVar(l)
					if o == nil {
						continue
					}
					r := ast.Unparen(rhs[i])
					if u, ok := r.(*ast.UnaryExpr); ok && u.Op == token.AND {
						r = ast.Unparen(u.X)
					}
					cl, ok := r.(*ast.CompositeLit)
					if !ok {
						continue
					}
					resets = append(resets, o)
					for _, el := range cl.Elts {
						if kv, ok := el.(*ast.KeyValueExpr); ok && clientSourced(fd, kv.Value) {
							sets = append(sets, fact{o, exprString(kv.Key)})
						}
					}
				}
				return
			}
			hasReq := false
			ast.Inspect(fd.Body, func(x ast.Node) bool {
				if as, ok := x.(*ast.AssignStmt); ok {
					for _, l := range as.Lhs {
						if se, ok := ast.Unparen(l).(*ast.SelectorExpr); ok && isReqVar(se.X) != nil {
							hasReq = true
						}
					}
				}
				return true
			})
			if !hasReq {
				continue
			}
			g := buildCFG(pk, fd.Body)
			in := make([]map[fact]bool, len(g.Blocks))
			in[0] = map[fact]bool{}
			flow := func(st map[fact]bool, nd ast.Node) {
				sets, resets := gen(nd)
				for _, o := range resets {
					for k := range st {
						if k.obj == o {
							delete(st, k)
						}
					}
				}
				for _, s := range sets {
					st[s] = true
				}
			}
			for changed, it := true, 0; changed && it < 4*len(g.Blocks)+8; it++ {
				changed = false
				for _, b := range g.Blocks {
					if in[b.Index] == nil {
						continue
					}
					st := map[fact]bool{}
					for k := range in[b.Index] {
						st[k] = true
					}
					for _, nd := range b.Nodes {
						flow(st, nd)
					}
					for _, sc := range b.Succs {
						if in[sc.Index] == nil {
							in[sc.Index] = map[fact]bool{}
							changed = true
						}
						for k := range st {
							if !in[sc.Index][k] {
								in[sc.Index][k] = true
								changed = true
							}
						}
					}
				}
			}
			occ := map[string]int{}
			for _, b := range g.Blocks {
				if in[b.Index] == nil {
					continue
				}
				st := map[fact]bool{}
				for k := range in[b.Index] {
					st[k] = true
				}
				for _, nd := range b.Nodes {
					if as, ok := nd.(*ast.AssignStmt); ok && len(as.Lhs) == len(as.Rhs) {
						for i, l := range as.Lhs {
							se, ok := ast.Unparen(l).(*ast.SelectorExpr)
							if !ok {
								continue
							}
							o := isReqVar(se.X)
							if o == nil {
								continue
							}
							n++
							f := se.Sel.Name
							key := fmt.Sprintf("client-fields/%s.%s/%s.%s", pk.Name, funcName(fd), namedName(derefType(o.Type())), f)
							occ[key]++
							if occ[key] > 1 {
								key += fmt.Sprintf("#%d", occ[key])
							}
							c.check(!st[fact{o, f}] || clientSourced(fd, as.Rhs[i]), key, as.Pos(), "assigned only where the field does not hold a client value", fmt.Sprintf("%s.%s, which on some path already holds what the client sent, is overwritten with %s: a value the client legitimately sent (zero, empty) is replaced by the server's in this protocol only", exprString(se.X), f, exprString(as.Rhs[i])))
						}
					}
					flow(st, nd)
				}
			}
		}
	}
	c.count("request_field_assignments", n)
}

func isParamVarList(info *types.Info, fl *ast.FieldList, v *types.Var) bool {
	if fl == nil {
		return false
	}
	for _, f := range fl.List {
		for _, nm := range f.Names {
			if info.Defs[nm] == v {
				return true
			}
		}
	}
	return false
}

// emptyishLiteral: a composite literal without elements, or a struct literal all of whose fields are
// themselves empty literals / zero constants.
func emptyishLiteral(info *types.Info, cl *ast.CompositeLit) bool {
	if len(cl.Elts) == 0 {
		return true
	}
	if _, isStruct := info.Types[cl].Type.Underlying().(*types.Struct); !isStruct {
		return false
	}
	for _, el := range cl.Elts {
		kv, ok := el.(*ast.KeyValueExpr)
		if !ok {
			return false
		}
		switch v := ast.Unparen(kv.Value).(type) {
		case *ast.CompositeLit:
			if !emptyishLiteral(info, v) {
				return false
			}
		case *ast.BasicLit:
			if v.Value != "0" && v.Value != `""` {
				return false
			}
		case *ast.Ident:
			if v.Name != "nil" && v.Name != "false" {
				return false
			}
		default:
			return false
		}
	}
	return true
}

// ruleKeyedSubobjects (C15/C19/C20, R16): an object filed under a constant string key
// (`"root": {…}`, `"leaf": &pb.MesgPromise{…}`) is built from the members named after that key:
// every element that reads a field mentions the key in the names it reads (Mesg.Root,
// RootPromiseHref, RootPromise under "root"). A root / leaf mix-up in a claim response or a
// dispatched body compiles (the members have the same types) and hands the worker the wrong promise.
func ruleKeyedSubobjects(c *Ctx) {
	n := 0
	for _, pp := range []string{pkgHttp, pkgGrpc, pkgCoroutines, pkgSender} {
		pk := c.P.Pkg(pp)
		if pk == nil {
			c.und("keyed-subobjects/"+pp, 0, "package not loaded")
			continue
		}
		info := pk.TypesInfo
		for _, fd := range allFuncDecls(pk) {
			if fd.Body == nil || isTestFile(c.P, fd.Pos()) {
				continue
			}
			env := newLocalEnv(pk, fd, nil)
			occ := map[string]int{}
			ast.Inspect(fd.Body, func(nd ast.Node) bool {
				kv, ok := nd.(*ast.KeyValueExpr)
				if !ok {
					// m["leaf"] = T{…}
					as, isAs := nd.(*ast.AssignStmt)
					if !isAs || len(as.Lhs) != 1 || len(as.Rhs) != 1 {
						return true
					}
					ix, isIx := ast.Unparen(as.Lhs[0]).(*ast.IndexExpr)
					if !isIx {
						return true
					}
					kv = &ast.KeyValueExpr{Key: ix.Index, Value: as.Rhs[0]}
				}
				kl, ok := ast.Unparen(kv.Key).(*ast.BasicLit)
				if !ok || kl.Kind != token.STRING {
					return true
				}
				key := strings.ToLower(strings.Trim(kl.Value, "\"`"))
				v := ast.Unparen(kv.Value)
				if u, ok := v.(*ast.UnaryExpr); ok && u.Op == token.AND {
					v = ast.Unparen(u.X)
				}
				sub, ok := v.(*ast.CompositeLit)
				if !ok || len(key) < 3 {
					return true
				}
				for _, el := range sub.Elts {
					ekv, ok := el.(*ast.KeyValueExpr)
					if !ok {
						continue
					}
					ev := ast.Unparen(ekv.Value)
					if u, ok := ev.(*ast.UnaryExpr); ok && u.Op == token.AND {
						ev = ast.Unparen(u.X)
					}
					if _, isLit := ev.(*ast.CompositeLit); isLit {
						continue
					}
					reads := false
					ast.Inspect(ev, func(x ast.Node) bool {
						if se, ok := x.(*ast.SelectorExpr); ok {
							if sel := info.Selections[se]; sel != nil && sel.Kind() == types.FieldVal {
								reads = true
							}
						}
						return true
					})
					if !reads {
						continue
					}
					names := map[string]bool{}
					namesIn(pk, env, ev, 0, names)
					hit := false
					for nm := range names {
						if strings.Contains(nm, key) {
							hit = true
						}
					}
					n++
					k := fmt.Sprintf("keyed-subobject/%s.%s/%s.%s", pk.Name, funcName(fd), key, strings.Trim(exprString(ekv.Key), "\""))
					occ[k]++
					if occ[k] > 1 {
						k += fmt.Sprintf("#%d", occ[k])
					}
					c.check(hit, k, ekv.Pos(), "built from the members named after its key", fmt.Sprintf("the object filed under %q takes %s from %s, which is not a member named after %q: the %s entry carries another entry's data", key, exprString(ekv.Key), exprString(ekv.Value), key, key))
				}
				return true
			})
		}
	}
	c.count("keyed_subobject_members", n)
}
