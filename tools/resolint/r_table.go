package main

// R7 decision tables: the decision a function makes is extracted by enumerating the paths of its
// control-flow graph, each path being a conjunction of canonical atoms and an outcome; the spec is
// a Go function over the same atoms, written from the property statement. Comparison is semantic:
// for every path the spec, evaluated on the path's facts (forking over anything the path leaves
// open), must yield exactly the path's outcome.

import (
	"fmt"
	"go/ast"
	"go/token"
	"go/types"
	"regexp"
	"sort"
	"strings"

	"golang.org/x/tools/go/cfg"
	"golang.org/x/tools/go/packages"
)

// formula over canonical base atoms
type formula struct {
	Op   string // atom, not, and, or
	Atom string
	Args []*formula
}

func (f *formula) String() string {
	switch f.Op {
	case "atom":
		return f.Atom
	case "not":
		return "¬" + f.Args[0].String()
	}
	var parts []string
	for _, a := range f.Args {
		parts = append(parts, a.String())
	}
	sep := " ∧ "
	if f.Op == "or" {
		sep = " ∨ "
	}
	return "(" + strings.Join(parts, sep) + ")"
}

func (f *formula) atoms(out map[string]bool) {
	if f.Op == "atom" {
		out[f.Atom] = true
	}
	for _, a := range f.Args {
		a.atoms(out)
	}
}

// eval: 1 true, 0 false, -1 unknown (three-valued) under a partial valuation
func (f *formula) eval(v map[string]bool) int {
	switch f.Op {
	case "atom":
		if b, ok := v[f.Atom]; ok {
			if b {
				return 1
			}
			return 0
		}
		return -1
	case "not":
		x := f.Args[0].eval(v)
		if x < 0 {
			return -1
		}
		return 1 - x
	case "and":
		res := 1
		for _, a := range f.Args {
			switch a.eval(v) {
			case 0:
				return 0
			case -1:
				res = -1
			}
		}
		return res
	case "or":
		res := 0
		for _, a := range f.Args {
			switch a.eval(v) {
			case 1:
				return 1
			case -1:
				res = -1
			}
		}
		return res
	}
	return -1
}

// condFormula builds the formula of a Go condition over base atoms (see normFact).
func (pe *provEnv) condFormula(e ast.Expr, depth int) *formula {
	e = ast.Unparen(e)
	switch x := e.(type) {
	case *ast.UnaryExpr:
		if x.Op == token.NOT {
			return &formula{Op: "not", Args: []*formula{pe.condFormula(x.X, depth)}}
		}
	case *ast.BinaryExpr:
		switch x.Op {
		case token.LAND:
			return &formula{Op: "and", Args: []*formula{pe.condFormula(x.X, depth), pe.condFormula(x.Y, depth)}}
		case token.LOR:
			return &formula{Op: "or", Args: []*formula{pe.condFormula(x.X, depth), pe.condFormula(x.Y, depth)}}
		}
	case *ast.Ident:
		// a local boolean defined once by an expression: expand structurally
		if depth < 4 {
			info := pe.pk.TypesInfo
			if v, ok := info.Uses[x].(*types.Var); ok && !pe.isParam(v) {
				if b, ok := v.Type().Underlying().(*types.Basic); ok && b.Kind() == types.Bool {
					var real []ast.Node
					for _, d := range pe.defs[v] {
						if vs, ok := d.(*ast.ValueSpec); ok && len(vs.Values) == 0 {
							continue
						}
						real = append(real, d)
					}
					if len(real) == 1 {
						if as, ok := real[0].(*ast.AssignStmt); ok && len(as.Lhs) == 1 && len(as.Rhs) == 1 {
							if _, isCall := ast.Unparen(as.Rhs[0]).(*ast.CallExpr); !isCall {
								return pe.condFormula(as.Rhs[0], depth+1)
							}
						}
					}
				}
			}
		}
	}
	if ents, k, eq, ok := pe.comparisonPartition(e); ok {
		return partitionFormula(ents, k, eq)
	}
	as := pe.condAtoms(e, false)
	if len(as) == 1 {
		nf := normAtom(as[0])
		if nf.neg {
			return &formula{Op: "not", Args: []*formula{{Op: "atom", Atom: nf.atom}}}
		}
		return &formula{Op: "atom", Atom: nf.atom}
	}
	return &formula{Op: "atom", Atom: pe.prov(e)}
}

type pathFact struct {
	F   *formula
	Val bool
	E   ast.Expr // the source condition (nil for assumed facts)
}

type codePath struct {
	Facts   []pathFact
	Nodes   []ast.Node
	Ret     *ast.ReturnStmt
	End     token.Pos
	Outcome string
}

// enumPaths enumerates the acyclic paths from entry to every exit (loops are cut at the first
// revisit of a block). atomsOf gives the canonical atoms of a condition.
func enumPaths(g *cfg.CFG, formulaOf func(ast.Expr, int) *formula, max int) ([]*codePath, bool) {
	return enumPathsX(g, formulaOf, nil, nil, max)
}

// enumPathsX: caseTag maps a switch case expression to its switch tag (the branch condition is
// tag == case); assume extracts the condition of an assertion statement (taken as a fact).
func enumPathsX(g *cfg.CFG, formulaOf func(ast.Expr, int) *formula, caseTag map[ast.Expr]ast.Expr, assume func(ast.Node) ast.Expr, max int) ([]*codePath, bool) {
	var out []*codePath
	complete := true
	var facts []pathFact
	var nodes []ast.Node
	onPath := map[*cfg.Block]bool{}
	var walk func(b *cfg.Block)
	walk = func(b *cfg.Block) {
		if len(out) >= max {
			complete = false
			return
		}
		if onPath[b] {
			return // loop: the iteration space is not part of the decision
		}
		onPath[b] = true
		markN := len(nodes)
		defer func() { onPath[b] = false; nodes = nodes[:markN] }()
		markA := len(facts)
		defer func() { facts = facts[:markA] }()
		for _, nd := range b.Nodes {
			nodes = append(nodes, nd)
			if rs, ok := nd.(*ast.ReturnStmt); ok {
				out = append(out, &codePath{Facts: append([]pathFact(nil), facts...), Nodes: append([]ast.Node(nil), nodes...), Ret: rs, End: rs.Pos()})
				return
			}
			if assume != nil {
				if cond := assume(nd); cond != nil {
					facts = append(facts, pathFact{F: formulaOf(cond, 0), Val: true})
				}
			}
		}
		if len(b.Succs) == 0 {
			end := token.NoPos
			if len(b.Nodes) > 0 {
				end = b.Nodes[len(b.Nodes)-1].End()
			}
			out = append(out, &codePath{Facts: append([]pathFact(nil), facts...), Nodes: append([]ast.Node(nil), nodes...), End: end})
			return
		}
		if len(b.Succs) == 2 && len(b.Nodes) > 0 {
			if cond, ok := b.Nodes[len(b.Nodes)-1].(ast.Expr); ok {
				f := formulaOf(cond, 0)
				src := cond
				if tag, ok := caseTag[cond]; ok {
					src = &ast.BinaryExpr{X: tag, Op: token.EQL, Y: cond}
					f = formulaOf(src, 0)
				}
				for i, s := range b.Succs {
					markF := len(facts)
					facts = append(facts, pathFact{F: f, Val: i == 0, E: src})
					walk(s)
					facts = facts[:markF]
				}
				return
			}
		}
		for _, s := range b.Succs {
			walk(s)
		}
	}
	walk(g.Blocks[0])
	return out, complete
}

type normedAtom struct {
	atom string
	neg  bool
}

// normAtom brings an atom to a positive base form: != ⇒ ¬==, (a < b) ⇒ ¬(b <= a), !P ⇒ ¬P.
func normAtom(atom string) normedAtom {
	if strings.HasPrefix(atom, "!") && !strings.HasPrefix(atom, "!(") {
		n := normAtom(strings.TrimPrefix(atom, "!"))
		return normedAtom{n.atom, !n.neg}
	}
	if strings.HasPrefix(atom, "!(") && strings.HasSuffix(atom, ")") && balanced(atom[2:len(atom)-1]) {
		n := normAtom("(" + atom[2:len(atom)-1] + ")")
		return normedAtom{n.atom, !n.neg}
	}
	if l, op, r, ok := splitCmpOp(atom); ok {
		switch op {
		case "!=":
			return normedAtom{"(" + l + " == " + r + ")", true}
		case "<":
			return normedAtom{"(" + r + " <= " + l + ")", true}
		}
	}
	return normedAtom{atom, false}
}

func balanced(s string) bool {
	d := 0
	for _, c := range s {
		switch c {
		case '(':
			d++
		case ')':
			d--
			if d < 0 {
				return false
			}
		}
	}
	return d == 0
}

// splitCmpOp splits "(l op r)" at the top-level operator.
func splitCmpOp(atom string) (l, op, r string, ok bool) {
	if !strings.HasPrefix(atom, "(") || !strings.HasSuffix(atom, ")") {
		return
	}
	in := atom[1 : len(atom)-1]
	d := 0
	for i := 0; i < len(in); i++ {
		switch in[i] {
		case '(', '{', '[':
			d++
		case ')', '}', ']':
			d--
		case ' ':
			if d == 0 {
				for _, o := range []string{" == ", " != ", " <= ", " < "} {
					if strings.HasPrefix(in[i:], o) {
						return in[:i], strings.TrimSpace(o), in[i+len(o):], true
					}
				}
			}
		}
	}
	return
}

// ---- valuation with forking ----

type needFork struct{ atom string }

type valuation struct {
	facts map[string]bool
	used  map[string]bool
}

// B returns the truth of a base atom; when the path leaves it open the evaluation forks.
func (v *valuation) B(atom string) bool {
	v.used[atom] = true
	if b, ok := v.facts[atom]; ok {
		return b
	}
	// equalities with enum constants: X == C is false when the path knows X == D for another D
	if l, op, r, ok := splitCmpOp(atom); ok && op == "==" {
		for a, val := range v.facts {
			if l2, op2, r2, ok2 := splitCmpOp(a); ok2 && op2 == "==" && l2 == l && val && r2 != r && isConstName(r) && isConstName(r2) {
				return false
			}
		}
	}
	panic(needFork{atom})
}

func isConstName(s string) bool {
	if s == "" || strings.ContainsAny(s, ".( ") {
		return false
	}
	return (s[0] >= 'A' && s[0] <= 'Z') || (s[0] >= '0' && s[0] <= '9') || s[0] == '"' || s == "nil"
}

// Eq: X == C
func (v *valuation) Eq(x, c string) bool { return v.B("(" + x + " == " + c + ")") }

// LE: a <= b
func (v *valuation) LE(a, b string) bool { return v.B("(" + a + " <= " + b + ")") }

// decompose splits path facts into atomic facts and residual constraints.
func decompose(fs []pathFact) (atoms map[string]bool, residual []pathFact, contradictory bool) {
	atoms = map[string]bool{}
	var add func(f *formula, val bool)
	add = func(f *formula, val bool) {
		switch {
		case f.Op == "atom":
			if old, ok := atoms[f.Atom]; ok && old != val {
				contradictory = true
			}
			atoms[f.Atom] = val
		case f.Op == "not":
			add(f.Args[0], !val)
		case f.Op == "and" && val, f.Op == "or" && !val:
			for _, a := range f.Args {
				add(a, val)
			}
		default:
			residual = append(residual, pathFact{F: f, Val: val})
		}
	}
	for _, f := range fs {
		add(f.F, f.Val)
	}
	return
}

// satisfiable: can the residual constraints all hold under some completion of v?
func satisfiable(v map[string]bool, residual []pathFact) bool {
	open := map[string]bool{}
	for _, r := range residual {
		r.F.atoms(open)
	}
	var names []string
	for a := range open {
		if _, ok := v[a]; !ok {
			names = append(names, a)
		}
	}
	sort.Strings(names)
	if len(names) > 12 {
		return true
	}
	cur := map[string]bool{}
	for k, val := range v {
		cur[k] = val
	}
	var try func(i int) bool
	try = func(i int) bool {
		if i == len(names) {
			if !consistent(cur) {
				return false
			}
			for _, r := range residual {
				want := 0
				if r.Val {
					want = 1
				}
				if r.F.eval(cur) != want {
					return false
				}
			}
			return true
		}
		for _, b := range []bool{true, false} {
			cur[names[i]] = b
			if try(i + 1) {
				delete(cur, names[i])
				return true
			}
		}
		delete(cur, names[i])
		return false
	}
	return try(0)
}

// evalSpec evaluates spec over all completions of the path facts that satisfy the residual
// constraints; returns the set of outcomes.
func evalSpec(spec func(v *valuation) string, facts map[string]bool, residual []pathFact) (outs map[string]bool) {
	outs = map[string]bool{}
	var run func(f map[string]bool, d int)
	run = func(f map[string]bool, d int) {
		if d > 14 {
			outs["<too many open atoms>"] = true
			return
		}
		if !consistent(f) || !satisfiable(f, residual) {
			return
		}
		var need *needFork
		var res string
		func() {
			defer func() {
				if r := recover(); r != nil {
					if nf, ok := r.(needFork); ok {
						need = &nf
						return
					}
					panic(r)
				}
			}()
			res = spec(&valuation{facts: f, used: map[string]bool{}})
		}()
		if need == nil {
			outs[res] = true
			return
		}
		for _, b := range []bool{true, false} {
			nf := map[string]bool{}
			for k, val := range f {
				nf[k] = val
			}
			nf[need.atom] = b
			run(nf, d+1)
		}
	}
	run(facts, 0)
	return outs
}

// consistent: at most one equality with an enum constant is true per left-hand side.
func consistent(f map[string]bool) bool {
	seen := map[string]string{}
	for a, val := range f {
		if l, op, r, ok := splitCmpOp(a); ok && op == "==" && val && isConstName(r) {
			if prev, dup := seen[l]; dup && prev != r {
				return false
			}
			seen[l] = r
		}
	}
	return true
}

// ---- outcome extraction for responders ----

// statusOutcome computes the outcome of a path through a function returning (*Response, error).
func statusOutcome(pk *packages.Package, env *provEnv, self types.Object, p *codePath) string {
	info := pk.TypesInfo
	if p.Ret == nil {
		return "falls-off-end"
	}
	rs := p.Ret
	if len(rs.Results) == 1 {
		if call, ok := ast.Unparen(rs.Results[0]).(*ast.CallExpr); ok {
			if selfCallee(info, env.fd.Body, call) == self {
				return "retry"
			}
			return "delegate:" + calleeNameOf(info, call)
		}
	}
	if len(rs.Results) != 2 {
		return "?"
	}
	if id, ok := ast.Unparen(rs.Results[0]).(*ast.Ident); ok {
		if _, isNil := info.Uses[id].(*types.Nil); isNil {
			// error return: which status?
			st := "error"
			ast.Inspect(rs.Results[1], func(n ast.Node) bool {
				if se, ok := n.(*ast.SelectorExpr); ok {
					if cn, ok := info.Uses[se.Sel].(*types.Const); ok && isNamed(cn.Type(), pkgTApi, "StatusCode") {
						st = "error:" + cn.Name()
					}
				}
				return true
			})
			return st
		}
	}
	statusExpr := statusExprOnPath(pk, p)
	if statusExpr == nil {
		return "response-without-status"
	}
	return "status:" + evalAlongPath(pk, env, statusExpr, p, 0)
}

// statusExprOnPath: the last `Status: X` of a literal or `….Status = X` assignment executed on the path.
func statusExprOnPath(pk *packages.Package, p *codePath) ast.Expr {
	var statusExpr ast.Expr
	for _, nd := range p.Nodes {
		ast.Inspect(nd, func(n ast.Node) bool {
			if _, ok := n.(*ast.FuncLit); ok {
				return false
			}
			if kv, ok := n.(*ast.KeyValueExpr); ok && exprString(kv.Key) == "Status" {
				statusExpr = kv.Value
			}
			// a response built by a helper of the package: the status is the argument that feeds the
			// helper literal's Status
			if call, ok := n.(*ast.CallExpr); ok && pk != nil {
				if hl := helperLiteral(pk, call); hl != nil {
					if fn, ok := calleeOf(pk.TypesInfo, call).(*types.Func); ok {
						sig := fn.Type().(*types.Signature)
						ast.Inspect(hl, func(y ast.Node) bool {
							hkv, ok := y.(*ast.KeyValueExpr)
							if !ok || exprString(hkv.Key) != "Status" {
								return true
							}
							if pid, ok := ast.Unparen(hkv.Value).(*ast.Ident); ok {
								for i := 0; i < sig.Params().Len() && i < len(call.Args); i++ {
									if sig.Params().At(i) == pk.TypesInfo.Uses[pid] {
										statusExpr = call.Args[i]
									}
								}
							} else if constText(pk.TypesInfo, hkv.Value) != "" {
								statusExpr = hkv.Value
							}
							return true
						})
					}
				}
			}
			if as, ok := n.(*ast.AssignStmt); ok && len(as.Lhs) == len(as.Rhs) {
				for i, l := range as.Lhs {
					if se, ok := ast.Unparen(l).(*ast.SelectorExpr); ok && se.Sel.Name == "Status" {
						statusExpr = as.Rhs[i]
					}
				}
			}
			return true
		})
	}
	return statusExpr
}

// exprAlongPath follows identifiers to their last assignment on the path and returns the
// expression that produced the value (nil when it cannot be followed).
func exprAlongPath(pk *packages.Package, e ast.Expr, p *codePath, depth int) ast.Expr {
	info := pk.TypesInfo
	e = ast.Unparen(e)
	id, ok := e.(*ast.Ident)
	if !ok || depth > 4 {
		return e
	}
	obj := info.Uses[id]
	if obj == nil {
		return e
	}
	for i := len(p.Nodes) - 1; i >= 0; i-- {
		if rhs, ok := assignsTo(info, p.Nodes[i], obj); ok {
			if len(rhs) == 1 {
				if as, isAs := p.Nodes[i].(*ast.AssignStmt); isAs && len(as.Lhs) == 2 {
					// v, ok := table[key]: the value is the lookup
					if isObj(info, as.Lhs[0], obj) {
						return ast.Unparen(rhs[0])
					}
					return e
				}
				return exprAlongPath(pk, rhs[0], p, depth+1)
			}
			return e
		}
	}
	return e
}

// evalAlongPath resolves an expression to a constant name / helper application using the last
// assignment on the path.
func evalAlongPath(pk *packages.Package, env *provEnv, e ast.Expr, p *codePath, depth int) string {
	info := pk.TypesInfo
	e = ast.Unparen(e)
	if se, ok := e.(*ast.SelectorExpr); ok {
		if cn, ok := info.Uses[se.Sel].(*types.Const); ok {
			return cn.Name()
		}
	}
	if call, ok := e.(*ast.CallExpr); ok {
		var as []string
		for _, a := range call.Args {
			as = append(as, env.prov(a))
		}
		return calleeNameOf(info, call) + "(" + strings.Join(as, ",") + ")"
	}
	if id, ok := e.(*ast.Ident); ok && depth < 4 {
		if cn, ok := info.Uses[id].(*types.Const); ok {
			return cn.Name()
		}
		if _, ok := info.Uses[id].(*types.Nil); ok {
			return "nil"
		}
		if id.Name == "true" || id.Name == "false" {
			return id.Name
		}
		obj := info.Uses[id]
		for i := len(p.Nodes) - 1; i >= 0; i-- {
			if p.Nodes[i].Pos() > e.Pos() && depth == 0 {
				// assignments after the use on the path do not count for the first lookup
			}
			if rhs, ok := assignsTo(info, p.Nodes[i], obj); ok {
				if len(rhs) == 1 {
					return evalAlongPath(pk, env, rhs[0], p, depth+1)
				}
				if len(rhs) == 0 {
					return "var:" + id.Name // declared without a value (filled through a pointer)
				}
			}
		}
		return "var:" + id.Name
	}
	return env.prov(e)
}

type tableSpec struct {
	Rename   [][2]string // regexp -> replacement applied to every atom
	Name     string
	Pkg      string
	Recv     string
	Func     string
	Why      string
	Spec     func(v *valuation) string
	Outcome  func(pk *packages.Package, env *provEnv, self types.Object, p *codePath) string
	Relevant func(outcome string) bool // paths whose outcome the table does not speak about are skipped
	MinPaths int
}

func ruleTables(specs ...*tableSpec) ruleFn {
	return func(c *Ctx) {
		nPaths := 0
		for _, ts := range specs {
			pk := c.P.Pkg(ts.Pkg)
			fd := funcDecl(pk, ts.Recv, ts.Func)
			if fd == nil {
				c.und("table/"+ts.Name, 0, "function "+ts.Func+" not found in "+ts.Pkg)
				continue
			}
			env := newProvEnv(pk, fd)
			body := fd.Body
			// constructor style functions: analyse the returned function literal
			for _, st := range fd.Body.List {
				if rs, ok := st.(*ast.ReturnStmt); ok && len(rs.Results) == 1 {
					if fl, ok := ast.Unparen(rs.Results[0]).(*ast.FuncLit); ok {
						body = fl.Body
					}
				}
			}
			g := buildCFG(pk, body)
			paths, complete := enumPathsX(g, renamed(env.condFormula, ts.Rename), caseTags(body), assertCond(pk), 4000)
			if !complete {
				c.und("table/"+ts.Name, fd.Pos(), "more than 4000 paths")
				continue
			}
			self := pk.TypesInfo.Defs[fd.Name]
			outFn := ts.Outcome
			if outFn == nil {
				outFn = statusOutcome
			}
			type mismatch struct {
				facts string
				got   string
				want  string
				pos   token.Pos
			}
			var mm []mismatch
			checked := 0
			seenOutcomes := map[string]bool{}
			for _, p := range paths {
				facts, residual, contradictory := decompose(p.Facts)
				if contradictory || !consistent(facts) || !satisfiable(facts, residual) {
					continue // infeasible path
				}
				got := outFn(pk, env, self, p)
				if ts.Relevant != nil && !ts.Relevant(got) {
					continue
				}
				wants := evalSpec(ts.Spec, facts, residual)
				if len(wants) == 1 && wants[got] {
					checked++
					seenOutcomes[got] = true
					continue
				}
				// the status is produced by a pure decision helper or a read-only table: one outcome
				// per entry of its partition, under the entry's conditions
				if ts.Outcome == nil && strings.HasPrefix(got, "status:") {
					if se := statusExprOnPath(pk, p); se != nil {
						deciding := exprAlongPath(pk, se, p, 0)
						if ents, ok := env.partitionOf(deciding); ok {
							ovs := env.fieldOverrides(p, deciding)
							for _, en := range ents {
								fs := append(append([]pathFact(nil), p.Facts...), renameFacts(applyOverrides(en.Facts, ovs), ts.Rename)...)
								f2, r2, contra := decompose(fs)
								if contra || !consistent(f2) || !satisfiable(f2, r2) {
									continue
								}
								g2 := "status:" + en.Result
								checked++
								seenOutcomes[g2] = true
								w2 := evalSpec(ts.Spec, f2, r2)
								if len(w2) != 1 || !w2[g2] {
									var ws []string
									for w := range w2 {
										ws = append(ws, w)
									}
									sort.Strings(ws)
									mm = append(mm, mismatch{factString(fs), g2, strings.Join(ws, " | "), p.End})
								}
							}
							continue
						}
					}
				}
				checked++
				seenOutcomes[got] = true
				{
					var ws []string
					for w := range wants {
						ws = append(ws, w)
					}
					sort.Strings(ws)
					mm = append(mm, mismatch{factString(p.Facts), got, strings.Join(ws, " | "), p.End})
				}
			}
			nPaths += checked
			key := "table/" + ts.Name
			if len(mm) == 0 {
				var os []string
				for o := range seenOutcomes {
					os = append(os, o)
				}
				sort.Strings(os)
				c.ok(key, fd.Pos(), fmt.Sprintf("%d feasible paths agree with the spec table (%s); outcomes: %s", checked, ts.Why, strings.Join(os, ", ")))
			} else {
				sort.Slice(mm, func(i, j int) bool { return mm[i].facts < mm[j].facts })
				m0 := mm[0]
				o := c.bad(key, m0.pos, fmt.Sprintf("%s decides differently from the spec (%s) on %d of %d paths; first: when %s the code yields %s, the spec %s", ts.Func, ts.Why, len(mm), checked, m0.facts, m0.got, m0.want))
				o.Expected, o.Found = m0.want, m0.got
				for i, m := range mm {
					if i >= 6 {
						break
					}
					o.Path = append(o.Path, fmt.Sprintf("%s: code %s, spec %s (exit %s)", m.facts, m.got, m.want, c.P.pos(m.pos)))
				}
			}
			if checked < ts.MinPaths {
				c.bad(key+"/paths", fd.Pos(), fmt.Sprintf("only %d decision paths found in %s, at least %d expected: the decision structure is gone", checked, ts.Func, ts.MinPaths))
			}
		}
		c.count("decision_paths", nPaths)
	}
}

func factString(fs []pathFact) string {
	var out []string
	seen := map[string]bool{}
	for _, f := range fs {
		s := f.F.String()
		if !f.Val {
			s = "¬" + s
		}
		if !seen[s] {
			seen[s] = true
			out = append(out, s)
		}
	}
	return strings.Join(out, " ∧ ")
}

// returnOutcome: the outcome of a path is the provenance of the returned values.
func returnOutcome(pk *packages.Package, env *provEnv, self types.Object, p *codePath) string {
	if p.Ret == nil {
		return "falls-off-end"
	}
	var rs []string
	for _, r := range p.Ret.Results {
		rs = append(rs, evalAlongPath(pk, env, r, p, 0))
	}
	return strings.Join(rs, ", ")
}

// caseTags maps each case expression of every tagged switch to the tag expression.
func caseTags(body *ast.BlockStmt) map[ast.Expr]ast.Expr {
	out := map[ast.Expr]ast.Expr{}
	ast.Inspect(body, func(n ast.Node) bool {
		if sw, ok := n.(*ast.SwitchStmt); ok && sw.Tag != nil {
			for _, st := range sw.Body.List {
				for _, e := range st.(*ast.CaseClause).List {
					out[e] = sw.Tag
				}
			}
		}
		return true
	})
	return out
}

// assertCond recognises util.Assert(cond, msg) statements.
func assertCond(pk *packages.Package) func(ast.Node) ast.Expr {
	return func(n ast.Node) ast.Expr {
		es, ok := n.(*ast.ExprStmt)
		if !ok {
			return nil
		}
		call, ok := ast.Unparen(es.X).(*ast.CallExpr)
		if !ok || len(call.Args) != 2 {
			return nil
		}
		if fn, ok := calleeOf(pk.TypesInfo, call).(*types.Func); ok && fn.Pkg() != nil && fn.Pkg().Path() == pkgUtil && fn.Name() == "Assert" {
			return call.Args[0]
		}
		return nil
	}
}

// renameFacts applies a table's atom renaming to facts obtained elsewhere (helper partitions).
func renameFacts(fs []pathFact, ren [][2]string) []pathFact {
	if len(ren) == 0 {
		return fs
	}
	var res []*regexp.Regexp
	for _, r := range ren {
		res = append(res, regexp.MustCompile(r[0]))
	}
	var apply func(x *formula) *formula
	apply = func(x *formula) *formula {
		if x.Op == "atom" {
			a := x.Atom
			for i, re := range res {
				a = re.ReplaceAllString(a, ren[i][1])
			}
			return &formula{Op: "atom", Atom: a}
		}
		y := &formula{Op: x.Op}
		for _, a := range x.Args {
			y.Args = append(y.Args, apply(a))
		}
		return y
	}
	var out []pathFact
	for _, f := range fs {
		out = append(out, pathFact{F: apply(f.F), Val: f.Val, E: f.E})
	}
	return out
}

func renamed(f func(ast.Expr, int) *formula, ren [][2]string) func(ast.Expr, int) *formula {
	if len(ren) == 0 {
		return f
	}
	var res []*regexp.Regexp
	for _, r := range ren {
		res = append(res, regexp.MustCompile(r[0]))
	}
	var apply func(x *formula) *formula
	apply = func(x *formula) *formula {
		if x.Op == "atom" {
			a := x.Atom
			for i, re := range res {
				a = re.ReplaceAllString(a, ren[i][1])
			}
			return &formula{Op: "atom", Atom: a}
		}
		y := &formula{Op: x.Op}
		for _, arg := range x.Args {
			y.Args = append(y.Args, apply(arg))
		}
		return y
	}
	return func(e ast.Expr, d int) *formula { return apply(f(e, d)) }
}

// ruleKeyMatch: (*idempotency.Key).Match(i2) ⇔ i1 ≠ nil ∧ i2 ≠ nil ∧ *i1 == *i2, by truth table.
func ruleKeyMatch(c *Ctx) {
	pk := c.P.Pkg(pkgIdem)
	fd := funcDecl(pk, "Key", "Match")
	if fd == nil {
		c.und("key-match", 0, "idempotency.Key.Match not found")
		return
	}
	if fd.Recv == nil || len(fd.Recv.List[0].Names) == 0 || len(fd.Type.Params.List) != 1 || len(fd.Type.Params.List[0].Names) != 1 {
		c.und("key-match", fd.Pos(), "unexpected signature of Match")
		return
	}
	env := newProvEnv(pk, fd)
	recv := "param:" + fd.Recv.List[0].Names[0].Name
	arg := "param:" + fd.Type.Params.List[0].Names[0].Name
	a1, a2, a3 := "("+recv+" == nil)", "("+arg+" == nil)", "(*"+recv+" == *"+arg+")"
	a3b := "(*" + arg + " == *" + recv + ")"
	pe, peb := "("+recv+" == "+arg+")", "("+arg+" == "+recv+")"
	// every path through Match, whatever its shape: the path's conditions select the valuations it
	// serves, its returned expression is evaluated under them
	g := buildCFG(pk, fd.Body)
	paths, complete := enumPathsX(g, env.condFormula, nil, nil, 64)
	if !complete || len(paths) == 0 {
		c.und("key-match", fd.Pos(), "paths of Match could not be enumerated")
		return
	}
	known := map[string]bool{a1: true, a2: true, a3: true, a3b: true, pe: true, peb: true}
	for _, p := range paths {
		var fs []*formula
		for _, f := range p.Facts {
			fs = append(fs, f.F)
		}
		if p.Ret != nil && len(p.Ret.Results) == 1 {
			fs = append(fs, env.condFormula(p.Ret.Results[0], 0))
		}
		for _, f := range fs {
			as := map[string]bool{}
			f.atoms(as)
			for a := range as {
				if !known[a] && a != "true" && a != "false" {
					c.bad("key-match", fd.Pos(), "Match depends on "+a+"; the statement allows exactly: receiver nil?, argument nil?, values equal?")
					return
				}
			}
		}
	}
	bad := ""
	for m := 0; m < 8; m++ {
		v := map[string]bool{a1: m&1 != 0, a2: m&2 != 0}
		eq := m&4 != 0
		if (v[a1] || v[a2]) && eq {
			continue // the values of a nil key cannot be compared
		}
		if !v[a1] && !v[a2] {
			v[a3], v[a3b] = eq, eq
			// pointer identity of two present keys is not what Match may depend on: leave it open
		} else {
			same := v[a1] && v[a2]
			v[pe], v[peb] = same, same
		}
		want := !v[a1] && !v[a2] && eq
		v["true"], v["false"] = true, false
		served := 0
		for _, p := range paths {
			sel := true
			for _, f := range p.Facts {
				r := f.F.eval(v)
				if r == -1 || (r == 1) != f.Val {
					sel = false
				}
			}
			if !sel {
				continue
			}
			served++
			if p.Ret == nil || len(p.Ret.Results) != 1 {
				bad = "a path of Match does not return a value"
				continue
			}
			rf := env.condFormula(p.Ret.Results[0], 0)
			// a value comparison evaluated while a key is nil is a nil dereference — unless the
			// conjunction's own nil tests (false conjuncts) come first in evaluation order
			if v[a1] || v[a2] {
				as := map[string]bool{}
				rf.atoms(as)
				if as[a3] || as[a3b] {
					s := exprString(p.Ret.Results[0])
					if !(strings.Index(s, "*") > strings.LastIndex(s, "nil")) {
						bad = "the keys' values are compared on a path where a key may be nil"
					}
					// short-circuit: the nil tests decide
					vv := map[string]bool{}
					for k, x := range v {
						vv[k] = x
					}
					vv[a3], vv[a3b] = false, false
					if got := rf.eval(vv) == 1; got != want {
						bad = fmt.Sprintf("for %v Match yields %v, the statement %v", v, got, want)
					}
					continue
				}
			}
			r := rf.eval(v)
			if r == -1 {
				bad = fmt.Sprintf("for %v the result of Match depends on something else than the keys' presence and values (%s)", v, rf.String())
				continue
			}
			if got := r == 1; got != want {
				bad = fmt.Sprintf("for receiver-nil=%v argument-nil=%v values-equal=%v Match yields %v, the statement %v", v[a1], v[a2], eq, got, want)
			}
		}
		if served == 0 {
			bad = fmt.Sprintf("no path of Match serves receiver-nil=%v argument-nil=%v", v[a1], v[a2])
		}
	}
	c.check(bad == "", "key-match", fd.Pos(), "Match ⇔ both keys present and equal (every path, every combination of presence and equality)", "Key.Match no longer means `both keys present and equal`: "+bad)
}
