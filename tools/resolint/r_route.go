package main

// C18 poll transport (R14 confinement, close/unregister typestate, lookup rules) and C19 receiver
// resolution (decision tables of TagSource / schemeToRecv, sender resolution order, message body).

import (
	"fmt"
	"go/ast"
	"go/token"
	"go/types"
	"golang.org/x/tools/go/cfg"
	"regexp"
	"sort"
	"strings"

	"golang.org/x/tools/go/packages"
)

// inPkgCallGraph: caller function name -> callee function names (static, same package)
func inPkgCallGraph(pk *packages.Package) (map[string][]string, map[string]*ast.FuncDecl) {
	g := map[string][]string{}
	decls := map[string]*ast.FuncDecl{}
	for _, fd := range allFuncDecls(pk) {
		decls[funcName(fd)] = fd
	}
	for name, fd := range decls {
		spawned := map[*ast.CallExpr]bool{}
		ast.Inspect(fd.Body, func(n ast.Node) bool {
			if gs, ok := n.(*ast.GoStmt); ok {
				spawned[gs.Call] = true // a new goroutine, not a call on this one
			}
			return true
		})
		for _, call := range callsInDeep(fd.Body) {
			if spawned[call] {
				continue
			}
			if fn, ok := calleeOf(pk.TypesInfo, call).(*types.Func); ok && fn.Pkg() != nil && fn.Pkg().Path() == pk.PkgPath {
				callee := fn.Name()
				if sig := fn.Type().(*types.Signature); sig.Recv() != nil {
					callee = namedName(sig.Recv().Type()) + "." + fn.Name()
				}
				g[name] = append(g[name], callee)
			}
		}
	}
	return g, decls
}

// rulePollConfinement (R14): the connection registry and the listeners' channels are touched only
// in functions reachable from the worker goroutine's Start and from nothing else.
func rulePollConfinement(c *Ctx) {
	pk := c.P.Pkg(pkgPoll)
	if pk == nil {
		c.und("poll", 0, "poll package not loaded")
		return
	}
	info := pk.TypesInfo
	g, decls := inPkgCallGraph(pk)
	// touchers: functions that read/write the registry fields or send/close a connection channel
	isConnCh := func(e ast.Expr) bool {
		se, ok := ast.Unparen(e).(*ast.SelectorExpr)
		if !ok || se.Sel.Name != "ch" {
			return false
		}
		return isNamed(info.Types[se.X].Type, pkgPoll, "connection")
	}
	touch := map[string][]string{}
	for name, fd := range decls {
		if isTestFile(c.P, fd.Pos()) {
			continue
		}
		ast.Inspect(fd.Body, func(n ast.Node) bool {
			switch x := n.(type) {
			case *ast.SelectorExpr:
				if sel, ok := info.Selections[x]; ok && sel.Kind() == types.FieldVal && isNamed(sel.Recv(), pkgPoll, "connections") {
					touch[name] = append(touch[name], "registry field "+x.Sel.Name)
				}
			case *ast.SendStmt:
				if isConnCh(x.Chan) {
					touch[name] = append(touch[name], "send on connection.ch")
				}
			case *ast.CallExpr:
				if id, ok := x.Fun.(*ast.Ident); ok && id.Name == "close" && len(x.Args) == 1 && isConnCh(x.Args[0]) {
					touch[name] = append(touch[name], "close(connection.ch)")
				}
			}
			return true
		})
	}
	// goroutine root of the worker: the method started with `go p.worker.Start()`
	root := ""
	for _, fd := range decls {
		ast.Inspect(fd.Body, func(n ast.Node) bool {
			if gs, ok := n.(*ast.GoStmt); ok {
				if fn, ok := calleeOf(info, gs.Call).(*types.Func); ok {
					if sig := fn.Type().(*types.Signature); sig.Recv() != nil && namedName(sig.Recv().Type()) == "PollWorker" {
						root = "PollWorker." + fn.Name()
					}
				}
			}
			return true
		})
	}
	if root == "" {
		c.und("poll/worker-root", 0, "the worker goroutine (go worker.Start()) was not found")
		return
	}
	// entry functions reaching each toucher
	callers := map[string][]string{}
	for f, cs := range g {
		for _, cal := range cs {
			callers[cal] = append(callers[cal], f)
		}
	}
	var names []string
	for n := range touch {
		names = append(names, n)
	}
	sort.Strings(names)
	c.floor("functions touching the poll registry / listener channels", len(names), 4)
	for _, t := range names {
		// walk up to entries (functions without in-package callers)
		seen := map[string]bool{}
		var entries []string
		var up func(f string)
		up = func(f string) {
			if seen[f] {
				return
			}
			seen[f] = true
			cs := callers[f]
			// drop self-calls
			var real []string
			for _, x := range cs {
				if x != f {
					real = append(real, x)
				}
			}
			if len(real) == 0 {
				entries = append(entries, f)
				return
			}
			for _, x := range real {
				up(x)
			}
		}
		up(t)
		sort.Strings(entries)
		ok := len(entries) == 1 && entries[0] == root
		c.check(ok, "poll/confined/"+t, decls[t].Pos(), t+" ("+strings.Join(uniq(touch[t]), ", ")+") is reachable only from "+root,
			t+" touches the poll registry / a listener channel ("+strings.Join(uniq(touch[t]), ", ")+") and is reachable from "+strings.Join(entries, ", ")+": the registry is no longer confined to the worker goroutine (data race, send on a closed channel)")
	}
	// nobody outside the package calls the touchers
	for _, rp := range c.P.Roots {
		if rp.PkgPath == pkgPoll {
			continue
		}
		for _, fd := range allFuncDecls(rp) {
			if isTestFile(c.P, fd.Pos()) {
				continue
			}
			for _, call := range callsInDeep(fd.Body) {
				if fn, ok := calleeOf(rp.TypesInfo, call).(*types.Func); ok && fn.Pkg() != nil && fn.Pkg().Path() == pkgPoll {
					nm := fn.Name()
					if sig := fn.Type().(*types.Signature); sig.Recv() != nil {
						nm = namedName(sig.Recv().Type()) + "." + nm
					}
					if _, isToucher := touch[nm]; isToucher {
						c.bad("poll/confined/external/"+rp.Name+"."+funcName(fd), call.Pos(), nm+" is called from "+rp.PkgPath+": the registry escapes the worker goroutine")
					}
				}
			}
		}
	}
	// the handler goroutine only hands connections to the worker and reads its own channel
	for _, hn := range []string{"PollHandler.ServeHTTP", "PollHandler.Connect", "PollHandler.Disconnect"} {
		_, bad := touch[hn]
		if fd := decls[hn]; fd != nil {
			c.check(!bad, "poll/handler/"+hn, fd.Pos(), hn+" neither touches the registry nor sends/closes a listener channel", hn+" touches the registry or sends/closes a listener channel from the HTTP handler goroutine")
		}
	}
	// close-then-unregister typestate
	n := 0
	for _, t := range names {
		fd := decls[t]
		ast.Inspect(fd.Body, func(nd ast.Node) bool {
			call, ok := nd.(*ast.CallExpr)
			if !ok {
				return true
			}
			if id, ok := call.Fun.(*ast.Ident); !ok || id.Name != "close" || len(call.Args) != 1 || !isConnCh(call.Args[0]) {
				return true
			}
			n++
			how := closeDisposition(info, fd, call)
			c.check(how != "", fmt.Sprintf("poll/close-unregisters/%s#%d", t, n), call.Pos(), "closed connection leaves the registry: "+how,
				"a listener's channel is closed in "+t+" but the connection is not removed from the registry (nor known to be unregistered): a later message for that group is sent on a closed channel and the worker goroutine panics")
			return true
		})
	}
	c.floor("close(connection.ch) sites", n, 3)
}

// closeDisposition explains why a closed connection is not (or no longer) registered.
func closeDisposition(info *types.Info, fd *ast.FuncDecl, closeCall *ast.CallExpr) string {
	isRemoval := func(st ast.Stmt) bool {
		switch s := st.(type) {
		case *ast.AssignStmt:
			// cs.conns[g] = append(cs.conns[g][:i], cs.conns[g][i+1:]...)
			if len(s.Lhs) == 1 && len(s.Rhs) == 1 && strings.Contains(exprString(s.Lhs[0]), ".conns[") {
				if call, ok := ast.Unparen(s.Rhs[0]).(*ast.CallExpr); ok && exprString(call.Fun) == "append" && call.Ellipsis.IsValid() && len(call.Args) == 2 {
					a0, a1 := strings.ReplaceAll(exprString(call.Args[0]), " ", ""), strings.ReplaceAll(exprString(call.Args[1]), " ", "")
					if strings.HasSuffix(a0, "[:i]") && strings.HasSuffix(a1, "[i+1:]") {
						return true
					}
				}
			}
		case *ast.ExprStmt:
			if call, ok := s.X.(*ast.CallExpr); ok && exprString(call.Fun) == "delete" && len(call.Args) == 2 && strings.HasSuffix(exprString(call.Args[0]), ".conns") {
				return true
			}
		}
		return false
	}
	chain := enclosing(fd.Body, closeCall)
	// the statement containing the close, and the block lists around it
	for i := len(chain) - 1; i >= 0; i-- {
		blk, ok := chain[i].(*ast.BlockStmt)
		if !ok {
			continue
		}
		idx := -1
		for j, st := range blk.List {
			if st.Pos() <= closeCall.Pos() && closeCall.End() <= st.End() {
				idx = j
			}
		}
		if idx < 0 {
			continue
		}
		// (a) removed later in the same block (or the block of an enclosing loop's parent)
		for _, st := range blk.List[idx+1:] {
			if isRemoval(st) {
				return "removed from the registry right after the close"
			}
		}
		// (b) closed and returned before it was ever added: the function adds later
		if idx+1 < len(blk.List) {
			if _, isRet := blk.List[idx+1].(*ast.ReturnStmt); isRet {
				addedLater := false
				ast.Inspect(fd.Body, func(n ast.Node) bool {
					if as, ok := n.(*ast.AssignStmt); ok && as.Pos() > closeCall.Pos() && len(as.Lhs) == 1 && strings.Contains(exprString(as.Lhs[0]), ".conns[") {
						addedLater = true
					}
					return true
				})
				if addedLater {
					return "closed and returned before the connection is added"
				}
			}
		}
	}
	return ""
}

// rulePollLookup (R7): same-group lookup only; an id match is preferred; notifications go only to
// the exact id.
func rulePollLookup(c *Ctx) {
	pk := c.P.Pkg(pkgPoll)
	info := pk.TypesInfo
	get := pollMethod(pk, "get")
	proc := funcDecl(pk, "PollWorker", "Process")
	if get == nil || proc == nil {
		c.und("poll/lookup", 0, "connections.get / PollWorker.Process not found")
		return
	}
	grp := paramObjOf(info, get.Type, 0)
	idp := paramObjOf(info, get.Type, 1)
	// every index into conns uses the group parameter; every slice looked at IS conns[group]
	// (directly or through a local that holds it)
	genv := newProvEnv(pk, get)
	okGroup, nIdx := true, 0
	groupSlice := ""
	ast.Inspect(get.Body, func(n ast.Node) bool {
		if ix, ok := n.(*ast.IndexExpr); ok && strings.HasSuffix(exprString(ix.X), ".conns") {
			nIdx++
			if !isObj(info, ix.Index, grp) {
				okGroup = false
			} else {
				groupSlice = genv.prov(ix)
			}
		}
		return true
	})
	nUse := 0
	ast.Inspect(get.Body, func(n ast.Node) bool {
		switch x := n.(type) {
		case *ast.RangeStmt:
			nUse++
			if genv.prov(x.X) != groupSlice {
				okGroup = false // iterating over something else than the addressed group
			}
		case *ast.ReturnStmt:
			if len(x.Results) == 2 {
				if ix, ok := ast.Unparen(x.Results[0]).(*ast.IndexExpr); ok {
					nUse++
					if genv.prov(ix.X) != groupSlice {
						okGroup = false
					}
				}
			}
		}
		return true
	})
	c.check(okGroup && nIdx >= 1 && nUse >= 2 && groupSlice != "", "poll/lookup/same-group", get.Pos(), "get looks only at the connections of the addressed group", "get indexes the registry with something other than the addressed group: a message can be handed to another group")
	// empty group ⇒ not found, before anything is indexed: a top-level early exit
	emptyFirst := false
	for _, st := range get.Body.List {
		ifs, ok := st.(*ast.IfStmt)
		if !ok {
			if _, isAssign := st.(*ast.AssignStmt); isAssign {
				continue // naming the group's slice
			}
			break
		}
		atoms := genv.condAtoms(ifs.Cond, false)
		if len(atoms) == 1 && atoms[0] == "(len("+groupSlice+") == 0)" && exits(ifs.Body) {
			if rs, ok := ifs.Body.List[len(ifs.Body.List)-1].(*ast.ReturnStmt); ok && len(rs.Results) == 2 && exprString(rs.Results[1]) == "false" {
				emptyFirst = true
			}
		}
		break
	}
	c.check(emptyFirst, "poll/lookup/empty-group", get.Pos(), "no listener in the group ⇒ not found", "get no longer reports `not found` for a group without listeners (it would index an empty slice)")
	idMatch := false
	ast.Inspect(get.Body, func(n ast.Node) bool {
		rs, ok := n.(*ast.RangeStmt)
		if !ok {
			return true
		}
		rv := rangeValObj(info, rs)
		for _, st := range rs.Body.List {
			if ifs, ok := st.(*ast.IfStmt); ok {
				if be, ok := ast.Unparen(ifs.Cond).(*ast.BinaryExpr); ok && be.Op == token.EQL {
					l, r := exprString(be.X), exprString(be.Y)
					if (strings.HasSuffix(l, ".id") && mentionsObj(info, be.X, rv) && isObj(info, be.Y, idp)) || (strings.HasSuffix(r, ".id") && mentionsObj(info, be.Y, rv) && isObj(info, be.X, idp)) {
						if ret, ok := ifs.Body.List[len(ifs.Body.List)-1].(*ast.ReturnStmt); ok && len(ret.Results) == 2 && isObj(info, ret.Results[0], rv) && exprString(ret.Results[1]) == "true" {
							idMatch = true
							// the search runs whenever an id is given: the only condition it may stand under
							// is "an id was given" (`id != ""`), on the side where it is
							for _, a := range enclosing(get.Body, rs) {
								outer, isIf := a.(*ast.IfStmt)
								if !isIf {
									continue
								}
								given := false
								if cb, ok := ast.Unparen(outer.Cond).(*ast.BinaryExpr); ok && containsNode(outer.Body, rs) {
									x, y := ast.Unparen(cb.X), ast.Unparen(cb.Y)
									if cb.Op == token.NEQ && ((isObj(info, x, idp) && exprString(y) == `""`) || (isObj(info, y, idp) && exprString(x) == `""`)) {
										given = true
									}
									if call, isCall := x.(*ast.CallExpr); isCall && cb.Op == token.GTR && exprString(call.Fun) == "len" && len(call.Args) == 1 && isObj(info, call.Args[0], idp) && exprString(y) == "0" {
										given = true
									}
								}
								if !given {
									idMatch = false
								}
							}
						}
					}
				}
			}
		}
		return true
	})
	c.check(idMatch, "poll/lookup/id-preferred", get.Pos(), "a connected listener with the addressed id is chosen", "get no longer returns the listener whose id equals the addressed id")
	// Process: lookup with the decoded group and id; notify requires the exact id
	okArgs := false
	for _, call := range callsIn(proc.Body) {
		if fn, ok := calleeOf(info, call).(*types.Func); ok && fn == info.Defs[get.Name] && len(call.Args) == 2 {
			okArgs = strings.HasSuffix(exprString(call.Args[0]), ".Group") && strings.HasSuffix(exprString(call.Args[1]), ".Id")
		}
	}
	c.check(okArgs, "poll/process/lookup-args", proc.Pos(), "the listener is looked up by the message's group and id", "Process does not look the listener up by the message's (group, id)")
	notify := false
	env := newProvEnv(pk, proc)
	ast.Inspect(proc.Body, func(n ast.Node) bool {
		ifs, ok := n.(*ast.IfStmt)
		if !ok || !exits(ifs.Body) {
			return true
		}
		f := env.condFormula(ifs.Cond, 0)
		as := map[string]bool{}
		f.atoms(as)
		if f.Op == "and" && len(f.Args) == 2 && len(as) == 2 {
			s := f.String()
			if strings.Contains(s, "Type == Notify") && strings.Contains(s, ".id ==") && strings.Contains(s, "¬") {
				for _, call := range callsIn(ifs.Body) {
					if se, ok := ast.Unparen(call.Fun).(*ast.SelectorExpr); ok && se.Sel.Name == "Done" && len(call.Args) >= 1 && exprString(call.Args[0]) == "false" {
						notify = true
					}
				}
			}
		}
		return true
	})
	// delivery: the only channel send in Process is the message body on the looked-up listener's
	// channel, outside any loop (one listener); Done(true) is reachable only through that send and
	// Done(false) only without it
	{
		var connObj types.Object
		ast.Inspect(proc.Body, func(n ast.Node) bool {
			as, ok := n.(*ast.AssignStmt)
			if !ok || len(as.Rhs) != 1 || len(as.Lhs) < 1 {
				return true
			}
			if call, ok := ast.Unparen(as.Rhs[0]).(*ast.CallExpr); ok {
				if fn, ok := calleeOf(info, call).(*types.Func); ok && fn == info.Defs[get.Name] {
					if id, ok := as.Lhs[0].(*ast.Ident); ok {
						connObj = info.Defs[id]
						if connObj == nil {
							connObj = info.Uses[id]
						}
					}
				}
			}
			return true
		})
		nSend, okSend := 0, connObj != nil
		ast.Inspect(proc.Body, func(n ast.Node) bool {
			snd, ok := n.(*ast.SendStmt)
			if !ok {
				return true
			}
			nSend++
			se, isSel := ast.Unparen(snd.Chan).(*ast.SelectorExpr)
			if !isSel || se.Sel.Name != "ch" || !isObj(info, se.X, connObj) {
				okSend = false
			}
			if !strings.HasSuffix(exprString(snd.Value), ".Body") {
				okSend = false
			}
			for _, a := range enclosing(proc.Body, snd) {
				switch a.(type) {
				case *ast.ForStmt, *ast.RangeStmt:
					okSend = false
				}
			}
			return true
		})
		c.check(okSend && nSend == 1, "poll/process/send-target", proc.Pos(), "the body is sent once, on the channel of the listener that was looked up", "Process sends on a channel other than the looked-up listener's (or to more than one listener): a message can reach a listener it was not addressed to")
		g := buildCFG(pk, proc.Body)
		gen := func(n ast.Node) []string {
			if _, ok := n.(*ast.SendStmt); ok {
				return []string{"sent"}
			}
			return nil
		}
		isDone := func(n ast.Node) (bool, string) {
			for _, call := range callsIn(n) {
				if se, ok := ast.Unparen(call.Fun).(*ast.SelectorExpr); ok && se.Sel.Name == "Done" && len(call.Args) >= 1 {
					return true, exprString(call.Args[0])
				}
			}
			return false, ""
		}
		facts := mustFacts(g, gen, nil, func(n ast.Node) bool { d, _ := isDone(n); return d })
		// may-facts for the negative half: a Done(false) node must not be reachable from the send
		reach := map[ast.Node]bool{}
		{
			var sendBlocks []*cfg.Block
			for _, b := range g.Blocks {
				for i, n := range b.Nodes {
					if _, ok := n.(*ast.SendStmt); ok {
						for _, m := range b.Nodes[i+1:] {
							reach[m] = true
						}
						sendBlocks = append(sendBlocks, b)
					}
				}
			}
			seen := map[int32]bool{}
			var walk func(b *cfg.Block)
			walk = func(b *cfg.Block) {
				for _, sc := range b.Succs {
					if seen[sc.Index] {
						continue
					}
					seen[sc.Index] = true
					for _, n := range sc.Nodes {
						reach[n] = true
					}
					walk(sc)
				}
			}
			for _, b := range sendBlocks {
				walk(b)
			}
		}
		nTrue, okTrue, okFalse := 0, true, true
		for n, f := range facts {
			_, arg := isDone(n)
			switch arg {
			case "true":
				nTrue++
				if !f["sent"] {
					okTrue = false
				}
			case "false":
				if reach[n] {
					okFalse = false
				}
			default:
				okTrue = false
			}
		}
		c.check(nTrue >= 1 && okTrue, "poll/process/delivered-iff-accepted", proc.Pos(), "Done(true) only after the listener's channel accepted the body", "Process reports a hand-off as delivered on a path where the looked-up listener's channel did not accept the message")
		c.check(okFalse, "poll/process/failed-iff-not-sent", proc.Pos(), "Done(false) only on paths without a send", "Process reports a failed hand-off although the body was sent: the retry delivers the message twice")
	}
	c.check(notify, "poll/process/notify-exact-id", proc.Pos(), "a notification is delivered only to the listener with the exact id", "a notification may be handed to a listener whose id differs from the addressed id")
}

// ---- C19 ----

var tblTagSource = &tableSpec{
	Name: "tag-source", Pkg: pkgRouter, Func: "TagSource", Outcome: returnOutcome, MinPaths: 4,
	Why: "C19: tag absent ⇒ no match; valid JSON that decodes strictly into a receiver with a non-empty type ⇒ that physical receiver; other valid JSON ⇒ no match; anything else ⇒ the string as a logical name",
	Spec: func(v *valuation) string {
		tag := "var:p.Tags[param:config.Key]"
		if !v.B("#1(" + tag + ")") {
			return "nil, false"
		}
		if v.B("json.Valid(" + tag + ")") {
			if v.B("(Decoder.Decode(&var:recv) == nil)") && !v.B("(var:recv == nil)") && !v.B(`(var:recv.Type == "")`) {
				return "var:recv, true"
			}
			return "nil, false"
		}
		return tag + ", true"
	},
}

var tblSchemeToRecv = &tableSpec{
	Name: "scheme-to-recv", Pkg: pkgSender, Func: "schemeToRecv", Outcome: returnOutcome, MinPaths: 6,
	Why: "C19: http/https ⇒ http transport with that URL; poll://group/id ⇒ poll transport addressed by (host, path); anything else (or an unparsable URL) ⇒ no receiver",
	Spec: func(v *valuation) string {
		if !v.B("(err(url.Parse(param:v)) == nil)") {
			return "nil, false"
		}
		sch := "url.Parse(param:v).Scheme"
		switch {
		case v.Eq(sch, `"http"`) || v.Eq(sch, `"https"`):
			if !v.B(`(err(json.Marshal(map[string]string{"url":URL.String()})) == nil)`) {
				return "nil, false"
			}
			return `&Recv{Data:json.Marshal(map[string]string{"url":URL.String()}),Type:"http"}, true`
		case v.Eq(sch, `"poll"`):
			if !v.B(`(err(json.Marshal(map[string]string{"group":url.Parse(param:v).Host})) == nil)`) {
				return "nil, false"
			}
			return `&Recv{Data:json.Marshal(map[string]string{"group":url.Parse(param:v).Host}),Type:"poll"}, true`
		}
		return "nil, false"
	},
}

// ruleSenderResolution: the resolution order and the message handed to the plugin.
func ruleSenderResolution(c *Ctx) {
	pk := c.P.Pkg(pkgSender)
	fd := funcDecl(pk, "SenderWorker", "Process")
	if fd == nil {
		c.und("sender/resolution", 0, "SenderWorker.Process not found")
		return
	}
	info := pk.TypesInfo
	// the decoding and resolution may have been extracted into a method of the worker that returns
	// (receiver, error): the definitions are then read there
	proc := fd
	extracted := false
	if rfd := senderResolveFunc(c.P); rfd != nil && rfd != fd {
		fd, extracted = rfd, true
	}
	env := newProvEnv(pk, fd)
	// recv's definitions, in order: targets[*logical]; schemeToRecv(*logical) when nil; physical
	var recvObj types.Object
	ast.Inspect(fd.Body, func(n ast.Node) bool {
		if vs, ok := n.(*ast.ValueSpec); ok && len(vs.Names) == 1 && vs.Names[0].Name == "recv" {
			recvObj = info.Defs[vs.Names[0]]
		}
		return true
	})
	if recvObj == nil {
		// fall back: the variable whose .Data feeds the message
		ast.Inspect(fd.Body, func(n ast.Node) bool {
			if kv, ok := n.(*ast.KeyValueExpr); ok && exprString(kv.Key) == "Data" {
				if se, ok := ast.Unparen(kv.Value).(*ast.SelectorExpr); ok {
					if id, ok := ast.Unparen(se.X).(*ast.Ident); ok {
						recvObj = info.Uses[id]
					}
				}
			}
			return true
		})
	}
	if recvObj == nil {
		c.und("sender/resolution", fd.Pos(), "receiver variable not found")
		return
	}
	type def struct {
		prov  string
		conds []string
		pos   token.Pos
	}
	var defs []def
	ast.Inspect(fd.Body, func(n ast.Node) bool {
		as, ok := n.(*ast.AssignStmt)
		if !ok {
			return true
		}
		for i, l := range as.Lhs {
			if isObj(info, l, recvObj) {
				r := as.Rhs[0]
				if i < len(as.Rhs) {
					r = as.Rhs[i]
				}
				// the resolution may live in a helper of the package: each of its returns is a definition
				// under the helper's own conditions (guard clauses included), parameters ↦ arguments
				if call, isCall := ast.Unparen(r).(*ast.CallExpr); isCall && len(as.Lhs) == 1 {
					if hd := helperReturnDefs(pk, env, call); len(hd) > 0 {
						outer := env.enclosingCondsStrict(fd.Body, as)
						for _, h := range hd {
							defs = append(defs, def{h.prov, append(append([]string(nil), outer...), h.conds...), as.Pos() + token.Pos(len(defs))})
						}
						continue
					}
				}
				defs = append(defs, def{env.prov(r), env.enclosingCondsStrict(fd.Body, as), as.Pos()})
			}
		}
		return true
	})
	// a value returned / kept only where it was found non-nil is the same definition as the value
	// itself (where it is nil the fallback guarded by `== nil` applies)
	for i := range defs {
		var kept []string
		for _, cnd := range defs[i].conds {
			if cnd == "("+defs[i].prov+" != nil)" {
				continue
			}
			kept = append(kept, cnd)
		}
		defs[i].conds = kept
	}
	sort.Slice(defs, func(i, j int) bool { return defs[i].pos < defs[j].pos })
	var got []string
	for _, d := range defs {
		got = append(got, d.prov+" when "+strings.Join(d.conds, " ∧ "))
	}
	want := []string{
		"param:w.targets[*var:logicalRecv] when (var:logicalRecv != nil)",
		"sender.schemeToRecv(*var:logicalRecv) when (var:logicalRecv != nil) ∧ (param:w.targets[*var:logicalRecv] == nil)",
		"var:physicalRecv when (var:logicalRecv == nil)",
	}
	// each definition carries the conditions under which it applies (the scheme fallback names the
	// failed target lookup), so the set is compared: the textual order of the branches is free
	sort.Strings(got)
	sort.Strings(want)
	ok := len(got) == len(want)
	for i := range want {
		if ok && got[i] != want[i] {
			ok = false
		}
	}
	o := c.check(ok, "sender/resolution-order", fd.Pos(), "logical name ⇒ configured target, else by URL scheme; physical receiver as given", "the receiver resolution order is not `targets[name]` → scheme → error for logical names and `as given` for physical receivers")
	if !ok {
		o.Expected, o.Found = strings.Join(want, " ; "), strings.Join(got, " ; ")
	}
	// unknown receiver / unknown plugin ⇒ error completion (exits)
	nilRecv, nilPlugin := false, false
	if extracted {
		// in the extracted method an unresolved receiver is an error return; in Process that error
		// completes the hand-off
		helperFails, errCompletes := false, false
		ast.Inspect(fd.Body, func(n ast.Node) bool {
			ifs, ok := n.(*ast.IfStmt)
			if !ok || exprString(ifs.Cond) != "recv == nil" || len(ifs.Body.List) == 0 {
				return true
			}
			if rs, ok := ifs.Body.List[len(ifs.Body.List)-1].(*ast.ReturnStmt); ok && len(rs.Results) == 2 && exprString(rs.Results[0]) == "nil" && exprString(rs.Results[1]) != "nil" {
				helperFails = true
			}
			return true
		})
		var errObj types.Object
		ast.Inspect(proc.Body, func(n ast.Node) bool {
			if as, ok := n.(*ast.AssignStmt); ok && len(as.Lhs) == 2 && len(as.Rhs) == 1 {
				if call, ok := ast.Unparen(as.Rhs[0]).(*ast.CallExpr); ok && calleeOf(info, call) == info.Defs[fd.Name] {
					if id, ok := as.Lhs[1].(*ast.Ident); ok {
						errObj = info.Defs[id]
						if errObj == nil {
							errObj = info.Uses[id]
						}
					}
				}
			}
			return true
		})
		ast.Inspect(proc.Body, func(n ast.Node) bool {
			ifs, ok := n.(*ast.IfStmt)
			if !ok || !exits(ifs.Body) || errObj == nil {
				return true
			}
			if obj, nonNil, ok := nilTest(info, ifs.Cond); !ok || !nonNil || obj != errObj {
				return true
			}
			enq, setsErr := false, false
			for _, call := range callsIn(ifs.Body) {
				if methodCallNamed(info, call, "EnqueueCQE") != nil {
					enq = true
				}
			}
			ast.Inspect(ifs.Body, func(x ast.Node) bool {
				if as, ok := x.(*ast.AssignStmt); ok && strings.HasSuffix(exprString(as.Lhs[0]), ".Error") {
					setsErr = true
				}
				return true
			})
			if enq && setsErr {
				errCompletes = true
			}
			return true
		})
		nilRecv = helperFails && errCompletes
	}
	fd = proc
	ast.Inspect(fd.Body, func(n ast.Node) bool {
		ifs, ok := n.(*ast.IfStmt)
		if !ok || !exits(ifs.Body) {
			return true
		}
		cs := exprString(ifs.Cond)
		enq := false
		for _, call := range callsIn(ifs.Body) {
			if methodCallNamed(info, call, "EnqueueCQE") != nil {
				enq = true
			}
		}
		setsErr := false
		ast.Inspect(ifs.Body, func(x ast.Node) bool {
			if as, ok := x.(*ast.AssignStmt); ok && strings.HasSuffix(exprString(as.Lhs[0]), ".Error") {
				setsErr = true
			}
			return true
		})
		if cs == "recv == nil" && enq && setsErr {
			nilRecv = true
		}
		if cs == "plugin == nil" && enq && setsErr {
			nilPlugin = true
		}
		return true
	})
	c.check(nilRecv, "sender/unknown-receiver-fails", fd.Pos(), "an unresolvable address completes the hand-off with an error (retried)", "an unresolvable receiver no longer completes the hand-off with an error")
	c.check(nilPlugin, "sender/unknown-plugin-fails", fd.Pos(), "a receiver type without a plugin completes the hand-off with an error (retried)", "a receiver whose type has no plugin no longer completes the hand-off with an error")
	// plugin chosen by recv.Type; message = (mesg type, recv.Data, body)
	pluginBy := false
	ast.Inspect(fd.Body, func(n ast.Node) bool {
		if as, ok := n.(*ast.AssignStmt); ok && len(as.Rhs) == 1 && exprString(as.Rhs[0]) == "w.plugins[recv.Type]" {
			pluginBy = true
		}
		return true
	})
	c.check(pluginBy, "sender/plugin-by-type", fd.Pos(), "transport chosen by the receiver's type", "the plugin is not selected by recv.Type")
	var msg *ast.CompositeLit
	ast.Inspect(fd.Body, func(n ast.Node) bool {
		if cl, ok := n.(*ast.CompositeLit); ok && isNamed(info.Types[cl].Type, pkgIAio, "Message") {
			msg = cl
		}
		return true
	})
	if msg == nil {
		c.und("sender/message", fd.Pos(), "aio.Message literal not found")
		return
	}
	fields := map[string]string{}
	for _, el := range msg.Elts {
		if kv, ok := el.(*ast.KeyValueExpr); ok {
			fields[exprString(kv.Key)] = exprString(kv.Value)
		}
	}
	c.check(fields["Data"] == "recv.Data" && fields["Body"] == "body" && fields["Type"] == "mesgType", "sender/message", msg.Pos(), "message = (task's message type, the resolved receiver's data, the body)", "the message handed to the plugin is not (mesgType, recv.Data, body): "+fmt.Sprint(fields))
	// body shapes
	// (the body may be built by a helper of the package that is handed the submission)
	bodies := provsWithHelpers(pk, fd, func(cl *ast.CompositeLit) bool {
		tv, ok := info.Types[cl]
		if !ok {
			return false
		}
		_, isMap := tv.Type.Underlying().(*types.Map)
		return isMap && strings.Contains(types.TypeString(tv.Type, nil), "interface")
	})
	sort.Strings(bodies)
	wantBodies := []string{
		`map[string]interface{}{"href":map[string]string{"claim":param:sqe.Submission.Sender.ClaimHref,"complete":param:sqe.Submission.Sender.CompleteHref,"heartbeat":param:sqe.Submission.Sender.HeartbeatHref},"task":param:sqe.Submission.Sender.Task,"type":param:sqe.Submission.Sender.Task.Mesg.Type}`,
		`map[string]interface{}{"promise":param:sqe.Submission.Sender.Promise,"type":param:sqe.Submission.Sender.Task.Mesg.Type}`,
	}
	okB := len(bodies) == 2 && bodies[0] == wantBodies[0] && bodies[1] == wantBodies[1]
	o = c.check(okB, "sender/body", fd.Pos(), "body = {type, task, href{claim,complete,heartbeat}} or, for notifications, {type, promise}", "the dispatched body is not {type, task, href{claim,complete,heartbeat}} / {type, promise} built from this submission")
	if !okB {
		o.Expected, o.Found = strings.Join(wantBodies, " ; "), strings.Join(bodies, " ; ")
	}
	// which body for which message: the promise body exactly for notifications (in Process or in
	// the helper that builds the body)
	okWhich, nLits := true, 0
	bodyFns := []*ast.FuncDecl{fd}
	for _, call := range callsInDeep(fd.Body) {
		if fn, isFn := calleeOf(info, call).(*types.Func); isFn && fn.Pkg() == pk.Types {
			if d := funcDeclOf(pk, fn); d != nil && d.Body != nil && d != fd {
				bodyFns = append(bodyFns, d)
			}
		}
	}
	for _, bf := range bodyFns {
		benv := newProvEnv(pk, bf)
		ast.Inspect(bf.Body, func(n ast.Node) bool {
			cl, isCl := n.(*ast.CompositeLit)
			if !isCl {
				return true
			}
			tv, has := info.Types[cl]
			if !has {
				return true
			}
			if _, isMap := tv.Type.Underlying().(*types.Map); !isMap || !strings.Contains(types.TypeString(tv.Type, nil), "interface") {
				return true
			}
			isPromiseBody := false
			for _, el := range cl.Elts {
				if kv, isKv := el.(*ast.KeyValueExpr); isKv && exprString(kv.Key) == `"promise"` {
					isPromiseBody = true
				}
			}
			nLits++
			forNotify, forOther := false, false
			for _, a := range benv.enclosingConds(bf.Body, cl) {
				if strings.HasSuffix(a, " == Notify)") {
					forNotify = true
				}
				if strings.HasSuffix(a, " != Notify)") {
					forOther = true
				}
			}
			if isPromiseBody != forNotify || isPromiseBody == forOther {
				okWhich = false
			}
			return false
		})
	}
	c.check(okWhich && nLits == 2, "sender/body-by-type", fd.Pos(), "the promise body is sent exactly for notifications, the task body otherwise", "the sender no longer chooses the body by `message type == Notify`: a notification would carry a task (or an invocation the completed promise)")
}

// ruleRouterFirstMatch: sources are applied in order, the first match wins; coerce accepts exactly
// a physical receiver or a string.
func ruleRouterFirstMatch(c *Ctx) {
	pk := c.P.Pkg(pkgRouter)
	fd := funcDecl(pk, "RouterWorker", "Process")
	if fd == nil {
		c.und("router/first-match", 0, "RouterWorker.Process not found")
		return
	}
	info := pk.TypesInfo
	isSources := func(x ast.Expr) bool { return strings.HasSuffix(exprString(x), ".sources") }
	// the loop over the sources lives in Process or in a function of the package that Process calls
	hd := fd
	rs := rangeOver(fd.Body, isSources)
	if rs == nil {
		for _, call := range callsInDeep(fd.Body) {
			if fn, isFn := calleeOf(info, call).(*types.Func); isFn && fn.Pkg() == pk.Types {
				if d := funcDeclOf(pk, fn); d != nil && d.Body != nil {
					if r := rangeOver(d.Body, isSources); r != nil {
						hd, rs = d, r
					}
				}
			}
		}
	}
	ok, why := false, "no loop over the configured sources"
	if rs != nil {
		// the call of the source and the variable that says whether it matched
		var okVar types.Object
		fObj := rangeValObj(info, rs)
		ast.Inspect(rs.Body, func(n ast.Node) bool {
			as, isAs := n.(*ast.AssignStmt)
			if !isAs || len(as.Rhs) != 1 || len(as.Lhs) != 2 {
				return true
			}
			if call, isCall := ast.Unparen(as.Rhs[0]).(*ast.CallExpr); isCall && isObj(info, call.Fun, fObj) && okVar == nil {
				if id, isId := as.Lhs[1].(*ast.Ident); isId {
					okVar = info.Defs[id]
					if okVar == nil {
						okVar = info.Uses[id]
					}
				}
			}
			return true
		})
		g := buildCFG(pk, hd.Body)
		reachesHead := func(from *cfg.Block) bool {
			seen := map[int32]bool{}
			var walk func(b *cfg.Block) bool
			walk = func(b *cfg.Block) bool {
				if seen[b.Index] {
					return false
				}
				seen[b.Index] = true
				if b.Kind == cfg.KindRangeLoop && b.Stmt == ast.Stmt(rs) {
					return true
				}
				for _, sc := range b.Succs {
					if walk(sc) {
						return true
					}
				}
				return false
			}
			return walk(from)
		}
		nTests := 0
		ok, why = true, ""
		for _, b := range g.Blocks {
			if len(b.Succs) != 2 || len(b.Nodes) == 0 || okVar == nil {
				continue
			}
			cond, isExpr := b.Nodes[len(b.Nodes)-1].(ast.Expr)
			if !isExpr {
				continue
			}
			cond = ast.Unparen(cond)
			neg := false
			if u, isU := cond.(*ast.UnaryExpr); isU && u.Op == token.NOT {
				neg, cond = true, ast.Unparen(u.X)
			}
			if !isObj(info, cond, okVar) || cond.Pos() < rs.Body.Pos() || cond.End() > rs.Body.End() {
				continue
			}
			// only the test that directly follows the source call decides (ok is reused for coerce)
			if nTests > 0 {
				continue
			}
			nTests++
			matched, missed := b.Succs[0], b.Succs[1]
			if neg {
				matched, missed = missed, matched
			}
			if reachesHead(matched) {
				ok, why = false, "after a source matched the loop goes on to the next source (the first match no longer decides)"
			}
			if !reachesHead(missed) {
				ok, why = false, "a source that does not match ends the search (later sources are never consulted)"
			}
		}
		if okVar == nil || nTests == 0 {
			ok, why = false, "the match test of the source call was not found"
		}
	}
	c.check(ok, "router/first-match", hd.Pos(), "sources are tried in order; the first match ends the search, a miss goes on to the next source", "router: "+why)
	// a match is reported only for a value that coerce accepted and that could be encoded
	if rs != nil {
		g := buildCFG(pk, hd.Body)
		nameOf := func(call *ast.CallExpr) string {
			fn, isFn := calleeOf(info, call).(*types.Func)
			if !isFn {
				return ""
			}
			switch {
			case fn.Name() == "coerce" && fn.Pkg() == pk.Types:
				return "coerce"
			case fn.Name() == "Marshal" && fn.Pkg() != nil && fn.Pkg().Path() == "encoding/json":
				return "marshal"
			}
			return ""
		}
		errEdge := errEdgeFacts(info, nameOf)
		boolEdge := func(b *cfg.Block, i int) []string {
			if len(b.Succs) != 2 || len(b.Nodes) == 0 {
				return nil
			}
			cond, isExpr := b.Nodes[len(b.Nodes)-1].(ast.Expr)
			if !isExpr {
				return nil
			}
			cond = ast.Unparen(cond)
			neg := false
			if u, isU := cond.(*ast.UnaryExpr); isU && u.Op == token.NOT {
				neg, cond = true, ast.Unparen(u.X)
			}
			id, isId := cond.(*ast.Ident)
			if !isId {
				return nil
			}
			obj := info.Uses[id]
			for j := len(b.Nodes) - 2; j >= 0; j-- {
				rhs, assigned := assignsTo(info, b.Nodes[j], obj)
				if !assigned {
					continue
				}
				if len(rhs) == 1 {
					if call, isCall := ast.Unparen(rhs[0]).(*ast.CallExpr); isCall && nameOf(call) == "coerce" {
						if (i == 0) != neg {
							return []string{"ok:coerce"}
						}
						return []string{"failed:coerce"}
					}
				}
				return nil
			}
			return nil
		}
		edge := func(b *cfg.Block, i int) []string { return append(errEdge(b, i), boolEdge(b, i)...) }
		isSuccess := func(n ast.Node) bool {
			found := false
			ast.Inspect(n, func(x ast.Node) bool {
				if kv, isKv := x.(*ast.KeyValueExpr); isKv && exprString(kv.Key) == "Matched" && exprString(kv.Value) == "true" {
					found = true
				}
				return true
			})
			if ret, isRet := n.(*ast.ReturnStmt); isRet && hd != fd && len(ret.Results) == 2 && exprString(ret.Results[1]) == "true" {
				found = true
			}
			return found
		}
		succ := mustFacts(g, func(ast.Node) []string { return nil }, edge, isSuccess)
		okV := len(succ) >= 1
		for _, f := range succ {
			if !f["ok:coerce"] || !f["ok:marshal"] {
				okV = false
			}
		}
		c.check(okV, "router/match-needs-valid-receiver", hd.Pos(), "a match is reported only after coerce accepted the value and it was encoded", "the router can report a match for a value that coerce rejected or that could not be encoded: the task is created with a receiver nobody can resolve")
	}
	// both outcomes are answered: a completion with Matched: true and one with Matched false
	hasTrue, hasFalse := false, false
	ast.Inspect(fd.Body, func(n ast.Node) bool {
		cl, isCl := n.(*ast.CompositeLit)
		if !isCl || !isNamed(info.Types[cl].Type, pkgTAio, "RouterCompletion") {
			return true
		}
		m := "false"
		for _, el := range cl.Elts {
			if kv, isKv := el.(*ast.KeyValueExpr); isKv && exprString(kv.Key) == "Matched" {
				m = exprString(kv.Value)
			}
		}
		if m == "true" {
			hasTrue = true
		}
		if m == "false" {
			hasFalse = true
		}
		return true
	})
	c.check(hasTrue && hasFalse, "router/no-match", fd.Pos(), "a match answers Matched: true, no match answers Matched: false", "the router no longer answers Matched: false when no source matched (or never answers Matched: true)")
	// the tag source decodes a receiver object strictly: unknown members make it "not a receiver"
	if ts := funcDecl(pk, "", "TagSource"); ts != nil {
		strict, dec := token.NoPos, token.NoPos
		ast.Inspect(ts.Body, func(n ast.Node) bool {
			if call, isCall := n.(*ast.CallExpr); isCall {
				if se, isSel := ast.Unparen(call.Fun).(*ast.SelectorExpr); isSel {
					switch se.Sel.Name {
					case "DisallowUnknownFields":
						strict = call.Pos()
					case "Decode":
						if !dec.IsValid() {
							dec = call.Pos()
						}
					}
				}
			}
			return true
		})
		c.check(strict.IsValid() && dec.IsValid() && strict < dec, "router/tag-source-strict", ts.Pos(), "a JSON tag value is decoded with unknown members disallowed", "the tag source no longer decodes a JSON receiver strictly: an object that is not a receiver (extra members) is routed as one")
	} else {
		c.und("router/tag-source-strict", 0, "TagSource not found")
	}
	// coerce
	co := funcDecl(pk, "", "coerce")
	if co == nil {
		c.und("router/coerce", 0, "coerce not found")
		return
	}
	var arms []string
	ast.Inspect(co.Body, func(n ast.Node) bool {
		if ts, isTs := n.(*ast.TypeSwitchStmt); isTs {
			for _, st := range ts.Body.List {
				cc := st.(*ast.CaseClause)
				verdict := "?"
				for _, s := range cc.Body {
					if ret, isRet := s.(*ast.ReturnStmt); isRet && len(ret.Results) == 2 {
						verdict = exprString(ret.Results[1])
					}
				}
				if cc.List == nil {
					arms = append(arms, "default:"+verdict)
				}
				for _, e := range cc.List {
					arms = append(arms, exprString(e)+":"+verdict)
				}
			}
		}
		return true
	})
	sort.Strings(arms)
	got := strings.Join(arms, ",")
	c.check(got == "*receiver.Recv:true,default:false,string:true", "router/coerce", co.Pos(), "a physical receiver or a plain string routes; anything else does not", "coerce accepts "+got)
}

// rulePollReplace (C18): reconnecting with the same id replaces the older connection, and a
// disconnect reported for a connection that has meanwhile been replaced must not remove the
// replacement: rmv removes a registered connection iff the ids are equal and (it is the very same
// channel, or the caller is replacing). Disconnects call rmv(conn, true); add calls rmv(conn, false).
func rulePollReplace(c *Ctx) {
	pk := c.P.Pkg(pkgPoll)
	info := pk.TypesInfo
	rmv := pollMethod(pk, "rmv")
	if rmv == nil {
		c.und("poll/replace", 0, "connections.rmv not found")
		return
	}
	env := newProvEnv(pk, rmv)
	var cond ast.Expr
	ast.Inspect(rmv.Body, func(n ast.Node) bool {
		if ifs, ok := n.(*ast.IfStmt); ok && cond == nil {
			for _, call := range callsIn(ifs.Body) {
				if id, ok := call.Fun.(*ast.Ident); ok && id.Name == "close" {
					cond = ifs.Cond
				}
			}
		}
		return true
	})
	if cond == nil {
		c.bad("poll/replace/guard", rmv.Pos(), "rmv closes and removes a connection unconditionally")
		return
	}
	f := env.condFormula(cond, 0)
	atoms := map[string]bool{}
	f.atoms(atoms)
	var idEq, chEq, match string
	for a := range atoms {
		switch {
		case strings.Contains(a, ".id ==") || strings.Contains(a, ".id)"):
			// the id of the registered connection against the id of the reported one
			if l, op, r, isCmp := splitCmpOp(a); isCmp && op == "==" && strings.HasSuffix(l, ".id") && strings.HasSuffix(r, ".id") {
				idEq = a
			}
		case strings.Contains(a, ".ch =="):
			chEq = a
		case strings.HasPrefix(a, "param:"):
			match = a
		}
	}
	ok := idEq != "" && chEq != "" && match != "" && len(atoms) == 3
	if ok {
		for m := 0; m < 8; m++ {
			v := map[string]bool{idEq: m&1 != 0, chEq: m&2 != 0, match: m&4 != 0}
			want := v[idEq] && (v[chEq] || !v[match])
			if (f.eval(v) == 1) != want {
				ok = false
			}
		}
	}
	o := c.check(ok, "poll/replace/guard", cond.Pos(), "a connection is removed iff same id ∧ (same channel ∨ replacing)", "rmv no longer requires the very same channel when a disconnect is reported: a stale disconnect of a replaced connection closes and unregisters the live replacement (messages for a connected listener are misdirected or reported undeliverable)")
	if !ok {
		o.Found = f.String()
	}
	// call sites
	target := info.Defs[rmv.Name]
	nTrue, nFalse, bad := 0, 0, 0
	for _, fd := range allFuncDecls(pk) {
		for _, call := range callsInDeep(fd.Body) {
			if calleeOf(info, call) != target || len(call.Args) != 2 {
				continue
			}
			flag := exprString(call.Args[1])
			inAdd := pollMethod(pk, "add") == fd
			switch {
			case flag == "true" && !inAdd:
				nTrue++ // a reported disconnect (in the worker loop or a method it hands the event to)
			case flag == "false" && inAdd:
				nFalse++
			default:
				bad++
			}
		}
	}
	c.check(nTrue >= 1 && nFalse == 1 && bad == 0, "poll/replace/call-sites", rmv.Pos(), "disconnects remove with match=true, add replaces with match=false", fmt.Sprintf("rmv call sites changed (disconnect/match=true: %d, add/match=false: %d, other: %d)", nTrue, nFalse, bad))
}

// rulePollAddress (C19): the listener id of poll://group/id is the whole path after the leading
// slash (ids may contain slashes), present only when non-empty; the group is the host.
func rulePollAddress(c *Ctx) {
	pk := c.P.Pkg(pkgSender)
	fd := funcDecl(pk, "", "schemeToRecv")
	if fd == nil {
		c.und("sender/poll-address", 0, "schemeToRecv not found")
		return
	}
	env := newProvEnv(pk, fd)
	found := false
	var got, conds string
	var pos token.Pos
	ast.Inspect(fd.Body, func(n ast.Node) bool {
		as, ok := n.(*ast.AssignStmt)
		if !ok || len(as.Lhs) != 1 {
			return true
		}
		ix, ok := as.Lhs[0].(*ast.IndexExpr)
		if !ok || exprString(ix.Index) != `"id"` {
			return true
		}
		found = true
		pos = as.Pos()
		got = env.prov(as.Rhs[0])
		conds = strings.Join(env.enclosingConds(fd.Body, as), " ∧ ")
		return true
	})
	want := `strings.TrimPrefix(url.Parse(param:v).Path,"/")`
	ok := found && got == want && strings.Contains(conds, `(`+want+` != "")`)
	o := c.check(ok, "sender/poll-address/id", pos, "poll listener id = the whole URL path after its leading slash, when non-empty", "the poll listener id is no longer the whole path of poll://group/<id> (ids with slashes would be truncated or altered)")
	if !ok {
		o.Expected, o.Found = want+` when non-empty`, got+" when "+conds
	}
}

// rulePollChannels (C18): the registry is driven by two channels whose roles must not be mixed up:
// what arrives on `connect` is registered (connections.add), what arrives on `disconnect` is
// unregistered with the channel match (connections.rmv(conn, true)); the handler's Connect sends on
// `connect`, its Disconnect on `disconnect`. A swapped channel compiles (both carry *connection) and
// turns every disconnect into a registration of a dead listener, or the reverse.
func rulePollChannels(c *Ctx) {
	pk := c.P.Pkg(pkgPoll)
	if pk == nil {
		c.und("poll/channels", 0, "poll package not loaded")
		return
	}
	info := pk.TypesInfo
	role := map[string]string{"connect": "add", "disconnect": "rmv"}
	// receives
	nRecv := 0
	for _, fd := range allFuncDecls(pk) {
		if fd.Body == nil || isTestFile(c.P, fd.Pos()) {
			continue
		}
		ast.Inspect(fd.Body, func(nd ast.Node) bool {
			cc, ok := nd.(*ast.CommClause)
			if !ok || cc.Comm == nil {
				return true
			}
			var recv *ast.UnaryExpr
			var val types.Object
			switch s := cc.Comm.(type) {
			case *ast.AssignStmt:
				if len(s.Rhs) == 1 {
					if u, ok := ast.Unparen(s.Rhs[0]).(*ast.UnaryExpr); ok && u.Op == token.ARROW {
						recv = u
						if id, ok := s.Lhs[0].(*ast.Ident); ok {
							val = info.Defs[id]
							if val == nil {
								val = info.Uses[id]
							}
						}
					}
				}
			case *ast.ExprStmt:
				if u, ok := ast.Unparen(s.X).(*ast.UnaryExpr); ok && u.Op == token.ARROW {
					recv = u
				}
			}
			if recv == nil {
				return true
			}
			se, ok := ast.Unparen(recv.X).(*ast.SelectorExpr)
			if !ok {
				return true
			}
			want, isRole := role[se.Sel.Name]
			if !isRole {
				return true
			}
			nRecv++
			key := fmt.Sprintf("poll/channels/%s/recv-%s#%d", funcName(fd), se.Sel.Name, nRecv)
			found, other := false, false
			for _, st := range cc.Body {
				a, r, o := registryEffects(pk, st, val, 0)
				switch want {
				case "add":
					found = found || a > 0
					other = other || r > 0 || o > 0
				case "rmv":
					found = found || r > 0
					other = other || a > 0 || o > 0
				}
			}
			c.check(found && !other, key, cc.Pos(), "what arrives on "+se.Sel.Name+" is handed to connections."+want, "what arrives on the `"+se.Sel.Name+"` channel is not handed to connections."+want+" (with the channel match for a disconnect): registrations and removals are mixed up — a disconnect registers a dead listener, or a connect removes a live one")
			return true
		})
	}
	c.floor("receives from the poll registry channels", nRecv, 4)
	// sends
	for fnName, ch := range map[string]string{"Connect": "connect", "Disconnect": "disconnect"} {
		fd := funcDecl(pk, "PollHandler", fnName)
		key := "poll/channels/PollHandler." + fnName + "/send"
		if fd == nil {
			c.und(key, 0, "PollHandler."+fnName+" not found")
			continue
		}
		var sends []string
		ast.Inspect(fd.Body, func(nd ast.Node) bool {
			if ss, ok := nd.(*ast.SendStmt); ok {
				if se, ok := ast.Unparen(ss.Chan).(*ast.SelectorExpr); ok {
					sends = append(sends, se.Sel.Name)
				} else {
					sends = append(sends, exprString(ss.Chan))
				}
			}
			return true
		})
		c.check(len(sends) == 1 && sends[0] == ch, key, fd.Pos(), fnName+" sends on "+ch, fmt.Sprintf("PollHandler.%s sends on %v instead of exactly `%s`: the worker takes the event for the opposite one", fnName, sends, ch))
	}
}

// registryEffects counts, inside a node, the registrations (connections.add(obj)), the matched
// removals (connections.rmv(obj, true)) and the other registry calls made with obj — directly or
// through a function of the package that receives obj as an argument (two levels).
func registryEffects(pk *packages.Package, n ast.Node, obj types.Object, depth int) (adds, rmvs, others int) {
	info := pk.TypesInfo
	if obj == nil || n == nil {
		return
	}
	ast.Inspect(n, func(x ast.Node) bool {
		if _, isLit := x.(*ast.FuncLit); isLit {
			return false
		}
		call, ok := x.(*ast.CallExpr)
		if !ok {
			return true
		}
		fn, ok := calleeOf(info, call).(*types.Func)
		if !ok || fn.Pkg() != pk.Types {
			return true
		}
		sig := fn.Type().(*types.Signature)
		addName, rmvName := pollMethodName(pk, "add"), pollMethodName(pk, "rmv")
		if sig.Recv() != nil && namedName(derefType(sig.Recv().Type())) == "connections" && (fn.Name() == addName || fn.Name() == rmvName) {
			if len(call.Args) >= 1 && isObj(info, call.Args[0], obj) {
				switch {
				case fn.Name() == addName:
					adds++
				case len(call.Args) == 2 && exprString(call.Args[1]) == "true":
					rmvs++
				default:
					others++
				}
			}
			return true
		}
		if depth >= 2 {
			return true
		}
		fd := funcDeclOf(pk, fn)
		if fd == nil || fd.Body == nil {
			return true
		}
		for i, a := range call.Args {
			if i < sig.Params().Len() && isObj(info, a, obj) {
				a2, r2, o2 := registryEffects(pk, fd.Body, sig.Params().At(i), depth+1)
				adds, rmvs, others = adds+a2, rmvs+r2, others+o2
			}
		}
		return true
	})
	return
}

// rulePollRefusal (C18): ServeHTTP honours a refused registration: the outcome of Connect is tested
// and on refusal the handler answers and returns without streaming (a handler that streams from a
// connection the worker never registered waits for messages that cannot arrive, and later reports a
// disconnect for a listener that was never added).
func rulePollRefusal(c *Ctx) {
	pk := c.P.Pkg(pkgPoll)
	fd := funcDecl(pk, "PollHandler", "ServeHTTP")
	key := "poll/handler/refusal"
	if fd == nil {
		c.und(key, 0, "PollHandler.ServeHTTP not found")
		return
	}
	info := pk.TypesInfo
	okRefusal, n := false, 0
	var at token.Pos = fd.Pos()
	ast.Inspect(fd.Body, func(nd ast.Node) bool {
		call, ok := nd.(*ast.CallExpr)
		if !ok {
			return true
		}
		fn, ok := calleeOf(info, call).(*types.Func)
		if !ok || fn.Name() != "Connect" || fn.Pkg() != pk.Types {
			return true
		}
		n++
		at = call.Pos()
		// the innermost if statement whose condition is (the negation of) this call
		for _, a := range enclosing(fd.Body, call) {
			ifs, isIf := a.(*ast.IfStmt)
			if !isIf || !containsNode(ifs.Cond, call) {
				continue
			}
			cond := ast.Unparen(ifs.Cond)
			neg := false
			if u, isNot := cond.(*ast.UnaryExpr); isNot && u.Op == token.NOT {
				neg = true
				cond = ast.Unparen(u.X)
			}
			if cond != ast.Expr(call) {
				continue
			}
			if neg && terminates(ifs.Body.List) {
				okRefusal = true
			}
			if !neg {
				if els, isBlk := ifs.Else.(*ast.BlockStmt); isBlk && terminates(els.List) {
					okRefusal = true
				}
			}
		}
		return true
	})
	c.check(okRefusal && n == 1, key, at, "a refused registration ends the request", "ServeHTTP does not test the outcome of Connect and return on refusal: it streams from a connection the worker never registered")
}

// rulePollRegistry (C18): the registry's bookkeeping. (1) Every index into the registry map is the
// addressed group: the `group` parameter of get, or the `group` of the connection being added /
// removed (a listener filed under its id, or looked up under another key, is unreachable for the
// group's messages). (2) The connection count `len` is incremented exactly where a connection is
// appended and decremented exactly where one is closed and removed; the limit `max` is only read;
// add refuses (closes the new channel, registers nothing) exactly when `len >= max`.
func rulePollRegistry(c *Ctx) {
	pk := c.P.Pkg(pkgPoll)
	if pk == nil {
		c.und("poll/registry", 0, "poll package not loaded")
		return
	}
	info := pk.TypesInfo
	nIdx := 0
	for _, fd := range allFuncDecls(pk) {
		if fd.Body == nil || isTestFile(c.P, fd.Pos()) {
			continue
		}
		k := 0
		ast.Inspect(fd.Body, func(nd ast.Node) bool {
			ix, ok := nd.(*ast.IndexExpr)
			if !ok {
				return true
			}
			se, ok := ast.Unparen(ix.X).(*ast.SelectorExpr)
			if !ok || se.Sel.Name != "conns" {
				return true
			}
			if tv, ok := info.Types[ix.X]; !ok || !isMapType(tv.Type) {
				return true
			}
			nIdx++
			k++
			good := false
			switch x := ast.Unparen(ix.Index).(type) {
			case *ast.Ident:
				// the parameter named group (get), or the key of a range over the registry
				if v, ok := info.Uses[x].(*types.Var); ok && (isParamVar(info, fd.Type, v) && x.Name == "group" || rangesOverConns(fd.Body, v, info)) {
					good = true
				}
			case *ast.SelectorExpr:
				if x.Sel.Name == "group" {
					if tv, ok := info.Types[x.X]; ok && strings.HasSuffix(namedName(derefType(tv.Type)), "connection") {
						good = true
					}
				}
			}
			c.check(good, fmt.Sprintf("poll/registry/key/%s#%d", funcName(fd), k), ix.Pos(), "the registry is indexed by the group", "the registry is indexed by "+exprString(ix.Index)+", which is not the addressed group: listeners are filed or looked up under the wrong key and the group's messages do not reach them")
			return true
		})
	}
	c.floor("indexes into the poll registry", nIdx, 4)
	// counters
	type site struct {
		fn  string
		inc bool
		pos token.Pos
		ok  bool
	}
	var sites []site
	maxWritten := token.NoPos
	for _, fd := range allFuncDecls(pk) {
		if fd.Body == nil || isTestFile(c.P, fd.Pos()) {
			continue
		}
		ast.Inspect(fd.Body, func(nd ast.Node) bool {
			switch st := nd.(type) {
			case *ast.IncDecStmt:
				se, ok := ast.Unparen(st.X).(*ast.SelectorExpr)
				if !ok {
					return true
				}
				if tv, ok := info.Types[se.X]; !ok || namedName(derefType(tv.Type)) != "connections" {
					return true
				}
				if se.Sel.Name == pollLimitField(pk) {
					maxWritten = st.Pos()
				}
				if se.Sel.Name != "len" {
					return true
				}
				// the statements of the same block
				var blk []ast.Stmt
				for _, a := range enclosing(fd.Body, st) {
					switch b := a.(type) {
					case *ast.BlockStmt:
						blk = b.List
					case *ast.CaseClause:
						blk = b.Body
					}
				}
				hasAppend, hasClose := false, false
				for _, s2 := range blk {
					switch s2.(type) {
					case *ast.ExprStmt, *ast.AssignStmt:
					default:
						continue // only the statements of the block itself
					}
					for _, call := range callsIn(s2) {
						f := exprString(call.Fun)
						if f == "append" && len(call.Args) == 2 {
							if as, ok := s2.(*ast.AssignStmt); ok && len(as.Lhs) == 1 && strings.Contains(exprString(as.Lhs[0]), ".conns[") {
								hasAppend = true
							}
						}
						if f == "close" {
							hasClose = true
						}
					}
				}
				inc := st.Tok == token.INC
				sites = append(sites, site{funcName(fd), inc, st.Pos(), (inc && hasAppend && !hasClose) || (!inc && hasClose)})
			case *ast.AssignStmt:
				for _, l := range st.Lhs {
					if se, ok := ast.Unparen(l).(*ast.SelectorExpr); ok && (se.Sel.Name == pollLimitField(pk) || se.Sel.Name == "len") {
						if tv, ok := info.Types[se.X]; ok && namedName(derefType(tv.Type)) == "connections" {
							maxWritten = st.Pos()
						}
					}
				}
			}
			return true
		})
	}
	nInc, nDec, allOk := 0, 0, true
	var firstBad token.Pos
	for _, s := range sites {
		if s.inc {
			nInc++
		} else {
			nDec++
		}
		if !s.ok {
			allOk = false
			if !firstBad.IsValid() {
				firstBad = s.pos
			}
		}
	}
	c.check(allOk && nInc == 1 && nDec >= 2 && !maxWritten.IsValid(), "poll/registry/count", firstBad, "len++ with the one append, len-- with every close; max only read", fmt.Sprintf("the connection count is not kept with the registry (increments with an append: %d, decrements with a close: %d, all paired: %v, limit or count assigned elsewhere: %v): the limit is enforced against a wrong number — listeners are refused although there is room, or admitted without bound", nInc, nDec, allOk, maxWritten.IsValid()))
	// the refusal test of add
	add := pollMethod(pk, "add")
	if add == nil {
		c.und("poll/registry/limit", 0, "connections.add not found")
		return
	}
	limitOk := false
	var at token.Pos = add.Pos()
	// the older connection of the same listener is removed first: a reconnect replaces it (and frees
	// its slot) also when the registry is full
	replaced := false
	var par types.Object
	if add.Type.Params != nil && len(add.Type.Params.List) == 1 && len(add.Type.Params.List[0].Names) == 1 {
		par = info.Defs[add.Type.Params.List[0].Names[0]]
	}
	for _, st := range add.Body.List {
		if _, isIf := st.(*ast.IfStmt); !isIf {
			if _, _, o := registryEffects(pk, st, par, 0); o > 0 {
				replaced = true
			}
		}
		ifs, ok := st.(*ast.IfStmt)
		if !ok {
			continue
		}
		be, ok := ast.Unparen(ifs.Cond).(*ast.BinaryExpr)
		if !ok {
			continue
		}
		l, r := exprString(ast.Unparen(be.X)), exprString(ast.Unparen(be.Y))
		lim := "." + pollLimitField(pk)
		full := (be.Op == token.GEQ && strings.HasSuffix(l, ".len") && strings.HasSuffix(r, lim)) || (be.Op == token.LEQ && strings.HasSuffix(l, lim) && strings.HasSuffix(r, ".len"))
		closes, returns := false, false
		for _, s2 := range ifs.Body.List {
			for _, call := range callsIn(s2) {
				if exprString(call.Fun) == "close" {
					closes = true
				}
			}
			if _, ok := s2.(*ast.ReturnStmt); ok {
				returns = true
			}
		}
		if closes && returns {
			at = ifs.Pos()
			limitOk = full && ifs.Else == nil && replaced
		}
	}
	c.check(limitOk, "poll/registry/limit", at, "add replaces the listener's older connection, then refuses exactly when len >= max", "connections.add no longer removes the older connection of the same listener first and then refuses exactly when the count has reached the limit (`len >= max`): a reconnect at capacity is refused while the stale connection keeps receiving the listener's messages, listeners are refused although there is room, or the limit is not enforced")
}

func isMapType(t types.Type) bool {
	_, ok := t.Underlying().(*types.Map)
	return ok
}

func derefType(t types.Type) types.Type {
	if p, ok := t.Underlying().(*types.Pointer); ok {
		return p.Elem()
	}
	return t
}

// rangesOverConns: v is the key variable of a range over a `.conns` map in body.
func rangesOverConns(body ast.Node, v *types.Var, info *types.Info) bool {
	found := false
	ast.Inspect(body, func(n ast.Node) bool {
		if rs, ok := n.(*ast.RangeStmt); ok && rs.Key != nil {
			if id, ok := rs.Key.(*ast.Ident); ok && info.Defs[id] == v && strings.HasSuffix(exprString(rs.X), ".conns") {
				found = true
			}
		}
		return true
	})
	return found
}

// ---- roles in the poll registry, found by shape rather than by name ----
// (the registry type `connections`, its map `conns` and its counter `len` are pinned by the
// package's own tests; the methods and the limit field are free to be renamed)

// pollMethod: the method of the registry type playing a role:
//
//	get — returns (*connection, bool);  rmv — takes (*connection, bool);  add — takes one *connection.
func pollMethod(pk *packages.Package, role string) *ast.FuncDecl {
	if pk == nil {
		return nil
	}
	info := pk.TypesInfo
	isConn := func(t types.Type) bool {
		return namedName(derefType(t)) == "connection" && namedPkgPath(derefType(t)) == pkgPoll
	}
	isBool := func(t types.Type) bool {
		b, ok := t.Underlying().(*types.Basic)
		return ok && b.Kind() == types.Bool
	}
	for _, fd := range allFuncDecls(pk) {
		fn, ok := info.Defs[fd.Name].(*types.Func)
		if !ok {
			continue
		}
		sig := fn.Type().(*types.Signature)
		if sig.Recv() == nil || namedName(derefType(sig.Recv().Type())) != "connections" {
			continue
		}
		ps, rs := sig.Params(), sig.Results()
		switch role {
		case "get":
			if rs.Len() == 2 && isConn(rs.At(0).Type()) && isBool(rs.At(1).Type()) {
				return fd
			}
		case "rmv":
			if ps.Len() == 2 && isConn(ps.At(0).Type()) && isBool(ps.At(1).Type()) && rs.Len() == 0 {
				return fd
			}
		case "add":
			if ps.Len() == 1 && isConn(ps.At(0).Type()) && rs.Len() == 0 {
				return fd
			}
		}
	}
	return nil
}

func pollMethodName(pk *packages.Package, role string) string {
	if fd := pollMethod(pk, role); fd != nil {
		return fd.Name.Name
	}
	return role
}

// pollLimitField: the int field of the registry type that is not its counter `len`.
func pollLimitField(pk *packages.Package) string {
	if pk == nil {
		return "max"
	}
	obj := pk.Types.Scope().Lookup("connections")
	if obj == nil {
		return "max"
	}
	st, ok := obj.Type().Underlying().(*types.Struct)
	if !ok {
		return "max"
	}
	for i := 0; i < st.NumFields(); i++ {
		f := st.Field(i)
		if b, ok := f.Type().Underlying().(*types.Basic); ok && b.Kind() == types.Int && f.Name() != "len" {
			return f.Name()
		}
	}
	return "max"
}

type retDef struct {
	prov  string
	conds []string
}

// helperReturnDefs: the value-carrying returns of the same-package function a call invokes, each
// with the conditions that govern it inside the helper (early-exit guards included), in the
// caller's terms.
func helperReturnDefs(pk *packages.Package, env *provEnv, call *ast.CallExpr) []retDef {
	info := pk.TypesInfo
	fn, ok := calleeOf(info, call).(*types.Func)
	if !ok || fn.Pkg() != pk.Types {
		return nil
	}
	hd := funcDeclOf(pk, fn)
	if hd == nil || hd.Body == nil || hd == env.fd {
		return nil
	}
	sig := fn.Type().(*types.Signature)
	if sig.Results().Len() != 1 || sig.Variadic() || sig.Params().Len() != len(call.Args) {
		return nil
	}
	inner := newProvEnv(pk, hd)
	subst := func(v string) string {
		for i := 0; i < sig.Params().Len(); i++ {
			pn := sig.Params().At(i).Name()
			if pn == "" || pn == "_" || !strings.Contains(v, "param:"+pn) {
				continue
			}
			re := regexp.MustCompile(`param:` + regexp.QuoteMeta(pn) + `\b`)
			v = re.ReplaceAllLiteralString(v, env.prov(call.Args[i]))
		}
		return v
	}
	var out []retDef
	ast.Inspect(hd.Body, func(n ast.Node) bool {
		if _, isLit := n.(*ast.FuncLit); isLit {
			return false
		}
		rs, ok := n.(*ast.ReturnStmt)
		if !ok || len(rs.Results) != 1 {
			return true
		}
		d := retDef{prov: subst(inner.prov(rs.Results[0]))}
		for _, cnd := range inner.enclosingConds(hd.Body, rs) {
			d.conds = append(d.conds, subst(cnd))
		}
		out = append(out, d)
		return true
	})
	return out
}

// ruleSchemeURLVerbatim (C19): the http transport is handed the routing tag's URL as it was given:
// the "url" entry of the receiver data built by schemeToRecv is the String() of the very value
// url.Parse returned for the tag (or the tag itself) — not a URL rebuilt from some of its parts,
// which silently drops the query, the user info or the fragment the address was given with.
func ruleSchemeURLVerbatim(c *Ctx) {
	pk := c.P.Pkg(pkgSender)
	fd := funcDecl(pk, "", "schemeToRecv")
	key := "sender/scheme-url-verbatim"
	if fd == nil {
		c.und(key, 0, "schemeToRecv not found")
		return
	}
	info := pk.TypesInfo
	env := newLocalEnv(pk, fd, nil)
	par := paramObjOf(info, fd.Type, 0)
	n, ok := 0, true
	var at token.Pos = fd.Pos()
	what := ""
	ast.Inspect(fd.Body, func(nd ast.Node) bool {
		kv, isKV := nd.(*ast.KeyValueExpr)
		if !isKV {
			return true
		}
		if k, isLit := ast.Unparen(kv.Key).(*ast.BasicLit); !isLit || strings.Trim(k.Value, "\"`") != "url" {
			return true
		}
		n++
		v := ast.Unparen(kv.Value)
		good := false
		if isObj(info, v, par) {
			good = true
		}
		if call, isCall := v.(*ast.CallExpr); isCall && len(call.Args) == 0 {
			if se, isSel := ast.Unparen(call.Fun).(*ast.SelectorExpr); isSel && se.Sel.Name == "String" {
				if id, isId := ast.Unparen(se.X).(*ast.Ident); isId {
					for _, d := range env.defs[info.Uses[id]] {
						if as, isAs := d.(*ast.AssignStmt); isAs && len(as.Rhs) == 1 {
							if pc, isPC := ast.Unparen(as.Rhs[0]).(*ast.CallExpr); isPC && calleeName(info, pc) == "url.Parse" && len(pc.Args) == 1 && isObj(info, pc.Args[0], par) && len(env.defs[info.Uses[id]]) == 1 {
								good = true
							}
						}
					}
				}
			}
		}
		if !good {
			ok = false
			at = kv.Pos()
			what = exprString(kv.Value)
		}
		return true
	})
	c.check(n >= 1 && ok, key, at, "the http receiver's url is the parsed tag's own String()", "schemeToRecv hands the http transport "+what+" instead of the URL the routing tag gave (the String() of url.Parse's own result): parts of the address (query, user info, fragment) are dropped and the message is posted elsewhere")
}

// rulePollHandlerDisconnects (C18): the HTTP side of a long-poll connection. Once the handler's
// connection was registered with the worker (the connect hand-off succeeded), every way out of the
// handler either tells the worker (the disconnect hand-off) or was caused by the worker itself
// (the connection's channel was closed, which the worker does only after removing it). Otherwise
// a dead listener stays registered: it keeps receiving (and "accepting") messages until its buffer
// fills, and it occupies a connection slot. Must-facts over the handler's CFG.
func rulePollHandlerDisconnects(c *Ctx) {
	pk := c.P.Pkg(pkgPoll)
	if pk == nil {
		c.und("poll/handler-disconnects", 0, "poll package not loaded")
		return
	}
	info := pk.TypesInfo
	// the hand-off methods: those that send their parameter on the connect / disconnect channel
	sender := map[types.Object]string{}
	for _, fd := range allFuncDecls(pk) {
		if fd.Body == nil || fd.Recv == nil || isTestFile(c.P, fd.Pos()) {
			continue
		}
		ast.Inspect(fd.Body, func(nd ast.Node) bool {
			ss, ok := nd.(*ast.SendStmt)
			if !ok {
				return true
			}
			if se, ok := ast.Unparen(ss.Chan).(*ast.SelectorExpr); ok && (se.Sel.Name == "connect" || se.Sel.Name == "disconnect") {
				if id, ok := ast.Unparen(ss.Value).(*ast.Ident); ok {
					if v, ok := info.Uses[id].(*types.Var); ok && isNamed(v.Type(), pkgPoll, "connection") {
						sender[info.Defs[fd.Name]] = se.Sel.Name
					}
				}
			}
			return true
		})
	}
	callRole := func(nd ast.Node) (string, *ast.CallExpr) {
		for _, call := range callsIn(nd) {
			if r, ok := sender[calleeOf(info, call)]; ok {
				return r, call
			}
		}
		return "", nil
	}
	n := 0
	for _, fd := range allFuncDecls(pk) {
		if fd.Body == nil || isTestFile(c.P, fd.Pos()) || sender[info.Defs[fd.Name]] != "" {
			continue
		}
		connects := false
		for _, call := range callsIn(fd.Body) {
			if sender[calleeOf(info, call)] == "connect" {
				connects = true
			}
		}
		if !connects {
			continue
		}
		n++
		key := "poll/handler-disconnects/" + funcName(fd)
		// ok variables of `v, ok := <-conn.ch`
		closedVar := map[types.Object]bool{}
		ast.Inspect(fd.Body, func(nd ast.Node) bool {
			as, ok := nd.(*ast.AssignStmt)
			if !ok || len(as.Lhs) != 2 || len(as.Rhs) != 1 {
				return true
			}
			if u, ok := ast.Unparen(as.Rhs[0]).(*ast.UnaryExpr); ok && u.Op == token.ARROW {
				if tv, ok := info.Types[u.X]; ok {
					if ch, ok := tv.Type.Underlying().(*types.Chan); ok {
						if sl, ok := ch.Elem().Underlying().(*types.Slice); ok {
							_ = sl
							if id, ok := as.Lhs[1].(*ast.Ident); ok && info.Defs[id] != nil {
								closedVar[info.Defs[id]] = true
							}
						}
					}
				}
			}
			return true
		})
		g := buildCFG(pk, fd.Body)
		gen := func(nd ast.Node) []string {
			if _, isLit := nd.(*ast.FuncLit); isLit {
				return nil
			}
			if r, _ := callRole(nd); r == "disconnect" {
				return []string{"disconnected"}
			}
			return nil
		}
		edge := func(b *cfg.Block, i int) []string {
			if len(b.Succs) != 2 || len(b.Nodes) == 0 {
				return nil
			}
			cond, ok := b.Nodes[len(b.Nodes)-1].(ast.Expr)
			if !ok {
				return nil
			}
			cond = ast.Unparen(cond)
			neg := false
			if u, ok := cond.(*ast.UnaryExpr); ok && u.Op == token.NOT {
				neg = true
				cond = ast.Unparen(u.X)
			}
			truth := (i == 0) != neg // the value of the un-negated operand on this edge
			if call, ok := cond.(*ast.CallExpr); ok && sender[calleeOf(info, call)] == "connect" {
				if truth {
					return []string{"connected"}
				}
				return []string{"refused"}
			}
			if id, ok := cond.(*ast.Ident); ok && closedVar[info.Uses[id]] && !truth {
				return []string{"closed-by-worker"}
			}
			return nil
		}
		bad := token.NoPos
		nExit := 0
		for _, ex := range mustFactsAtExits(g, gen, edge) {
			if es, ok := ex.Last.(*ast.ExprStmt); ok {
				if c2, ok := es.X.(*ast.CallExpr); ok && exprString(c2.Fun) == "panic" {
					continue
				}
			}
			if !ex.Facts["connected"] {
				continue
			}
			nExit++
			if !ex.Facts["disconnected"] && !ex.Facts["closed-by-worker"] {
				p := fd.Body.Rbrace
				if ex.Last != nil {
					p = ex.Last.Pos()
				}
				if bad == token.NoPos || p < bad {
					bad = p
				}
			}
		}
		switch {
		case bad != token.NoPos:
			c.bad(key, bad, funcName(fd)+" can return here after its connection was registered without telling the worker (no disconnect hand-off, and not because the worker closed the connection): the dead listener stays registered, keeps being handed messages and occupies a connection slot")
		case nExit == 0:
			c.und(key, fd.Pos(), "no exit after a successful connect was found")
		default:
			c.ok(key, fd.Pos(), fmt.Sprintf("each of %d exits after a successful connect follows a disconnect hand-off or the worker's close", nExit))
		}
	}
	c.count("poll_handlers", n)
	c.floor("poll handlers that register a connection", n, 1)
}
