package main

import (
	"fmt"
	"go/ast"
	"go/token"
	"go/types"
	"golang.org/x/tools/go/packages"
	"sort"
	"strings"
)

// ruleConverterCompleteness (C20/C15/C01): the converters between the layers — stored record →
// API object (XRecord.X()), API object → protobuf message (grpc proto* helpers) and the gRPC
// reply literals — copy EVERY field: a composite literal of the target type built by a converter
// sets each (exported) field of that type, unless the field is listed here with the reason it has
// no source. A field that is silently left at its zero value is data the client supplied and never
// gets back.
var completenessExempt = map[string]string{
	"pb.ClaimTaskResponse.Mesg":            "only a claimed task has a message (set by assignment under the claimed status)",
	"pb.CreatePromiseAndTaskResponse.Task": "only when the task was created with the promise",
}

func ruleConverterCompleteness(c *Ctx) {
	type target struct {
		pkg      string
		isTarget func(fd *ast.FuncDecl, res types.Type) bool
	}
	n := 0
	var checkLit func(pkName string, info *types.Info, fd *ast.FuncDecl, cl *ast.CompositeLit, occ map[string]int)
	check := func(pkName string, info *types.Info, fd *ast.FuncDecl, cl *ast.CompositeLit, occ map[string]int) {
		checkLit(pkName, info, fd, cl, occ)
	}
	checkLit = func(pkName string, info *types.Info, fd *ast.FuncDecl, cl *ast.CompositeLit, occ map[string]int) {
		tv, ok := info.Types[cl]
		if !ok {
			return
		}
		st, ok := tv.Type.Underlying().(*types.Struct)
		if !ok {
			return
		}
		tn := namedName(tv.Type)
		tp := ""
		if nt, ok := tv.Type.(*types.Named); ok && nt.Obj().Pkg() != nil {
			tp = nt.Obj().Pkg().Name()
		}
		set := map[string]bool{}
		for _, el := range cl.Elts {
			if kv, ok := el.(*ast.KeyValueExpr); ok {
				set[exprString(kv.Key)] = true
			}
		}
		// fields assigned after the literal was bound to a variable (x.F = …) count as set
		ast.Inspect(fd.Body, func(x ast.Node) bool {
			if as, ok := x.(*ast.AssignStmt); ok {
				for _, l := range as.Lhs {
					if se, ok := ast.Unparen(l).(*ast.SelectorExpr); ok {
						if t2, ok := info.Types[se.X]; ok && namedName(t2.Type) == tn {
							set[se.Sel.Name] = true
						}
					}
				}
			}
			return true
		})
		// … also by a function of the package the object is handed to (protoPromiseMeta(p, promise))
		if curProgram != nil {
			var pk *packages.Package
			for _, r := range curProgram.Roots {
				if r.TypesInfo == info {
					pk = r
				}
			}
			var holder types.Object
			ast.Inspect(fd.Body, func(x ast.Node) bool {
				if as, ok := x.(*ast.AssignStmt); ok && len(as.Lhs) == len(as.Rhs) {
					for i, r := range as.Rhs {
						v := ast.Unparen(r)
						if u, ok := v.(*ast.UnaryExpr); ok && u.Op == token.AND {
							v = ast.Unparen(u.X)
						}
						if v == ast.Expr(cl) {
							if id, ok := as.Lhs[i].(*ast.Ident); ok {
								if holder = info.Defs[id]; holder == nil {
									holder = info.Uses[id]
								}
							}
						}
					}
				}
				return true
			})
			if pk != nil && holder != nil {
				for _, call := range callsInDeep(fd.Body) {
					fn, ok := calleeOf(info, call).(*types.Func)
					if !ok || fn.Pkg() != pk.Types {
						continue
					}
					hd := funcDeclOf(pk, fn)
					if hd == nil || hd.Body == nil {
						continue
					}
					sig := fn.Type().(*types.Signature)
					for i, a := range call.Args {
						if i >= sig.Params().Len() || !isObj(info, a, holder) {
							continue
						}
						par := sig.Params().At(i)
						ast.Inspect(hd.Body, func(x ast.Node) bool {
							if as, ok := x.(*ast.AssignStmt); ok {
								for _, l := range as.Lhs {
									if se, ok := ast.Unparen(l).(*ast.SelectorExpr); ok && isObj(info, se.X, par) {
										set[se.Sel.Name] = true
									}
								}
							}
							return true
						})
					}
				}
			}
		}
		var missing []string
		for i := 0; i < st.NumFields(); i++ {
			f := st.Field(i)
			if !f.Exported() || set[f.Name()] {
				continue
			}
			if _, ex := completenessExempt[tp+"."+tn+"."+f.Name()]; ex {
				continue
			}
			missing = append(missing, f.Name())
		}
		// nested value literals (Param: promise.Value{…}) are converters of their own
		for _, el := range cl.Elts {
			if kv, ok := el.(*ast.KeyValueExpr); ok {
				v := ast.Unparen(kv.Value)
				if u, ok := v.(*ast.UnaryExpr); ok {
					v = ast.Unparen(u.X)
				}
				if inner, ok := v.(*ast.CompositeLit); ok {
					if it, ok := info.Types[inner]; ok {
						if _, isStruct := it.Type.Underlying().(*types.Struct); isStruct && (strings.HasPrefix(namedPkgPath(it.Type), modPath)) {
							checkLit(pkName, info, fd, inner, occ)
						}
					}
				}
			}
		}
		n++
		occ[tn]++
		key := fmt.Sprintf("converter-complete/%s.%s/%s", pkName, funcName(fd), tn)
		if occ[tn] > 1 {
			key += fmt.Sprintf("#%d", occ[tn])
		}
		sort.Strings(missing)
		c.check(len(missing) == 0, key, cl.Pos(), "every field of "+tp+"."+tn+" is set", funcName(fd)+" builds a "+tp+"."+tn+" without "+strings.Join(missing, ", ")+": that part of the stored / returned object is silently dropped on this leg of the round trip")
	}
	// record decoders
	for _, pp := range []string{pkgPromise, pkgTask, pkgSchedule, pkgLock, pkgCallback} {
		pk := c.P.Pkg(pp)
		if pk == nil {
			continue
		}
		info := pk.TypesInfo
		for _, fd := range allFuncDecls(pk) {
			if fd.Recv == nil || fd.Body == nil || !strings.HasSuffix(recvTypeName(fd.Recv.List[0].Type), "Record") || isTestFile(c.P, fd.Pos()) {
				continue
			}
			sig := info.Defs[fd.Name].(*types.Func).Type().(*types.Signature)
			if sig.Results().Len() != 2 {
				continue
			}
			want := namedName(sig.Results().At(0).Type())
			occ := map[string]int{}
			ast.Inspect(fd.Body, func(x ast.Node) bool {
				if cl, ok := x.(*ast.CompositeLit); ok && namedName(info.Types[cl].Type) == want && namedPkgPath(info.Types[cl].Type) == pp {
					check(pk.Name, info, fd, cl, occ)
				}
				return true
			})
		}
	}
	// protobuf converters and replies
	if pk := c.P.Pkg(pkgGrpc); pk != nil {
		info := pk.TypesInfo
		for _, fd := range allFuncDecls(pk) {
			if fd.Body == nil || isTestFile(c.P, fd.Pos()) {
				continue
			}
			sig := info.Defs[fd.Name].(*types.Func).Type().(*types.Signature)
			if sig.Results().Len() == 0 || namedPkgPath(sig.Results().At(0).Type()) != pkgPb {
				continue
			}
			want := namedName(sig.Results().At(0).Type())
			occ := map[string]int{}
			ast.Inspect(fd.Body, func(x ast.Node) bool {
				if cl, ok := x.(*ast.CompositeLit); ok && namedPkgPath(info.Types[cl].Type) == pkgPb && namedName(info.Types[cl].Type) == want {
					check(pk.Name, info, fd, cl, occ)
				}
				return true
			})
		}
	}
	c.count("converter_literals", n)
	c.floor("converter literals", n, 25)
}
