package main

// C20 round-trip rules (R16) and interpreted-text rules (R15).

import (
	"fmt"
	"go/ast"
	"go/token"
	"go/types"
	"sort"
	"strings"

	"golang.org/x/tools/go/packages"
)

// namesIn collects, lower-cased, the selector names, identifier names and string literals that
// occur in an expression (through single-definition locals of the enclosing function).
func namesIn(pk *packages.Package, env *localEnv, e ast.Expr, depth int, out map[string]bool) {
	if e == nil || depth > 4 {
		return
	}
	info := pk.TypesInfo
	ast.Inspect(e, func(n ast.Node) bool {
		switch x := n.(type) {
		case *ast.SelectorExpr:
			out[strings.ToLower(x.Sel.Name)] = true
			out[strings.TrimPrefix(strings.ToLower(x.Sel.Name), "get")] = true // protobuf getters
		case *ast.BasicLit:
			if x.Kind == token.STRING {
				out[strings.ToLower(strings.Trim(x.Value, "\"`"))] = true
			}
		case *ast.Ident:
			out[strings.ToLower(x.Name)] = true
			// a converter named after what it produces (protoMesg(…) feeds Mesg)
			if ln := strings.ToLower(x.Name); strings.HasPrefix(ln, "proto") && len(ln) > 5 {
				if _, isFn := info.Uses[x].(*types.Func); isFn {
					out[strings.TrimPrefix(ln, "proto")] = true
				}
			}
			if env != nil {
				if v, ok := info.Uses[x].(*types.Var); ok && !v.IsField() {
					for _, d := range env.defs[v] {
						switch s := d.(type) {
						case *ast.AssignStmt:
							for _, r := range s.Rhs {
								namesIn(pk, env, r, depth+1, out)
							}
						case *ast.ValueSpec:
							for _, r := range s.Values {
								namesIn(pk, env, r, depth+1, out)
							}
						}
					}
				}
			}
		}
		return true
	})
}

// field aliases: a field that is legitimately fed from a differently named source
var fieldAliases = map[string][]string{
	"ClaimTaskRequest.ProcessId":      {"taskprocessid"},
	"ClaimTaskRequest.Ttl":            {"taskfrequency"},
	"HeartbeatTasksRequest.ProcessId": {"taskprocessid"},
	"CreateTaskRequest.PromiseId":     {"id"},
	"Promise.Param":                   {"paramheaders", "paramdata"},
	"Promise.Value":                   {"valueheaders", "valuedata"},
	"Schedule.PromiseParam":           {"promiseparamheaders", "promiseparamdata"},
	"Value.Headers":                   {"paramheaders", "valueheaders", "promiseparamheaders"},
	"Value.Data":                      {"paramdata", "valuedata", "promiseparamdata"},
	"Promise.CreatedOn":               {"createdon"},
	"Callback.PromiseId":              {"promiseid"},
	"MesgPromise.Data":                {"rootpromise", "leafpromise"},
	"MesgPromise.Href":                {"rootpromisehref", "leafpromisehref"},
	"MesgPromise.Id":                  {"root", "leaf"},
	"Mesg.Promises":                   {"promises"},
	"Recv.Type":                       {"type"},
}

func dataObjectType(t types.Type) (string, bool) {
	n := namedName(t)
	p := namedPkgPath(t)
	switch {
	case p == pkgTApi && strings.HasSuffix(n, "Request"):
		return n, true
	case p == pkgPb && n != "":
		return n, true
	case strings.HasPrefix(p, modPath+"/pkg/") && n != "" && !strings.HasSuffix(n, "Record"):
		return n, true
	}
	return "", false
}

// ruleNameAgreement (R16): in the front ends and the record decoders every field of a data object
// is fed from the identically named station (request field ← body/proto field of that name, API
// object field ← record field of that name, proto field ← API field of that name).
func ruleNameAgreement(c *Ctx) {
	pkgs := []string{pkgHttp, pkgGrpc, pkgPromise, pkgTask, pkgSchedule, pkgLock, pkgCallback}
	n := 0
	for _, pp := range pkgs {
		pk := c.P.Pkg(pp)
		if pk == nil {
			c.und("names/"+pp, 0, "package not loaded")
			continue
		}
		info := pk.TypesInfo
		for _, fd := range allFuncDecls(pk) {
			if isTestFile(c.P, fd.Pos()) {
				continue
			}
			env := newLocalEnv(pk, fd, nil)
			occ := map[string]int{}
			// nested literals: the parent field names the station (Param: Value{Data: …} must come from param data)
			parentField := map[*ast.CompositeLit]string{}
			ast.Inspect(fd.Body, func(nd ast.Node) bool {
				if kv, ok := nd.(*ast.KeyValueExpr); ok {
					v := ast.Unparen(kv.Value)
					if u, ok := v.(*ast.UnaryExpr); ok && u.Op == token.AND {
						v = ast.Unparen(u.X)
					}
					if inner, ok := v.(*ast.CompositeLit); ok {
						if _, isObj := dataObjectType(info.Types[inner].Type); isObj {
							parentField[inner] = exprString(kv.Key)
						}
					}
				}
				return true
			})
			ast.Inspect(fd.Body, func(nd ast.Node) bool {
				cl, ok := nd.(*ast.CompositeLit)
				if !ok {
					return true
				}
				tn, ok := dataObjectType(info.Types[cl].Type)
				if !ok {
					return true
				}
				parent := strings.ToLower(parentField[cl])
				for _, el := range cl.Elts {
					kv, ok := el.(*ast.KeyValueExpr)
					if !ok {
						continue
					}
					f := exprString(kv.Key)
					v := ast.Unparen(kv.Value)
					if u, ok := v.(*ast.UnaryExpr); ok && u.Op == token.AND {
						v = ast.Unparen(u.X)
					}
					if _, isLit := v.(*ast.CompositeLit); isLit {
						continue // nested object: its own fields are checked
					}
					if tv, ok := info.Types[kv.Value]; ok && tv.Value != nil {
						continue // constant
					}
					if tv, ok := info.Types[kv.Value]; ok {
						if b, ok := tv.Type.Underlying().(*types.Basic); ok && b.Kind() == types.Bool {
							if _, isCmp := v.(*ast.BinaryExpr); isCmp {
								continue // an outcome flag computed by a comparison (checked by R13), not client data
							}
						}
					}
					if se, ok := v.(*ast.SelectorExpr); ok {
						if _, isConst := info.Uses[se.Sel].(*types.Const); isConst {
							continue
						}
					}
					if id, ok := v.(*ast.Ident); ok {
						if _, isNil := info.Uses[id].(*types.Nil); isNil {
							continue
						}
					}
					names := map[string]bool{}
					namesIn(pk, env, kv.Value, 0, names)
					ok2 := names[strings.ToLower(f)]
					for _, a := range fieldAliases[tn+"."+f] {
						if names[a] {
							ok2 = true
						}
					}
					if parent != "" && tn == "Value" {
						// a Value nested under Param / Value / PromiseParam: the source must be that station's
						lf := strings.ToLower(f)
						ok2 = names[parent+lf] || (names[parent] && names[lf]) || names[strings.TrimPrefix(parent, "promise")+lf] && strings.HasPrefix(parent, "promise") && names["promise"+strings.TrimPrefix(parent, "promise")+lf]
						if names[parent+lf] || (names[parent] && names[lf]) {
							ok2 = true
						}
					}
					n++
					occ[tn+"."+f]++
					key := fmt.Sprintf("names/%s.%s/%s.%s", pk.Name, funcName(fd), tn, f)
					if occ[tn+"."+f] > 1 {
						key += fmt.Sprintf("#%d", occ[tn+"."+f])
					}
					c.check(ok2, key, kv.Pos(), f+" ← "+exprString(kv.Value), fmt.Sprintf("%s.%s is fed from %s, which does not come from a station named %s: a client datum would be stored or returned under another field", tn, f, exprString(kv.Value), f))
				}
				return true
			})
		}
	}
	c.count("data_object_fields", n)
	c.floor("data-object fields with a named source", n, 150)
}

// normalisers that must not lie on the path of an id or payload
var normaliserFuncs = map[string]bool{
	"strings.ToLower": true, "strings.ToUpper": true, "strings.TrimSpace": true, "strings.Trim": true, "strings.TrimLeft": true,
	"strings.TrimRight": true, "strings.TrimPrefix": true, "strings.TrimSuffix": true, "strings.Title": true, "strings.ToTitle": true,
	"strings.Map": true, "strings.Fields": true, "strings.ReplaceAll": true, "strings.Replace": true, "strings.NewReplacer": true,
	"strings.EqualFold": true, "util.RemoveWhitespace": true, "html.EscapeString": true, "html.UnescapeString": true,
	"url.QueryEscape": true, "url.PathEscape": true, "url.QueryUnescape": true, "url.PathUnescape": true,
	"template.HTMLEscapeString": true, "template.JSEscapeString": true, "strconv.Quote": true, "bytes.ToLower": true, "bytes.TrimSpace": true,
	"path.Clean": true, "filepath.Clean": true, "norm.String": true,
}

// the sites where a normaliser is applied to something that is not an id or payload
var allowedNormalisers = map[string]string{
	// keyed by package, normaliser and the ORIGIN of its operands (origin.go): stable under renaming
	// of locals and extraction of helpers; operands without a nameable origin carry the function
	"api/strings.ToLower(param:api.API.SearchPromises#1)":                             "the search state WORD (pending/resolved/rejected), not an id",
	"api/strings.ToLower(call:validator.FieldError.Field)":                            "the validator's field NAME in an error message",
	"api/strings.ReplaceAll(call:validator.FieldError.Field)":                         "error message text",
	"promise/State.UnmarshalJSON/strings.ToUpper(addr-taken|zero)":                    "the state WORD in a request body",
	"http/strings.EqualFold(call:reflect.Value.String & call:strings.Split[])":        "the state WORD validator",
	"sqlite/strings.ReplaceAll(field:t_aio.SearchPromisesCommand.Id)":                "search PATTERN: * → % (search patterns are exempt by the statement)",
	"sqlite/strings.ReplaceAll(field:t_aio.SearchSchedulesCommand.Id)":               "search PATTERN: * → %",
	"postgres/strings.ReplaceAll(field:t_aio.SearchPromisesCommand.Id)":              "search PATTERN: * → %",
	"postgres/strings.ReplaceAll(field:t_aio.SearchSchedulesCommand.Id)":             "search PATTERN: * → %",
	"sender/strings.TrimPrefix(field:url.URL.Path)":                                   "URL syntax: the path of poll://group/id without its leading slash is the listener id",
	"util/RemoveWhitespace/strings.Map(expr & param:util.RemoveWhitespace#0)":         "helper definition (its call sites are judged)",
	"config/strings.NewReplacer()":                                                    "configuration keys",
}

// ruleNoNormalisers (R15): no normalising / escaping function is applied in the packages that
// carry ids and payloads, except at the listed sites.
func ruleNoNormalisers(c *Ctx) {
	n := 0
	for _, pk := range c.P.Roots {
		if strings.HasPrefix(pk.PkgPath, modPath+"/cmd") || strings.Contains(pk.PkgPath, "/test") || pk.PkgPath == pkgPb || strings.HasPrefix(pk.PkgPath, modPath+"/pkg/client") || strings.HasSuffix(pk.PkgPath, "/metrics") || strings.HasSuffix(pk.PkgPath, "/pkg/log") {
			continue
		}
		info := pk.TypesInfo
		for _, fd := range allFuncDecls(pk) {
			if isTestFile(c.P, fd.Pos()) {
				continue
			}
			for _, call := range callsInDeep(fd.Body) {
				cn := calleeName(info, call)
				if !normaliserFuncs[cn] {
					continue
				}
				n++
				var ops []string
				for _, a := range call.Args {
					if tv, ok := info.Types[a]; ok && tv.Value == nil {
						ops = append(ops, originOf(pk, fd, a, 0))
					}
				}
				opd := strings.Join(ops, " & ")
				site := pk.Name + "/" + cn + "(" + opd + ")"
				for _, vague := range []string{"addr-taken", "expr", "local:", "zero", "…", "ident:", "sel:"} {
					if strings.Contains(opd, vague) {
						site = pk.Name + "/" + funcName(fd) + "/" + cn + "(" + opd + ")"
						break
					}
				}
				why, ok := allowedNormalisers[site]
				c.check(ok, "normaliser/"+site, call.Pos(), cn+" applied to "+why, cn+" is applied in "+pk.Name+"."+funcName(fd)+" ("+exprString(call)+"): ids and payloads must be stored, compared and returned exactly as supplied (no case folding, trimming or escaping)")
			}
		}
		// html/template escapes its operands
		for _, f := range pk.Syntax {
			if isTestFile(c.P, f.Pos()) {
				continue
			}
			for _, im := range f.Imports {
				if im.Path.Value == `"html/template"` {
					c.bad("R15-interpreted-text/html-template/"+pk.Name, im.Pos(), pk.PkgPath+" imports html/template: operands (client ids) are HTML-escaped when the template is executed")
				}
			}
		}
	}
	c.count("normaliser_call_sites", n)
	c.floor("normaliser call sites judged", n, 6)
	// router options that rewrite the request path before the wildcard id is extracted
	if hp := c.P.Pkg(pkgHttp); hp != nil {
		for _, fd := range allFuncDecls(hp) {
			ast.Inspect(fd.Body, func(nd ast.Node) bool {
				as, ok := nd.(*ast.AssignStmt)
				if !ok || len(as.Lhs) != 1 {
					return true
				}
				se, ok := as.Lhs[0].(*ast.SelectorExpr)
				if !ok || !isNamed(hp.TypesInfo.Types[se.X].Type, "github.com/gin-gonic/gin", "Engine") {
					return true
				}
				switch se.Sel.Name {
				case "RemoveExtraSlash", "RedirectFixedPath", "UseRawPath", "UnescapePathValues":
					c.bad("normaliser/gin."+se.Sel.Name, as.Pos(), "the HTTP router option "+se.Sel.Name+" is changed: request paths are cleaned / re-encoded before the wildcard id is extracted, so ids with empty, '.', '..' or escaped segments address a different promise than the one created through a body or gRPC")
				}
				return true
			})
		}
		c.ok("normaliser/gin-options", 0, "the HTTP router keeps gin's default path handling (no path cleaning)")
	}
	// extractId removes exactly the leading slash
	pk := c.P.Pkg(pkgHttp)
	fd := funcDecl(pk, "", "extractId")
	if fd == nil {
		c.und("extract-id", 0, "http.extractId not found")
	} else {
		ok := false
		if rs, isRet := fd.Body.List[len(fd.Body.List)-1].(*ast.ReturnStmt); isRet && len(rs.Results) == 1 {
			ok = exprString(rs.Results[0]) == "id[1:]"
		}
		c.check(ok, "extract-id", fd.Pos(), "wildcard route id minus exactly the leading '/'", "extractId no longer returns id[1:]: ids with slashes are altered")
	}
}

// ruleTimeoutWidth (R16): timeouts are int64 at every station.
func ruleTimeoutWidth(c *Ctx) {
	n := 0
	for _, pp := range []string{pkgTApi, pkgTAio, pkgPromise, pkgTask, pkgSchedule, pkgCallback, pkgPb, pkgHttp} {
		pk := c.P.Pkg(pp)
		if pk == nil {
			continue
		}
		for _, name := range pk.Types.Scope().Names() {
			tn, ok := pk.Types.Scope().Lookup(name).(*types.TypeName)
			if !ok {
				continue
			}
			st, ok := tn.Type().Underlying().(*types.Struct)
			if !ok {
				continue
			}
			for i := 0; i < st.NumFields(); i++ {
				f := st.Field(i)
				switch f.Name() {
				case "Timeout", "PromiseTimeout", "CreatedOn", "CompletedOn", "NextRunTime", "LastRunTime", "ExpiresAt":
					n++
					t := f.Type()
					if p, ok := t.(*types.Pointer); ok {
						t = p.Elem()
					}
					b, ok := t.Underlying().(*types.Basic)
					c.check(ok && b.Kind() == types.Int64, fmt.Sprintf("width/%s.%s.%s", pk.Name, name, f.Name()), f.Pos(), "int64", fmt.Sprintf("%s.%s.%s is %s, not int64: timeouts over the full 64-bit range are truncated at this station", pk.Name, name, f.Name(), f.Type()))
				}
			}
		}
	}
	c.count("time_fields", n)
	c.floor("time-valued fields", n, 40)
}

// ruleScanTargets is covered by R1/R2 (scan alignment); ruleCodecPairs: maps are written with
// json.Marshal and read with json.Unmarshal into the same map type; bytes are passed through.
func ruleCodecPairs(c *Ctx) {
	n := 0
	for _, pp := range []string{pkgPromise, pkgSchedule} {
		pk := c.P.Pkg(pp)
		fd := funcDecl(pk, "", "bytesToMap")
		if fd == nil {
			c.und("codec/"+pk.Name, 0, "bytesToMap not found in "+pp)
			continue
		}
		n++
		okJSON := false
		for _, call := range callsIn(fd.Body) {
			if calleeName(pk.TypesInfo, call) == "json.Unmarshal" {
				okJSON = true
			}
		}
		other := false
		for _, call := range callsIn(fd.Body) {
			cn := calleeName(pk.TypesInfo, call)
			if normaliserFuncs[cn] {
				other = true
			}
		}
		c.check(okJSON && !other, "codec/"+pk.Name+".bytesToMap", fd.Pos(), "stored maps are decoded with plain json.Unmarshal (inverse of the json.Marshal that wrote them)", "bytesToMap is no longer the plain inverse of json.Marshal")
	}
	c.count("codec_pairs", n)
	_ = sort.Strings
}

// ruleSearchText (R15, findings F15): the client's id pattern and tag keys reach positions where
// SQL interprets them — the LIKE pattern (where '_' and '%' are wildcards besides the documented
// '*') and, on SQLite, the JSON path built from a tag key.
func ruleSearchText(dialectOnly bool) ruleFn {
	return func(c *Ctx) {
		m := c.sqlModel()
		if m.Err != nil {
			c.und("model", 0, m.Err.Error())
			return
		}
		n := 0
		for _, b := range m.Backends {
			for _, k := range []string{"SearchPromises", "SearchSchedules"} {
				a := b.Arms[k]
				if a == nil {
					continue
				}
				for _, r := range b.resolveArm(c.P, a) {
					if r.Problem != "" || r.Facts == nil {
						continue
					}
					n++
					likeRaw := false
					for _, w := range r.Facts.Where {
						if strings.Contains(w, " LIKE :like(") {
							likeRaw = true
						}
					}
					hasEscape := strings.Contains(strings.ToUpper(r.Text), "ESCAPE")
					if dialectOnly {
						// C17: LIKE is ASCII-case-insensitive in SQLite and case-sensitive in Postgres
						c.check(!likeRaw, "dialect/like-case/"+k+"/"+b.Name, r.Pos, "no dialect-sensitive pattern operator", "the id filter uses LIKE, whose case sensitivity differs between the engines (SQLite folds ASCII case, Postgres does not): the same search returns different rows on the two backends")
						continue
					}
					c.check(!likeRaw || hasEscape, "like-pattern/"+b.Name+"/"+k, r.Pos, "LIKE operand is escaped", "the id pattern reaches LIKE with only '*' translated to '%': '_' and '%' inside the client's pattern are wildcards too (and on SQLite the match ignores ASCII case), so a search returns promises that do not match the query")
					if b.Name == "sqlite" {
						jsonPath := false
						for _, arg := range r.E.Args {
							if strings.Contains(arg, `"$."+key`) {
								jsonPath = true
							}
						}
						c.check(!jsonPath, "json-path/"+b.Name+"/"+k, r.Pos, "tag keys are not spliced into a JSON path", "the tag key is concatenated into a JSON path (\"$.\"+key): a key containing '.', '[' or '\"' addresses a different member, so promises carrying the tag are not returned")
					}
				}
			}
		}
		c.floor("search statements inspected", n, 4)
	}
}
