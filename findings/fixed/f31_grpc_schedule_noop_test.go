// Reproduction of finding F31 (C15): place in internal/app/subsystems/api/grpc/ and run
//   go test -vet=off -count=1 -run TestF31 ./internal/app/subsystems/api/grpc/
// Before fix (repo at aae3b28): FAILS — the gRPC CreateSchedule reply reports noop=false although
// the kernel answered 200 OK (the schedule already existed with the same idempotency key); every
// other create/complete reply derives noop from the status. After the fix it passes.
package grpc

import (
	"context"
	"testing"
	"time"

	"github.com/resonatehq/resonate/internal/app/subsystems/api/grpc/pb"
	"github.com/resonatehq/resonate/internal/kernel/t_api"
	"github.com/resonatehq/resonate/pkg/idempotency"
	"github.com/resonatehq/resonate/pkg/promise"
	"github.com/resonatehq/resonate/pkg/schedule"
)

func TestF31CreateScheduleNoopFollowsKernelStatus(t *testing.T) {
	g, err := setup()
	if err != nil {
		t.Fatal(err)
	}
	defer func() { _ = g.teardown() }()
	for _, tc := range []struct {
		status t_api.StatusCode
		noop   bool
	}{{t_api.StatusCreated, false}, {t_api.StatusOK, true}} {
		key := idempotency.Key("bar")
		req := &t_api.Request{
			Kind: t_api.CreateSchedule,
			Tags: map[string]string{"id": "CreateSchedule", "name": "CreateSchedule", "protocol": "grpc"},
			CreateSchedule: &t_api.CreateScheduleRequest{
				Id: "foo", Description: "", Cron: "* * * * *", PromiseId: "foo.{{.timestamp}}", PromiseTimeout: 1,
				PromiseParam: promise.Value{}, IdempotencyKey: &key,
			},
		}
		res := &t_api.Response{
			Kind: t_api.CreateSchedule,
			CreateSchedule: &t_api.CreateScheduleResponse{Status: tc.status, Schedule: &schedule.Schedule{Id: "foo", Cron: "* * * * *", PromiseId: "foo.{{.timestamp}}", PromiseTimeout: 1, IdempotencyKey: &key}},
		}
		g.Load(t, req, res)
		ctx, cancel := context.WithTimeout(context.Background(), time.Second)
		out, err := g.schedules.CreateSchedule(ctx, &pb.CreateScheduleRequest{Id: "foo", Cron: "* * * * *", PromiseId: "foo.{{.timestamp}}", PromiseTimeout: 1, IdempotencyKey: "bar", RequestId: "CreateSchedule"})
		cancel()
		if err != nil {
			t.Fatalf("status %d: %v", tc.status, err)
		}
		if out.Noop != tc.noop {
			t.Errorf("kernel status %d: grpc reply noop=%v, want %v", tc.status, out.Noop, tc.noop)
		}
	}
}
