package main

// R9 command provenance (with the governing R8 comparisons) against spec/commands.spec, and the
// who-may-construct / transaction-grouping rules (R5).

import (
	_ "embed"
	"fmt"
	"go/ast"
	"go/token"
	"go/types"
	"sort"
	"strconv"
	"strings"
)

//go:embed spec/commands.spec
var cmdSpecText string

//go:embed spec/responses.spec
var respSpecText string

//go:embed spec/objects.spec
var objSpecText string

// objTypes: the packages of the object types of spec/objects.spec
var objTypes = map[string]string{"Promise": pkgPromise, "Task": pkgTask, "Lock": pkgLock, "Schedule": pkgSchedule, "Callback": pkgCallback,
	"SenderSubmission": pkgTAio, "SearchPromisesRequest": pkgTApi, "SearchSchedulesRequest": pkgTApi}

type cmdTemplate struct {
	Type   string
	Name   string
	Min    int
	Why    string
	Cond   []string
	Where  string
	Fields map[string][]string
	Order  []string
}

func loadCmdSpec() ([]*cmdTemplate, error) { return loadTemplates(cmdSpecText) }

func loadTemplates(text string) ([]*cmdTemplate, error) {
	var out []*cmdTemplate
	var cur *cmdTemplate
	for i, ln := range strings.Split(text, "\n") {
		t := strings.TrimSpace(ln)
		switch {
		case t == "" || strings.HasPrefix(t, "#"):
		case strings.HasPrefix(t, "["):
			end := strings.Index(t, "]")
			if end < 0 {
				return nil, fmt.Errorf("commands.spec:%d: bad header", i+1)
			}
			hd := strings.Fields(t[1:end])
			if len(hd) != 2 {
				return nil, fmt.Errorf("commands.spec:%d: header needs type and name", i+1)
			}
			cur = &cmdTemplate{Type: hd[0], Name: hd[1], Min: 1, Fields: map[string][]string{}}
			rest := strings.TrimSpace(t[end+1:])
			if strings.HasPrefix(rest, "min=") {
				cur.Min, _ = strconv.Atoi(strings.TrimPrefix(rest, "min="))
			}
			out = append(out, cur)
		case strings.HasPrefix(t, "why:"):
			cur.Why = strings.TrimSpace(strings.TrimPrefix(t, "why:"))
		case strings.HasPrefix(t, "cond:"):
			for _, a := range strings.Split(strings.TrimPrefix(t, "cond:"), " ; ") {
				cur.Cond = append(cur.Cond, strings.ReplaceAll(strings.TrimSpace(a), "SENDER", "Sender"))
			}
		case strings.HasPrefix(t, "where:"):
			cur.Where = strings.TrimSpace(strings.TrimPrefix(t, "where:"))
		default:
			eq := strings.Index(t, " = ")
			if eq < 0 || cur == nil {
				return nil, fmt.Errorf("commands.spec:%d: expected `Field = value`", i+1)
			}
			f := strings.TrimSpace(t[:eq])
			var alts []string
			for _, a := range strings.Split(t[eq+3:], " | ") {
				alts = append(alts, strings.TrimSpace(a))
			}
			cur.Fields[f] = alts
			cur.Order = append(cur.Order, f)
		}
	}
	return out, nil
}

func (m *coroModel) roleOf(fn string) []string {
	var out []string
	for k, f := range m.Request {
		if f.Name == fn {
			out = append(out, "kind:"+k)
		}
	}
	for k, f := range m.Background {
		if f.Name == fn {
			out = append(out, "bg:"+k)
		}
	}
	sort.Strings(out)
	return out
}

// matchTemplate returns the list of mismatches (empty = match).
func (m *coroModel) matchTemplate(l *cmdLit, t *cmdTemplate) []string {
	var diffs []string
	for _, f := range t.Order {
		got, ok := l.Fields[f]
		if !ok {
			got = "-"
		}
		matched := false
		for _, a := range t.Fields[f] {
			if a == "*" && (ok || !starNeedsPresence) || a == got || (strings.HasPrefix(a, "~") && ok && strings.Contains(got, a[1:])) {
				matched = true
			}
		}
		if !matched {
			diffs = append(diffs, fmt.Sprintf("%s: found %s, spec %s", f, got, strings.Join(t.Fields[f], " | ")))
		}
	}
	for f, got := range l.Fields {
		if _, ok := t.Fields[f]; !ok {
			if got == "nil" {
				continue // an explicit nil is the field left unset
			}
			diffs = append(diffs, fmt.Sprintf("%s: found %s, spec leaves it unset", f, got))
		}
	}
	have := map[string]bool{}
	for _, a := range l.Conds {
		have[a] = true
	}
	for _, a := range t.Cond {
		if !have[a] {
			diffs = append(diffs, "not governed by "+a)
		}
	}
	if t.Where != "" {
		ok := false
		for _, r := range m.roleOf(l.Func) {
			if r == t.Where {
				ok = true
			}
		}
		if !ok {
			diffs = append(diffs, "not in "+t.Where)
		}
	}
	sort.Strings(diffs)
	return diffs
}

// ruleCmdProvenance checks the literals of the given command types.
func ruleCmdProvenance(typeNames ...string) ruleFn { return ruleTemplates(false, typeNames...) }

// ruleObjProvenance checks the response/message objects of the given types ("T" or "T.patch").
func ruleObjProvenance(typeNames ...string) ruleFn { return ruleTemplates(true, typeNames...) }

// ruleRespProvenance: the response literals of the given t_api response types against
// spec/responses.spec.
// in responses.spec `*` means "present, any value" (elsewhere it also admits an omitted field)
var starNeedsPresence bool

func ruleRespProvenance(typeNames ...string) ruleFn {
	return func(c *Ctx) {
		c.respSpec, starNeedsPresence = true, true
		defer func() { c.respSpec, starNeedsPresence = false, false }()
		ruleTemplates(true, typeNames...)(c)
	}
}

var allRespTypes = []string{"AcquireLockResponse", "ReleaseLockResponse", "HeartbeatLocksResponse", "HeartbeatTasksResponse", "ClaimTaskResponse",
	"CompleteTaskResponse", "CompletePromiseResponse", "ReadPromiseResponse", "CreatePromiseResponse", "CreatePromiseAndTaskResponse",
	"CreateCallbackResponse", "CreateSubscriptionResponse", "CreateScheduleResponse", "ReadScheduleResponse", "DeleteScheduleResponse",
	"SearchPromisesResponse", "SearchSchedulesResponse", "EchoResponse"}

func ruleTemplates(objects bool, typeNames ...string) ruleFn {
	return func(c *Ctx) {
		m := c.coroModel()
		if m.Err != nil {
			c.und("model", 0, m.Err.Error())
			return
		}
		text := cmdSpecText
		if objects {
			text = objSpecText
		}
		if c.respSpec {
			text = respSpecText
		}
		spec, err := loadTemplates(text)
		if err != nil {
			c.und("spec", 0, err.Error())
			return
		}
		nLits := 0
		for _, tn := range typeNames {
			var ts []*cmdTemplate
			for _, t := range spec {
				if t.Type == tn {
					ts = append(ts, t)
				}
			}
			if len(ts) == 0 {
				c.und("spec/"+tn, 0, "no template for "+tn)
				continue
			}
			matched := map[string]int{}
			occ := map[string]int{}
			var lits []*cmdLit
			switch {
			case !objects:
				lits = m.commandLits(tn)
			case strings.HasSuffix(tn, ".patch"):
				base := strings.TrimSuffix(tn, ".patch")
				lits = m.patches(objTypes[base], base)
			default:
				pkgOf := objTypes[tn]
				if c.respSpec {
					pkgOf = pkgTApi
				}
				lits = m.structLits(pkgOf, tn)
			}
			for _, l := range lits {
				nLits++
				best, bestDiffs := (*cmdTemplate)(nil), []string(nil)
				for _, t := range ts {
					d := m.matchTemplate(l, t)
					// among equally good templates the one tied to the function's role is the more specific
					if best == nil || len(d) < len(bestDiffs) || (len(d) == len(bestDiffs) && t.Where != "" && best.Where == "") {
						best, bestDiffs = t, d
					}
				}
				occ[l.Func+"/"+best.Name]++
				key := fmt.Sprintf("%s/%s/%s", tn, l.Func, best.Name)
				if n := occ[l.Func+"/"+best.Name]; n > 1 {
					key += fmt.Sprintf("#%d", n)
				}
				if len(bestDiffs) == 0 {
					matched[best.Name]++
					c.ok(key, l.Pos, "matches template "+best.Name+": "+best.Why)
				} else {
					o := c.bad(key, l.Pos, tn+" literal in "+l.Func+" matches no template; closest is "+best.Name+" ("+best.Why+"): "+strings.Join(bestDiffs, "; "))
					o.Expected = templateString(best)
					o.Found = litString(l)
				}
			}
			for _, t := range ts {
				if matched[t.Name] < t.Min {
					c.bad(fmt.Sprintf("%s/template/%s", tn, t.Name), 0, fmt.Sprintf("template %s of %s is matched %d times, at least %d required: the path it describes (%s) is gone", t.Name, tn, matched[t.Name], t.Min, t.Why))
				}
			}
		}
		c.count("command_literals", nLits)
		c.floor("command literals checked", nLits, len(typeNames))
	}
}

func templateString(t *cmdTemplate) string {
	var parts []string
	for _, f := range t.Order {
		parts = append(parts, f+"="+strings.Join(t.Fields[f], "|"))
	}
	s := strings.Join(parts, ", ")
	if len(t.Cond) > 0 {
		s += "  when " + strings.Join(t.Cond, " and ")
	}
	if t.Where != "" {
		s += "  in " + t.Where
	}
	return s
}

func litString(l *cmdLit) string {
	var fs []string
	for k, v := range l.Fields {
		fs = append(fs, k+"="+v)
	}
	sort.Strings(fs)
	return strings.Join(fs, ", ") + "  when " + strings.Join(l.Conds, " and ")
}

// ---- who may construct / grouping (R5) ----

type cmdSite struct {
	Kind string
	Func string
	Pos  token.Pos
	Lit  *ast.CompositeLit
}

// commandSites lists every t_aio.Command literal with its Kind.
func (m *coroModel) commandSites() []*cmdSite {
	var out []*cmdSite
	info := m.Pk.TypesInfo
	for _, name := range m.Order {
		cf := m.Funcs[name]
		ast.Inspect(cf.Decl.Body, func(n ast.Node) bool {
			cl, ok := n.(*ast.CompositeLit)
			if !ok {
				return true
			}
			tv, ok := info.Types[cl]
			if !ok || !isNamed(tv.Type, pkgTAio, "Command") {
				return true
			}
			k := "?"
			for _, el := range cl.Elts {
				if kv, ok := el.(*ast.KeyValueExpr); ok && exprString(kv.Key) == "Kind" {
					k = cf.Env.prov(kv.Value)
				}
			}
			out = append(out, &cmdSite{Kind: k, Func: name, Pos: cl.Pos(), Lit: cl})
			return true
		})
	}
	return out
}

// ruleWhoConstructs: command kind K is constructed only in the listed functions (by name of the
// helper that owns the group; helpers are unexported functions of the coroutines package).
func ruleWhoConstructs(owner map[string][]string) ruleFn {
	return func(c *Ctx) {
		m := c.coroModel()
		if m.Err != nil {
			c.und("model", 0, m.Err.Error())
			return
		}
		seen := map[string]int{}
		for _, s := range m.commandSites() {
			allowed, governed := owner[s.Kind]
			if !governed {
				continue
			}
			seen[s.Kind]++
			ok := false
			for _, a := range allowed {
				if a == s.Func {
					ok = true
				}
				for _, r := range m.roleOf(s.Func) {
					if r == a {
						ok = true
					}
				}
			}
			c.check(ok, "who-constructs/"+s.Kind+"/"+s.Func, s.Pos, s.Kind+" is built inside its group owner "+s.Func,
				"a "+s.Kind+" command is constructed in "+s.Func+", outside "+strings.Join(allowed, "/")+": the effect can be submitted without the rest of its atomic group")
		}
		var ks []string
		for k := range owner {
			ks = append(ks, k)
		}
		sort.Strings(ks)
		for _, k := range ks {
			if seen[k] == 0 {
				c.bad("who-constructs/"+k+"/none", 0, "no "+k+" command is constructed anywhere: the effect is gone")
			}
		}
		// no code outside the coroutines package builds store commands (besides tests and dst)
		for _, rp := range c.P.Roots {
			if rp.PkgPath == pkgCoroutines || strings.Contains(rp.PkgPath, "/test") || strings.HasSuffix(rp.PkgPath, "/store/sqlite") || strings.HasSuffix(rp.PkgPath, "/store/postgres") {
				continue
			}
			for _, f := range rp.Syntax {
				if isTestFile(c.P, f.Pos()) {
					continue
				}
				ast.Inspect(f, func(n ast.Node) bool {
					if cl, ok := n.(*ast.CompositeLit); ok {
						if tv, ok := rp.TypesInfo.Types[cl]; ok && isNamed(tv.Type, pkgTAio, "Transaction") {
							c.bad("who-constructs/transaction/"+rp.PkgPath, cl.Pos(), "a store transaction is built outside internal/app/coroutines")
						}
					}
					return true
				})
			}
		}
		c.ok("who-constructs/transaction", 0, "store transactions are built only in internal/app/coroutines (and test packages)")
	}
}

// ruleCompletionGroup (R5): the completion transaction is exactly
// [UpdatePromise(cmd), CompleteTasks, CreateTasks, DeleteCallbacks, extra…] in ONE submission.
func ruleCompletionGroup(c *Ctx) {
	m := c.coroModel()
	if m.Err != nil {
		c.und("model", 0, m.Err.Error())
		return
	}
	// the owner: the function that constructs the UpdatePromise command
	var owner *coroFunc
	for _, s := range m.commandSites() {
		if s.Kind == "UpdatePromise" {
			if owner != nil && owner.Name != s.Func {
				c.bad("completion-group/owner", s.Pos, "UpdatePromise commands are constructed in more than one function")
			}
			owner = m.Funcs[s.Func]
		}
	}
	if owner == nil {
		c.bad("completion-group/owner", 0, "no function constructs an UpdatePromise command")
		return
	}
	subs := owner.storeSubmissions(m)
	if len(subs) != 1 {
		var pos token.Pos
		if len(subs) > 0 {
			pos = subs[len(subs)-1].Pos
		}
		c.bad("completion-group/one-submission", pos, fmt.Sprintf("%s submits %d store transactions; the completion effects must be ONE transaction", owner.Name, len(subs)))
		return
	}
	got := strings.Join(subs[0].Kinds, ",")
	want := "UpdatePromise,CompleteTasks,CreateTasks,DeleteCallbacks,param*"
	o := c.check(got == want && subs[0].Exact, "completion-group/commands", subs[0].Pos,
		"completion = one Transaction [UpdatePromise, CompleteTasks, CreateTasks, DeleteCallbacks, extra…] (tasks created before registrations are deleted)",
		"the completion transaction is not [UpdatePromise, CompleteTasks, CreateTasks, DeleteCallbacks, extra…] in one submission")
	if got != want {
		o.Expected, o.Found = want, got
	}
	// result of the helper = rows affected by the UpdatePromise (index 0)
	okRet := false
	ast.Inspect(owner.Body, func(n ast.Node) bool {
		if rs, ok := n.(*ast.ReturnStmt); ok && len(rs.Results) == 2 {
			p := owner.Env.prov(rs.Results[0])
			if strings.HasSuffix(p, ".Store.Results[0].UpdatePromise.RowsAffected == 1)") {
				okRet = true
			}
		}
		return true
	})
	c.check(okRet, "completion-group/reports-own-write", owner.Decl.Pos(), "the helper reports whether ITS update affected the row", "the completion helper does not report `Results[0].UpdatePromise.RowsAffected == 1`: callers cannot tell a lost compare-and-set")
}

type storeSub struct {
	Pos   token.Pos
	Kinds []string
	Exact bool
	Call  *ast.CallExpr
}

// storeSubmissions lists the store submissions (Yield/YieldAndAwait of Kind: Store) in a function.
func (cf *coroFunc) storeSubmissions(m *coroModel) []*storeSub {
	var out []*storeSub
	info := m.Pk.TypesInfo
	for _, call := range callsInDeep(cf.Decl.Body) {
		fn, ok := calleeOf(info, call).(*types.Func)
		if !ok || fn.Pkg() == nil || fn.Pkg().Path() != pkgGocoro || (fn.Name() != "YieldAndAwait" && fn.Name() != "Yield") || len(call.Args) != 2 {
			continue
		}
		desc := cf.Env.submissionDesc(call.Args[1])
		if !strings.HasPrefix(desc, "Store") {
			continue
		}
		s := &storeSub{Pos: call.Pos(), Call: call, Exact: true}
		// re-evaluate exactly
		arg := ast.Unparen(call.Args[1])
		if u, ok := arg.(*ast.UnaryExpr); ok {
			arg = ast.Unparen(u.X)
		}
		ast.Inspect(arg, func(n ast.Node) bool {
			if kv, ok := n.(*ast.KeyValueExpr); ok && exprString(kv.Key) == "Commands" {
				s.Kinds, s.Exact = cf.Env.commandKinds(kv.Value)
				return false
			}
			return true
		})
		out = append(out, s)
	}
	sort.Slice(out, func(i, j int) bool { return out[i].Pos < out[j].Pos })
	return out
}
