package main

// Result partitions of pure decision helpers.
//
// A decision is often moved out of a coroutine into a small pure function that returns the status
// (or a flag), into a read-only lookup table, or is tested through the value it produced
// (`if status = rejected(t, n); status == 0 { … }`). The rules that reason about conditions — the
// decision tables (R7) and the governing conditions of command / response literals (R9, R6) — see
// such a helper through its *partition*: the list of (condition over the parameters ↦ returned
// value) obtained by enumerating the helper's own paths, with the parameters replaced by the
// caller's arguments. `h(args) == K` then means "one of the entries returning K", and a status
// produced by `h(args)` is one outcome per entry.

import (
	"go/ast"
	"go/token"
	"go/types"
	"golang.org/x/tools/go/packages"
	"regexp"
	"sort"
	"strings"
)

type partEntry struct {
	Facts  []pathFact // in caller terms
	Atoms  []string   // the same conditions as condAtoms-style atoms; nil when not a plain conjunction
	Result string     // returned value (constant name, literal, or provenance) in caller terms
}

var partitionBusy = map[*ast.FuncDecl]bool{}

// pureHelperOf: the declaration of the same-package plain function a call invokes, if it is a
// candidate for partitioning: no receiver, one result of a basic (enum / bool / int / string)
// type, no coroutine parameter, no function literals, go / defer statements or loops.
func (pe *provEnv) pureHelperOf(call *ast.CallExpr) *ast.FuncDecl {
	fn, ok := calleeOf(pe.pk.TypesInfo, call).(*types.Func)
	if !ok || fn.Pkg() != pe.pk.Types {
		return nil
	}
	sig := fn.Type().(*types.Signature)
	if sig.Recv() != nil || sig.Variadic() || sig.Results().Len() != 1 || sig.Params().Len() != len(call.Args) {
		return nil
	}
	if _, ok := sig.Results().At(0).Type().Underlying().(*types.Basic); !ok {
		return nil
	}
	for i := 0; i < sig.Params().Len(); i++ {
		if isCoroutineType(sig.Params().At(i).Type()) {
			return nil
		}
	}
	fd := funcDeclOf(pe.pk, fn)
	if fd == nil || fd.Body == nil || fd == pe.fd || partitionBusy[fd] {
		return nil
	}
	pure := true
	ast.Inspect(fd.Body, func(n ast.Node) bool {
		switch n.(type) {
		case *ast.FuncLit, *ast.GoStmt, *ast.DeferStmt, *ast.ForStmt, *ast.RangeStmt, *ast.SendStmt:
			pure = false
		}
		return pure
	})
	if !pure {
		return nil
	}
	return fd
}

// helperPartition enumerates the paths of the pure helper a call invokes.
func (pe *provEnv) helperPartition(call *ast.CallExpr) ([]partEntry, bool) {
	fd := pe.pureHelperOf(call)
	if fd == nil {
		return nil, false
	}
	// a single `return <expr>` helper is rendered by inlineHelper already
	if len(fd.Body.List) == 1 {
		if _, ok := fd.Body.List[0].(*ast.ReturnStmt); ok {
			return nil, false
		}
	}
	partitionBusy[fd] = true
	defer delete(partitionBusy, fd)
	inner := newProvEnv(pe.pk, fd)
	g := buildCFG(pe.pk, fd.Body)
	paths, complete := enumPathsX(g, inner.condFormula, caseTags(fd.Body), assertCond(pe.pk), 64)
	if !complete || len(paths) == 0 {
		return nil, false
	}
	sig := pe.pk.TypesInfo.Defs[fd.Name].(*types.Func).Type().(*types.Signature)
	type sub struct {
		re  *regexp.Regexp
		arg string
	}
	var subs []sub
	for i := 0; i < sig.Params().Len(); i++ {
		pn := sig.Params().At(i).Name()
		if pn == "" || pn == "_" {
			continue
		}
		subs = append(subs, sub{regexp.MustCompile(`param:` + regexp.QuoteMeta(pn) + `\b`), pe.prov(call.Args[i])})
	}
	subst := func(s string) string {
		for _, sb := range subs {
			s = sb.re.ReplaceAllLiteralString(s, sb.arg)
		}
		return s
	}
	var substF func(f *formula) *formula
	substF = func(f *formula) *formula {
		if f.Op == "atom" {
			// re-normalise: the substituted text may itself be a negation / comparison
			return &formula{Op: "atom", Atom: subst(f.Atom)}
		}
		g := &formula{Op: f.Op}
		for _, a := range f.Args {
			g.Args = append(g.Args, substF(a))
		}
		return g
	}
	var out []partEntry
	for _, p := range paths {
		facts, residual, contradictory := decompose(p.Facts)
		if contradictory || !consistent(facts) || !satisfiable(facts, residual) {
			continue
		}
		if p.Ret == nil || len(p.Ret.Results) != 1 {
			return nil, false // falls off the end / panics: not a total decision
		}
		e := partEntry{Result: subst(evalAlongPath(pe.pk, inner, p.Ret.Results[0], p, 0))}
		plain := true
		for _, f := range p.Facts {
			e.Facts = append(e.Facts, pathFact{F: substF(f.F), Val: f.Val})
			if f.E == nil {
				plain = false
				continue
			}
			as := inner.condAtoms(f.E, !f.Val)
			for _, a := range as {
				e.Atoms = append(e.Atoms, subst(a))
			}
		}
		if !plain {
			e.Atoms = nil
		}
		out = append(out, e)
	}
	if len(out) == 0 {
		return nil, false
	}
	return out, true
}

// constText: the textual form evalAlongPath gives a constant operand ("" if e is not constant).
func constText(info *types.Info, e ast.Expr) string {
	e = ast.Unparen(e)
	switch x := e.(type) {
	case *ast.SelectorExpr:
		if cn, ok := info.Uses[x.Sel].(*types.Const); ok {
			return cn.Name()
		}
	case *ast.Ident:
		if cn, ok := info.Uses[x].(*types.Const); ok {
			if x.Name == "true" || x.Name == "false" {
				return x.Name
			}
			return cn.Name()
		}
		if x.Name == "true" || x.Name == "false" {
			return x.Name
		}
	case *ast.BasicLit:
		return x.Value
	}
	return ""
}

// decidingCall follows an operand of a comparison to the call (or table lookup) that produced it:
// the operand itself, or a local whose reaching definition at the point of use is that call.
func (pe *provEnv) decidingCall(e ast.Expr) ast.Expr {
	info := pe.pk.TypesInfo
	e = ast.Unparen(e)
	switch x := e.(type) {
	case *ast.CallExpr:
		if pe.pureHelperOf(x) != nil {
			return x
		}
	case *ast.Ident:
		v, ok := info.Uses[x].(*types.Var)
		if !ok || v.IsField() || pe.isParam(v) {
			return nil
		}
		d := pe.reachingDef(pe.defs[v], x.Pos())
		if d == nil {
			return nil
		}
		var rhs ast.Expr
		idx := -1
		switch s := d.(type) {
		case *ast.AssignStmt:
			for i, l := range s.Lhs {
				if isObj(info, l, v) {
					idx = i
				}
			}
			if len(s.Lhs) == len(s.Rhs) && idx >= 0 {
				rhs = s.Rhs[idx]
			} else if len(s.Rhs) == 1 && len(s.Lhs) == 2 && idx >= 0 {
				// v, ok := table[key]
				if ix, ok := ast.Unparen(s.Rhs[0]).(*ast.IndexExpr); ok && pe.constTable(ix) != nil {
					if idx == 0 {
						return ix
					}
					return &ast.UnaryExpr{Op: token.AND, X: ix, OpPos: ix.Pos()} // marker: the comma-ok flag of the lookup
				}
			}
		case *ast.ValueSpec:
			for i, nm := range s.Names {
				if info.Defs[nm] == v && len(s.Values) == len(s.Names) {
					rhs = s.Values[i]
				}
			}
		}
		if rhs == nil {
			return nil
		}
		switch r := ast.Unparen(rhs).(type) {
		case *ast.CallExpr:
			if pe.pureHelperOf(r) != nil {
				return r
			}
		case *ast.IndexExpr:
			if pe.constTable(r) != nil {
				return r
			}
		}
	case *ast.IndexExpr:
		if pe.constTable(x) != nil {
			return x
		}
	}
	return nil
}

// ---- read-only lookup tables ----

type tableEntry struct{ Key, Val string }

// constTable: `M[k]` where M is a package-level map initialised by a literal of constant keys and
// values that is never written, deleted from, or handed out (address taken, passed, assigned).
func (pe *provEnv) constTable(ix *ast.IndexExpr) []tableEntry {
	info := pe.pk.TypesInfo
	id, ok := ast.Unparen(ix.X).(*ast.Ident)
	if !ok {
		return nil
	}
	v, ok := info.Uses[id].(*types.Var)
	if !ok || v.Pkg() == nil || v.Parent() != v.Pkg().Scope() {
		return nil
	}
	return readOnlyTable(pe.pk, v)
}

var readOnlyTableCache = map[*types.Var][]tableEntry{}

// readOnlyTable: the entries of an unexported package-level map that is initialised by a literal of
// constant keys and values and only ever read by indexing (never assigned, indexed on the left of an
// assignment, deleted from, ranged over with mutation, address-taken or passed on).
func readOnlyTable(pk *packages.Package, v *types.Var) []tableEntry {
	if t, ok := readOnlyTableCache[v]; ok {
		return t
	}
	readOnlyTableCache[v] = nil
	if v.Exported() {
		return nil
	}
	info := pk.TypesInfo
	var entries []tableEntry
	found, ok := false, true
	for _, f := range pk.Syntax {
		var stack []ast.Node
		ast.Inspect(f, func(n ast.Node) bool {
			if n == nil {
				stack = stack[:len(stack)-1]
				return true
			}
			stack = append(stack, n)
			switch x := n.(type) {
			case *ast.ValueSpec:
				for i, nm := range x.Names {
					if info.Defs[nm] != v {
						continue
					}
					found = true
					if len(x.Values) != len(x.Names) {
						ok = false
						continue
					}
					cl, isLit := ast.Unparen(x.Values[i]).(*ast.CompositeLit)
					if !isLit {
						ok = false
						continue
					}
					if _, isMap := info.Types[cl].Type.Underlying().(*types.Map); !isMap {
						ok = false
						continue
					}
					for _, el := range cl.Elts {
						kv, isKV := el.(*ast.KeyValueExpr)
						if !isKV {
							ok = false
							continue
						}
						k, val := constText(info, kv.Key), constText(info, kv.Value)
						if k == "" || val == "" {
							ok = false
							continue
						}
						entries = append(entries, tableEntry{k, val})
					}
				}
			case *ast.Ident:
				if info.Uses[x] != v {
					return true
				}
				// the only permitted use: X of an index expression that is not assigned to
				if len(stack) < 2 {
					ok = false
					return true
				}
				ix, isIx := stack[len(stack)-2].(*ast.IndexExpr)
				if !isIx || ast.Unparen(ix.X) != ast.Expr(x) {
					ok = false
					return true
				}
				if len(stack) >= 3 {
					switch par := stack[len(stack)-3].(type) {
					case *ast.AssignStmt:
						for _, l := range par.Lhs {
							if ast.Unparen(l) == ast.Expr(ix) {
								ok = false
							}
						}
					case *ast.IncDecStmt:
						ok = false
					case *ast.UnaryExpr:
						if par.Op == token.AND {
							ok = false
						}
					}
				}
			}
			return true
		})
	}
	if !found || !ok || len(entries) == 0 {
		return nil
	}
	readOnlyTableCache[v] = entries
	return entries
}

// partitionOf: the partition of a deciding expression (helper call, table lookup, or the comma-ok
// flag of a table lookup).
func (pe *provEnv) partitionOf(e ast.Expr) ([]partEntry, bool) {
	switch x := e.(type) {
	case *ast.CallExpr:
		return pe.helperPartition(x)
	case *ast.IndexExpr:
		return pe.tablePartition(x, false)
	case *ast.UnaryExpr:
		if ix, ok := x.X.(*ast.IndexExpr); ok && x.Op == token.AND {
			return pe.tablePartition(ix, true)
		}
	}
	return nil, false
}

func (pe *provEnv) tablePartition(ix *ast.IndexExpr, okFlag bool) ([]partEntry, bool) {
	tbl := pe.constTable(ix)
	if tbl == nil {
		return nil, false
	}
	key := pe.prov(ix.Index)
	var out []partEntry
	var none []pathFact
	var noneAtoms []string
	for _, te := range tbl {
		atom := "(" + key + " == " + te.Key + ")"
		f := &formula{Op: "atom", Atom: atom}
		res := te.Val
		if okFlag {
			res = "true"
		}
		out = append(out, partEntry{Facts: []pathFact{{F: f, Val: true}}, Atoms: []string{atom}, Result: res})
		none = append(none, pathFact{F: f, Val: false})
		noneAtoms = append(noneAtoms, "("+key+" != "+te.Key+")")
	}
	res := "0"
	if okFlag {
		res = "false"
	}
	out = append(out, partEntry{Facts: none, Atoms: noneAtoms, Result: res})
	return out, true
}

// partitionFormula: the formula of `deciding == K` (eq) or `deciding != K`; for a boolean deciding
// expression used as a condition K is "true".
func partitionFormula(entries []partEntry, k string, eq bool) *formula {
	or := &formula{Op: "or"}
	for _, e := range entries {
		if e.Result != k {
			continue
		}
		and := &formula{Op: "and"}
		for _, f := range e.Facts {
			if f.Val {
				and.Args = append(and.Args, f.F)
			} else {
				and.Args = append(and.Args, &formula{Op: "not", Args: []*formula{f.F}})
			}
		}
		or.Args = append(or.Args, and) // an entry without conditions is the empty conjunction (true)
	}
	var f *formula = or // no entry: the empty disjunction (false)
	if len(or.Args) == 1 {
		f = or.Args[0]
	}
	if !eq {
		f = &formula{Op: "not", Args: []*formula{f}}
	}
	return f
}

// comparisonPartition recognises `x == K` / `x != K` / `x` / `!x` (bool) over a deciding
// expression and returns its partition, the constant compared with and the sense.
func (pe *provEnv) comparisonPartition(e ast.Expr) (entries []partEntry, k string, eq bool, ok bool) {
	info := pe.pk.TypesInfo
	e = ast.Unparen(e)
	if be, isBin := e.(*ast.BinaryExpr); isBin && (be.Op == token.EQL || be.Op == token.NEQ) {
		for _, pair := range [][2]ast.Expr{{be.X, be.Y}, {be.Y, be.X}} {
			kc := constText(info, pair[1])
			if kc == "" {
				continue
			}
			d := pe.decidingCall(pair[0])
			if d == nil {
				continue
			}
			ents, ok := pe.partitionOf(d)
			if !ok {
				continue
			}
			for _, en := range ents {
				if !isConstName(en.Result) && en.Result != "true" && en.Result != "false" {
					return nil, "", false, false // a non-constant result cannot be compared statically
				}
			}
			return ents, kc, be.Op == token.EQL, true
		}
		return nil, "", false, false
	}
	if tv, has := info.Types[e]; has {
		if b, isB := tv.Type.Underlying().(*types.Basic); !isB || b.Kind() != types.Bool {
			return nil, "", false, false
		}
	}
	d := pe.decidingCall(e)
	if d == nil {
		return nil, "", false, false
	}
	ents, ok2 := pe.partitionOf(d)
	if !ok2 {
		return nil, "", false, false
	}
	for _, en := range ents {
		if en.Result != "true" && en.Result != "false" {
			return nil, "", false, false
		}
	}
	return ents, "true", true, true
}

// partitionAtoms: when exactly one entry satisfies the comparison and it is a plain conjunction,
// its atoms (the governing conditions the comparison stands for).
func partitionAtoms(entries []partEntry, k string, eq bool) ([]string, bool) {
	var hit []partEntry
	for _, e := range entries {
		if (e.Result == k) == eq {
			hit = append(hit, e)
		}
	}
	if len(hit) != 1 || hit[0].Atoms == nil {
		return nil, false
	}
	out := append([]string(nil), hit[0].Atoms...)
	sort.Strings(out)
	return out, true
}

// ---- records mutated in place before a helper is consulted ----

// curProgram: the loaded program (for following a call into another package of the module).
var curProgram *Program

// constResultsOf: the set of constants a function can return, when every return statement returns a
// constant or a local that is only ever assigned constants.
func constResultsOf(fn *types.Func) (map[string]bool, bool) {
	if curProgram == nil || fn.Pkg() == nil {
		return nil, false
	}
	pk := curProgram.Pkg(fn.Pkg().Path())
	if pk == nil {
		return nil, false
	}
	fd := funcDeclOf(pk, fn)
	if fd == nil || fd.Body == nil {
		return nil, false
	}
	info := pk.TypesInfo
	out := map[string]bool{}
	ok := true
	var valuesOf func(e ast.Expr, depth int)
	valuesOf = func(e ast.Expr, depth int) {
		if k := constText(info, e); k != "" {
			out[k] = true
			return
		}
		id, isId := ast.Unparen(e).(*ast.Ident)
		if !isId || depth > 2 {
			ok = false
			return
		}
		v, isVar := info.Uses[id].(*types.Var)
		if !isVar || v.IsField() || v.Pos() < fd.Body.Pos() || v.Pos() > fd.Body.End() {
			ok = false
			return
		}
		n := 0
		ast.Inspect(fd.Body, func(nd ast.Node) bool {
			if rhs, hit := assignsTo(info, nd, v); hit {
				if _, isDecl := nd.(*ast.DeclStmt); isDecl {
					return true
				}
				if len(rhs) != 1 {
					ok = false
					return true
				}
				n++
				valuesOf(rhs[0], depth+1)
			}
			return true
		})
		if n == 0 {
			ok = false
		}
	}
	ast.Inspect(fd.Body, func(nd ast.Node) bool {
		if _, isFn := nd.(*ast.FuncLit); isFn {
			return false
		}
		if rs, isRet := nd.(*ast.ReturnStmt); isRet {
			if len(rs.Results) != 1 {
				ok = false
				return true
			}
			valuesOf(rs.Results[0], 0)
		}
		return true
	})
	if !ok || len(out) == 0 {
		return nil, false
	}
	return out, true
}

// litFieldExpr: for `x.F` where x is a local defined once by a composite literal, the expression
// the literal gives F.
func (pe *provEnv) litFieldExpr(e ast.Expr) ast.Expr {
	info := pe.pk.TypesInfo
	se, ok := ast.Unparen(e).(*ast.SelectorExpr)
	if !ok {
		return nil
	}
	id, ok := ast.Unparen(se.X).(*ast.Ident)
	if !ok {
		return nil
	}
	obj := info.Uses[id]
	var lit *ast.CompositeLit
	n := 0
	for _, d := range pe.defs[obj] {
		as, ok := d.(*ast.AssignStmt)
		if !ok || len(as.Lhs) != len(as.Rhs) {
			if vs, isVs := d.(*ast.ValueSpec); isVs && len(vs.Values) == 0 {
				continue
			}
			return nil
		}
		for i, l := range as.Lhs {
			if isObj(info, l, obj) {
				n++
				r := ast.Unparen(as.Rhs[i])
				if u, ok := r.(*ast.UnaryExpr); ok && u.Op == token.AND {
					r = ast.Unparen(u.X)
				}
				lit, _ = r.(*ast.CompositeLit)
			}
		}
	}
	if n != 1 || lit == nil {
		return nil
	}
	for _, el := range lit.Elts {
		if kv, ok := el.(*ast.KeyValueExpr); ok && exprString(kv.Key) == se.Sel.Name {
			return kv.Value
		}
	}
	return nil
}

type fieldOverride struct {
	re     *regexp.Regexp
	base   string          // provenance of the field before the assignment ("rec.State")
	text   string          // provenance of the assigned value
	consts map[string]bool // the constants the assigned value can be (nil: unknown)
}

// fieldOverrides: the fields of records that the path assigns (`p.State = cmd.State`) before the
// node that contains `at`; a helper consulted afterwards sees the assigned values.
func (pe *provEnv) fieldOverrides(p *codePath, at ast.Node) []fieldOverride {
	info := pe.pk.TypesInfo
	limit := len(p.Nodes)
	for i, nd := range p.Nodes {
		if containsNode(nd, at) {
			limit = i
		}
	}
	var out []fieldOverride
	for _, nd := range p.Nodes[:limit] {
		as, ok := nd.(*ast.AssignStmt)
		if !ok || as.Tok != token.ASSIGN || len(as.Lhs) != len(as.Rhs) {
			continue
		}
		for i, l := range as.Lhs {
			se, ok := ast.Unparen(l).(*ast.SelectorExpr)
			if !ok {
				continue
			}
			if _, isId := ast.Unparen(se.X).(*ast.Ident); !isId {
				continue
			}
			base := pe.prov(se)
			if base == "" || strings.ContainsAny(base, " (") {
				continue
			}
			val := as.Rhs[i]
			if fe := pe.litFieldExpr(val); fe != nil {
				val = fe
			}
			ov := fieldOverride{re: regexp.MustCompile(regexp.QuoteMeta(base) + `\b`), base: base, text: pe.prov(val)}
			if k := constText(info, val); k != "" {
				ov.consts = map[string]bool{k: true}
			} else if call, ok := ast.Unparen(val).(*ast.CallExpr); ok {
				if fn, ok := calleeOf(info, call).(*types.Func); ok {
					if cs, ok := constResultsOf(fn); ok {
						ov.consts = cs
					}
				}
			}
			out = append(out, ov)
		}
	}
	return out
}

// applyOverrides rewrites facts stated over the fields as read to the values the path assigned:
// `(rec.State == K)` is decided when the assigned value's possible constants decide it.
func applyOverrides(fs []pathFact, ovs []fieldOverride) []pathFact {
	if len(ovs) == 0 {
		return fs
	}
	var apply func(f *formula) *formula
	apply = func(f *formula) *formula {
		if f.Op != "atom" {
			g := &formula{Op: f.Op}
			for _, a := range f.Args {
				g.Args = append(g.Args, apply(a))
			}
			return g
		}
		a := f.Atom
		for i := len(ovs) - 1; i >= 0; i-- { // the last assignment wins
			ov := ovs[i]
			if !ov.re.MatchString(a) {
				continue
			}
			if l, op, r, ok := splitCmpOp(a); ok && op == "==" && ov.consts != nil {
				other := ""
				if l == ov.base && isConstName(r) {
					other = r
				} else if r == ov.base && isConstName(l) {
					other = l
				}
				if other != "" {
					if !ov.consts[other] {
						return &formula{Op: "or"} // false
					}
					if len(ov.consts) == 1 {
						return &formula{Op: "and"} // true
					}
				}
			}
			return &formula{Op: "atom", Atom: ov.re.ReplaceAllLiteralString(a, ov.text)}
		}
		return f
	}
	var out []pathFact
	for _, f := range fs {
		out = append(out, pathFact{F: apply(f.F), Val: f.Val, E: f.E})
	}
	return out
}
