package main

import (
	"encoding/json"
	"fmt"
	"go/ast"
	"go/token"
	"go/types"
	"os"
	"path/filepath"
	"sort"
	"strings"

	"golang.org/x/tools/go/packages"
)

const modPath = "github.com/resonatehq/resonate"

// Package paths the rules anchor on (resolved through go/types, never by text).
const (
	pkgSqlite     = modPath + "/internal/app/subsystems/aio/store/sqlite"
	pkgPostgres   = modPath + "/internal/app/subsystems/aio/store/postgres"
	pkgStore      = modPath + "/internal/app/subsystems/aio/store"
	pkgCoroutines = modPath + "/internal/app/coroutines"
	pkgTAio       = modPath + "/internal/kernel/t_aio"
	pkgTApi       = modPath + "/internal/kernel/t_api"
	pkgBus        = modPath + "/internal/kernel/bus"
	pkgSystem     = modPath + "/internal/kernel/system"
	pkgIApi       = modPath + "/internal/api"
	pkgIAio       = modPath + "/internal/aio"
	pkgSubApi     = modPath + "/internal/app/subsystems/api"
	pkgHttp       = modPath + "/internal/app/subsystems/api/http"
	pkgGrpc       = modPath + "/internal/app/subsystems/api/grpc"
	pkgPb         = modPath + "/internal/app/subsystems/api/grpc/pb"
	pkgRouter     = modPath + "/internal/app/subsystems/aio/router"
	pkgSender     = modPath + "/internal/app/subsystems/aio/sender"
	pkgEcho       = modPath + "/internal/app/subsystems/aio/echo"
	pkgPoll       = modPath + "/internal/app/plugins/poll"
	pkgHttpPlugin = modPath + "/internal/app/plugins/http"
	pkgUtil       = modPath + "/internal/util"
	pkgServe      = modPath + "/cmd/serve"
	pkgConfig     = modPath + "/cmd/config"
	pkgPromise    = modPath + "/pkg/promise"
	pkgTask       = modPath + "/pkg/task"
	pkgSchedule   = modPath + "/pkg/schedule"
	pkgLock       = modPath + "/pkg/lock"
	pkgCallback   = modPath + "/pkg/callback"
	pkgMessage    = modPath + "/pkg/message"
	pkgReceiver   = modPath + "/pkg/receiver"
	pkgIdem       = modPath + "/pkg/idempotency"
	pkgGocoro     = "github.com/resonatehq/gocoro"
)

type Overlay struct {
	File    string `json:"file"`    // path relative to the repository root
	Find    string `json:"find"`    // exact text to be replaced (must occur exactly Count times, default 1)
	Replace string `json:"replace"` // replacement
	Count   int    `json:"count,omitempty"`
	// position-based form (generated survey mutants): replace Length bytes at byte Offset; when Find
	// is given it must be the text at that position
	Offset int  `json:"offset,omitempty"`
	Length int  `json:"length,omitempty"`
	AtPos  bool `json:"at_pos,omitempty"`
}

type Mutant struct {
	Name     string    `json:"name"`
	Property []string  `json:"property"` // properties whose check must report it
	Expect   string    `json:"expect"`   // substring of the obligation key that must be reported
	Edits    []Overlay `json:"edits"`
	Note     string    `json:"note,omitempty"`
	Repair   bool      `json:"repair,omitempty"` // true: overlay repairs a known finding; Expect must disappear
}

type Program struct {
	Repo   string
	Fset   *token.FileSet
	Roots  []*packages.Package
	ByPath map[string]*packages.Package
	All    int
}

func loadProgram(repo string, overlays []Overlay, tests bool) (*Program, error) {
	env := append(os.Environ(),
		"GOFLAGS=-mod=mod", "GOPROXY=off", "GOSUMDB=off", "GOTOOLCHAIN=local", "GOWORK=off")
	ov := map[string][]byte{}
	for _, o := range overlays {
		p := filepath.Join(repo, o.File)
		var src []byte
		if b, ok := ov[p]; ok {
			src = b
		} else {
			b, err := os.ReadFile(p)
			if err != nil {
				return nil, fmt.Errorf("overlay: %v", err)
			}
			src = b
		}
		if o.AtPos {
			if o.Offset < 0 || o.Offset+o.Length > len(src) || (o.Find != "" && string(src[o.Offset:o.Offset+o.Length]) != o.Find) {
				return nil, fmt.Errorf("overlay: %s: text at offset %d is not %q", o.File, o.Offset, o.Find)
			}
			ov[p] = []byte(string(src[:o.Offset]) + o.Replace + string(src[o.Offset+o.Length:]))
			continue
		}
		want := o.Count
		if want == 0 {
			want = 1
		}
		if n := strings.Count(string(src), o.Find); n != want {
			return nil, fmt.Errorf("overlay: %s: find text occurs %d times, want %d: %q", o.File, n, want, o.Find)
		}
		ov[p] = []byte(strings.ReplaceAll(string(src), o.Find, o.Replace))
	}
	cfg := &packages.Config{
		Mode:       packages.LoadAllSyntax,
		Dir:        repo,
		Env:        env,
		BuildFlags: []string{"-tags=verif"},
		Tests:      tests,
		Overlay:    ov,
	}
	pkgs, err := packages.Load(cfg, "./...")
	if err != nil {
		return nil, err
	}
	if len(pkgs) == 0 {
		return nil, fmt.Errorf("no packages loaded from %s", repo)
	}
	p := &Program{Repo: repo, ByPath: map[string]*packages.Package{}}
	curProgram = p
	var errs []string
	seen := map[string]bool{}
	packages.Visit(pkgs, nil, func(pk *packages.Package) {
		p.All++
		if strings.HasPrefix(pk.PkgPath, modPath) || pk.PkgPath == pkgGocoro || strings.HasPrefix(pk.PkgPath, pkgGocoro+"/") {
			for _, e := range pk.Errors {
				errs = append(errs, e.Error())
			}
		}
		// with Tests=true the same path may appear as a test variant; keep the non-test one
		if !seen[pk.PkgPath] || !strings.Contains(pk.ID, "[") {
			if !strings.HasSuffix(pk.ID, ".test") {
				if _, ok := p.ByPath[pk.PkgPath]; !ok || !strings.Contains(pk.ID, "[") {
					p.ByPath[pk.PkgPath] = pk
				}
			}
			seen[pk.PkgPath] = true
		}
		if p.Fset == nil && pk.Fset != nil {
			p.Fset = pk.Fset
		}
	})
	if len(errs) > 0 {
		sort.Strings(errs)
		if len(errs) > 8 {
			errs = errs[:8]
		}
		return nil, fmt.Errorf("type errors: %s", strings.Join(errs, "; "))
	}
	for _, pk := range pkgs {
		if strings.HasPrefix(pk.PkgPath, modPath) {
			p.Roots = append(p.Roots, pk)
		}
	}
	sort.Slice(p.Roots, func(i, j int) bool { return p.Roots[i].ID < p.Roots[j].ID })
	if len(p.Roots) == 0 {
		return nil, fmt.Errorf("no root packages of %s under %s", modPath, repo)
	}
	normalizeProgram(p)
	return p, nil
}

func (p *Program) Pkg(path string) *packages.Package { return p.ByPath[path] }

func (p *Program) pos(pos token.Pos) string {
	if !pos.IsValid() {
		return "?"
	}
	ps := p.Fset.Position(pos)
	rel, err := filepath.Rel(p.Repo, ps.Filename)
	if err != nil {
		rel = ps.Filename
	}
	return fmt.Sprintf("%s:%d", rel, ps.Line)
}

// funcDecl finds a top-level function or method declaration by name (recv=="" for functions).
func funcDecl(pk *packages.Package, recv, name string) *ast.FuncDecl {
	if pk == nil {
		return nil
	}
	for _, f := range pk.Syntax {
		for _, d := range f.Decls {
			fd, ok := d.(*ast.FuncDecl)
			if !ok || fd.Name.Name != name {
				continue
			}
			if recv == "" && fd.Recv == nil {
				return fd
			}
			if recv != "" && fd.Recv != nil && len(fd.Recv.List) == 1 && recvTypeName(fd.Recv.List[0].Type) == recv {
				return fd
			}
		}
	}
	return nil
}

func recvTypeName(e ast.Expr) string {
	switch t := e.(type) {
	case *ast.StarExpr:
		return recvTypeName(t.X)
	case *ast.Ident:
		return t.Name
	case *ast.IndexExpr:
		return recvTypeName(t.X)
	case *ast.IndexListExpr:
		return recvTypeName(t.X)
	}
	return ""
}

// allFuncDecls returns every function declaration with a body in the package's non-test files.
func allFuncDecls(pk *packages.Package) []*ast.FuncDecl {
	var out []*ast.FuncDecl
	if pk == nil {
		return out
	}
	for _, f := range pk.Syntax {
		for _, d := range f.Decls {
			if fd, ok := d.(*ast.FuncDecl); ok && fd.Body != nil {
				out = append(out, fd)
			}
		}
	}
	return out
}

func funcName(fd *ast.FuncDecl) string {
	if fd.Recv != nil && len(fd.Recv.List) == 1 {
		return recvTypeName(fd.Recv.List[0].Type) + "." + fd.Name.Name
	}
	return fd.Name.Name
}

// constString returns the compile-time string value of e, if any.
func constString(info *types.Info, e ast.Expr) (string, bool) {
	tv, ok := info.Types[e]
	if !ok || tv.Value == nil {
		return "", false
	}
	if tv.Value.Kind().String() != "String" {
		return "", false
	}
	var s string
	if err := json.Unmarshal([]byte(tv.Value.ExactString()), &s); err != nil {
		return "", false
	}
	return s, true
}

func exprString(e ast.Expr) string { return types.ExprString(e) }

// calleeOf resolves the static callee (function or method object) of a call.
func calleeOf(info *types.Info, call *ast.CallExpr) types.Object {
	fun := ast.Unparen(call.Fun)
	switch f := fun.(type) {
	case *ast.Ident:
		return info.Uses[f]
	case *ast.SelectorExpr:
		if sel, ok := info.Selections[f]; ok {
			return sel.Obj()
		}
		return info.Uses[f.Sel]
	case *ast.IndexExpr:
		return calleeOf(info, &ast.CallExpr{Fun: f.X})
	case *ast.IndexListExpr:
		return calleeOf(info, &ast.CallExpr{Fun: f.X})
	}
	return nil
}

// isFunc reports whether obj is the function/method pkgPath.[recv.]name
func isFunc(obj types.Object, pkgPath, recv, name string) bool {
	fn, ok := obj.(*types.Func)
	if !ok || fn.Name() != name || fn.Pkg() == nil || fn.Pkg().Path() != pkgPath {
		return false
	}
	sig := fn.Type().(*types.Signature)
	if recv == "" {
		return sig.Recv() == nil
	}
	if sig.Recv() == nil {
		return false
	}
	return namedName(sig.Recv().Type()) == recv
}

func namedName(t types.Type) string {
	for {
		if p, ok := t.(*types.Pointer); ok {
			t = p.Elem()
			continue
		}
		break
	}
	if n, ok := t.(*types.Named); ok {
		return n.Obj().Name()
	}
	if a, ok := t.(*types.Alias); ok {
		return a.Obj().Name()
	}
	return ""
}

func namedPkgPath(t types.Type) string {
	for {
		if p, ok := t.(*types.Pointer); ok {
			t = p.Elem()
			continue
		}
		break
	}
	if n, ok := t.(*types.Named); ok && n.Obj().Pkg() != nil {
		return n.Obj().Pkg().Path()
	}
	return ""
}

// isNamed reports whether t (possibly behind pointers) is the named type pkg.name
func isNamed(t types.Type, pkg, name string) bool {
	return t != nil && namedName(t) == name && namedPkgPath(t) == pkg
}

func fileOf(pk *packages.Package, pos token.Pos) *ast.File {
	for _, f := range pk.Syntax {
		if f.Pos() <= pos && pos <= f.End() {
			return f
		}
	}
	return nil
}

func isTestFile(p *Program, pos token.Pos) bool {
	return strings.HasSuffix(p.Fset.Position(pos).Filename, "_test.go")
}
