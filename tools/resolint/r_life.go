package main

// R17 lifecycle rules and the shutdown-flag confinement rule (R14).

import (
	"fmt"
	"go/ast"
	"go/constant"
	"go/token"
	"go/types"
	"golang.org/x/tools/go/cfg"
	"golang.org/x/tools/go/packages"
	"reflect"
	"sort"
	"strings"
)

func structTag(pkg *types.Package, typeName, field, key string) (string, bool) {
	o := pkg.Scope().Lookup(typeName)
	if o == nil {
		return "", false
	}
	st, ok := o.Type().Underlying().(*types.Struct)
	if !ok {
		return "", false
	}
	for i := 0; i < st.NumFields(); i++ {
		if st.Field(i).Name() == field {
			v, ok := reflect.StructTag(st.Tag(i)).Lookup(key)
			return v, ok
		}
	}
	return "", false
}

// ruleStoreLifecycle (C06): data survives shutdown with the default configuration.
func ruleStoreLifecycle(c *Ctx) {
	for _, be := range [][2]string{{"sqlite", pkgSqlite}, {"postgres", pkgPostgres}} {
		pk := c.P.Pkg(be[1])
		if pk == nil {
			c.und(be[0]+"/pkg", 0, "package not loaded")
			continue
		}
		info := pk.TypesInfo
		// defaults
		v, ok := structTag(pk.Types, "Config", "Reset", "default")
		pos := token.NoPos
		if o := pk.Types.Scope().Lookup("Config"); o != nil {
			pos = o.Pos()
		}
		c.check(ok && v == "false", be[0]+"/reset-default-false", pos, `Config.Reset default:"false"`, fmt.Sprintf("Config.Reset defaults to %q: a graceful shutdown with the default configuration destroys the data", v))
		if be[0] == "sqlite" {
			pv, ok := structTag(pk.Types, "Config", "Path", "default")
			c.check(ok && pv != "" && pv != ":memory:" && !strings.Contains(pv, "mode=memory"), be[0]+"/path-default-file", pos, "default database path is a file: "+pv, fmt.Sprintf("the default sqlite path %q is not a durable file", pv))
		}
		// Reset is called only from Stop, under `if s.config.Reset`
		var resetFn *types.Func
		for _, fd := range allFuncDecls(pk) {
			if fd.Name.Name == "Reset" && fd.Recv != nil {
				resetFn, _ = info.Defs[fd.Name].(*types.Func)
			}
		}
		nCalls := 0
		for _, rp := range c.P.Roots {
			if strings.Contains(rp.PkgPath, "/test") {
				continue
			}
			for _, fd := range allFuncDecls(rp) {
				if isTestFile(c.P, fd.Pos()) {
					continue
				}
				var env *provEnv
				for _, call := range callsInDeep(fd.Body) {
					if resetFn == nil || calleeOf(rp.TypesInfo, call) != resetFn {
						continue
					}
					nCalls++
					if env == nil {
						env = newProvEnv(rp, fd)
					}
					guarded := false
					for _, a := range env.enclosingConds(fd.Body, call) {
						if strings.HasSuffix(a, "config.Reset") && !strings.HasPrefix(a, "!") {
							guarded = true
						}
					}
					c.check(fd.Name.Name == "Stop" && guarded, be[0]+"/reset-only-if-configured/"+rp.Name+"."+funcName(fd), call.Pos(), "Reset() is called from Stop under `if config.Reset`", "Reset() is called from "+funcName(fd)+" without the config.Reset guard: the database is wiped on shutdown")
				}
			}
		}
		c.check(nCalls >= 1, be[0]+"/reset-call-sites", pos, fmt.Sprintf("%d guarded call site(s) of Reset", nCalls), "no call site of Reset found")
		// destructive primitives live only inside Reset
		for _, fd := range allFuncDecls(pk) {
			if isTestFile(c.P, fd.Pos()) {
				continue
			}
			for _, call := range callsInDeep(fd.Body) {
				cn := calleeName(info, call)
				if cn == "os.Remove" || cn == "os.RemoveAll" || cn == "os.Truncate" {
					c.check(fd.Name.Name == "Reset", be[0]+"/destructive/"+cn+"/"+funcName(fd), call.Pos(), cn+" only inside Reset", cn+" is called in "+funcName(fd)+": the database file can be removed outside Reset")
				}
			}
			ast.Inspect(fd.Body, func(n ast.Node) bool {
				id, ok := n.(*ast.Ident)
				if !ok {
					return true
				}
				if cn, ok := info.Uses[id].(*types.Const); ok && cn.Val().Kind().String() == "String" && strings.Contains(strings.ToUpper(cn.Val().ExactString()), "DROP TABLE") {
					c.check(fd.Name.Name == "Reset", be[0]+"/destructive/drop/"+funcName(fd), id.Pos(), "DROP TABLE only inside Reset", "the DROP TABLE script is used in "+funcName(fd))
				}
				return true
			})
		}
	}
}

// ruleServeShutdown (C06/C12): the serve command stops the API and the AIO only after the kernel
// loop returned, API first.
func ruleServeShutdown(c *Ctx) {
	pk := c.P.Pkg(pkgServe)
	if pk == nil {
		c.und("serve", 0, "cmd/serve not loaded")
		return
	}
	info := pk.TypesInfo
	var loop, apiStop, aioStop, apiStart, aioStart *ast.CallExpr
	var allStops []*ast.CallExpr
	inLit := map[*ast.CallExpr]bool{}
	for _, fd := range allFuncDecls(pk) {
		ast.Inspect(fd.Body, func(n ast.Node) bool {
			call, ok := n.(*ast.CallExpr)
			if !ok {
				return true
			}
			se, ok := ast.Unparen(call.Fun).(*ast.SelectorExpr)
			if !ok {
				return true
			}
			rt := info.Types[se.X].Type
			switch {
			case se.Sel.Name == "Loop" && isNamed(rt, pkgSystem, "System"):
				loop = call
			case se.Sel.Name == "Stop" && namedPkgPath(rt) == pkgIApi:
				apiStop = call
				allStops = append(allStops, call)
			case se.Sel.Name == "Stop" && namedPkgPath(rt) == pkgIAio:
				aioStop = call
				allStops = append(allStops, call)
			case se.Sel.Name == "Start" && namedPkgPath(rt) == pkgIApi:
				apiStart = call
			case se.Sel.Name == "Start" && namedPkgPath(rt) == pkgIAio:
				aioStart = call
			}
			// is the call inside a goroutine literal?
			for _, par := range enclosing(fd.Body, call) {
				if _, ok := par.(*ast.GoStmt); ok {
					inLit[call] = true
				}
			}
			return true
		})
	}
	if loop == nil || apiStop == nil || aioStop == nil {
		c.und("serve/shutdown-order", 0, "Loop / api.Stop / aio.Stop calls not found in cmd/serve")
		return
	}
	ok := loop.Pos() < apiStop.Pos() && apiStop.Pos() < aioStop.Pos() && !inLit[apiStop] && !inLit[aioStop] && !inLit[loop]
	for _, st := range allStops {
		if st.Pos() < loop.Pos() || inLit[st] {
			ok = false
		}
	}
	c.check(ok, "serve/shutdown-order", loop.Pos(), "Loop() returns, then api.Stop(), then aio.Stop() (the store closes last)", "the store/API are stopped before the kernel loop has returned (or concurrently with it): accepted requests are cut off and the database may be reset or closed under running transactions")
	if apiStart != nil && aioStart != nil {
		c.check(apiStart.Pos() < loop.Pos() && aioStart.Pos() < loop.Pos(), "serve/start-before-loop", apiStart.Pos(), "subsystems are started before the loop", "a subsystem is started after the kernel loop")
	}
}

// ruleBackground (C06/C11): background coroutines keep no state between runs, start with a store
// read, always terminate normally, and skip a selected record only for reasons that cannot recur
// for ever on client data.
func ruleBackground(withSkips bool) ruleFn {
	return func(c *Ctx) { c.backgroundRule(withSkips) }
}

func (c *Ctx) backgroundRule(withSkips bool) {
	m := c.coroModel()
	if m.Err != nil {
		c.und("model", 0, m.Err.Error())
		return
	}
	info := m.Pk.TypesInfo
	var names []string
	for n := range m.Background {
		names = append(names, n)
	}
	sort.Strings(names)
	c.floor("background coroutines", len(names), 5)
	skipN := map[string]int{}
	for _, bn := range names {
		cf := m.Background[bn]
		key := "background/" + bn
		if cf.Lit == nil {
			c.und(key, cf.Decl.Pos(), "constructor does not return a function literal")
			continue
		}
		// first effect is a store read
		subs := cf.storeSubmissions(m)
		firstRead := len(subs) > 0
		if firstRead {
			// nothing is yielded before the first store submission
			for _, call := range callsInDeep(cf.Lit.Body) {
				if fn, ok := calleeOf(info, call).(*types.Func); ok && fn.Pkg() != nil && fn.Pkg().Path() == pkgGocoro && call.Pos() < subs[0].Pos {
					firstRead = false
				}
			}
		}
		c.check(firstRead, key+"/resumes-from-store", cf.Decl.Pos(), "first effect is a store submission: the cycle works from stored state only", "the background coroutine does not begin with a store submission (it relies on state that a restart loses)")
		// terminates: every return is (nil, nil); no recursion; loops are bounded
		okRet, okLoops, okRec := true, true, true
		ast.Inspect(cf.Lit.Body, func(n ast.Node) bool {
			switch x := n.(type) {
			case *ast.FuncLit:
				return false
			case *ast.ReturnStmt:
				if len(x.Results) != 2 || exprString(x.Results[0]) != "nil" || exprString(x.Results[1]) != "nil" {
					okRet = false
				}
			case *ast.ForStmt:
				// for i := 0; i < len(x); i++
				if x.Cond == nil || x.Post == nil {
					okLoops = false
				} else if be, ok := ast.Unparen(x.Cond).(*ast.BinaryExpr); !ok || be.Op != token.LSS || !strings.HasPrefix(exprString(be.Y), "len(") {
					okLoops = false
				}
			case *ast.CallExpr:
				if calleeOf(info, x) == info.Defs[cf.Decl.Name] {
					okRec = false
				}
			}
			return true
		})
		c.check(okRet, key+"/always-completes", cf.Decl.Pos(), "every return is (nil, nil): the instance completes and is rescheduled", "a return of the background coroutine yields an error or a value: its promise may never be seen as completed and the coroutine is not rescheduled")
		c.check(okLoops && okRec, key+"/terminates", cf.Decl.Pos(), "only range loops / index loops over the batch; no self call", "an unbounded loop or a self call in a background coroutine: a cycle may never finish")
		// skipped records
		if !withSkips {
			continue
		}
		ast.Inspect(cf.Lit.Body, func(n ast.Node) bool {
			bs, ok := n.(*ast.BranchStmt)
			if !ok || bs.Tok != token.CONTINUE {
				return true
			}
			// governing if
			var ifs *ast.IfStmt
			for _, par := range enclosing(cf.Lit.Body, bs) {
				if i, ok := par.(*ast.IfStmt); ok {
					ifs = i
				}
			}
			if ifs == nil {
				c.und(key+"/skip", bs.Pos(), "continue outside an if")
				return true
			}
			reason := ""
			label := ""
			cond := ast.Unparen(ifs.Cond)
			if be, ok := cond.(*ast.BinaryExpr); ok && be.Op == token.EQL && exprString(be.Y) == "nil" {
				if tv, ok := info.Types[be.X]; ok && !isErrorType(tv.Type) {
					reason = "nothing was spawned for this entry"
					label = "not-spawned"
				}
			}
			if obj, nonNil, ok := nilTest(info, cond); ok && reason == "" && nonNil && isErrorType(obj.Type()) {
				// the call that produced the error: the if's init, or the statement before the if
				var prod *ast.CallExpr
				find := func(st ast.Stmt) {
					if as, ok := st.(*ast.AssignStmt); ok && len(as.Rhs) == 1 {
						if _, assigns := assignsTo(info, as, obj); assigns {
							prod, _ = ast.Unparen(as.Rhs[0]).(*ast.CallExpr)
						}
					}
				}
				if ifs.Init != nil {
					find(ifs.Init)
				}
				if prod == nil {
					chain := enclosing(cf.Lit.Body, ifs)
					for i := len(chain) - 1; i >= 0 && prod == nil; i-- {
						var list []ast.Stmt
						switch b := chain[i].(type) {
						case *ast.BlockStmt:
							list = b.List
						case *ast.CaseClause:
							list = b.Body
						}
						for j, st := range list {
							if st == ast.Stmt(ifs) && j > 0 {
								find(list[j-1])
							}
							// the if may be nested one level (if cond { x, err = …; if err != nil {continue} })
						}
						if list != nil {
							break
						}
					}
				}
				if prod != nil {
					p := cf.Env.prov(prod)
					cn := calleeNameOf(info, prod)
					label = cn
					switch {
					case p == "rec":
						reason = "decoding a record the server itself wrote"
					case cn == "util.Next":
						reason = "cron expressions are validated by both front ends before they are stored"
					case strings.HasPrefix(p, "await("):
						reason = "a failed submission (transient): the record is selected again next cycle"
						label = p
					default:
						reason = "!" + cn + " failed"
					}
				}
			}
			if reason == "" {
				reason = "!" + cf.Env.prov(ifs.Cond)
				label = "cond"
			}
			skipN[bn+"/"+label]++
			kk := fmt.Sprintf("%s/skip/%s", key, label)
			if skipN[bn+"/"+label] > 1 {
				kk += fmt.Sprintf("#%d", skipN[bn+"/"+label])
			}
			if strings.HasPrefix(reason, "!") {
				c.bad(kk, bs.Pos(), "a record selected by the sweep is skipped when "+strings.TrimPrefix(reason, "!")+" on data the client controls — a condition that can be permanent: the record stays in the sweep's (ordered, limited) selection for ever and can starve the rest")
			} else {
				c.ok(kk, bs.Pos(), "skip is internal: "+reason)
			}
			return true
		})
	}
}

// ruleTickReadd (C11/C12): a background coroutine is re-added iff the API is not done, the
// interval elapsed and the previous instance completed; the loop exits only when done.
func ruleTick(c *Ctx) {
	pk := c.P.Pkg(pkgSystem)
	info := pk.TypesInfo
	fd := funcDecl(pk, "System", "Tick")
	if fd == nil {
		c.und("tick", 0, "System.Tick not found")
		return
	}
	env := newProvEnv(pk, fd)
	isBg := func(x ast.Expr) bool { return strings.HasSuffix(exprString(x), ".background") }
	rs := rangeOver(fd.Body, isBg)
	timeParam := "" // name of the clock parameter in the function that holds the loop
	if ps := fd.Type.Params.List; len(ps) > 0 && len(ps[0].Names) > 0 {
		timeParam = ps[0].Names[0].Name
	}
	if rs == nil {
		// the loop may live in a method of the package that Tick calls unconditionally at its top
		// level, handing it the clock
		for _, st := range fd.Body.List {
			es, ok := st.(*ast.ExprStmt)
			if !ok {
				continue
			}
			call, ok := es.X.(*ast.CallExpr)
			if !ok {
				continue
			}
			fn, ok := calleeOf(info, call).(*types.Func)
			if !ok || fn.Pkg() != pk.Types {
				continue
			}
			hd := funcDeclOf(pk, fn)
			if hd == nil || hd.Body == nil {
				continue
			}
			if r := rangeOver(hd.Body, isBg); r != nil {
				// which parameter of the helper receives Tick's clock
				for i, a := range call.Args {
					if id, ok := ast.Unparen(a).(*ast.Ident); ok && id.Name == timeParam && i < fn.Type().(*types.Signature).Params().Len() {
						rs = r
						env = newProvEnv(pk, hd)
						timeParam = fn.Type().(*types.Signature).Params().At(i).Name()
					}
				}
			}
		}
	}
	if rs == nil {
		c.und("tick/background-loop", fd.Pos(), "loop over the background coroutines not found")
	} else {
		var ifs *ast.IfStmt
		for _, st := range rs.Body.List {
			if i, ok := st.(*ast.IfStmt); ok {
				ifs = i
			}
		}
		if ifs == nil {
			c.und("tick/readd-condition", rs.Pos(), "no condition governs re-adding")
		} else {
			f := env.condFormula(ifs.Cond, 0)
			atoms := map[string]bool{}
			f.atoms(atoms)
			var done, elapsed, none, completed string
			for a := range atoms {
				switch {
				case strings.Contains(a, ".Done()"):
					done = a
				case strings.Contains(a, ".last") && strings.Contains(a, "<="):
					elapsed = a
				case strings.Contains(a, ".promise == nil"):
					none = a
				case strings.Contains(a, ".Completed()"):
					completed = a
				}
			}
			ok := done != "" && elapsed != "" && none != "" && completed != "" && len(atoms) == 4
			if ok {
				names := []string{done, elapsed, none, completed}
				for mask := 0; mask < 16; mask++ {
					v := map[string]bool{}
					for i, nme := range names {
						v[nme] = mask&(1<<i) != 0
					}
					want := !v[done] && v[elapsed] && (v[none] || v[completed])
					if (f.eval(v) == 1) != want {
						ok = false
					}
				}
				// the elapsed atom compares (t - bg.last) with the signal timeout
				ok = ok && strings.Contains(elapsed, "SignalTimeout") && strings.Contains(elapsed, "param:"+timeParam+" - ")
			}
			o := c.check(ok, "tick/readd-condition", ifs.Pos(), "re-added iff ¬api.Done ∧ interval elapsed ∧ (no previous instance ∨ previous completed)", "the re-add condition of background coroutines is not `¬api.Done ∧ (t - last) ≥ interval ∧ (promise == nil ∨ promise.Completed())`")
			if !ok {
				o.Found = f.String()
			}
			// on a successful add the promise and the start time are recorded
			setLast, setPromise := false, false
			ast.Inspect(ifs.Body, func(n ast.Node) bool {
				if as, ok := n.(*ast.AssignStmt); ok && len(as.Lhs) == 1 {
					l := exprString(as.Lhs[0])
					if strings.HasSuffix(l, ".last") {
						setLast = true
					}
					if strings.HasSuffix(l, ".promise") {
						setPromise = true
					}
				}
				return true
			})
			// the promise recorded is the one gocoro.Add returned, and only when Add accepted the coroutine
			okAdded := false
			ast.Inspect(ifs.Body, func(n ast.Node) bool {
				as, ok := n.(*ast.AssignStmt)
				if !ok || len(as.Lhs) != 1 || !strings.HasSuffix(exprString(as.Lhs[0]), ".promise") {
					return true
				}
				for _, a := range env.enclosingConds(ifs.Body, as) {
					if strings.HasPrefix(a, "#1(") && strings.Contains(a, "Add(") {
						okAdded = true
					}
				}
				return true
			})
			c.check(okAdded, "tick/readd-only-when-added", ifs.Pos(), "the new instance is recorded only when the scheduler accepted it", "the background coroutine's promise is recorded on the branch where gocoro.Add did NOT accept it (or unconditionally): the next ticks see a nil/stale promise and add the coroutine again while an instance is running, or never again")
			c.check(setLast && setPromise, "tick/readd-bookkeeping", ifs.Pos(), "start time and promise of the new instance are recorded", "the new instance's start time or promise is not recorded: one-at-a-time is no longer enforced")
		}
	}
	// Loop: the only return is under `if s.Done()`
	loop := funcDecl(pk, "System", "Loop")
	if loop == nil {
		c.und("loop", 0, "System.Loop not found")
		return
	}
	lenv := newProvEnv(pk, loop)
	nRet, okRet := 0, true
	ast.Inspect(loop.Body, func(n ast.Node) bool {
		if _, ok := n.(*ast.FuncLit); ok {
			return false
		}
		if rs, ok := n.(*ast.ReturnStmt); ok {
			nRet++
			g := false
			for _, a := range lenv.enclosingConds(loop.Body, rs) {
				if strings.HasSuffix(a, ".Done()") && !strings.HasPrefix(a, "!") {
					g = true
				}
			}
			if !g {
				okRet = false
			}
		}
		return true
	})
	// Done() is evaluated only after a Tick that follows the last wait: Tick is what moves accepted
	// requests from the API's hand-over buffer (filled while the loop is parked) into the scheduler,
	// and Done() does not look at that buffer
	{
		g := buildCFG(pk, loop.Body)
		callsMethod := func(n ast.Node, name string) bool {
			f := false
			ast.Inspect(n, func(x ast.Node) bool {
				if _, ok := x.(*ast.FuncLit); ok {
					return false
				}
				if call, ok := x.(*ast.CallExpr); ok {
					if fn, ok := calleeOf(info, call).(*types.Func); ok && fn.Name() == name && isFuncOf(fn, pkgSystem, "System") {
						f = true
					}
				}
				return true
			})
			return f
		}
		waits := func(n ast.Node) bool {
			f := false
			ast.Inspect(n, func(x ast.Node) bool {
				switch y := x.(type) {
				case *ast.FuncLit:
					return false
				case *ast.UnaryExpr:
					if y.Op == token.ARROW {
						f = true
					}
				case *ast.SelectStmt, *ast.CommClause:
					f = true
				}
				return true
			})
			return f
		}
		// must-analysis with kill: ticked[b] = the system has ticked since the last wait, at entry of b
		const top, yes, no = 0, 1, 2
		in := make([]int, len(g.Blocks))
		in[0] = no
		flow := func(b *cfg.Block, st int, visit func(n ast.Node, st int)) int {
			for _, n := range b.Nodes {
				if visit != nil {
					visit(n, st)
				}
				if waits(n) {
					st = no
				}
				if callsMethod(n, "Tick") {
					st = yes
				}
			}
			return st
		}
		for changed, it := true, 0; changed && it < 4*len(g.Blocks)+8; it++ {
			changed = false
			for _, b := range g.Blocks {
				if in[b.Index] == top {
					continue
				}
				o := flow(b, in[b.Index], nil)
				for _, sc := range b.Succs {
					nv := in[sc.Index]
					switch {
					case nv == top:
						nv = o
					case nv != o:
						nv = no
					}
					if nv != in[sc.Index] {
						in[sc.Index] = nv
						changed = true
					}
				}
			}
		}
		nDone, okDone := 0, true
		var where token.Pos
		for _, b := range g.Blocks {
			if in[b.Index] == top {
				continue
			}
			flow(b, in[b.Index], func(n ast.Node, st int) {
				if callsMethod(n, "Done") {
					nDone++
					if st != yes {
						okDone = false
						where = n.Pos()
					}
				}
			})
		}
		if where == token.NoPos {
			where = loop.Pos()
		}
		c.check(nDone >= 1 && okDone, "loop/tick-before-done", where, "every evaluation of Done() in Loop follows a Tick with no wait in between", "Loop evaluates Done() without having ticked since it last waited: a request accepted while the loop was parked sits in the API's hand-over buffer, which Done() does not see, so the loop can exit and the request is never answered")
	}
	c.check(nRet >= 1 && okRet, "loop/exit-only-when-done", loop.Pos(), "Loop returns only under `if s.Done()`", "Loop can return although the system is not done: accepted requests would never be answered")
	// Done() = api.Done() && scheduler.Size() == 0 ; api.Done() = done && len(sq) == 0
	for _, t := range []struct{ pkg, recv, want, key string }{
		{pkgSystem, "System", "(API.Done() && (Scheduler.Size() == 0))", "loop/done-definition"},
		{pkgIApi, "api", "(param:a.done && (len(param:a.sq) == 0))", "loop/api-done-definition"},
	} {
		p2 := c.P.Pkg(t.pkg)
		d := funcDecl(p2, t.recv, "Done")
		if d == nil || len(d.Body.List) == 0 {
			c.und(t.key, 0, "Done not found")
			continue
		}
		got := ""
		if rs, ok := d.Body.List[len(d.Body.List)-1].(*ast.ReturnStmt); ok && len(rs.Results) == 1 {
			got = newProvEnv(p2, d).prov(rs.Results[0])
		}
		norm := func(s string) string { return strings.ReplaceAll(strings.ReplaceAll(s, "RLock", ""), " ", "") }
		o := c.check(norm(got) == norm(t.want), t.key, d.Pos(), "Done ⇔ "+t.want, "the definition of Done changed: "+got)
		if norm(got) != norm(t.want) {
			o.Expected, o.Found = t.want, got
		}
	}
	_ = info
}

// ruleShutdownFlag (R14, finding F14): the API's shutdown flag is read by request goroutines and
// written by the signal goroutine; the test-then-send in EnqueueSQE must be one critical section
// with the writer (a lock held across both, on both sides).
func ruleShutdownFlag(c *Ctx) {
	pk := c.P.Pkg(pkgIApi)
	info := pk.TypesInfo
	sh := funcDecl(pk, "api", "Shutdown")
	enq := funcDecl(pk, "api", "EnqueueSQE")
	if sh == nil || enq == nil {
		c.und("shutdown-flag", 0, "api.Shutdown / api.EnqueueSQE not found")
		return
	}
	// the flag: the field assigned in Shutdown
	var flag types.Object
	ast.Inspect(sh.Body, func(n ast.Node) bool {
		if as, ok := n.(*ast.AssignStmt); ok && len(as.Lhs) == 1 {
			if se, ok := as.Lhs[0].(*ast.SelectorExpr); ok {
				flag = info.Uses[se.Sel]
			}
		}
		if call, ok := n.(*ast.CallExpr); ok {
			// atomic style: a.done.Store(true)
			if se, ok := ast.Unparen(call.Fun).(*ast.SelectorExpr); ok && se.Sel.Name == "Store" {
				if inner, ok := ast.Unparen(se.X).(*ast.SelectorExpr); ok {
					flag = info.Uses[inner.Sel]
				}
			}
		}
		return true
	})
	if flag == nil {
		c.und("shutdown-flag", sh.Pos(), "Shutdown does not set a field")
		return
	}
	locksIn := func(fd *ast.FuncDecl) (lock, unlock bool) {
		for _, call := range callsInDeep(fd.Body) {
			cn := calleeName(info, call)
			if strings.HasSuffix(cn, "Mutex.Lock") || strings.HasSuffix(cn, "Mutex.RLock") {
				lock = true
			}
			if strings.HasSuffix(cn, "Mutex.Unlock") || strings.HasSuffix(cn, "Mutex.RUnlock") {
				unlock = true
			}
		}
		return
	}
	l1, u1 := locksIn(sh)
	l2, u2 := locksIn(enq)
	// in EnqueueSQE the lock must be taken before the flag is read and released after the send:
	// accept `defer unlock` or an unlock positioned after the select
	held := false
	if l2 && u2 {
		var lockPos, readPos, sendPos, unlockPos token.Pos
		deferred := false
		ast.Inspect(enq.Body, func(n ast.Node) bool {
			switch x := n.(type) {
			case *ast.FuncLit:
				return false
			case *ast.DeferStmt:
				if strings.Contains(calleeName(info, x.Call), "Unlock") {
					deferred = true
				}
			case *ast.CallExpr:
				cn := calleeName(info, x)
				if (strings.HasSuffix(cn, ".Lock") || strings.HasSuffix(cn, ".RLock")) && !lockPos.IsValid() {
					lockPos = x.Pos()
				}
				if strings.HasSuffix(cn, "Unlock") {
					unlockPos = x.Pos()
				}
			case *ast.SelectorExpr:
				if info.Uses[x.Sel] == flag && !readPos.IsValid() {
					readPos = x.Pos()
				}
			case *ast.SendStmt:
				sendPos = x.Pos()
			}
			return true
		})
		held = lockPos.IsValid() && readPos.IsValid() && sendPos.IsValid() && lockPos < readPos && (deferred || unlockPos > sendPos)
	}
	c.check(l1 && u1 && held, "shutdown-flag/"+flag.Name(), enq.Pos(),
		"the shutdown flag is set, and tested-then-sent, under one lock",
		"the shutdown flag `"+flag.Name()+"` is written by Shutdown (signal goroutine) and tested by EnqueueSQE (request goroutines) with no critical section around the test and the send: a request can be queued after the kernel observed Done() and is then never answered")
}

// continueToReturn copies a loop body replacing the `continue` statements that belong to this loop
// by return statements at the same position, so that the body can be analysed as a function whose
// exits are "next record".
func continueToReturn(body *ast.BlockStmt) *ast.BlockStmt {
	var rw func(s ast.Stmt) ast.Stmt
	rwList := func(l []ast.Stmt) []ast.Stmt {
		out := make([]ast.Stmt, len(l))
		for i, s := range l {
			out[i] = rw(s)
		}
		return out
	}
	rw = func(s ast.Stmt) ast.Stmt {
		switch x := s.(type) {
		case *ast.BranchStmt:
			if x.Tok == token.CONTINUE && x.Label == nil {
				return &ast.ReturnStmt{Return: x.Pos()}
			}
		case *ast.BlockStmt:
			return &ast.BlockStmt{Lbrace: x.Lbrace, List: rwList(x.List), Rbrace: x.Rbrace}
		case *ast.IfStmt:
			n := &ast.IfStmt{If: x.If, Init: x.Init, Cond: x.Cond, Body: rw(x.Body).(*ast.BlockStmt)}
			if x.Else != nil {
				n.Else = rw(x.Else)
			}
			return n
		case *ast.SwitchStmt:
			return &ast.SwitchStmt{Switch: x.Switch, Init: x.Init, Tag: x.Tag, Body: rw(x.Body).(*ast.BlockStmt)}
		case *ast.CaseClause:
			return &ast.CaseClause{Case: x.Case, List: x.List, Colon: x.Colon, Body: rwList(x.Body)}
		}
		return s // nested loops keep their own continues
	}
	return rw(body).(*ast.BlockStmt)
}

// ruleSweepAnswers (C08/C11 progress rule): in every background coroutine each record selected by
// the sweep is answered, in the same cycle, by exactly one command / spawned helper / hand-off;
// a record may be left unanswered only where decoding server-written bytes failed or nothing was
// handed off for it. In the dispatch cycle every awaited hand-off is answered by exactly one
// task update (enqueued | retry with attempt+1 | notification finished).
func ruleSweepAnswers(c *Ctx) {
	m := c.coroModel()
	if m.Err != nil {
		c.und("model", 0, m.Err.Error())
		return
	}
	info := m.Pk.TypesInfo
	var names []string
	for n := range m.Background {
		names = append(names, n)
	}
	sort.Strings(names)
	nLoops := 0
	for _, bn := range names {
		cf := m.Background[bn]
		if cf.Lit == nil {
			continue
		}
		loopN := 0
		ast.Inspect(cf.Lit.Body, func(n ast.Node) bool {
			rs, ok := n.(*ast.RangeStmt)
			if !ok || !strings.HasSuffix(exprString(rs.X), ".Records") {
				return true
			}
			loopN++
			nLoops++
			key := fmt.Sprintf("sweep-answers/%s/loop%d", bn, loopN)
			// classify the continues of this loop
			allowed := map[token.Pos]string{}
			ast.Inspect(rs.Body, func(x ast.Node) bool {
				bs, ok := x.(*ast.BranchStmt)
				if !ok || bs.Tok != token.CONTINUE {
					return true
				}
				var ifs *ast.IfStmt
				for _, par := range enclosing(rs.Body, bs) {
					if i, ok := par.(*ast.IfStmt); ok {
						ifs = i
					}
				}
				if ifs == nil {
					return true
				}
				cond := ast.Unparen(ifs.Cond)
				if be, ok := cond.(*ast.BinaryExpr); ok && be.Op == token.EQL && exprString(be.Y) == "nil" {
					if tv, ok := info.Types[be.X]; ok && !isErrorType(tv.Type) {
						allowed[bs.Pos()] = "nothing was handed off for this record"
					}
				}
				if obj, nonNil, ok := nilTest(info, cond); ok && nonNil && isErrorType(obj.Type()) {
					// a skip while the record is still being prepared (before anything was handed off or
					// built for it); whether its reason is acceptable is judged by the background-skip rule
					prepared := true
					ast.Inspect(rs.Body, func(y ast.Node) bool {
						if y != nil && y.Pos() < ifs.Pos() {
							if isAnswer(info, y) {
								prepared = false
							}
							if call, ok := y.(*ast.CallExpr); ok {
								if fn, ok := calleeOf(info, call).(*types.Func); ok && fn.Pkg() != nil && fn.Pkg().Path() == pkgGocoro && fn.Name() == "Await" {
									prepared = false
								}
							}
						}
						return true
					})
					if prepared {
						allowed[bs.Pos()] = "skipped while preparing the record (reason judged by the background-skip rule)"
					}
				}
				return true
			})
			// does this loop await hand-offs made earlier? then only what follows the await counts
			body := rs.Body
			awaitIdx := -1
			for i, st := range rs.Body.List {
				if awaitsHandOff(m.Pk, st, 0) {
					awaitIdx = i
				}
			}
			if awaitIdx >= 0 {
				// the record's command follows the await of its hand-off on every path of the iteration
				okey := fmt.Sprintf("sweep-answers/%s/loop%d/after-await", bn, loopN)
				g := buildCFG(m.Pk, continueToReturn(rs.Body))
				gen := func(nd ast.Node) []string {
					if _, isFn := nd.(*ast.FuncLit); isFn {
						return nil
					}
					if awaitsHandOff(m.Pk, nd, 0) {
						return []string{"awaited"}
					}
					return nil
				}
				at := mustFacts(g, gen, nil, func(nd ast.Node) bool { return isAnswer(info, nd) })
				bad := token.NoPos
				nAns := 0
				for nd, fs := range at {
					nAns++
					if !fs["awaited"] && (bad == token.NoPos || nd.Pos() < bad) {
						bad = nd.Pos()
					}
				}
				if bad != token.NoPos {
					c.bad(okey, bad, bn+": a command is built for a record before the hand-off made for it was awaited: the record's state change would be written without (or before) the recorded hand-off attempt")
				} else {
					c.ok(okey, rs.Pos(), fmt.Sprintf("%d answers follow the await of the record's hand-off on every path", nAns))
				}
			}
			what := "each selected record is answered by exactly one command / spawned completion / hand-off"
			anyAnswer := false
			ast.Inspect(rs.Body, func(x ast.Node) bool {
				if isAnswer(info, x) {
					anyAnswer = true
				}
				return true
			})
			if !anyAnswer {
				c.ok(key, rs.Pos(), "loop builds reads / awaits only")
				return true
			}
			if awaitIdx >= 0 {
				body = &ast.BlockStmt{Lbrace: rs.Body.List[awaitIdx].End(), List: rs.Body.List[awaitIdx+1:], Rbrace: rs.Body.Rbrace}
				what = "each awaited hand-off is answered by exactly one task update"
				// a loop that only awaits (no commands at all in the function after) is exempt
				hasAnswer := false
				ast.Inspect(body, func(x ast.Node) bool {
					if isAnswer(info, x) {
						hasAnswer = true
					}
					return true
				})
				if !hasAnswer {
					c.ok(key, rs.Pos(), "loop only awaits the spawned helpers (the helpers carry the answers)")
					return true
				}
			}
			oc := &onceCheck{pk: m.Pk, body: continueToReturn(body),
				node: func(x ast.Node) int {
					if isAnswer(info, x) {
						return 1
					}
					return 0
				},
				expect: func(p token.Pos, _ *ast.ReturnStmt) (bool, bool) {
					if _, ok := allowed[p]; ok {
						return true, false
					}
					return false, true
				}}
			c.runOnce(key, rs.Pos(), bn+": "+what, oc)
			return true
		})
	}
	c.count("sweep_loops", nLoops)
	c.floor("sweep loops over selected records", nLoops, 6)
}

// isAnswer: a node that answers a selected record: a store command built for it (appended or
// stored by index), a helper spawned for it, or a submission yielded for it.
func isAnswer(info *types.Info, x ast.Node) bool {
	as, ok := x.(*ast.AssignStmt)
	if !ok || len(as.Rhs) != 1 || len(as.Lhs) != 1 {
		return false
	}
	rhs := ast.Unparen(as.Rhs[0])
	isCmd := func(e ast.Expr) bool {
		tv, ok := info.Types[e]
		return ok && (isNamed(tv.Type, pkgTAio, "Command") || strings.HasSuffix(namedName(tv.Type), "Command") && namedPkgPath(tv.Type) == pkgTAio)
	}
	if call, ok := rhs.(*ast.CallExpr); ok {
		if exprString(call.Fun) == "append" && len(call.Args) == 2 && isCmd(call.Args[1]) {
			return true
		}
		if fn, ok := calleeOf(info, call).(*types.Func); ok && fn.Pkg() != nil && fn.Pkg().Path() == pkgGocoro && (fn.Name() == "Spawn" || fn.Name() == "Yield") {
			return true
		}
		// awaiting = append(awaiting, gocoro.Spawn(...))
		if exprString(call.Fun) == "append" && len(call.Args) == 2 {
			if inner, ok := ast.Unparen(call.Args[1]).(*ast.CallExpr); ok {
				if fn, ok := calleeOf(info, inner).(*types.Func); ok && fn.Pkg() != nil && fn.Pkg().Path() == pkgGocoro && (fn.Name() == "Spawn" || fn.Name() == "Yield") {
					return true
				}
			}
		}
	}
	if _, ok := as.Lhs[0].(*ast.IndexExpr); ok && isCmd(rhs) && isNamed(info.Types[rhs].Type, pkgTAio, "Command") {
		// a read command prepared for a later lookup is not an answer
		read := false
		ast.Inspect(rhs, func(y ast.Node) bool {
			if kv, ok := y.(*ast.KeyValueExpr); ok && exprString(kv.Key) == "Kind" {
				if se, ok := ast.Unparen(kv.Value).(*ast.SelectorExpr); ok && readKinds[se.Sel.Name] {
					read = true
				}
			}
			return true
		})
		return !read
	}
	return false
}

// ruleRecordLoopsComplete (C08/C11/C14): a loop over the records a statement selected (or over the
// hand-offs made for them) visits every record: it is never left by `break` (or a labelled
// continue / goto out of it). Leaving it at the first record that cannot be handled leaves the rest
// of the batch unanswered; when that record is permanent and sorts first, for ever — and a search
// page would silently lose its tail.
func ruleRecordLoopsComplete(c *Ctx) {
	m := c.coroModel()
	if m.Err != nil {
		c.und("model", 0, m.Err.Error())
		return
	}
	n := 0
	for _, name := range m.Order {
		cf := m.Funcs[name]
		loopN := 0
		info := m.Pk.TypesInfo
		ast.Inspect(cf.Decl.Body, func(nd ast.Node) bool {
			var loopBody *ast.BlockStmt
			isRec := false
			switch l := nd.(type) {
			case *ast.RangeStmt:
				loopBody = l.Body
				isRec = strings.HasSuffix(exprString(l.X), ".Records")
			case *ast.ForStmt:
				loopBody = l.Body
			default:
				return true
			}
			if !isRec {
				// … or a loop that awaits the hand-offs made for the records (one await per element)
				for _, st := range loopBody.List {
					for _, call := range callsIn(st) {
						if fn, ok := calleeOf(info, call).(*types.Func); ok && fn.Pkg() != nil && fn.Pkg().Path() == pkgGocoro && fn.Name() == "Await" {
							if len(enclosingLoops(loopBody, call)) == 0 {
								isRec = true
							}
						}
					}
				}
			}
			if !isRec {
				return true
			}
			rs := nd.(ast.Stmt)
			rsBody := loopBody
			loopN++
			n++
			key := fmt.Sprintf("record-loop/%s/loop%d", name, loopN)
			var bad *ast.BranchStmt
			var walk func(x ast.Node, inner bool)
			walk = func(x ast.Node, inner bool) {
				ast.Inspect(x, func(y ast.Node) bool {
					switch z := y.(type) {
					case *ast.FuncLit:
						return false
					case *ast.ForStmt:
						if y != x {
							walk(z.Body, true)
							return false
						}
					case *ast.RangeStmt:
						if y != x {
							walk(z.Body, true)
							return false
						}
					case *ast.SwitchStmt:
						if y != x {
							walk(z.Body, true)
							return false
						}
					case *ast.TypeSwitchStmt:
						if y != x {
							walk(z.Body, true)
							return false
						}
					case *ast.SelectStmt:
						if y != x {
							walk(z.Body, true)
							return false
						}
					case *ast.BranchStmt:
						switch {
						case z.Tok == token.BREAK && z.Label == nil && !inner:
							bad = z
						case z.Tok == token.GOTO:
							bad = z
						case z.Label != nil && (z.Tok == token.BREAK || z.Tok == token.CONTINUE):
							bad = z // labelled: leaves (or restarts) an enclosing statement
						}
					}
					return true
				})
			}
			walk(rsBody, false)
			pos := rs.Pos()
			if bad != nil {
				pos = bad.Pos()
			}
			c.check(bad == nil, key, pos, "the loop over the selected records is never left early", name+": the loop over the selected records is left by `"+func() string {
				if bad != nil {
					return bad.Tok.String()
				}
				return ""
			}()+"`: the remaining records of the batch are not handled in this cycle — a record that cannot be handled and sorts first starves the rest (a search page loses its tail)")
			return true
		})
	}
	c.count("record_loops", n)
	c.floor("loops over selected records", n, 8)
}

// enclosingLoops: the for / range statements between root and node (root excluded).
func enclosingLoops(root ast.Node, node ast.Node) []ast.Node {
	var out []ast.Node
	for _, a := range enclosing(root, node) {
		switch a.(type) {
		case *ast.ForStmt, *ast.RangeStmt:
			if a != root {
				out = append(out, a)
			}
		}
	}
	return out
}

// ruleSweepEarlyExit (C08/C11): a background sweep gives up before (or between) its loops only when
// a read failed or nothing was selected: every return that is not the end of the coroutine and not
// inside a loop is governed, innermost, by a non-nil test of an error or by an emptiness test
// (`len(x) == 0`, `x.RowsReturned == 0`). A sweep that returns early on any other condition stops
// visiting records that are due.
func ruleSweepEarlyExit(c *Ctx) {
	m := c.coroModel()
	if m.Err != nil {
		c.und("model", 0, m.Err.Error())
		return
	}
	info := m.Pk.TypesInfo
	var names []string
	for n := range m.Background {
		names = append(names, n)
	}
	sort.Strings(names)
	nRet := 0
	for _, bn := range names {
		cf := m.Background[bn]
		if cf.Lit == nil {
			continue
		}
		body := cf.Lit.Body
		k := 0
		ast.Inspect(body, func(nd ast.Node) bool {
			if fl, ok := nd.(*ast.FuncLit); ok && fl.Body != body {
				return false
			}
			rs, ok := nd.(*ast.ReturnStmt)
			if !ok {
				return true
			}
			if len(body.List) > 0 && body.List[len(body.List)-1] == ast.Stmt(rs) {
				return true
			}
			if len(enclosingLoops(body, rs)) > 0 {
				return true
			}
			k++
			nRet++
			key := fmt.Sprintf("sweep-early-exit/%s/return%d", bn, k)
			var ifs *ast.IfStmt
			for _, a := range enclosing(body, rs) {
				if i, ok := a.(*ast.IfStmt); ok {
					ifs = i
				}
			}
			okCond := false
			why := "it is not governed by any condition"
			if ifs != nil {
				why = "its condition `" + exprString(ifs.Cond) + "` is neither a failed read nor an empty selection"
				inThen := containsNode(ifs.Body, rs)
				if obj, nonNil, ok := nilTest(info, ifs.Cond); ok && isErrorType(obj.Type()) && nonNil == inThen {
					okCond = true
				}
				if be, ok := ast.Unparen(ifs.Cond).(*ast.BinaryExpr); ok && inThen && be.Op == token.EQL && exprString(ast.Unparen(be.Y)) == "0" {
					x := ast.Unparen(be.X)
					if call, ok := x.(*ast.CallExpr); ok && exprString(call.Fun) == "len" && len(call.Args) == 1 {
						okCond = true
					} else if se, ok := x.(*ast.SelectorExpr); ok && strings.HasPrefix(se.Sel.Name, "Rows") {
						okCond = true
					}
				}
			}
			c.check(okCond, key, rs.Pos(), "the sweep gives up here only after a failed read / an empty selection", bn+" returns before visiting its records, and "+why+": records that are due are not visited in this cycle (nor in any cycle in which the condition holds)")
			return true
		})
	}
	c.count("sweep_early_returns", nRet)
	c.floor("early returns of background sweeps", nRet, 6)
}

// ruleStoreOpenOptions (C06): durability depends on how the database is opened. The SQLite data
// source is the configured path, optionally with options from a short list that cannot weaken
// durability (busy timeout, locking of BEGIN, foreign keys, WAL / DELETE / TRUNCATE / PERSIST
// journal, FULL / EXTRA synchronous). Anything else — `_journal_mode=MEMORY|OFF`, `_synchronous=OFF|
// NORMAL`, `mode=memory`, `_locking_mode`, an unknown option — is reported: a rollback journal kept
// in memory or unsynchronised writes lose acknowledged work in a crash. The same for PRAGMA
// statements executed on the handle (none are allowed besides the list). The Postgres source is
// built from the configuration only (no option turning synchronous commit off).
func ruleStoreOpenOptions(c *Ctx) {
	allowed := map[string]map[string]bool{
		"_busy_timeout": nil, "_timeout": nil, "_txlock": nil, "_foreign_keys": nil, "_fk": nil, "cache": {"shared": true, "private": true},
		"_journal_mode": {"wal": true, "delete": true, "truncate": true, "persist": true}, "_journal": {"wal": true, "delete": true, "truncate": true, "persist": true},
		"_synchronous": {"full": true, "extra": true, "2": true, "3": true}, "_sync": {"full": true, "extra": true, "2": true, "3": true},
	}
	n := 0
	for _, pp := range []string{pkgSqlite, pkgPostgres} {
		pk := c.P.Pkg(pp)
		if pk == nil {
			c.und("store-open/"+pp, 0, "package not loaded")
			continue
		}
		info := pk.TypesInfo
		for _, fd := range allFuncDecls(pk) {
			if fd.Body == nil || isTestFile(c.P, fd.Pos()) {
				continue
			}
			env := newLocalEnv(pk, fd, nil)
			ast.Inspect(fd.Body, func(nd ast.Node) bool {
				call, ok := nd.(*ast.CallExpr)
				if !ok {
					return true
				}
				fn, ok := calleeOf(info, call).(*types.Func)
				if !ok || fn.Pkg() == nil || fn.Pkg().Path() != "database/sql" || fn.Name() != "Open" || len(call.Args) != 2 {
					return true
				}
				n++
				key := "store-open/" + pk.Name + "/" + funcName(fd)
				// constant text that takes part in the data source name (through single-definition locals)
				var frags []string
				var collect func(e ast.Expr, depth int)
				collect = func(e ast.Expr, depth int) {
					ast.Inspect(e, func(x ast.Node) bool {
						switch y := x.(type) {
						case *ast.BasicLit:
							if y.Kind == token.STRING {
								frags = append(frags, strings.Trim(y.Value, "\"`"))
							}
						case *ast.Ident:
							if v, ok := info.Uses[y].(*types.Var); ok && !v.IsField() && depth < 3 {
								for _, d := range env.defs[v] {
									if as, ok := d.(*ast.AssignStmt); ok {
										for _, r := range as.Rhs {
											collect(r, depth+1)
										}
									}
								}
							}
							if cn, ok := info.Uses[y].(*types.Const); ok && cn.Val().Kind() == constant.String {
								frags = append(frags, constant.StringVal(cn.Val()))
							}
						}
						return true
					})
				}
				collect(call.Args[1], 0)
				var bad []string
				if pp == pkgSqlite {
					for _, f := range frags {
						for _, kv := range strings.FieldsFunc(f, func(r rune) bool { return r == '?' || r == '&' }) {
							k, v, has := strings.Cut(kv, "=")
							if !has {
								if strings.HasPrefix(k, "_") || k == "mode" {
									bad = append(bad, kv)
								}
								continue
							}
							k, v = strings.ToLower(strings.TrimSpace(k)), strings.ToLower(strings.TrimSpace(v))
							vals, known := allowed[k]
							if !known || (vals != nil && !vals[v]) {
								bad = append(bad, kv)
							}
						}
					}
				} else {
					for _, f := range frags {
						lf := strings.ToLower(f)
						if strings.Contains(lf, "synchronous_commit") || strings.Contains(lf, "fsync") {
							bad = append(bad, f)
						}
					}
				}
				c.check(len(bad) == 0, key, call.Pos(), "the database is opened with the configured source and no option that weakens durability", "the database is opened with "+strings.Join(bad, ", ")+": with a journal that is not on disk or writes that are not synchronised a crash (or power loss) during or after a batch loses or corrupts work that was acknowledged")
				return true
			})
			// PRAGMAs / SET statements executed as text
			ast.Inspect(fd.Body, func(nd ast.Node) bool {
				bl, ok := nd.(*ast.BasicLit)
				if !ok || bl.Kind != token.STRING {
					return true
				}
				t := strings.ToLower(strings.Trim(bl.Value, "\"`"))
				t = strings.TrimSpace(t)
				if strings.HasPrefix(t, "pragma") || strings.HasPrefix(t, "set synchronous_commit") || strings.HasPrefix(t, "set local synchronous_commit") {
					weak := strings.Contains(t, "journal_mode") && (strings.Contains(t, "memory") || strings.Contains(t, "off")) ||
						strings.Contains(t, "synchronous") && (strings.Contains(t, "off") || strings.Contains(t, "normal") || strings.Contains(t, "= 0") || strings.Contains(t, "=0") || strings.Contains(t, "= 1") || strings.Contains(t, "=1")) ||
						strings.Contains(t, "locking_mode") || strings.Contains(t, "writable_schema")
					c.check(!weak, "store-open/"+pk.Name+"/"+funcName(fd)+"/pragma", bl.Pos(), "no durability-weakening setting", "the statement `"+t+"` weakens durability: acknowledged work can be lost or corrupted in a crash")
				}
				return true
			})
		}
	}
	c.count("database_open_sites", n)
	c.floor("sql.Open sites", n, 2)
}

// awaitsHandOff: the node awaits a future (gocoro.Await directly, or through a same-package helper
// every normal exit of which has awaited).
func awaitsHandOff(pk *packages.Package, nd ast.Node, depth int) bool {
	info := pk.TypesInfo
	for _, call := range callsIn(nd) {
		fn, ok := calleeOf(info, call).(*types.Func)
		if !ok || fn.Pkg() == nil {
			continue
		}
		if fn.Pkg().Path() == pkgGocoro && fn.Name() == "Await" {
			return true
		}
		if fn.Pkg() != pk.Types || depth >= 2 {
			continue
		}
		fd := funcDeclOf(pk, fn)
		if fd == nil || fd.Body == nil {
			continue
		}
		g := buildCFG(pk, fd.Body)
		gen := func(x ast.Node) []string {
			if awaitsHandOff(pk, x, depth+1) {
				return []string{"awaited"}
			}
			return nil
		}
		all, n := true, 0
		for _, ex := range mustFactsAtExits(g, gen, nil) {
			n++
			if !ex.Facts["awaited"] {
				all = false
			}
		}
		if all && n > 0 {
			return true
		}
	}
	return false
}
