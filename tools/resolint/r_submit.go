package main

import (
	"fmt"
	"go/ast"
	"go/types"

	"golang.org/x/tools/go/cfg"
)

// ruleCommandsSubmitted (C07/C08/C11): a coroutine that collects store commands in a local slice
// (the lease sweep, the dispatch cycle) must hand that slice to the store before it finishes: on
// every path from a statement that adds a command to the end of the function there is an awaited
// store submission whose transaction is that slice — except along the branch on which the slice is
// known to be empty (`len(commands) > 0` false). Forward may-analysis over the CFG of each coroutine
// body: "pending" is set by an append / indexed assignment to the slice, cleared by the submission
// and by the empty-branch of a length test; it must not reach an exit.
func ruleCommandsSubmitted(c *Ctx) {
	m := c.coroModel()
	if m.Err != nil {
		c.und("model", 0, m.Err.Error())
		return
	}
	info := m.Pk.TypesInfo
	isCmdSlice := func(t types.Type) bool {
		sl, ok := t.Underlying().(*types.Slice)
		if !ok {
			return false
		}
		p, ok := sl.Elem().(*types.Pointer)
		return ok && isNamed(p.Elem(), pkgTAio, "Command")
	}
	n := 0
	for _, name := range m.Order {
		cf := m.Funcs[name]
		body := cf.Body
		if body == nil {
			continue
		}
		// the command slices written in this body
		slices := map[types.Object]bool{}
		ast.Inspect(body, func(nd ast.Node) bool {
			as, ok := nd.(*ast.AssignStmt)
			if !ok {
				return true
			}
			for i, l := range as.Lhs {
				switch x := ast.Unparen(l).(type) {
				case *ast.IndexExpr:
					if id, ok := ast.Unparen(x.X).(*ast.Ident); ok {
						if o := info.Uses[id]; o != nil && isCmdSlice(o.Type()) {
							slices[o] = true
						}
					}
				case *ast.Ident:
					o := info.Uses[x]
					if o == nil {
						o = info.Defs[x]
					}
					if o != nil && isCmdSlice(o.Type()) && i < len(as.Rhs) {
						if call, ok := ast.Unparen(as.Rhs[i]).(*ast.CallExpr); ok && exprString(call.Fun) == "append" {
							slices[o] = true
						}
					}
				}
			}
			return true
		})
		for so := range slices {
			// parameters (the extra commands of the creation helper) are the caller's business
			if v, ok := so.(*types.Var); ok && cf.Env.isParam(v) {
				continue
			}
			n++
			key := fmt.Sprintf("commands-submitted/%s/%s", name, so.Name())
			writes := func(nd ast.Node) bool {
				as, ok := nd.(*ast.AssignStmt)
				if !ok {
					return false
				}
				for i, l := range as.Lhs {
					switch x := ast.Unparen(l).(type) {
					case *ast.IndexExpr:
						if isObj(info, x.X, so) {
							return true
						}
					case *ast.Ident:
						if (info.Uses[x] == so || info.Defs[x] == so) && i < len(as.Rhs) {
							if call, ok := ast.Unparen(as.Rhs[i]).(*ast.CallExpr); ok && exprString(call.Fun) == "append" {
								return true
							}
						}
					}
				}
				return false
			}
			submits := func(nd ast.Node) bool {
				found := false
				ast.Inspect(nd, func(x ast.Node) bool {
					call, ok := x.(*ast.CallExpr)
					if !ok {
						return true
					}
					fn, ok := calleeOf(info, call).(*types.Func)
					if !ok || fn.Pkg() == nil || fn.Pkg().Path() != pkgGocoro || (fn.Name() != "YieldAndAwait" && fn.Name() != "Yield") {
						return true
					}
					ast.Inspect(call, func(y ast.Node) bool {
						if kv, ok := y.(*ast.KeyValueExpr); ok && exprString(kv.Key) == "Commands" && isObj(info, kv.Value, so) {
							found = true
						}
						return true
					})
					return true
				})
				return found
			}
			g := buildCFG(m.Pk, body)
			in := make([]int, len(g.Blocks)) // 0 unvisited, 1 clean, 2 pending (may)
			in[0] = 1
			flow := func(b *cfg.Block, st int) int {
				for _, nd := range b.Nodes {
					if submits(nd) {
						st = 1
					}
					if writes(nd) {
						st = 2
					}
				}
				return st
			}
			emptyEdge := func(b *cfg.Block, i int) bool {
				if len(b.Succs) != 2 || len(b.Nodes) == 0 {
					return false
				}
				cond, ok := b.Nodes[len(b.Nodes)-1].(ast.Expr)
				if !ok {
					return false
				}
				for _, a := range cf.Env.condAtoms(cond, i == 1) { // atoms that hold on this edge
					if a == "(0 < len("+cf.Env.prov(&ast.Ident{Name: so.Name()})+"))" {
						return false
					}
				}
				// syntactic forms of "the slice is empty on this edge"
				be, ok := ast.Unparen(cond).(*ast.BinaryExpr)
				if !ok {
					return false
				}
				lc, ok := ast.Unparen(be.X).(*ast.CallExpr)
				if !ok || exprString(lc.Fun) != "len" || len(lc.Args) != 1 || !isObj(info, lc.Args[0], so) {
					return false
				}
				zero := exprString(be.Y) == "0"
				one := exprString(be.Y) == "1"
				switch be.Op.String() {
				case ">", "!=":
					return zero && i == 1
				case "==", "<=":
					return zero && i == 0
				case ">=":
					return (one || zero) && i == 1 // len >= 0 never fails: that edge is infeasible
				case "<":
					return one && i == 0
				}
				return false
			}
			for changed, it := true, 0; changed && it < 6*len(g.Blocks)+16; it++ {
				changed = false
				for _, b := range g.Blocks {
					if in[b.Index] == 0 {
						continue
					}
					o := flow(b, in[b.Index])
					for i, sc := range b.Succs {
						v := o
						if emptyEdge(b, i) {
							v = 1
						}
						if v > in[sc.Index] {
							in[sc.Index] = v
							changed = true
						}
					}
				}
			}
			nSubmit := 0
			var leak ast.Node
			for _, b := range g.Blocks {
				if in[b.Index] == 0 {
					continue
				}
				st := in[b.Index]
				for _, nd := range b.Nodes {
					if submits(nd) {
						nSubmit++
						st = 1
					}
					if writes(nd) {
						st = 2
					}
					if rs, ok := nd.(*ast.ReturnStmt); ok && st == 2 && leak == nil {
						leak = rs
					}
				}
				if len(b.Succs) == 0 && st == 2 && leak == nil && len(b.Nodes) > 0 {
					leak = b.Nodes[len(b.Nodes)-1]
				}
			}
			switch {
			case nSubmit == 0:
				c.bad(key, so.Pos(), fmt.Sprintf("the commands collected in %s are never handed to the store: the sweep's writes do not happen", so.Name()))
			case leak != nil:
				o := c.bad(key, leak.Pos(), fmt.Sprintf("the coroutine can finish here with commands collected in %s that were not submitted to the store", so.Name()))
				o.Path = []string{"entry: " + name, "slice: " + c.P.pos(so.Pos()), "exit with pending commands: " + c.P.pos(leak.Pos())}
			default:
				c.ok(key, so.Pos(), "every path from a collected command to the end passes through the store submission (or the empty-slice branch)")
			}
		}
	}
	c.count("command_slices", n)
	c.floor("coroutines that collect commands in a slice", n, 2)
}

// ruleScheduleMarkerTags (C10): the promise a schedule fires carries the configured tags plus the
// two marker tags: resonate:schedule = the schedule's id and resonate:invocation = "true". On every
// path to the CreatePromise command of SchedulePromises both entries have been written into the
// very map the command takes its Tags from (must-facts over the CFG).
func ruleScheduleMarkerTags(c *Ctx) {
	m := c.coroModel()
	if m.Err != nil {
		c.und("model", 0, m.Err.Error())
		return
	}
	cf := m.Funcs["SchedulePromises"]
	if cf == nil || cf.Body == nil {
		c.und("schedule-marker-tags", 0, "SchedulePromises not found")
		return
	}
	info := m.Pk.TypesInfo
	var lit *ast.CompositeLit
	ast.Inspect(cf.Body, func(n ast.Node) bool {
		if cl, ok := n.(*ast.CompositeLit); ok && isNamed(info.Types[cl].Type, pkgTAio, "CreatePromiseCommand") {
			lit = cl
		}
		return true
	})
	if lit == nil {
		c.und("schedule-marker-tags", cf.Decl.Pos(), "no CreatePromiseCommand literal in SchedulePromises")
		return
	}
	var tagsExpr ast.Expr
	for _, el := range lit.Elts {
		if kv, ok := el.(*ast.KeyValueExpr); ok && exprString(kv.Key) == "Tags" {
			tagsExpr = kv.Value
		}
	}
	if tagsExpr == nil {
		c.bad("schedule-marker-tags", lit.Pos(), "the scheduled promise is created without tags")
		return
	}
	te := exprString(tagsExpr)
	g := buildCFG(m.Pk, cf.Body)
	gen := func(n ast.Node) []string {
		as, ok := n.(*ast.AssignStmt)
		if !ok || len(as.Lhs) != 1 || len(as.Rhs) != 1 {
			return nil
		}
		ix, ok := ast.Unparen(as.Lhs[0]).(*ast.IndexExpr)
		if !ok || exprString(ix.X) != te {
			return nil
		}
		k, ok := constString(info, ix.Index)
		if !ok {
			return nil
		}
		return []string{"tag:" + k + "=" + cf.Env.prov(as.Rhs[0])}
	}
	facts := mustFacts(g, gen, nil, func(n ast.Node) bool {
		found := false
		ast.Inspect(n, func(x ast.Node) bool {
			if x == ast.Node(lit) {
				found = true
			}
			return true
		})
		return found
	})
	ok := len(facts) > 0
	var got []string
	for _, f := range facts {
		got = f.list()
		if !f["tag:resonate:schedule=rec.Id"] || !f[`tag:resonate:invocation="true"`] {
			ok = false
		}
	}
	o := c.check(ok, "schedule-marker-tags", lit.Pos(), "the fired promise carries resonate:schedule = schedule id and resonate:invocation = \"true\"", "the promise a schedule fires does not always carry the marker tags resonate:schedule = <schedule id> and resonate:invocation = \"true\" in the map its Tags are taken from")
	if !ok {
		o.Found = fmt.Sprint(got)
	}
}
