package main

// Decision tables (R7), written from the property statements. Each spec is a function of the
// canonical atoms of the decision; it is evaluated on every feasible path of the function it
// describes. Paths that end in an error return (store failure) are outside the tables.

import (
	"go/ast"
	"go/types"
	"strings"

	"golang.org/x/tools/go/packages"
)

var stdRename = [][2]string{
	{`await\(Store:[A-Za-z+|*]+\)\.Store\.Results\[0\]\.Read[A-Za-z]+\.RowsReturned`, "read.rows"},
	{`await\(Store:[A-Za-z+|*]+\)\.Store\.Results\[0\]\.[A-Za-z]+\.RowsAffected`, "write.rows"},
	{`phi\(await\(createPromise\)[^ ]*\)`, "write.rows"},
	{`^await\(completePromise\)$`, "forced.won"},
}

// paths ending in an error return or in a panic (falls-off-end) are outside the tables
func notError(o string) bool { return !strings.HasPrefix(o, "error") && o != "falls-off-end" }

// won: the guarded write affected its row
func rowsWon(v *valuation) bool { return !v.B("(write.rows == 0)") }

var tblCreate = &tableSpec{
	Name: "create-promise", Pkg: pkgCoroutines, Func: "createPromiseAndTask", Rename: stdRename, Relevant: notError, MinPaths: 8,
	Why: "C03: a repeat with the creation key the promise carries is OK unless strict and the promise is no longer pending (an overdue promise is timed out first); any other repeat is AlreadyExists; a fresh create is Created; a lost insert or lost forced time-out retries",
	Spec: func(v *valuation) string {
		if v.B("(read.rows == 0)") {
			if v.B("(write.rows == 0)") {
				return "retry"
			}
			return "status:StatusCreated"
		}
		pending := v.Eq("rec.State", "Pending")
		if pending && v.LE("rec.Timeout", "now") {
			if !v.B("forced.won") {
				return "retry"
			}
			pending = false // it has just been timed out
		}
		if v.B("match(rec.IdempotencyKeyForCreate,req.IdempotencyKey)") && !(v.B("req.Strict") && !pending) {
			return "status:StatusOK"
		}
		return "status:StatusPromiseAlreadyExists"
	},
}

var tblComplete = &tableSpec{
	Name: "complete-promise", Pkg: pkgCoroutines, Func: "CompletePromise", Rename: stdRename, Relevant: notError, MinPaths: 8,
	Why: "C03/C04: pending and before the deadline ⇒ the caller's completion (Created); pending at/after the deadline ⇒ forced time-out, then AlreadyResolved if it resolved, AlreadyTimedout if strict, else OK; completed ⇒ OK iff (key matches and not strict-mismatch) or (non-strict and timed out), else the Already* of the stored state; unknown id ⇒ NotFound",
	Spec: func(v *valuation) string {
		if !v.B("(read.rows == 1)") {
			return "status:StatusPromiseNotFound"
		}
		if v.Eq("rec.State", "Pending") {
			if !v.LE("rec.Timeout", "now") {
				if !v.B("forced.won") {
					return "retry"
				}
				return "status:StatusCreated"
			}
			if !v.B("forced.won") {
				return "retry"
			}
			if v.Eq("written.State", "Resolved") {
				return "status:StatusPromiseAlreadyResolved"
			}
			if v.B("req.Strict") {
				return "status:StatusPromiseAlreadyTimedout"
			}
			return "status:StatusOK"
		}
		strict := v.B("req.Strict")
		if !strict && v.Eq("rec.State", "Timedout") {
			return "status:StatusOK"
		}
		if v.B("match(rec.IdempotencyKeyForComplete,req.IdempotencyKey)") && !(strict && !v.B("(rec.State == req.State)")) {
			return "status:StatusOK"
		}
		return "status:alreadyCompletedStatus(rec.State)"
	},
}

var tblRead = &tableSpec{
	Name: "read-promise", Pkg: pkgCoroutines, Func: "ReadPromise", Rename: stdRename, Relevant: notError, MinPaths: 4,
	Why: "C04: an overdue pending promise is timed out before it is reported; a lost forced time-out retries",
	Spec: func(v *valuation) string {
		if !v.B("(read.rows == 1)") {
			return "status:StatusPromiseNotFound"
		}
		if v.Eq("rec.State", "Pending") && v.LE("rec.Timeout", "now") && !v.B("forced.won") {
			return "retry"
		}
		return "status:StatusOK"
	},
}

var tblClaim = &tableSpec{
	Name: "claim-task", Pkg: pkgCoroutines, Func: "ClaimTask", Rename: stdRename, Relevant: notError, MinPaths: 6,
	Why: "C07: a claim succeeds only for an unclaimed, unfinished task and only with the task's current counter; a lost compare-and-set retries",
	Spec: func(v *valuation) string {
		if !v.B("(read.rows == 1)") {
			return "status:StatusTaskNotFound"
		}
		if v.Eq("rec.State", "Claimed") {
			return "status:StatusTaskAlreadyClaimed"
		}
		if v.Eq("rec.State", "Completed") || v.Eq("rec.State", "Timedout") {
			return "status:StatusTaskAlreadyCompleted"
		}
		if !v.B("(rec.Counter == req.Counter)") {
			return "status:StatusTaskInvalidCounter"
		}
		if !v.B("(write.rows == 1)") {
			return "retry"
		}
		return "status:StatusCreated"
	},
}

var tblCompleteTask = &tableSpec{
	Name: "complete-task", Pkg: pkgCoroutines, Func: "CompleteTask", Rename: stdRename, Relevant: notError, MinPaths: 6,
	Why: "C07: completing an already finished task is merely acknowledged; an unclaimed task is InvalidState; a stale counter is rejected; a lost compare-and-set retries",
	Spec: func(v *valuation) string {
		if !v.B("(read.rows == 1)") {
			return "status:StatusTaskNotFound"
		}
		if v.Eq("rec.State", "Completed") || v.Eq("rec.State", "Timedout") {
			return "status:StatusOK"
		}
		if v.Eq("rec.State", "Init") || v.Eq("rec.State", "Enqueued") {
			return "status:StatusTaskInvalidState"
		}
		if !v.B("(rec.Counter == req.Counter)") {
			return "status:StatusTaskInvalidCounter"
		}
		if !v.B("(write.rows == 1)") {
			return "retry"
		}
		return "status:StatusCreated"
	},
}

var tblCreateSchedule = &tableSpec{
	Name: "create-schedule", Pkg: pkgCoroutines, Func: "CreateSchedule", Rename: stdRename, Relevant: notError, MinPaths: 4,
	Why: "C10: re-creating a schedule id is idempotent by key; a lost insert retries",
	Spec: func(v *valuation) string {
		if v.B("(read.rows == 0)") {
			if !v.B("(write.rows == 1)") {
				return "retry"
			}
			return "status:StatusCreated"
		}
		if v.B("match(rec.IdempotencyKey,req.IdempotencyKey)") {
			return "status:StatusOK"
		}
		return "status:StatusScheduleAlreadyExists"
	},
}

func rowTable(name, fn, lost, won, why string) *tableSpec {
	return &tableSpec{Name: name, Pkg: pkgCoroutines, Func: fn, Rename: stdRename, Relevant: notError, MinPaths: 2, Why: why,
		Spec: func(v *valuation) string {
			if rowsWon(v) {
				return "status:" + won
			}
			return "status:" + lost
		}}
}

var tblAcquire = rowTable("acquire-lock", "AcquireLock", "StatusLockAlreadyAcquired", "StatusCreated", "C09: 0 rows ⇒ the lock is held by another execution; 1 row ⇒ acquired")
var tblRelease = rowTable("release-lock", "ReleaseLock", "StatusLockNotFound", "StatusNoContent", "C09: 0 rows ⇒ nothing released; 1 row ⇒ released")
var tblDeleteSchedule = rowTable("delete-schedule", "DeleteSchedule", "StatusScheduleNotFound", "StatusNoContent", "C10: delete by id")

var tblReadSchedule = &tableSpec{Name: "read-schedule", Pkg: pkgCoroutines, Func: "ReadSchedule", Rename: stdRename, Relevant: notError, MinPaths: 2,
	Why: "C10: no row ⇒ not found; a row ⇒ OK",
	Spec: func(v *valuation) string {
		if v.B("(read.rows == 0)") {
			return "status:StatusScheduleNotFound"
		}
		return "status:StatusOK"
	}}

// operations whose only non-error answer is OK
func constTable(name, fn string) *tableSpec {
	return &tableSpec{Name: name, Pkg: pkgCoroutines, Func: fn, Rename: stdRename, Relevant: notError, MinPaths: 1,
		Why:  "C15: the operation has one non-error outcome, OK",
		Spec: func(v *valuation) string { return "status:StatusOK" }}
}

var tblHeartbeatLocks = constTable("heartbeat-locks", "HeartbeatLocks")
var tblHeartbeatTasks = constTable("heartbeat-tasks", "HeartbeatTasks")
var tblSearchSchedules = constTable("search-schedules", "SearchSchedules")

func registrationTable(name, fn string, selfCheck bool) *tableSpec {
	return &tableSpec{Name: name, Pkg: pkgCoroutines, Func: fn, Rename: stdRename, Relevant: notError, MinPaths: 4,
		Why: "C05: a registration on a pending promise is Created when the guarded insert affected a row, otherwise OK (already registered / already completed); unknown promise ⇒ NotFound",
		Spec: func(v *valuation) string {
			if selfCheck && v.B("(req.PromiseId == req.RootPromiseId)") {
				return "status:StatusCallbackInvalidPromise"
			}
			if !v.B("(read.rows == 1)") {
				return "status:StatusPromiseNotFound"
			}
			if v.Eq("rec.State", "Pending") && v.B("(write.rows == 1)") {
				return "status:StatusCreated"
			}
			return "status:StatusOK"
		}}
}

var tblCreateCallback = registrationTable("create-callback", "CreateCallback", true)
var tblCreateSubscription = registrationTable("create-subscription", "CreateSubscription", false)

var tblTimedoutState = &tableSpec{
	Name: "timedout-state", Pkg: pkgPromise, Func: "GetTimedoutState", Outcome: returnOutcome, MinPaths: 2,
	Why: `C04: resolved iff the tag resonate:timeout is "true", else timed out`,
	Spec: func(v *valuation) string {
		if v.B(`(param:p.Tags["resonate:timeout"] == "true")`) {
			return "Resolved"
		}
		return "Timedout"
	},
}

// senderOutcome: a path through SenderWorker.Process either completes the hand-off with an error
// (it assigns the entry's Error) or hands the message to a plugin.
func senderOutcome(pk *packages.Package, env *provEnv, self types.Object, p *codePath) string {
	out := "handed-to-plugin"
	for _, nd := range p.Nodes {
		if as, ok := nd.(*ast.AssignStmt); ok {
			for _, l := range as.Lhs {
				if se, ok := ast.Unparen(l).(*ast.SelectorExpr); ok && se.Sel.Name == "Error" {
					out = "error-completion"
				}
			}
		}
	}
	return out
}

var tblSenderProcess = &tableSpec{
	Name: "sender-process", Pkg: pkgSender, Recv: "SenderWorker", Func: "Process", Outcome: senderOutcome, MinPaths: 8,
	Rename: [][2]string{
		{`util\.UnmarshalChain\([^()]*\)`, "decode"},
		{`param:w\.plugins\[[^\]]*\]`, "plugin"},
		{`^Plugin\.Enqueue\(.*\)$`, "accepted"},
		// the resolved receiver: the variable, or whatever helper was handed the two decoded forms
		{`^\((?:\w+\.)?\w+\(var:logicalRecv,var:physicalRecv\) == nil\)$`, "(var:recv == nil)"},
		// the decoding and resolution may live in a method of the worker that returns (receiver, error):
		// its decisions are judged by the sender-resolve table, here only its verdict counts
		{`^\(err\(SenderWorker\.\w+\([^()]*\)\) == nil\)$`, "(resolved == nil)"},
		// whatever produced the body (inline json.Marshal, or a helper of any name): its error
		{`^\((?:var:err|err\(.*\)) == nil\)$`, "(encode == nil)"},
	},
	Why: "C19: an undecodable or null receiver, an unresolvable address, a receiver type without a plugin, an unencodable body and a full plugin queue each complete the hand-off with an error (retried); only otherwise is the message handed to the plugin",
	Spec: func(v *valuation) string {
		if r, viaHelper := v.facts["(resolved == nil)"]; viaHelper {
			v.used["(resolved == nil)"] = true
			if !r {
				return "error-completion"
			}
		} else {
			if !v.B("(decode == nil)") {
				return "error-completion"
			}
			if v.B("(var:logicalRecv == nil)") && v.B("(var:physicalRecv == nil)") {
				return "error-completion"
			}
			if v.B("(var:recv == nil)") {
				return "error-completion"
			}
		}
		if v.B("(plugin == nil)") {
			return "error-completion"
		}
		if !v.B("(encode == nil)") || !v.B("accepted") {
			return "error-completion"
		}
		return "handed-to-plugin"
	}}

// tblSenderResolve: the same decisions when they live in a method of the worker that decodes the
// stored receiver and returns (receiver, error) (Func is filled in by ruleSenderTables).
var tblSenderResolve = &tableSpec{
	Name: "sender-resolve", Pkg: pkgSender, Recv: "SenderWorker", MinPaths: 4,
	Rename: [][2]string{
		{`util\.UnmarshalChain\([^()]*\)`, "decode"},
		{`^\((?:\w+\.)?\w+\(var:logicalRecv,var:physicalRecv\) == nil\)$`, "(var:recv == nil)"},
	},
	Why: "C19: an undecodable or null receiver and an unresolvable address are errors; only otherwise is a receiver returned",
	Outcome: func(pk *packages.Package, env *provEnv, self types.Object, p *codePath) string {
		if p.Ret == nil || len(p.Ret.Results) != 2 {
			return "?"
		}
		if exprString(p.Ret.Results[1]) == "nil" && exprString(p.Ret.Results[0]) != "nil" {
			return "receiver"
		}
		if exprString(p.Ret.Results[1]) != "nil" && exprString(p.Ret.Results[0]) == "nil" {
			return "error"
		}
		return "?"
	},
	Spec: func(v *valuation) string {
		if !v.B("(decode == nil)") {
			return "error"
		}
		if v.B("(var:logicalRecv == nil)") && v.B("(var:physicalRecv == nil)") {
			return "error"
		}
		if v.B("(var:recv == nil)") {
			return "error"
		}
		return "receiver"
	}}

// senderResolveFunc: the function of the sender package that decodes the stored receiver (the
// UnmarshalChain call): Process itself, or a method it was extracted into.
func senderResolveFunc(p *Program) *ast.FuncDecl {
	pk := p.Pkg(pkgSender)
	if pk == nil {
		return nil
	}
	for _, fd := range allFuncDecls(pk) {
		if fd.Body == nil || isTestFile(p, fd.Pos()) {
			continue
		}
		for _, call := range callsIn(fd.Body) {
			if fn, ok := calleeOf(pk.TypesInfo, call).(*types.Func); ok && fn.Name() == "UnmarshalChain" && fn.Pkg() != nil && fn.Pkg().Path() == pkgUtil {
				return fd
			}
		}
	}
	return nil
}

// ruleSenderTables: the Process table, plus the resolve table when the resolution was extracted.
func ruleSenderTables(c *Ctx) {
	ruleTables(tblSenderProcess)(c)
	rfd := senderResolveFunc(c.P)
	if rfd == nil {
		c.und("table/sender-resolve", 0, "the function that decodes the stored receiver was not found")
		return
	}
	if funcName(rfd) == "SenderWorker.Process" {
		return
	}
	ts := *tblSenderResolve
	ts.Recv, ts.Func = "", rfd.Name.Name
	if rfd.Recv != nil {
		ts.Recv = "SenderWorker"
	}
	ruleTables(&ts)(c)
}

// tblApiProcess (C12/C13/C15): what the shared API helper makes of the kernel's completion entry:
// an entry with an error is a server error (its Completion is nil and must not be touched), an
// unsuccessful status a request error, anything else the completion itself.
var tblApiProcess = &tableSpec{
	Name: "api-process", Pkg: pkgSubApi, Recv: "API", Func: "Process", MinPaths: 3,
	Rename: [][2]string{
		{`^\(.*DequeueCQE\(.*\)\.Error == nil\)$`, "(cqe.Error == nil)"},
		{`^.*IsSuccessful\(\)$`, "successful"},
	},
	Why: "C15: a completion entry carrying an error is rendered as a server error (its completion is nil), an unsuccessful status as a request error, otherwise the completion is handed to the front end",
	Outcome: func(pk *packages.Package, env *provEnv, self types.Object, p *codePath) string {
		if p.Ret == nil || len(p.Ret.Results) != 2 {
			return "?"
		}
		if call, ok := ast.Unparen(p.Ret.Results[1]).(*ast.CallExpr); ok {
			return "error:" + calleeNameOf(pk.TypesInfo, call)
		}
		if exprString(p.Ret.Results[1]) == "nil" && exprString(p.Ret.Results[0]) != "nil" {
			return "completion"
		}
		return "?"
	},
	Spec: func(v *valuation) string {
		if !v.B("(cqe.Error == nil)") {
			return "error:api.ServerError"
		}
		if !v.B("successful") {
			return "error:api.RequestError"
		}
		return "completion"
	}}
