package main

import (
	"fmt"
	"go/ast"
	"go/constant"
	"go/token"
	"go/types"
	"sort"
	"strings"
)

// switchMap reads `switch <tag> { case A, B: return X … }` into {A: X, B: X}; the default arm is
// reported under "default".
func switchMap(info *types.Info, body *ast.BlockStmt) (map[string]string, bool) {
	var sw *ast.SwitchStmt
	for _, st := range body.List {
		if s, ok := st.(*ast.SwitchStmt); ok {
			sw = s
		}
	}
	if sw == nil {
		return nil, false
	}
	name := func(e ast.Expr) string {
		switch x := ast.Unparen(e).(type) {
		case *ast.SelectorExpr:
			return x.Sel.Name
		case *ast.Ident:
			return x.Name
		case *ast.BasicLit:
			return x.Value
		}
		return exprString(e)
	}
	out := map[string]string{}
	for _, st := range sw.Body.List {
		cc := st.(*ast.CaseClause)
		val := "?"
		for _, s := range cc.Body {
			switch y := s.(type) {
			case *ast.ReturnStmt:
				if len(y.Results) >= 1 {
					val = name(y.Results[0])
				}
			case *ast.AssignStmt:
				if len(y.Rhs) == 1 {
					val = exprString(y.Rhs[0])
				}
			case *ast.ExprStmt:
				if call, ok := y.X.(*ast.CallExpr); ok && exprString(call.Fun) == "panic" {
					val = "panic"
				}
			}
		}
		if cc.List == nil {
			out["default"] = val
		}
		for _, e := range cc.List {
			out[name(e)] = val
		}
	}
	return out, true
}

// ruleOutcomeMaps (C03/C14/C15): the small mappings the decisions above end in.
//   - alreadyCompletedStatus: a completed promise's state maps to the Already* status of THAT state;
//   - api.SearchPromises: the state word selects exactly the states it names ("" all five, pending,
//     resolved, rejected = rejected ∪ timed out ∪ canceled);
//   - grpc server.code: every kernel status maps to the gRPC code of its HTTP class (the HTTP front
//     end answers status/100): 2xx OK, 400 InvalidArgument, 403 PermissionDenied, 404 NotFound,
//     409 AlreadyExists, 500 Internal, 503 Unavailable;
//   - Resolve/Reject/CancelPromise submit the state their name says; comparisons of a reply's
//     status with a constant use a constant the kind's coroutine can produce.
func ruleOutcomeMaps(c *Ctx) {
	// alreadyCompletedStatus
	if pk := c.P.Pkg(pkgCoroutines); pk != nil {
		if fd := funcDecl(pk, "", "alreadyCompletedStatus"); fd != nil {
			got, ok := switchMap(pk.TypesInfo, fd.Body)
			want := map[string]string{"Resolved": "StatusPromiseAlreadyResolved", "Rejected": "StatusPromiseAlreadyRejected", "Canceled": "StatusPromiseAlreadyCanceled", "Timedout": "StatusPromiseAlreadyTimedout"}
			good := ok
			for k, v := range want {
				if got[k] != v {
					good = false
				}
			}
			if _, hasPending := got["Pending"]; hasPending {
				good = false
			}
			o := c.check(good, "outcome-map/already-completed-status", fd.Pos(), "state ↦ the Already* status of that state", "alreadyCompletedStatus no longer maps each completed state to its own Already* status: a refused completion reports the wrong final state")
			if !good {
				o.Found = fmt.Sprint(got)
			}
		} else {
			c.und("outcome-map/already-completed-status", 0, "alreadyCompletedStatus not found (anchor)")
		}
	}
	// search state words
	if pk := c.P.Pkg(pkgSubApi); pk != nil {
		info := pk.TypesInfo
		if fd := funcDecl(pk, "API", "SearchPromises"); fd != nil {
			got := map[string]string{}
			// the switch over the state word lives in SearchPromises or in a helper it calls
			bodies := []ast.Node{fd.Body}
			for _, call := range callsInDeep(fd.Body) {
				if fn, ok := calleeOf(info, call).(*types.Func); ok && fn.Pkg() == pk.Types {
					if hd := funcDeclOf(pk, fn); hd != nil && hd.Body != nil && hd != fd {
						bodies = append(bodies, hd.Body)
					}
				}
			}
			for _, bd := range bodies {
				ast.Inspect(bd, func(n ast.Node) bool {
					sw, ok := n.(*ast.SwitchStmt)
					if !ok {
						return true
					}
					for _, st := range sw.Body.List {
						cc := st.(*ast.CaseClause)
						var states []string
						ast.Inspect(cc, func(x ast.Node) bool {
							if se, ok := x.(*ast.SelectorExpr); ok {
								if cn, ok := info.Uses[se.Sel].(*types.Const); ok && isNamed(cn.Type(), pkgPromise, "State") {
									states = append(states, cn.Name())
								}
							}
							return true
						})
						sort.Strings(states)
						for _, e := range cc.List {
							if s, ok := constString(info, e); ok {
								got[s] = strings.Join(states, ",")
							}
						}
					}
					return false
				})
			}
			want := map[string]string{"": "Canceled,Pending,Rejected,Resolved,Timedout", "pending": "Pending", "resolved": "Resolved", "rejected": "Canceled,Rejected,Timedout"}
			good := len(got) == len(want)
			for k, v := range want {
				if got[k] != v {
					good = false
				}
			}
			o := c.check(good, "outcome-map/search-state-words", fd.Pos(), "the state word selects exactly the states it names", "api.SearchPromises no longer translates the state filter into exactly the states it names: a search returns promises that do not match (or misses ones that do)")
			if !good {
				o.Found = fmt.Sprint(got)
			}
		}
	}
	// grpc code by HTTP class
	if pk := c.P.Pkg(pkgGrpc); pk != nil {
		info := pk.TypesInfo
		if fd := funcDecl(pk, "server", "code"); fd != nil {
			got, ok := switchMap(info, fd.Body)
			classCode := map[int64]string{200: "OK", 201: "OK", 204: "OK", 400: "InvalidArgument", 403: "PermissionDenied", 404: "NotFound", 409: "AlreadyExists", 500: "Internal", 503: "Unavailable"}
			var bad []string
			n := 0
			for name, v := range enumConsts(c.P, pkgTApi, "StatusCode") {
				iv, _ := constant.Int64Val(v)
				n++
				want := classCode[iv/100]
				if g := got[name]; !ok || g != want {
					bad = append(bad, fmt.Sprintf("%s (%d) ↦ %s, HTTP class %d ⇒ %s", name, iv, got[name], iv/100, want))
				}
			}
			sort.Strings(bad)
			o := c.check(len(bad) == 0 && n >= 30, "outcome-map/grpc-code-by-class", fd.Pos(), "every status maps to the gRPC code of its HTTP class", "the gRPC front end renders some kernel statuses with a code of another class than the HTTP front end's status/100: "+strings.Join(bad, "; "))
			_ = o
		} else {
			c.und("outcome-map/grpc-code-by-class", 0, "grpc server.code not found (anchor)")
		}
		// handlers named after a state submit that state
		for _, t := range []struct{ fn, state string }{{"ResolvePromise", "Resolved"}, {"RejectPromise", "Rejected"}, {"CancelPromise", "Canceled"}} {
			fd := funcDecl(pk, "server", t.fn)
			if fd == nil {
				c.und("outcome-map/grpc-"+t.fn, 0, t.fn+" not found")
				continue
			}
			got := ""
			ast.Inspect(fd.Body, func(n ast.Node) bool {
				if kv, ok := n.(*ast.KeyValueExpr); ok && exprString(kv.Key) == "State" {
					if se, ok := ast.Unparen(kv.Value).(*ast.SelectorExpr); ok {
						got = se.Sel.Name
					}
				}
				return true
			})
			c.check(got == t.state, "outcome-map/grpc-"+t.fn, fd.Pos(), t.fn+" submits state "+t.state, "gRPC "+t.fn+" submits state "+got+" instead of "+t.state)
		}
	}
	// comparisons of a reply status with a constant the kind cannot produce
	m := c.coroModel()
	if m.Err == nil {
		n := 0
		for _, fe := range []struct{ proto, pkg string }{{"http", pkgHttp}, {"grpc", pkgGrpc}} {
			pk := c.P.Pkg(fe.pkg)
			if pk == nil {
				continue
			}
			info := pk.TypesInfo
			for _, fd := range allFuncDecls(pk) {
				if fd.Body == nil || isTestFile(c.P, fd.Pos()) {
					continue
				}
				occ := 0
				ast.Inspect(fd.Body, func(nd ast.Node) bool {
					be, ok := nd.(*ast.BinaryExpr)
					if !ok || (be.Op != token.EQL && be.Op != token.NEQ) {
						return true
					}
					lhs, isSel := ast.Unparen(be.X).(*ast.SelectorExpr)
					rhs, isSel2 := ast.Unparen(be.Y).(*ast.SelectorExpr)
					if !isSel || !isSel2 || lhs.Sel.Name != "Status" {
						return true
					}
					cn, ok := info.Uses[rhs.Sel].(*types.Const)
					if !ok || !isNamed(cn.Type(), pkgTApi, "StatusCode") {
						return true
					}
					// res.<Kind>.Status
					inner, ok := ast.Unparen(lhs.X).(*ast.SelectorExpr)
					if !ok {
						return true
					}
					kind := inner.Sel.Name
					produced := m.statusesOf(kind)
					if len(produced) == 0 {
						return true
					}
					n++
					occ++
					c.check(produced[cn.Name()], fmt.Sprintf("outcome-map/status-compare/%s.%s#%d", fe.proto, funcName(fd), occ), be.Pos(), kind+" can answer "+cn.Name(), fmt.Sprintf("%s %s compares the %s status with %s, which the %s coroutine never produces: the branch it guards is dead (a member of the reply is never sent) or always taken", fe.proto, funcName(fd), kind, cn.Name(), kind))
					return true
				})
			}
		}
		c.count("status_comparisons", n)
		c.floor("comparisons of a reply status with a constant", n, 12)
	}
}

// ruleSwappedArguments (C15/C18/C19/C20): two arguments of the same type passed in each other's
// place compile and often pass the tests. For every call of a function of this module: if argument i
// is named after parameter j and argument j after parameter i (and neither after its own), the
// arguments are swapped (id ↔ state of a search, data ↔ body of a hand-off, group ↔ id of a lookup).
func ruleSwappedArguments(c *Ctx) {
	n := 0
	for _, pk := range c.P.Roots {
		if strings.Contains(pk.PkgPath, "/test") || strings.HasSuffix(pk.PkgPath, "/dst") || pk.PkgPath == pkgPb || strings.HasPrefix(pk.PkgPath, modPath+"/pkg/client") {
			continue
		}
		info := pk.TypesInfo
		for _, fd := range allFuncDecls(pk) {
			if fd.Body == nil || isTestFile(c.P, fd.Pos()) {
				continue
			}
			occ := 0
			ast.Inspect(fd.Body, func(nd ast.Node) bool {
				call, ok := nd.(*ast.CallExpr)
				if !ok || len(call.Args) < 2 {
					return true
				}
				fn, ok := calleeOf(info, call).(*types.Func)
				if !ok || fn.Pkg() == nil || !strings.HasPrefix(fn.Pkg().Path(), modPath) {
					return true
				}
				sig := fn.Type().(*types.Signature)
				if sig.Variadic() || sig.Params().Len() != len(call.Args) {
					return true
				}
				names := make([]map[string]bool, len(call.Args))
				for i, a := range call.Args {
					names[i] = map[string]bool{}
					ast.Inspect(a, func(x ast.Node) bool {
						switch y := x.(type) {
						case *ast.Ident:
							names[i][strings.ToLower(y.Name)] = true
						case *ast.SelectorExpr:
							names[i][strings.ToLower(y.Sel.Name)] = true
						}
						return true
					})
				}
				// an argument `x.F` for a parameter named like another field `x.G` of the same type
				for i, a := range call.Args {
					se, ok := ast.Unparen(a).(*ast.SelectorExpr)
					if !ok {
						continue
					}
					sel := info.Selections[se]
					if sel == nil || sel.Kind() != types.FieldVal {
						continue
					}
					pi := sig.Params().At(i)
					ni := strings.ToLower(pi.Name())
					if ni == "" || ni == "_" || strings.Contains(strings.ToLower(se.Sel.Name), ni) {
						continue // named after the parameter (RequestId for id: a more specific name)
					}
					bt := sel.Recv()
					if p, ok := bt.Underlying().(*types.Pointer); ok {
						bt = p.Elem()
					}
					st, ok := bt.Underlying().(*types.Struct)
					if !ok {
						continue
					}
					for k := 0; k < st.NumFields(); k++ {
						f := st.Field(k)
						if strings.ToLower(f.Name()) == ni && types.Identical(f.Type(), sel.Type()) && types.Identical(f.Type(), pi.Type()) {
							occ++
							c.bad(fmt.Sprintf("swapped-arguments/%s.%s#%d", pk.Name, funcName(fd), occ), call.Pos(), fmt.Sprintf("%s is called with %s for its parameter %s although %s.%s exists: the wrong member is passed", fn.Name(), exprString(a), pi.Name(), exprString(se.X), f.Name()))
						}
					}
				}
				for i := 0; i < len(call.Args); i++ {
					for j := i + 1; j < len(call.Args); j++ {
						pi, pj := sig.Params().At(i), sig.Params().At(j)
						if pi.Name() == "" || pj.Name() == "" || pi.Name() == "_" || pj.Name() == "_" || !types.Identical(pi.Type(), pj.Type()) {
							continue
						}
						ni, nj := strings.ToLower(pi.Name()), strings.ToLower(pj.Name())
						if ni == nj {
							continue
						}
						n++
						if names[i][nj] && names[j][ni] && !names[i][ni] && !names[j][nj] {
							occ++
							c.bad(fmt.Sprintf("swapped-arguments/%s.%s#%d", pk.Name, funcName(fd), occ), call.Pos(), fmt.Sprintf("%s is called with %s where parameter %s is expected and %s where %s is: the two arguments are swapped", fn.Name(), exprString(call.Args[i]), pi.Name(), exprString(call.Args[j]), pj.Name()))
						}
					}
				}
				return true
			})
		}
	}
	c.count("same_typed_argument_pairs", n)
	c.floor("same-typed argument pairs inspected", n, 15)
}
