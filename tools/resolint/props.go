package main

func allKinds(m *sqlModel) []string { return m.Order }

func kindsOf(tables ...string) func(m *sqlModel) []string {
	return func(m *sqlModel) []string { return m.kindsFor(tables...) }
}

func kindList(ks ...string) func(m *sqlModel) []string {
	return func(m *sqlModel) []string { return ks }
}

var storePkgs = []string{pkgSqlite, pkgPostgres, pkgStore}

func init() {
	regProp("C16",
		[]string{
			"every one of the 26 DML statements of both backends has exactly the guard, written columns, conflict clause, ordering and limit of spec/sql.spec, with every placeholder bound to the command field the spec names (R1/R2)",
			"dispatch: every StoreKind has an arm; transactions run in submission order, commands in list order, results[i][j] ↔ transactions[i].Commands[j]; the first failing command aborts the batch (M-DISPATCH)",
			"every result's row count / records come from the command's own statement (provenance)",
			"one SQL transaction per Execute, success returned only after Commit succeeded, rollback on every error path; store.Process maps one error to every SQE and results[i] to SQE i",
			"all SQL text is constant, every statement of a batch runs on the batch's *sql.Tx, only the store packages use database/sql, no database error is dropped (R3)",
		},
		[]string{"isolation/visibility to other connections (engine semantics)", "behaviour on every reachable database state (the guards are checked, not executed)"}).
		rule("R1R2-sql-spec", ruleSQLSpec(allKinds)).
		rule("M-DISPATCH", ruleDispatch).
		rule("result-provenance", ruleResults(allKinds)).
		rule("commit-before-ack", ruleExecute).
		rule("store-process", ruleStoreProcess).
		rule("R3-sql-origin", ruleSQLOrigin).
		rule("R3-error-discipline", ruleErrDiscipline(storePkgs...))

	regProp("C17",
		[]string{
			"for each of the 27 command kinds the Postgres backend has the same dispatch arm, the same statement after normalisation (dialect table: placeholder style, casts, tag filter, GROUP BY vs DISTINCT ON, qualified own-table column, column types), the same operand binding, the same Scan targets and the same result construction as the SQLite backend (R4)",
			"both schemas have the same tables, columns, defaults, uniqueness and auto-increment keys",
			"both backends satisfy spec/sql.spec independently (R1/R2), so they agree with the statement of each guarantee and not merely with each other",
		},
		[]string{"engine semantics that differ under identical text (LIKE case sensitivity, JSON path syntax: finding F15)", "driver behaviour (lib/pq vs go-sqlite3)"}).
		rule("R4-backend-siblings", ruleSiblings).
		rule("R1R2-sql-spec", ruleSQLSpec(allKinds)).
		rule("M-DISPATCH", ruleDispatch).
		rule("commit-before-ack", ruleExecute)
}
