package main

// AST normalisations applied once after loading, before any rule runs. Each rewrites an idiom into
// the equivalent form the rules are written for; each is exact (no approximation).
//
// Non-blocking send wrappers. A function whose whole body is
//
//	select { case ch <- v: return true; default: return false }
//
// over its two parameters is a non-blocking send that reports whether the value was taken. Its call
// sites in statement position are rewritten back into the select they stand for:
//
//	if trySend(C, V) { A } else { B }   ⇒  select { case C <- V: A; default: B }
//	if !trySend(C, V) { B }             ⇒  select { case C <- V: ; default: B }
//	return trySend(C, V)                ⇒  select { case C <- V: return true; default: return false }
//	trySend(C, V)                       ⇒  select { case C <- V: ; default: }
//
// so that the channel rules (who sends on which channel, delivered ⇔ accepted, exactly one Done per
// path) see the send where it happens.

import (
	"go/ast"
	"go/token"
	"go/types"

	"golang.org/x/tools/go/packages"
)

func normalizeProgram(p *Program) {
	for _, pk := range p.Roots {
		inlineSendWrappers(pk)
	}
}

func isSendWrapper(info *types.Info, fd *ast.FuncDecl) bool {
	if fd.Body == nil || len(fd.Body.List) != 1 || fd.Type.Params == nil || fd.Type.Results == nil || len(fd.Type.Results.List) != 1 {
		return false
	}
	var params []types.Object
	for _, f := range fd.Type.Params.List {
		for _, nm := range f.Names {
			params = append(params, info.Defs[nm])
		}
	}
	if len(params) != 2 {
		return false
	}
	sel, ok := fd.Body.List[0].(*ast.SelectStmt)
	if !ok || len(sel.Body.List) != 2 {
		return false
	}
	sendOK, defOK := false, false
	for _, st := range sel.Body.List {
		cc := st.(*ast.CommClause)
		if len(cc.Body) != 1 {
			return false
		}
		rs, ok := cc.Body[0].(*ast.ReturnStmt)
		if !ok || len(rs.Results) != 1 {
			return false
		}
		val := exprString(rs.Results[0])
		if cc.Comm == nil {
			defOK = val == "false"
			continue
		}
		ss, ok := cc.Comm.(*ast.SendStmt)
		if !ok {
			return false
		}
		ch, isCh := ast.Unparen(ss.Chan).(*ast.Ident)
		v, isV := ast.Unparen(ss.Value).(*ast.Ident)
		if !isCh || !isV || info.Uses[ch] != params[0] || info.Uses[v] != params[1] {
			return false
		}
		sendOK = val == "true"
	}
	return sendOK && defOK
}

func inlineSendWrappers(pk *packages.Package) {
	info := pk.TypesInfo
	wrappers := map[types.Object]bool{}
	for _, f := range pk.Syntax {
		for _, d := range f.Decls {
			if fd, ok := d.(*ast.FuncDecl); ok && isSendWrapper(info, fd) {
				wrappers[info.Defs[fd.Name]] = true
			}
		}
	}
	if len(wrappers) == 0 {
		return
	}
	wrapperCall := func(e ast.Expr) (*ast.CallExpr, bool) {
		neg := false
		e = ast.Unparen(e)
		if u, ok := e.(*ast.UnaryExpr); ok && u.Op == token.NOT {
			neg = true
			e = ast.Unparen(u.X)
		}
		call, ok := e.(*ast.CallExpr)
		if !ok || len(call.Args) != 2 {
			return nil, false
		}
		obj := calleeOf(info, call)
		if fn, ok := obj.(*types.Func); ok && fn.Origin() != nil {
			obj = fn.Origin()
		}
		if !wrappers[obj] {
			return nil, false
		}
		return call, neg
	}
	mkSelect := func(pos token.Pos, call *ast.CallExpr, taken, refused []ast.Stmt) ast.Stmt {
		return &ast.SelectStmt{Select: pos, Body: &ast.BlockStmt{Lbrace: pos, List: []ast.Stmt{
			&ast.CommClause{Case: pos, Comm: &ast.SendStmt{Chan: call.Args[0], Arrow: call.Args[0].End(), Value: call.Args[1]}, Colon: call.End(), Body: taken},
			&ast.CommClause{Case: call.End(), Comm: nil, Colon: call.End(), Body: refused},
		}, Rbrace: call.End()}}
	}
	rewrite := func(st ast.Stmt) ast.Stmt {
		switch s := st.(type) {
		case *ast.IfStmt:
			if s.Init != nil {
				return st
			}
			call, neg := wrapperCall(s.Cond)
			if call == nil {
				return st
			}
			var then, els []ast.Stmt
			then = s.Body.List
			switch e := s.Else.(type) {
			case nil:
			case *ast.BlockStmt:
				els = e.List
			default:
				els = []ast.Stmt{e}
			}
			if neg {
				then, els = els, then
			}
			return mkSelect(s.Pos(), call, then, els)
		case *ast.ReturnStmt:
			if len(s.Results) != 1 {
				return st
			}
			call, neg := wrapperCall(s.Results[0])
			if call == nil {
				return st
			}
			t, f := "true", "false"
			if neg {
				t, f = f, t
			}
			return mkSelect(s.Pos(), call,
				[]ast.Stmt{&ast.ReturnStmt{Return: s.Pos(), Results: []ast.Expr{&ast.Ident{NamePos: s.Pos(), Name: t}}}},
				[]ast.Stmt{&ast.ReturnStmt{Return: s.Pos(), Results: []ast.Expr{&ast.Ident{NamePos: s.Pos(), Name: f}}}})
		case *ast.ExprStmt:
			call, _ := wrapperCall(s.X)
			if call == nil {
				return st
			}
			return mkSelect(s.Pos(), call, nil, nil)
		}
		return st
	}
	rewriteList := func(l []ast.Stmt) {
		for i, st := range l {
			l[i] = rewrite(st)
		}
	}
	for _, f := range pk.Syntax {
		for _, d := range f.Decls {
			fd, ok := d.(*ast.FuncDecl)
			if !ok || fd.Body == nil || wrappers[info.Defs[fd.Name]] {
				continue
			}
			ast.Inspect(fd.Body, func(n ast.Node) bool {
				switch x := n.(type) {
				case *ast.BlockStmt:
					rewriteList(x.List)
				case *ast.CaseClause:
					rewriteList(x.Body)
				case *ast.CommClause:
					rewriteList(x.Body)
				}
				return true
			})
		}
	}
}
