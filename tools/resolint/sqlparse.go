package main

// A parser for the subset of SQL that the two store backends use. A statement it cannot parse is
// reported by the caller as undecided — never skipped.

import (
	"fmt"
	"sort"
	"strconv"
	"strings"
)

type sqlTok struct {
	kind string // id, num, str, ph (placeholder), op, hole, eof
	text string
	n    int // placeholder ordinal (0-based) for ph
}

func sqlLex(src string) ([]sqlTok, error) {
	var toks []sqlTok
	q := 0 // running ordinal of '?' placeholders
	i := 0
	for i < len(src) {
		c := src[i]
		switch {
		case c == ' ' || c == '\t' || c == '\n' || c == '\r':
			i++
		case c == '-' && i+1 < len(src) && src[i+1] == '-':
			for i < len(src) && src[i] != '\n' {
				i++
			}
		case c == '\'':
			j := i + 1
			for j < len(src) && src[j] != '\'' {
				j++
			}
			if j >= len(src) {
				return nil, fmt.Errorf("unterminated string at %d", i)
			}
			toks = append(toks, sqlTok{kind: "str", text: src[i+1 : j]})
			i = j + 1
		case c == '?':
			toks = append(toks, sqlTok{kind: "ph", text: "?", n: q})
			q++
			i++
		case c == '$' && i+1 < len(src) && src[i+1] >= '0' && src[i+1] <= '9':
			j := i + 1
			for j < len(src) && src[j] >= '0' && src[j] <= '9' {
				j++
			}
			n, _ := strconv.Atoi(src[i+1 : j])
			toks = append(toks, sqlTok{kind: "ph", text: src[i:j], n: n - 1})
			i = j
		case c == ':' && i+1 < len(src) && src[i+1] == ':':
			toks = append(toks, sqlTok{kind: "op", text: "::"})
			i += 2
		case c == ':' && i+1 < len(src) && isIdStart(src[i+1]):
			// named operand of a spec statement  :Name.Path or :fn(Name)
			j := i + 1
			depth := 0
			for j < len(src) && (isIdPart(src[j]) || src[j] == '.' || src[j] == '(' || (src[j] == ')' && depth > 0)) {
				if src[j] == '(' {
					depth++
				}
				if src[j] == ')' {
					depth--
				}
				j++
			}
			toks = append(toks, sqlTok{kind: "ph", text: src[i:j], n: -1})
			i = j
		case c == '%' && i+1 < len(src) && src[i+1] == 's':
			toks = append(toks, sqlTok{kind: "hole", text: "%s", n: q})
			i += 2
		case isIdStart(c):
			j := i
			for j < len(src) && isIdPart(src[j]) {
				j++
			}
			toks = append(toks, sqlTok{kind: "id", text: strings.ToLower(src[i:j])})
			i = j
		case c >= '0' && c <= '9':
			j := i
			for j < len(src) && src[j] >= '0' && src[j] <= '9' {
				j++
			}
			toks = append(toks, sqlTok{kind: "num", text: src[i:j]})
			i = j
		default:
			two := ""
			if i+1 < len(src) {
				two = src[i : i+2]
			}
			switch two {
			case "<=", ">=", "!=", "<>", "@>", "||":
				toks = append(toks, sqlTok{kind: "op", text: two})
				i += 2
				continue
			}
			if strings.ContainsRune("(),.;=<>&|+-*", rune(c)) {
				toks = append(toks, sqlTok{kind: "op", text: string(c)})
				i++
				continue
			}
			return nil, fmt.Errorf("unexpected character %q at %d", c, i)
		}
	}
	toks = append(toks, sqlTok{kind: "eof"})
	return toks, nil
}

func isIdStart(c byte) bool {
	return c == '_' || (c >= 'a' && c <= 'z') || (c >= 'A' && c <= 'Z')
}
func isIdPart(c byte) bool { return isIdStart(c) || (c >= '0' && c <= '9') }

// ---- AST ----

type sqlExpr struct {
	Op   string // id, num, str, ph, hole, not, exists, in, isnull, isnotnull, call, and, or, cmp ops, arith ops
	Text string // id name (qualifier.name), literal text, placeholder text, function name
	N    int    // placeholder ordinal
	Args []*sqlExpr
	Sub  *sqlStmt
}

type sqlAssign struct {
	Col string
	Val *sqlExpr
}

type sqlColDef struct {
	Name    string
	Type    string
	Unique  bool
	Primary bool
	AutoInc bool
	Default string
	Collate string
}

type sqlOrder struct {
	Expr *sqlExpr
	Desc bool
}

type sqlConflict struct {
	Target    []string
	DoNothing bool
	Sets      []sqlAssign
	Where     *sqlExpr
}

type sqlStmt struct {
	Kind        string // create_table, create_index, drop_table, insert, update, delete, select
	Table       string
	Alias       string
	IfNotExists bool
	Cols        []sqlColDef // create_table
	PrimaryKey  []string    // create_table table-level PRIMARY KEY
	IndexName   string
	IndexCols   []string
	InsCols     []string
	Values      []*sqlExpr
	Select      *sqlStmt // insert ... select
	Conflict    *sqlConflict
	Sets        []sqlAssign
	Where       *sqlExpr
	DistinctOn  []string
	SelCols     []*sqlExpr
	GroupBy     []*sqlExpr
	OrderBy     []sqlOrder
	Limit       *sqlExpr
	NumPH       int // number of distinct placeholder ordinals (max+1)
	QStyle      bool
}

type sqlParser struct {
	toks []sqlTok
	i    int
	maxN int
	q    bool
}

func (p *sqlParser) peek() sqlTok { return p.toks[p.i] }
func (p *sqlParser) next() sqlTok { t := p.toks[p.i]; p.i++; return t }
func (p *sqlParser) isKw(kw string) bool {
	t := p.peek()
	return t.kind == "id" && t.text == kw
}
func (p *sqlParser) isOp(op string) bool {
	t := p.peek()
	return t.kind == "op" && t.text == op
}
func (p *sqlParser) acceptKw(kw string) bool {
	if p.isKw(kw) {
		p.i++
		return true
	}
	return false
}
func (p *sqlParser) acceptOp(op string) bool {
	if p.isOp(op) {
		p.i++
		return true
	}
	return false
}
func (p *sqlParser) expectKw(kw string) error {
	if !p.acceptKw(kw) {
		return fmt.Errorf("expected %q, found %q", kw, p.peek().text)
	}
	return nil
}
func (p *sqlParser) expectOp(op string) error {
	if !p.acceptOp(op) {
		return fmt.Errorf("expected %q, found %q", op, p.peek().text)
	}
	return nil
}
func (p *sqlParser) ident() (string, error) {
	t := p.next()
	if t.kind != "id" {
		return "", fmt.Errorf("expected identifier, found %q", t.text)
	}
	return t.text, nil
}

// parseSQLScript parses one or more ';'-separated statements.
func parseSQLScript(src string) ([]*sqlStmt, error) {
	toks, err := sqlLex(src)
	if err != nil {
		return nil, err
	}
	p := &sqlParser{toks: toks, maxN: -1}
	var out []*sqlStmt
	for {
		for p.acceptOp(";") {
		}
		if p.peek().kind == "eof" {
			break
		}
		p.maxN = -1
		p.q = false
		s, err := p.statement()
		if err != nil {
			return nil, err
		}
		s.NumPH = p.maxN + 1
		s.QStyle = p.q
		resolveScopes(s, nil)
		out = append(out, s)
		if p.peek().kind != "eof" && !p.isOp(";") {
			return nil, fmt.Errorf("unexpected %q after statement", p.peek().text)
		}
	}
	return out, nil
}

func parseSQL(src string) (*sqlStmt, error) {
	ss, err := parseSQLScript(src)
	if err != nil {
		return nil, err
	}
	if len(ss) != 1 {
		return nil, fmt.Errorf("expected one statement, found %d", len(ss))
	}
	return ss[0], nil
}

func (p *sqlParser) statement() (*sqlStmt, error) {
	switch {
	case p.acceptKw("create"):
		if p.acceptKw("table") {
			return p.createTable()
		}
		p.acceptKw("unique")
		if p.acceptKw("index") {
			return p.createIndex()
		}
		return nil, fmt.Errorf("unsupported CREATE %q", p.peek().text)
	case p.acceptKw("drop"):
		if err := p.expectKw("table"); err != nil {
			return nil, err
		}
		s := &sqlStmt{Kind: "drop_table"}
		if p.acceptKw("if") {
			_ = p.expectKw("exists")
		}
		n, err := p.ident()
		s.Table = n
		return s, err
	case p.acceptKw("insert"):
		return p.insert()
	case p.acceptKw("update"):
		return p.update()
	case p.acceptKw("delete"):
		return p.delete()
	case p.isKw("select"):
		return p.selectStmt()
	}
	return nil, fmt.Errorf("unsupported statement starting with %q", p.peek().text)
}

func (p *sqlParser) ifNotExists() (bool, error) {
	if p.acceptKw("if") {
		if err := p.expectKw("not"); err != nil {
			return false, err
		}
		if err := p.expectKw("exists"); err != nil {
			return false, err
		}
		return true, nil
	}
	return false, nil
}

func (p *sqlParser) identList() ([]string, error) {
	if err := p.expectOp("("); err != nil {
		return nil, err
	}
	var out []string
	for {
		n, err := p.ident()
		if err != nil {
			return nil, err
		}
		out = append(out, n)
		if p.acceptOp(",") {
			continue
		}
		break
	}
	return out, p.expectOp(")")
}

func (p *sqlParser) createTable() (*sqlStmt, error) {
	s := &sqlStmt{Kind: "create_table"}
	var err error
	if s.IfNotExists, err = p.ifNotExists(); err != nil {
		return nil, err
	}
	if s.Table, err = p.ident(); err != nil {
		return nil, err
	}
	if err = p.expectOp("("); err != nil {
		return nil, err
	}
	for {
		if p.isKw("primary") {
			p.next()
			if err = p.expectKw("key"); err != nil {
				return nil, err
			}
			if s.PrimaryKey, err = p.identList(); err != nil {
				return nil, err
			}
		} else {
			var cd sqlColDef
			if cd.Name, err = p.ident(); err != nil {
				return nil, err
			}
			if cd.Type, err = p.ident(); err != nil {
				return nil, err
			}
			for !p.isOp(",") && !p.isOp(")") {
				switch {
				case p.acceptKw("unique"):
					cd.Unique = true
				case p.acceptKw("primary"):
					if err = p.expectKw("key"); err != nil {
						return nil, err
					}
					cd.Primary = true
				case p.acceptKw("autoincrement"):
					cd.AutoInc = true
				case p.acceptKw("not"):
					if err = p.expectKw("null"); err != nil {
						return nil, err
					}
				case p.acceptKw("collate"):
					t := p.next()
					if t.kind != "id" && t.kind != "str" {
						return nil, fmt.Errorf("unsupported COLLATE %q", t.text)
					}
					cd.Collate = strings.ToLower(strings.Trim(t.text, "\"'"))
				case p.acceptKw("default"):
					t := p.next()
					if t.kind != "num" && t.kind != "str" && t.kind != "id" {
						return nil, fmt.Errorf("unsupported DEFAULT %q", t.text)
					}
					cd.Default = t.text
				default:
					return nil, fmt.Errorf("unsupported column constraint %q", p.peek().text)
				}
			}
			if cd.Type == "serial" {
				cd.AutoInc = true
			}
			s.Cols = append(s.Cols, cd)
		}
		if p.acceptOp(",") {
			continue
		}
		break
	}
	return s, p.expectOp(")")
}

func (p *sqlParser) createIndex() (*sqlStmt, error) {
	s := &sqlStmt{Kind: "create_index"}
	var err error
	if s.IfNotExists, err = p.ifNotExists(); err != nil {
		return nil, err
	}
	if s.IndexName, err = p.ident(); err != nil {
		return nil, err
	}
	if err = p.expectKw("on"); err != nil {
		return nil, err
	}
	if s.Table, err = p.ident(); err != nil {
		return nil, err
	}
	s.IndexCols, err = p.identList()
	return s, err
}

func (p *sqlParser) insert() (*sqlStmt, error) {
	s := &sqlStmt{Kind: "insert"}
	var err error
	if p.acceptKw("or") {
		return nil, fmt.Errorf("INSERT OR … is not in the supported subset (found %q)", p.peek().text)
	}
	if err = p.expectKw("into"); err != nil {
		return nil, err
	}
	if s.Table, err = p.ident(); err != nil {
		return nil, err
	}
	if s.InsCols, err = p.identList(); err != nil {
		return nil, err
	}
	if p.acceptKw("values") {
		if err = p.expectOp("("); err != nil {
			return nil, err
		}
		for {
			e, err := p.expr()
			if err != nil {
				return nil, err
			}
			s.Values = append(s.Values, e)
			if p.acceptOp(",") {
				continue
			}
			break
		}
		if err = p.expectOp(")"); err != nil {
			return nil, err
		}
		if p.isOp(",") {
			return nil, fmt.Errorf("multi-row VALUES is not in the supported subset")
		}
	} else if p.isKw("select") {
		if s.Select, err = p.selectStmt(); err != nil {
			return nil, err
		}
	} else {
		return nil, fmt.Errorf("expected VALUES or SELECT, found %q", p.peek().text)
	}
	if p.acceptKw("on") {
		if err = p.expectKw("conflict"); err != nil {
			return nil, err
		}
		c := &sqlConflict{}
		if p.isOp("(") {
			if c.Target, err = p.identList(); err != nil {
				return nil, err
			}
		}
		if err = p.expectKw("do"); err != nil {
			return nil, err
		}
		if p.acceptKw("nothing") {
			c.DoNothing = true
		} else {
			if err = p.expectKw("update"); err != nil {
				return nil, err
			}
			if err = p.expectKw("set"); err != nil {
				return nil, err
			}
			if c.Sets, err = p.assignments(); err != nil {
				return nil, err
			}
			if p.acceptKw("where") {
				if c.Where, err = p.expr(); err != nil {
					return nil, err
				}
			}
		}
		s.Conflict = c
	}
	return s, nil
}

func (p *sqlParser) assignments() ([]sqlAssign, error) {
	var out []sqlAssign
	for {
		col, err := p.ident()
		if err != nil {
			return nil, err
		}
		if err = p.expectOp("="); err != nil {
			return nil, err
		}
		v, err := p.addExpr()
		if err != nil {
			return nil, err
		}
		out = append(out, sqlAssign{col, v})
		if p.acceptOp(",") {
			continue
		}
		break
	}
	return out, nil
}

func (p *sqlParser) update() (*sqlStmt, error) {
	s := &sqlStmt{Kind: "update"}
	var err error
	if s.Table, err = p.ident(); err != nil {
		return nil, err
	}
	if err = p.expectKw("set"); err != nil {
		return nil, err
	}
	if s.Sets, err = p.assignments(); err != nil {
		return nil, err
	}
	if p.acceptKw("where") {
		if s.Where, err = p.expr(); err != nil {
			return nil, err
		}
	}
	return s, nil
}

func (p *sqlParser) delete() (*sqlStmt, error) {
	s := &sqlStmt{Kind: "delete"}
	var err error
	if err = p.expectKw("from"); err != nil {
		return nil, err
	}
	if s.Table, err = p.ident(); err != nil {
		return nil, err
	}
	if p.acceptKw("where") {
		if s.Where, err = p.expr(); err != nil {
			return nil, err
		}
	}
	return s, nil
}

var sqlClauseKw = map[string]bool{"from": true, "where": true, "group": true, "order": true, "limit": true, "on": true}

func (p *sqlParser) selectStmt() (*sqlStmt, error) {
	s := &sqlStmt{Kind: "select"}
	var err error
	if err = p.expectKw("select"); err != nil {
		return nil, err
	}
	if p.acceptKw("distinct") {
		if err = p.expectKw("on"); err != nil {
			return nil, fmt.Errorf("plain DISTINCT is not in the supported subset")
		}
		if err = p.expectOp("("); err != nil {
			return nil, err
		}
		for {
			e, err := p.addExpr()
			if err != nil {
				return nil, err
			}
			if e.Op != "id" {
				return nil, fmt.Errorf("DISTINCT ON over an expression is not in the supported subset")
			}
			s.DistinctOn = append(s.DistinctOn, e.Text)
			if !p.acceptOp(",") {
				break
			}
		}
		if err = p.expectOp(")"); err != nil {
			return nil, err
		}
	}
	for {
		e, err := p.expr()
		if err != nil {
			return nil, err
		}
		s.SelCols = append(s.SelCols, e)
		if p.acceptOp(",") {
			continue
		}
		break
	}
	if p.acceptKw("from") {
		if s.Table, err = p.ident(); err != nil {
			return nil, err
		}
		p.acceptKw("as") // `FROM tasks AS t1` is `FROM tasks t1`
		if t := p.peek(); t.kind == "id" && !sqlClauseKw[t.text] {
			s.Alias = t.text
			p.next()
		}
		if p.isOp(",") || p.isKw("join") || p.isKw("left") || p.isKw("inner") {
			return nil, fmt.Errorf("joins are not in the supported subset")
		}
	}
	if p.acceptKw("where") {
		if s.Where, err = p.expr(); err != nil {
			return nil, err
		}
	}
	if p.acceptKw("group") {
		if err = p.expectKw("by"); err != nil {
			return nil, err
		}
		for {
			e, err := p.addExpr()
			if err != nil {
				return nil, err
			}
			s.GroupBy = append(s.GroupBy, e)
			if !p.acceptOp(",") {
				break
			}
		}
	}
	if p.acceptKw("order") {
		if err = p.expectKw("by"); err != nil {
			return nil, err
		}
		for {
			e, err := p.addExpr()
			if err != nil {
				return nil, err
			}
			o := sqlOrder{Expr: e}
			if p.acceptKw("desc") {
				o.Desc = true
			} else {
				p.acceptKw("asc")
			}
			s.OrderBy = append(s.OrderBy, o)
			if !p.acceptOp(",") {
				break
			}
		}
	}
	if p.acceptKw("limit") {
		if s.Limit, err = p.addExpr(); err != nil {
			return nil, err
		}
	}
	return s, nil
}

// expr := orExpr
func (p *sqlParser) expr() (*sqlExpr, error) { return p.orExpr() }

func (p *sqlParser) orExpr() (*sqlExpr, error) {
	l, err := p.andExpr()
	if err != nil {
		return nil, err
	}
	for p.acceptKw("or") {
		r, err := p.andExpr()
		if err != nil {
			return nil, err
		}
		l = &sqlExpr{Op: "or", Args: []*sqlExpr{l, r}}
	}
	return l, nil
}

func (p *sqlParser) andExpr() (*sqlExpr, error) {
	l, err := p.notExpr()
	if err != nil {
		return nil, err
	}
	for {
		if p.acceptKw("and") {
			// "AND %s" never occurs; a hole follows a conjunct directly
			r, err := p.notExpr()
			if err != nil {
				return nil, err
			}
			l = &sqlExpr{Op: "and", Args: []*sqlExpr{l, r}}
			continue
		}
		if p.peek().kind == "hole" {
			h := p.next()
			l = &sqlExpr{Op: "and", Args: []*sqlExpr{l, {Op: "hole", Text: "%s", N: h.n}}}
			continue
		}
		break
	}
	return l, nil
}

func (p *sqlParser) notExpr() (*sqlExpr, error) {
	if p.acceptKw("not") {
		if p.acceptKw("exists") {
			e, err := p.existsTail()
			if err != nil {
				return nil, err
			}
			return &sqlExpr{Op: "not", Args: []*sqlExpr{e}}, nil
		}
		x, err := p.notExpr()
		if err != nil {
			return nil, err
		}
		return &sqlExpr{Op: "not", Args: []*sqlExpr{x}}, nil
	}
	if p.acceptKw("exists") {
		return p.existsTail()
	}
	return p.cmpExpr()
}

func (p *sqlParser) existsTail() (*sqlExpr, error) {
	if err := p.expectOp("("); err != nil {
		return nil, err
	}
	sub, err := p.selectStmt()
	if err != nil {
		return nil, err
	}
	if err := p.expectOp(")"); err != nil {
		return nil, err
	}
	return &sqlExpr{Op: "exists", Sub: sub}, nil
}

func (p *sqlParser) cmpExpr() (*sqlExpr, error) {
	l, err := p.addExpr()
	if err != nil {
		return nil, err
	}
	t := p.peek()
	if t.kind == "op" {
		switch t.text {
		case "=", "<", ">", "<=", ">=", "!=", "<>", "@>":
			p.next()
			r, err := p.addExpr()
			if err != nil {
				return nil, err
			}
			op := t.text
			if op == "<>" {
				op = "!="
			}
			return &sqlExpr{Op: op, Args: []*sqlExpr{l, r}}, nil
		}
	}
	if t.kind == "id" {
		switch t.text {
		case "like":
			p.next()
			r, err := p.addExpr()
			if err != nil {
				return nil, err
			}
			if p.acceptKw("escape") {
				esc, err := p.addExpr()
				if err != nil {
					return nil, err
				}
				return &sqlExpr{Op: "like-escape", Args: []*sqlExpr{l, r, esc}}, nil
			}
			return &sqlExpr{Op: "like", Args: []*sqlExpr{l, r}}, nil
		case "is":
			p.next()
			op := "isnull"
			if p.acceptKw("not") {
				op = "isnotnull"
			}
			if err := p.expectKw("null"); err != nil {
				return nil, err
			}
			return &sqlExpr{Op: op, Args: []*sqlExpr{l}}, nil
		case "in":
			p.next()
			if err := p.expectOp("("); err != nil {
				return nil, err
			}
			e := &sqlExpr{Op: "in", Args: []*sqlExpr{l}}
			for {
				x, err := p.addExpr()
				if err != nil {
					return nil, err
				}
				e.Args = append(e.Args, x)
				if !p.acceptOp(",") {
					break
				}
			}
			return e, p.expectOp(")")
		}
	}
	return l, nil
}

func (p *sqlParser) addExpr() (*sqlExpr, error) {
	l, err := p.bitExpr()
	if err != nil {
		return nil, err
	}
	for p.isOp("+") || p.isOp("-") {
		op := p.next().text
		r, err := p.bitExpr()
		if err != nil {
			return nil, err
		}
		l = &sqlExpr{Op: op, Args: []*sqlExpr{l, r}}
	}
	return l, nil
}

func (p *sqlParser) bitExpr() (*sqlExpr, error) {
	l, err := p.primary()
	if err != nil {
		return nil, err
	}
	for p.isOp("&") || p.isOp("|") {
		op := p.next().text
		r, err := p.primary()
		if err != nil {
			return nil, err
		}
		l = &sqlExpr{Op: op, Args: []*sqlExpr{l, r}}
	}
	return l, nil
}

func (p *sqlParser) primary() (*sqlExpr, error) {
	t := p.next()
	var e *sqlExpr
	switch t.kind {
	case "num":
		e = &sqlExpr{Op: "num", Text: t.text}
	case "str":
		e = &sqlExpr{Op: "str", Text: t.text}
	case "ph":
		e = &sqlExpr{Op: "ph", Text: t.text, N: t.n}
		if t.n > p.maxN {
			p.maxN = t.n
		}
		if t.text == "?" {
			p.q = true
		}
	case "id":
		if t.text == "null" {
			e = &sqlExpr{Op: "null"}
			break
		}
		name := t.text
		if p.acceptOp(".") {
			n2, err := p.ident()
			if err != nil {
				return nil, err
			}
			name = name + "." + n2
		}
		if p.isOp("(") {
			p.next()
			c := &sqlExpr{Op: "call", Text: name}
			if !p.isOp(")") {
				for {
					a, err := p.expr()
					if err != nil {
						return nil, err
					}
					c.Args = append(c.Args, a)
					if !p.acceptOp(",") {
						break
					}
				}
			}
			if err := p.expectOp(")"); err != nil {
				return nil, err
			}
			e = c
		} else {
			e = &sqlExpr{Op: "id", Text: name}
		}
	case "op":
		if t.text == "(" {
			if p.isKw("select") {
				sub, err := p.selectStmt()
				if err != nil {
					return nil, err
				}
				if err := p.expectOp(")"); err != nil {
					return nil, err
				}
				e = &sqlExpr{Op: "subquery", Sub: sub}
			} else {
				x, err := p.expr()
				if err != nil {
					return nil, err
				}
				if err := p.expectOp(")"); err != nil {
					return nil, err
				}
				e = x
			}
		} else if t.text == "*" {
			e = &sqlExpr{Op: "id", Text: "*"}
		} else {
			return nil, fmt.Errorf("unexpected %q", t.text)
		}
	default:
		return nil, fmt.Errorf("unexpected %q", t.text)
	}
	// cast suffix: dropped (dialect table)
	for p.acceptOp("::") {
		if _, err := p.ident(); err != nil {
			return nil, err
		}
	}
	return e, nil
}

// ---- scope resolution ----

// resolveScopes rewrites every column reference to a form that does not depend on how the
// statement spells its qualifiers: a column of the innermost table in scope is written bare
// (whether the source said `id`, `tasks.id` or `t1.id`), a column of an enclosing statement's
// table is written `<table>^<levels up>.<column>` (whatever alias the source chose); aliases are
// then dropped. `excluded.` (the proposed row of an upsert) is kept.
type sqlScope struct{ table, alias string }

func resolveScopes(s *sqlStmt, stack []sqlScope) {
	if s == nil {
		return
	}
	var fixId func(text string, st []sqlScope) string
	fixId = func(text string, st []sqlScope) string {
		i := strings.Index(text, ".")
		if i < 0 {
			return text
		}
		q, name := text[:i], text[i+1:]
		if q == "excluded" {
			return text
		}
		for k := len(st) - 1; k >= 0; k-- {
			sc := st[k]
			if (sc.alias != "" && sc.alias == q) || (sc.alias == "" && sc.table == q) {
				up := len(st) - 1 - k
				if up == 0 {
					return name
				}
				return fmt.Sprintf("%s^%d.%s", sc.table, up, name)
			}
		}
		return text
	}
	var fix func(e *sqlExpr, st []sqlScope)
	fix = func(e *sqlExpr, st []sqlScope) {
		if e == nil {
			return
		}
		if e.Op == "id" {
			e.Text = fixId(e.Text, st)
		}
		for _, a := range e.Args {
			fix(a, st)
		}
		if e.Sub != nil {
			resolveScopes(e.Sub, st)
		}
	}
	switch s.Kind {
	case "select":
		st := append(append([]sqlScope(nil), stack...), sqlScope{s.Table, s.Alias})
		for _, c := range s.SelCols {
			fix(c, st)
		}
		fix(s.Where, st)
		for _, g := range s.GroupBy {
			fix(g, st)
		}
		for i := range s.OrderBy {
			fix(s.OrderBy[i].Expr, st)
		}
		fix(s.Limit, st)
		for i, d := range s.DistinctOn {
			s.DistinctOn[i] = fixId(d, st)
		}
		s.Alias = ""
	case "update", "delete":
		st := append(append([]sqlScope(nil), stack...), sqlScope{s.Table, s.Alias})
		for i := range s.Sets {
			fix(s.Sets[i].Val, st)
		}
		fix(s.Where, st)
	case "insert":
		st := append(append([]sqlScope(nil), stack...), sqlScope{s.Table, ""})
		for _, v := range s.Values {
			fix(v, st)
		}
		resolveScopes(s.Select, stack)
		if s.Conflict != nil {
			for i := range s.Conflict.Sets {
				fix(s.Conflict.Sets[i].Val, st)
			}
			fix(s.Conflict.Where, st)
		}
	}
}

// ---- canonical rendering ----

// binder maps a placeholder to the name of the operand bound to it.
type binder func(e *sqlExpr) string

// canonExpr renders e in canonical form: identifiers lower-case, the qualifier of the statement's
// own table dropped, comparisons oriented (a >= b ⇒ b <= a; operands of = and != sorted), AND/OR
// flattened and sorted, casts already dropped by the parser.
func canonExpr(e *sqlExpr, own string, b binder) string {
	if e == nil {
		return ""
	}
	switch e.Op {
	case "id":
		if own != "" && strings.HasPrefix(e.Text, own+".") {
			return strings.TrimPrefix(e.Text, own+".")
		}
		return e.Text
	case "num":
		return e.Text
	case "str":
		return "'" + e.Text + "'"
	case "null":
		return "NULL"
	case "ph":
		return b(e)
	case "hole":
		return "%s"
	case "not":
		return "NOT " + canonExpr(e.Args[0], own, b)
	case "exists":
		return "EXISTS(" + canonSelect(e.Sub, b) + ")"
	case "subquery":
		return "(" + canonSelect(e.Sub, b) + ")"
	case "isnull":
		return canonExpr(e.Args[0], own, b) + " IS NULL"
	case "isnotnull":
		return canonExpr(e.Args[0], own, b) + " IS NOT NULL"
	case "in":
		var items []string
		for _, a := range e.Args[1:] {
			items = append(items, canonExpr(a, own, b))
		}
		sort.Strings(items)
		return canonExpr(e.Args[0], own, b) + " IN (" + strings.Join(items, ", ") + ")"
	case "call":
		var items []string
		for _, a := range e.Args {
			items = append(items, canonExpr(a, own, b))
		}
		return e.Text + "(" + strings.Join(items, ", ") + ")"
	case "and", "or":
		parts := flatten(e, e.Op)
		var items []string
		for _, x := range parts {
			s := canonExpr(x, own, b)
			if (x.Op == "and" || x.Op == "or") && x.Op != e.Op {
				s = "(" + s + ")"
			}
			items = append(items, s)
		}
		sort.Strings(items)
		return strings.Join(items, " "+strings.ToUpper(e.Op)+" ")
	case "=", "!=":
		l, r := canonOperand(e.Args[0], own, b), canonOperand(e.Args[1], own, b)
		if r < l {
			l, r = r, l
		}
		return l + " " + e.Op + " " + r
	case "<", "<=":
		return canonOperand(e.Args[0], own, b) + " " + e.Op + " " + canonOperand(e.Args[1], own, b)
	case ">":
		return canonOperand(e.Args[1], own, b) + " < " + canonOperand(e.Args[0], own, b)
	case ">=":
		return canonOperand(e.Args[1], own, b) + " <= " + canonOperand(e.Args[0], own, b)
	case "like", "@>":
		return canonOperand(e.Args[0], own, b) + " " + strings.ToUpper(e.Op) + " " + canonOperand(e.Args[1], own, b)
	case "like-escape":
		return canonOperand(e.Args[0], own, b) + " LIKE " + canonOperand(e.Args[1], own, b) + " ESCAPE " + canonOperand(e.Args[2], own, b)
	case "+", "&", "|":
		l, r := canonOperand(e.Args[0], own, b), canonOperand(e.Args[1], own, b)
		if r < l {
			l, r = r, l
		}
		return l + " " + e.Op + " " + r
	case "-":
		return canonOperand(e.Args[0], own, b) + " - " + canonOperand(e.Args[1], own, b)
	}
	return "?" + e.Op
}

func canonOperand(e *sqlExpr, own string, b binder) string {
	s := canonExpr(e, own, b)
	switch e.Op {
	case "+", "-", "&", "|", "and", "or":
		return "(" + s + ")"
	}
	return s
}

func flatten(e *sqlExpr, op string) []*sqlExpr {
	if e.Op != op {
		return []*sqlExpr{e}
	}
	var out []*sqlExpr
	for _, a := range e.Args {
		out = append(out, flatten(a, op)...)
	}
	return out
}

// conjuncts returns the canonical conjuncts of a WHERE expression, sorted.
func conjuncts(e *sqlExpr, own string, b binder) []string {
	if e == nil {
		return nil
	}
	var out []string
	for _, x := range flatten(e, "and") {
		s := canonExpr(x, own, b)
		if x.Op == "or" {
			s = "(" + s + ")"
		}
		out = append(out, s)
	}
	sort.Strings(out)
	return out
}

func canonSelect(s *sqlStmt, b binder) string {
	var sb strings.Builder
	sb.WriteString("SELECT ")
	var cols []string
	for _, c := range s.SelCols {
		cols = append(cols, canonExpr(c, "", b))
	}
	sb.WriteString(strings.Join(cols, ", "))
	if s.Table != "" {
		sb.WriteString(" FROM " + s.Table)
		if s.Alias != "" {
			sb.WriteString(" " + s.Alias)
		}
	}
	if s.Where != nil {
		sb.WriteString(" WHERE " + strings.Join(conjuncts(s.Where, "", b), " AND "))
	}
	if len(s.GroupBy) > 0 || len(s.DistinctOn) > 0 {
		sb.WriteString(" ONE_PER(" + strings.Join(onePer(s), ", ") + ")")
	}
	if len(s.OrderBy) > 0 {
		sb.WriteString(" ORDER BY " + canonOrder(s, b))
	}
	if s.Limit != nil {
		sb.WriteString(" LIMIT " + canonExpr(s.Limit, "", b))
	}
	return sb.String()
}

// onePer: GROUP BY c (SQLite) and DISTINCT ON (c) (Postgres) both mean "one row per c" here.
func onePer(s *sqlStmt) []string {
	var out []string
	out = append(out, s.DistinctOn...)
	for _, g := range s.GroupBy {
		out = append(out, canonExpr(g, "", func(*sqlExpr) string { return "?" }))
	}
	sort.Strings(out)
	return out
}

func canonOrder(s *sqlStmt, b binder) string {
	var out []string
	for _, o := range s.OrderBy {
		x := canonExpr(o.Expr, "", b)
		if o.Desc {
			x += " DESC"
		} else {
			x += " ASC"
		}
		out = append(out, x)
	}
	return strings.Join(out, ", ")
}
