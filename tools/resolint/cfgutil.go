package main

import (
	"go/ast"
	"go/token"
	"go/types"
	"sort"

	"golang.org/x/tools/go/cfg"
	"golang.org/x/tools/go/packages"
)

// buildCFG builds the control-flow graph of a function body. Calls to panic, os.Exit, log.Fatal
// and util-style helpers that never return are treated as non-returning.
func buildCFG(pk *packages.Package, body *ast.BlockStmt) *cfg.CFG {
	mayReturn := func(call *ast.CallExpr) bool {
		switch f := ast.Unparen(call.Fun).(type) {
		case *ast.Ident:
			if f.Name == "panic" {
				if _, ok := pk.TypesInfo.Uses[f].(*types.Builtin); ok {
					return false
				}
			}
		case *ast.SelectorExpr:
			if fn, ok := pk.TypesInfo.Uses[f.Sel].(*types.Func); ok && fn.Pkg() != nil {
				if fn.Pkg().Path() == "os" && fn.Name() == "Exit" {
					return false
				}
			}
		}
		return true
	}
	return cfg.New(deselect(body), mayReturn)
}

// deselect rewrites select statements into tagless switches whose case bodies start with the
// clause's communication statement. go/cfg evaluates every clause's communication before
// branching, which would put a send on every path; after the rewrite a send (or receive) lies only
// on the path of the clause that was taken. The inner statements are the original nodes.
func deselect(body *ast.BlockStmt) *ast.BlockStmt {
	if body == nil {
		return nil
	}
	out, _ := deselectStmt(body)
	return out.(*ast.BlockStmt)
}

func deselectList(list []ast.Stmt) ([]ast.Stmt, bool) {
	changed := false
	out := make([]ast.Stmt, len(list))
	for i, s := range list {
		ns, ch := deselectStmt(s)
		out[i] = ns
		changed = changed || ch
	}
	if !changed {
		return list, false
	}
	return out, true
}

func deselectStmt(s ast.Stmt) (ast.Stmt, bool) {
	switch x := s.(type) {
	case nil:
		return nil, false
	case *ast.BlockStmt:
		if x == nil {
			return x, false
		}
		l, ch := deselectList(x.List)
		if !ch {
			return x, false
		}
		return &ast.BlockStmt{Lbrace: x.Lbrace, List: l, Rbrace: x.Rbrace}, true
	case *ast.IfStmt:
		b, c1 := deselectStmt(x.Body)
		var e ast.Stmt
		c2 := false
		if x.Else != nil {
			e, c2 = deselectStmt(x.Else)
		}
		if !c1 && !c2 {
			return x, false
		}
		return &ast.IfStmt{If: x.If, Init: x.Init, Cond: x.Cond, Body: b.(*ast.BlockStmt), Else: e}, true
	case *ast.ForStmt:
		b, ch := deselectStmt(x.Body)
		if !ch {
			return x, false
		}
		return &ast.ForStmt{For: x.For, Init: x.Init, Cond: x.Cond, Post: x.Post, Body: b.(*ast.BlockStmt)}, true
	case *ast.RangeStmt:
		b, ch := deselectStmt(x.Body)
		if !ch {
			return x, false
		}
		return &ast.RangeStmt{For: x.For, Key: x.Key, Value: x.Value, TokPos: x.TokPos, Tok: x.Tok, Range: x.Range, X: x.X, Body: b.(*ast.BlockStmt)}, true
	case *ast.LabeledStmt:
		b, ch := deselectStmt(x.Stmt)
		if !ch {
			return x, false
		}
		return &ast.LabeledStmt{Label: x.Label, Colon: x.Colon, Stmt: b}, true
	case *ast.SwitchStmt:
		b, ch := deselectStmt(x.Body)
		if !ch {
			return x, false
		}
		return &ast.SwitchStmt{Switch: x.Switch, Init: x.Init, Tag: x.Tag, Body: b.(*ast.BlockStmt)}, true
	case *ast.TypeSwitchStmt:
		b, ch := deselectStmt(x.Body)
		if !ch {
			return x, false
		}
		return &ast.TypeSwitchStmt{Switch: x.Switch, Init: x.Init, Assign: x.Assign, Body: b.(*ast.BlockStmt)}, true
	case *ast.CaseClause:
		l, ch := deselectList(x.Body)
		if !ch {
			return x, false
		}
		return &ast.CaseClause{Case: x.Case, List: x.List, Colon: x.Colon, Body: l}, true
	case *ast.SelectStmt:
		sw := &ast.SwitchStmt{Switch: x.Select, Body: &ast.BlockStmt{Lbrace: x.Body.Lbrace, Rbrace: x.Body.Rbrace}}
		for _, cs := range x.Body.List {
			cc := cs.(*ast.CommClause)
			body, _ := deselectList(cc.Body)
			nc := &ast.CaseClause{Case: cc.Case, Colon: cc.Colon}
			if cc.Comm != nil {
				nc.List = []ast.Expr{&ast.Ident{NamePos: cc.Case, Name: "_selected"}}
				nc.Body = append([]ast.Stmt{cc.Comm}, body...)
			} else {
				nc.Body = body
			}
			sw.Body.List = append(sw.Body.List, nc)
		}
		return sw, true
	}
	return s, false
}

type factSet map[string]bool

func (f factSet) clone() factSet {
	o := factSet{}
	for k := range f {
		o[k] = true
	}
	return o
}

func intersect(a, b factSet) factSet {
	o := factSet{}
	for k := range a {
		if b[k] {
			o[k] = true
		}
	}
	return o
}

func (f factSet) list() []string {
	var out []string
	for k := range f {
		out = append(out, k)
	}
	sort.Strings(out)
	return out
}

// mustFacts runs a forward must-analysis: facts that hold on EVERY path from entry.
//
//	gen(node)            facts established by executing a node
//	edge(block, i)       facts established by leaving block through successor i
//
// It returns, for each node of interest (selected by want), the facts that hold just before it.
func mustFactsAtExits(g *cfg.CFG, gen func(ast.Node) []string, edge func(b *cfg.Block, i int) []string) []exitFacts {
	n := len(g.Blocks)
	in := make([]factSet, n) // nil = top (unvisited)
	preds := make([][]struct {
		b *cfg.Block
		i int
	}, n)
	for _, b := range g.Blocks {
		for i, s := range b.Succs {
			preds[s.Index] = append(preds[s.Index], struct {
				b *cfg.Block
				i int
			}{b, i})
		}
	}
	outOf := func(b *cfg.Block) factSet {
		if in[b.Index] == nil {
			return nil
		}
		o := in[b.Index].clone()
		for _, nd := range b.Nodes {
			for _, f := range gen(nd) {
				o[f] = true
			}
		}
		return o
	}
	in[0] = factSet{}
	changed := true
	for iter := 0; changed && iter < 4*n+8; iter++ {
		changed = false
		for _, b := range g.Blocks {
			if b.Index == 0 {
				continue
			}
			var acc factSet
			for _, p := range preds[b.Index] {
				o := outOf(p.b)
				if o == nil {
					continue
				}
				if edge != nil {
					for _, f := range edge(p.b, p.i) {
						o[f] = true
					}
				}
				if acc == nil {
					acc = o
				} else {
					acc = intersect(acc, o)
				}
			}
			if acc == nil {
				continue
			}
			if in[b.Index] == nil || len(acc) != len(in[b.Index]) {
				in[b.Index] = acc
				changed = true
			}
		}
	}
	var out []exitFacts
	for _, b := range g.Blocks {
		if in[b.Index] == nil || len(b.Succs) != 0 {
			continue
		}
		cur := in[b.Index].clone()
		var last ast.Node
		for _, nd := range b.Nodes {
			for _, f := range gen(nd) {
				cur[f] = true
			}
			last = nd
		}
		out = append(out, exitFacts{Block: b, Last: last, Facts: cur})
	}
	return out
}

// exitFacts: the must-facts at the end of a block without successors (a return, or the end of the
// function body).
type exitFacts struct {
	Block *cfg.Block
	Last  ast.Node
	Facts factSet
}

func mustFacts(g *cfg.CFG, gen func(ast.Node) []string, edge func(b *cfg.Block, i int) []string, want func(ast.Node) bool) map[ast.Node]factSet {
	return mustFactsK(g, gen, nil, edge, want)
}

func sameFacts(a, b factSet) bool {
	if len(a) != len(b) {
		return false
	}
	for k := range a {
		if !b[k] {
			return false
		}
	}
	return true
}

// mustFactsK is mustFacts with kills: kill(node) names the facts a node invalidates (applied before
// the node's own gen).
func mustFactsK(g *cfg.CFG, gen func(ast.Node) []string, kill func(ast.Node) []string, edge func(b *cfg.Block, i int) []string, want func(ast.Node) bool) map[ast.Node]factSet {
	n := len(g.Blocks)
	in := make([]factSet, n) // nil = top (unvisited)
	preds := make([][]struct {
		b *cfg.Block
		i int
	}, n)
	for _, b := range g.Blocks {
		for i, s := range b.Succs {
			preds[s.Index] = append(preds[s.Index], struct {
				b *cfg.Block
				i int
			}{b, i})
		}
	}
	outOf := func(b *cfg.Block) factSet {
		if in[b.Index] == nil {
			return nil
		}
		o := in[b.Index].clone()
		for _, nd := range b.Nodes {
			if kill != nil {
				for _, f := range kill(nd) {
					delete(o, f)
				}
			}
			for _, f := range gen(nd) {
				o[f] = true
			}
		}
		return o
	}
	in[0] = factSet{}
	changed := true
	for iter := 0; changed && iter < 4*n+8; iter++ {
		changed = false
		for _, b := range g.Blocks {
			if b.Index == 0 {
				continue
			}
			var acc factSet
			for _, p := range preds[b.Index] {
				o := outOf(p.b)
				if o == nil {
					continue
				}
				if edge != nil {
					for _, f := range edge(p.b, p.i) {
						o[f] = true
					}
				}
				if acc == nil {
					acc = o
				} else {
					acc = intersect(acc, o)
				}
			}
			if acc == nil {
				continue
			}
			if in[b.Index] == nil || !sameFacts(acc, in[b.Index]) {
				in[b.Index] = acc
				changed = true
			}
		}
	}
	res := map[ast.Node]factSet{}
	for _, b := range g.Blocks {
		if in[b.Index] == nil {
			continue // unreachable
		}
		cur := in[b.Index].clone()
		for _, nd := range b.Nodes {
			if want(nd) {
				res[nd] = cur.clone()
			}
			if kill != nil {
				for _, f := range kill(nd) {
					delete(cur, f)
				}
			}
			for _, f := range gen(nd) {
				cur[f] = true
			}
		}
	}
	return res
}

// nilTest recognises `x != nil` / `x == nil` (either operand order) over an identifier and
// returns the identifier's object and whether the TRUE branch means "x is non-nil".
func nilTest(info *types.Info, e ast.Expr) (types.Object, bool, bool) {
	be, ok := ast.Unparen(e).(*ast.BinaryExpr)
	if !ok || (be.Op != token.NEQ && be.Op != token.EQL) {
		return nil, false, false
	}
	x, y := ast.Unparen(be.X), ast.Unparen(be.Y)
	isNil := func(e ast.Expr) bool {
		id, ok := e.(*ast.Ident)
		if !ok {
			return false
		}
		_, isNilObj := info.Uses[id].(*types.Nil)
		return isNilObj
	}
	var id *ast.Ident
	if isNil(y) {
		id, _ = x.(*ast.Ident)
	} else if isNil(x) {
		id, _ = y.(*ast.Ident)
	}
	if id == nil {
		return nil, false, false
	}
	obj := info.Uses[id]
	if obj == nil {
		return nil, false, false
	}
	return obj, be.Op == token.NEQ, true
}

func mentions(info *types.Info, n ast.Node, obj types.Object) bool {
	found := false
	ast.Inspect(n, func(x ast.Node) bool {
		if id, ok := x.(*ast.Ident); ok && (info.Uses[id] == obj || info.Defs[id] == obj) {
			found = true
		}
		return !found
	})
	return found
}

// assignsTo reports whether node assigns obj (as an identifier on the left-hand side).
func assignsTo(info *types.Info, n ast.Node, obj types.Object) (rhs []ast.Expr, ok bool) {
	switch s := n.(type) {
	case *ast.AssignStmt:
		for _, l := range s.Lhs {
			if id, isId := l.(*ast.Ident); isId && (info.Uses[id] == obj || info.Defs[id] == obj) {
				return s.Rhs, true
			}
		}
	case *ast.ValueSpec:
		for _, id := range s.Names {
			if info.Defs[id] == obj {
				return s.Values, true
			}
		}
	case *ast.DeclStmt:
		if gd, isGd := s.Decl.(*ast.GenDecl); isGd {
			for _, sp := range gd.Specs {
				if vs, isVs := sp.(*ast.ValueSpec); isVs {
					if r, ok := assignsTo(info, vs, obj); ok {
						return r, true
					}
				}
			}
		}
	}
	return nil, false
}

// calleeName returns a short name of the static callee of a call ("Recv.Method" or "pkg.Func").
func calleeName(info *types.Info, call *ast.CallExpr) string {
	obj := calleeOf(info, call)
	fn, ok := obj.(*types.Func)
	if !ok {
		if obj != nil {
			return obj.Name()
		}
		return exprString(call.Fun)
	}
	sig := fn.Type().(*types.Signature)
	if sig.Recv() != nil {
		return namedName(sig.Recv().Type()) + "." + fn.Name()
	}
	if fn.Pkg() != nil {
		return fn.Pkg().Name() + "." + fn.Name()
	}
	return fn.Name()
}

// callsIn lists the calls syntactically inside a node, not descending into function literals.
func callsIn(n ast.Node) []*ast.CallExpr {
	var out []*ast.CallExpr
	ast.Inspect(n, func(x ast.Node) bool {
		if _, ok := x.(*ast.FuncLit); ok {
			return false
		}
		if c, ok := x.(*ast.CallExpr); ok {
			out = append(out, c)
		}
		return true
	})
	return out
}

// enclosing returns the chain of ancestors of target inside root (outermost first).
func enclosing(root ast.Node, target ast.Node) []ast.Node {
	var stack, res []ast.Node
	ast.Inspect(root, func(n ast.Node) bool {
		if res != nil {
			return false
		}
		if n == nil {
			stack = stack[:len(stack)-1]
			return true
		}
		if n == target {
			res = append([]ast.Node(nil), stack...)
			return false
		}
		stack = append(stack, n)
		return true
	})
	return res
}
