package main

// Coroutine-layer model: registrations (cmd/serve), provenance of expressions inside coroutine
// functions, command literals, store submissions.

import (
	"fmt"
	"go/ast"
	"go/token"
	"go/types"
	"regexp"
	"sort"
	"strings"

	"golang.org/x/tools/go/packages"
)

type coroFunc struct {
	Name  string
	Decl  *ast.FuncDecl
	Body  *ast.BlockStmt // the coroutine body: for constructor-style functions, the returned func literal
	Lit   *ast.FuncLit
	Env   *provEnv
	Kinds []string // request kinds registered to it (request coroutines)
	BG    string   // background name
}

type coroModel struct {
	Pk         *packages.Package
	Request    map[string]*coroFunc // t_api.Kind name -> entry function
	Background map[string]*coroFunc
	Funcs      map[string]*coroFunc // every function of the package
	Order      []string
	Err        error
	RegPos     map[string]token.Pos
}

func (c *Ctx) coroModel() *coroModel {
	if m, ok := c.shared["coro"].(*coroModel); ok {
		return m
	}
	m := &coroModel{Request: map[string]*coroFunc{}, Background: map[string]*coroFunc{}, Funcs: map[string]*coroFunc{}, RegPos: map[string]token.Pos{}}
	c.shared["coro"] = m
	pk := c.P.Pkg(pkgCoroutines)
	if pk == nil {
		m.Err = fmt.Errorf("package %s not loaded", pkgCoroutines)
		return m
	}
	m.Pk = pk
	for _, fd := range allFuncDecls(pk) {
		if isTestFile(c.P, fd.Pos()) {
			continue
		}
		cf := &coroFunc{Name: fd.Name.Name, Decl: fd, Body: fd.Body}
		// constructor style: func X(...) gocoro.CoroutineFunc { ...; return func(c) {...} }
		for _, st := range fd.Body.List {
			if rs, ok := st.(*ast.ReturnStmt); ok && len(rs.Results) == 1 {
				if fl, ok := ast.Unparen(rs.Results[0]).(*ast.FuncLit); ok {
					cf.Lit = fl
					cf.Body = fl.Body
				}
			}
		}
		cf.Env = newProvEnv(pk, fd)
		m.Funcs[cf.Name] = cf
		m.Order = append(m.Order, cf.Name)
	}
	sort.Strings(m.Order)
	// registrations: calls of (*system.System).AddOnRequest / AddBackground anywhere in the module
	for _, rp := range c.P.Roots {
		for _, fd := range allFuncDecls(rp) {
			if isTestFile(c.P, fd.Pos()) || strings.Contains(rp.PkgPath, "/test") || strings.HasSuffix(rp.PkgPath, "/dst") {
				continue
			}
			var regCalls []*ast.CallExpr
			for _, call := range callsInDeep(fd.Body) {
				fn, ok := calleeOf(rp.TypesInfo, call).(*types.Func)
				if !ok || !isFuncOf(fn, pkgSystem, "System") || len(call.Args) != 2 {
					continue
				}
				// table-driven registration: `for _, r := range table { system.AddOnRequest(r.kind, r.coroutine) }`
				if rows := tableRows(rp, fd, call); len(rows) > 0 {
					for _, row := range rows {
						regCalls = append(regCalls, &ast.CallExpr{Fun: call.Fun, Lparen: call.Lparen, Args: row, Rparen: call.Rparen})
					}
					continue
				}
				regCalls = append(regCalls, call)
			}
			for _, call := range regCalls {
				fn, ok := calleeOf(rp.TypesInfo, call).(*types.Func)
				if !ok || !isFuncOf(fn, pkgSystem, "System") || len(call.Args) != 2 {
					continue
				}
				target := ""
				switch a := ast.Unparen(call.Args[1]).(type) {
				case *ast.SelectorExpr:
					if o, ok := rp.TypesInfo.Uses[a.Sel].(*types.Func); ok && o.Pkg() != nil && o.Pkg().Path() == pkgCoroutines {
						target = o.Name()
					}
				case *ast.Ident:
					if o, ok := rp.TypesInfo.Uses[a].(*types.Func); ok && o.Pkg() != nil && o.Pkg().Path() == pkgCoroutines {
						target = o.Name()
					}
				}
				switch fn.Name() {
				case "AddOnRequest":
					kind := ""
					if se, ok := ast.Unparen(call.Args[0]).(*ast.SelectorExpr); ok {
						kind = se.Sel.Name
					}
					if cf := m.Funcs[target]; cf != nil && kind != "" {
						m.Request[kind] = cf
						cf.Kinds = append(cf.Kinds, kind)
						m.RegPos[kind] = call.Pos()
					} else {
						m.Err = fmt.Errorf("AddOnRequest at %s: cannot resolve kind/coroutine", c.P.pos(call.Pos()))
					}
				case "AddBackground":
					nm, _ := constString(rp.TypesInfo, call.Args[0])
					if cf := m.Funcs[target]; cf != nil {
						m.Background[nm] = cf
						cf.BG = nm
						m.RegPos["bg:"+nm] = call.Pos()
					} else {
						m.Err = fmt.Errorf("AddBackground at %s: cannot resolve coroutine", c.P.pos(call.Pos()))
					}
				}
			}
		}
	}
	return m
}

func isFuncOf(fn *types.Func, pkg, recv string) bool {
	sig, ok := fn.Type().(*types.Signature)
	if !ok || sig.Recv() == nil {
		return false
	}
	return isNamed(sig.Recv().Type(), pkg, recv)
}

// callsInDeep lists calls including those inside function literals.
func callsInDeep(n ast.Node) []*ast.CallExpr {
	var out []*ast.CallExpr
	ast.Inspect(n, func(x ast.Node) bool {
		if c, ok := x.(*ast.CallExpr); ok {
			out = append(out, c)
		}
		return true
	})
	return out
}

// ---- provenance ----

type provEnv struct {
	pk   *packages.Package
	fd   *ast.FuncDecl
	defs map[types.Object][]ast.Node
	encl map[ast.Node][]ast.Node
	// sym: variables a rule wants kept symbolic (named) instead of traced to their definitions
	sym map[types.Object]string
	// noAssertFacts: governing conditions are control flow only (passed assertions are not listed)
	noAssertFacts bool
}

func newProvEnv(pk *packages.Package, fd *ast.FuncDecl) *provEnv {
	le := newLocalEnv(pk, fd, nil)
	return &provEnv{pk: pk, fd: fd, defs: le.defs, encl: le.encl}
}

func isCoroutineType(t types.Type) bool {
	// gocoro.Coroutine[I,O,R] is an interface type in package gocoro
	for {
		if p, ok := t.(*types.Pointer); ok {
			t = p.Elem()
			continue
		}
		break
	}
	if n, ok := t.(*types.Named); ok && n.Obj().Pkg() != nil && n.Obj().Pkg().Path() == pkgGocoro && n.Obj().Name() == "Coroutine" {
		return true
	}
	return false
}

var recordDecoders = map[string]bool{"Promise": true, "Task": true, "Schedule": true, "Lock": true, "Callback": true}

func isRecordType(t types.Type) bool {
	n := namedName(t)
	return strings.HasSuffix(n, "Record") && strings.HasPrefix(namedPkgPath(t), modPath+"/pkg/")
}

// prov normalises an expression to a provenance string. Roles:
//
//	req     the request (any *t_api.XRequest reached from the request parameter)
//	rec     a record read from the store (or its decoded form)
//	now     the coroutine clock c.Time()
//	config  the system configuration
//	cmd     a command handed to a helper
func (pe *provEnv) prov(e ast.Expr) string { return pe.provD(e, 0) }

func (pe *provEnv) provD(e ast.Expr, depth int) string {
	if e == nil {
		return ""
	}
	if depth > 12 {
		return "…"
	}
	info := pe.pk.TypesInfo
	e = ast.Unparen(e)
	if pe.sym != nil {
		if id, ok := e.(*ast.Ident); ok {
			if nm, ok := pe.sym[info.Uses[id]]; ok {
				return nm
			}
		}
	}
	// constants of named types by name, other constants by value
	switch x := e.(type) {
	case *ast.SelectorExpr:
		if c, ok := info.Uses[x.Sel].(*types.Const); ok {
			return c.Name()
		}
	case *ast.Ident:
		if c, ok := info.Uses[x].(*types.Const); ok {
			return c.Name()
		}
		if _, ok := info.Uses[x].(*types.Nil); ok {
			return "nil"
		}
		if x.Name == "true" || x.Name == "false" {
			return x.Name
		}
	}
	if tv, ok := info.Types[e]; ok && tv.Value != nil {
		return tv.Value.ExactString()
	}
	switch x := e.(type) {
	case *ast.BasicLit:
		return x.Value
	case *ast.StarExpr:
		return "*" + pe.provD(x.X, depth+1)
	case *ast.UnaryExpr:
		return x.Op.String() + pe.provD(x.X, depth+1)
	case *ast.BinaryExpr:
		return "(" + pe.provD(x.X, depth+1) + " " + x.Op.String() + " " + pe.provD(x.Y, depth+1) + ")"
	case *ast.IndexExpr:
		return pe.provD(x.X, depth+1) + "[" + pe.provD(x.Index, depth+1) + "]"
	case *ast.CompositeLit:
		tn := namedName(info.Types[x].Type)
		if tn == "" {
			tn = types.TypeString(info.Types[x].Type, func(p *types.Package) string { return p.Name() })
		}
		var parts []string
		keyed := false
		for _, el := range x.Elts {
			if kv, ok := el.(*ast.KeyValueExpr); ok {
				keyed = true
				k := exprString(kv.Key)
				if _, isId := kv.Key.(*ast.Ident); !isId {
					k = pe.provD(kv.Key, depth+1)
				}
				parts = append(parts, k+":"+pe.provD(kv.Value, depth+1))
			} else {
				parts = append(parts, pe.provD(el, depth+1))
			}
		}
		if keyed {
			sort.Strings(parts)
		}
		return tn + "{" + strings.Join(parts, ",") + "}"
	case *ast.CallExpr:
		// conversion
		if tv, ok := info.Types[x.Fun]; ok && tv.IsType() && len(x.Args) == 1 {
			return pe.provD(x.Args[0], depth+1)
		}
		if se, ok := ast.Unparen(x.Fun).(*ast.SelectorExpr); ok {
			if sel, ok := info.Selections[se]; ok {
				if isCoroutineType(sel.Recv()) && se.Sel.Name == "Time" {
					return "now"
				}
				if recordDecoders[se.Sel.Name] && isRecordType(sel.Recv()) {
					return "rec"
				}
				if se.Sel.Name == "Milliseconds" {
					return pe.provD(se.X, depth+1) + ".ms"
				}
				if se.Sel.Name == "Match" && namedPkgPath(sel.Recv()) == pkgIdem {
					return "match(" + pe.provD(se.X, depth+1) + "," + pe.provD(x.Args[0], depth+1) + ")"
				}
			}
		}
		if fn, ok := calleeOf(info, x).(*types.Func); ok && fn.Pkg() != nil && fn.Pkg().Path() == pkgGocoro {
			switch fn.Name() {
			case "YieldAndAwait", "Yield":
				if len(x.Args) == 2 {
					return "await(" + pe.submissionDesc(x.Args[1]) + ")"
				}
			case "SpawnAndAwait", "Spawn":
				if len(x.Args) == 2 {
					if call, ok := ast.Unparen(x.Args[1]).(*ast.CallExpr); ok {
						return "await(" + calleeNameOf(info, call) + ")"
					}
				}
			case "Await":
				if len(x.Args) == 2 {
					awaited := ast.Unparen(x.Args[1])
					// the value variable of `for _, a := range awaiting` stands for awaiting[i]
					if aid, ok := awaited.(*ast.Ident); ok {
						for _, d := range pe.defs[info.Uses[aid]] {
							if rs, ok := d.(*ast.RangeStmt); ok {
								if vid, ok := rs.Value.(*ast.Ident); ok && info.Defs[vid] == info.Uses[aid] {
									awaited = &ast.IndexExpr{X: rs.X, Index: &ast.Ident{Name: "_"}}
								}
							}
						}
					}
					if ix, ok := awaited.(*ast.IndexExpr); ok {
						if id, ok := ast.Unparen(ix.X).(*ast.Ident); ok {
							var found string
							ast.Inspect(pe.fd.Body, func(n ast.Node) bool {
								if as, ok := n.(*ast.AssignStmt); ok && len(as.Lhs) == 1 && len(as.Rhs) == 1 {
									if lix, ok := as.Lhs[0].(*ast.IndexExpr); ok {
										if lid, ok := ast.Unparen(lix.X).(*ast.Ident); ok && info.Uses[lid] == info.Uses[id] {
											found = pe.provD(as.Rhs[0], depth+1)
										}
									}
								}
								return true
							})
							if found != "" {
								return found
							}
						}
					}
					inner := pe.provD(x.Args[1], depth+1)
					if strings.HasPrefix(inner, "await(") {
						return inner
					}
					return "await(" + inner + ")"
				}
			}
		}
		if r, ok := pe.inlineHelper(x, depth); ok {
			return r
		}
		// a helper that checks and then hands one of its operands (or a field of it) through
		if fn, ok := calleeOf(info, x).(*types.Func); ok && fn.Pkg() == pe.pk.Types && fn.Type().(*types.Signature).Results().Len() == 1 {
			if r, ok := pe.helperResultProv(x, 0, depth); ok {
				return r
			}
		}
		name := calleeNameOf(info, x)
		var as []string
		for _, a := range x.Args {
			as = append(as, pe.provD(a, depth+1))
		}
		return name + "(" + strings.Join(as, ",") + ")"
	case *ast.SelectorExpr:
		tv := info.Types[x]
		// r.<Kind> on the request: still the request
		if isNamed(info.Types[x.X].Type, pkgTApi, "Request") && namedPkgPath(tv.Type) == pkgTApi && strings.HasSuffix(namedName(tv.Type), "Request") {
			return "req"
		}
		// projection of a keyed field out of a literal the variable was defined with
		if lit := pe.resolveLit(x.X); lit != nil {
			for _, el := range lit.Elts {
				if kv, ok := el.(*ast.KeyValueExpr); ok && exprString(kv.Key) == x.Sel.Name {
					return pe.provD(kv.Value, depth+1)
				}
			}
		}
		base := pe.provD(x.X, depth+1)
		// a field of a literal handed back by an inlined helper
		if v, ok := projectLiteral(base, x.Sel.Name); ok {
			return v
		}
		// nested request structs (CreatePromiseAndTask.Promise / .Task) stay distinguishable
		return base + "." + x.Sel.Name
	case *ast.Ident:
		obj := info.Uses[x]
		if obj == nil {
			obj = info.Defs[x]
		}
		v, ok := obj.(*types.Var)
		if !ok {
			return x.Name
		}
		t := v.Type()
		if namedPkgPath(t) == pkgTApi && strings.HasSuffix(namedName(t), "Request") {
			// a local naming a nested part of the request (r.CreatePromiseAndTask.Task) keeps its path
			if !pe.isParam(v) {
				if ds := pe.defs[obj]; len(ds) == 1 {
					if as, ok := ds[0].(*ast.AssignStmt); ok && len(as.Lhs) == len(as.Rhs) {
						for i, l := range as.Lhs {
							if id, ok := l.(*ast.Ident); ok && (info.Defs[id] == obj || info.Uses[id] == obj) {
								if _, isSel := ast.Unparen(as.Rhs[i]).(*ast.SelectorExpr); isSel {
									return pe.provD(as.Rhs[i], depth+1)
								}
							}
						}
					}
				}
			}
			return "req"
		}
		if isNamed(t, pkgSystem, "Config") {
			return "config"
		}
		if isRecordType(t) {
			return "rec"
		}
		if namedPkgPath(t) == pkgTAio && strings.HasSuffix(namedName(t), "Command") && pe.isParam(v) {
			return "cmd:" + strings.TrimSuffix(namedName(t), "Command")
		}
		if pe.isWritten(obj) {
			return "written"
		}
		defs := pe.defs[obj]
		var real []ast.Node
		for _, d := range defs {
			if vs, ok := d.(*ast.ValueSpec); ok && len(vs.Values) == 0 {
				continue
			}
			real = append(real, d)
		}
		if len(real) > 1 {
			if d := pe.reachingDef(real, x.Pos()); d != nil {
				real = []ast.Node{d}
			}
		}
		if len(real) == 1 {
			switch d := real[0].(type) {
			case *ast.AssignStmt:
				if len(d.Rhs) == 1 {
					// multi-value from a helper of the package with one value-carrying return
					if len(d.Lhs) > 1 {
						for i, l := range d.Lhs {
							if id, ok := l.(*ast.Ident); ok && (info.Defs[id] == obj || info.Uses[id] == obj) {
								if r, ok := pe.helperResultProv(d.Rhs[0], i, depth); ok {
									return r
								}
							}
						}
					}
					// multi-value: x, err := f()
					r := pe.provD(d.Rhs[0], depth+1)
					for i, l := range d.Lhs {
						if id, ok := l.(*ast.Ident); ok && (info.Defs[id] == obj || info.Uses[id] == obj) && i > 0 && len(d.Lhs) > 1 {
							if isErrorType(obj.Type()) {
								return "err(" + r + ")"
							}
							return fmt.Sprintf("#%d(%s)", i, r)
						}
					}
					return r
				}
				for i, l := range d.Lhs {
					if id, ok := l.(*ast.Ident); ok && (info.Defs[id] == obj || info.Uses[id] == obj) && i < len(d.Rhs) {
						return pe.provD(d.Rhs[i], depth+1)
					}
				}
			case *ast.ValueSpec:
				for i, id := range d.Names {
					if info.Defs[id] == obj && i < len(d.Values) {
						return pe.provD(d.Values[i], depth+1)
					}
				}
			case *ast.RangeStmt:
				if id, ok := d.Value.(*ast.Ident); ok && info.Defs[id] == obj {
					return "each(" + pe.provD(d.X, depth+1) + ")"
				}
				if id, ok := d.Key.(*ast.Ident); ok && info.Defs[id] == obj {
					return "index(" + pe.provD(d.X, depth+1) + ")"
				}
			}
		}
		if len(real) >= 2 && len(real) <= 3 && depth < 6 {
			var alts []string
			okAll := true
			for _, d := range real {
				as, ok := d.(*ast.AssignStmt)
				if !ok || len(as.Rhs) != 1 || len(as.Lhs) != 1 {
					okAll = false
					break
				}
				alts = append(alts, pe.provD(as.Rhs[0], depth+3))
			}
			if okAll {
				same := true
				for _, a := range alts {
					if a != alts[0] {
						same = false
					}
				}
				if same {
					return alts[0]
				}
				return "phi(" + strings.Join(alts, "|") + ")"
			}
		}
		if pe.isParam(v) {
			return "param:" + x.Name
		}
		return "var:" + x.Name
	case *ast.FuncLit:
		return "func"
	}
	return "?" + exprString(e)
}

// resolveLit: e is a composite literal (possibly behind &), or a variable (not handed to a helper)
// whose single definition is one.
func (pe *provEnv) resolveLit(e ast.Expr) *ast.CompositeLit {
	info := pe.pk.TypesInfo
	e = ast.Unparen(e)
	if u, ok := e.(*ast.UnaryExpr); ok && u.Op == token.AND {
		e = ast.Unparen(u.X)
	}
	if cl, ok := e.(*ast.CompositeLit); ok {
		return cl
	}
	if id, ok := e.(*ast.Ident); ok {
		obj := info.Uses[id]
		if obj == nil || pe.isWritten(obj) {
			return nil
		}
		var real []ast.Node
		for _, d := range pe.defs[obj] {
			if vs, ok := d.(*ast.ValueSpec); ok && len(vs.Values) == 0 {
				continue
			}
			real = append(real, d)
		}
		if len(real) > 1 {
			if d := pe.reachingDef(real, id.Pos()); d != nil {
				real = []ast.Node{d}
			}
		}
		if len(real) == 1 {
			if as, ok := real[0].(*ast.AssignStmt); ok && len(as.Rhs) == len(as.Lhs) {
				for i, l := range as.Lhs {
					if lid, ok := l.(*ast.Ident); ok && (info.Defs[lid] == obj || info.Uses[lid] == obj) {
						r := ast.Unparen(as.Rhs[i])
						if u, ok := r.(*ast.UnaryExpr); ok && u.Op == token.AND {
							r = ast.Unparen(u.X)
						}
						if cl, ok := r.(*ast.CompositeLit); ok {
							return cl
						}
					}
				}
			}
		}
	}
	return nil
}

// isWritten: the variable (a *t_aio.XCommand) is handed to a helper of this package that returns a
// coroutine (completePromise / createPromise): it is "the command that was written".
func (pe *provEnv) isWritten(obj types.Object) bool {
	v, ok := obj.(*types.Var)
	if !ok || pe.isParam(v) {
		return false
	}
	if namedPkgPath(v.Type()) != pkgTAio || !strings.HasSuffix(namedName(v.Type()), "Command") {
		return false
	}
	info := pe.pk.TypesInfo
	found := false
	ast.Inspect(pe.fd.Body, func(n ast.Node) bool {
		call, ok := n.(*ast.CallExpr)
		if !ok {
			return true
		}
		fn, ok := calleeOf(info, call).(*types.Func)
		if !ok || fn.Pkg() == nil || fn.Pkg().Path() != pe.pk.PkgPath {
			return true
		}
		sig := fn.Type().(*types.Signature)
		if sig.Results().Len() != 1 || namedName(sig.Results().At(0).Type()) != "CoroutineFunc" {
			return true
		}
		for _, a := range call.Args {
			if id, ok := ast.Unparen(a).(*ast.Ident); ok && info.Uses[id] == obj {
				found = true
			}
		}
		return true
	})
	return found
}

// reachingDef picks, among several assignments of a variable, the one that reaches a use at pos
// when that is decidable lexically: the latest assignment before pos whose enclosing blocks all
// enclose pos, provided no later assignment before pos sits in a block that does not enclose pos
// (a conditional re-assignment). Otherwise nil.
func (pe *provEnv) reachingDef(defs []ast.Node, pos token.Pos) ast.Node {
	encloses := func(d ast.Node) bool {
		for _, par := range pe.encl[d] {
			switch par.(type) {
			case *ast.BlockStmt, *ast.CaseClause, *ast.CommClause, *ast.IfStmt, *ast.ForStmt, *ast.RangeStmt, *ast.SwitchStmt, *ast.FuncLit:
				if !(par.Pos() <= pos && pos <= par.End()) {
					return false
				}
			}
		}
		return true
	}
	var best ast.Node
	for _, d := range defs {
		if d.Pos() >= pos {
			// an assignment after the use matters only inside a loop that also contains the use
			for _, par := range pe.encl[d] {
				switch par.(type) {
				case *ast.ForStmt, *ast.RangeStmt:
					if par.Pos() <= pos && pos <= par.End() {
						return nil
					}
				}
			}
			continue
		}
		if encloses(d) {
			if best == nil || d.Pos() > best.Pos() {
				best = d
			}
		}
	}
	if best == nil {
		return nil
	}
	for _, d := range defs {
		if d.Pos() > best.Pos() && d.Pos() < pos && !encloses(d) {
			return nil
		}
	}
	return best
}

func (pe *provEnv) isParam(v *types.Var) bool {
	sig := pe.pk.TypesInfo.Defs[pe.fd.Name].(*types.Func).Type().(*types.Signature)
	if sig.Recv() == v {
		return true
	}
	for i := 0; i < sig.Params().Len(); i++ {
		if sig.Params().At(i) == v {
			return true
		}
	}
	return false
}

// submissionDesc summarises a *t_aio.Submission literal: its kind and, for the store, the command
// kinds of its transaction.
func (pe *provEnv) submissionDesc(e ast.Expr) string {
	info := pe.pk.TypesInfo
	e = ast.Unparen(e)
	if u, ok := e.(*ast.UnaryExpr); ok {
		e = ast.Unparen(u.X)
	}
	if id, ok := e.(*ast.Ident); ok {
		if defs := pe.defs[info.Uses[id]]; len(defs) == 1 {
			if as, ok := defs[0].(*ast.AssignStmt); ok && len(as.Rhs) == 1 {
				return pe.submissionDesc(as.Rhs[0])
			}
		}
	}
	// built by a helper of the package (`storeSubmission(tags, commands...)`): the helper's literal,
	// with the command list taken from the call's arguments
	var helperCall *ast.CallExpr
	var helperSig *types.Signature
	if call, isCall := e.(*ast.CallExpr); isCall {
		if hl := helperLiteral(pe.pk, call); hl != nil && isNamed(info.Types[hl].Type, pkgTAio, "Submission") {
			if fn, ok := calleeOf(info, call).(*types.Func); ok {
				helperCall, helperSig = call, fn.Type().(*types.Signature)
				e = hl
			}
		}
	}
	cl, ok := e.(*ast.CompositeLit)
	if !ok {
		return "?"
	}
	kind := "?"
	var cmds string
	for _, el := range cl.Elts {
		kv, ok := el.(*ast.KeyValueExpr)
		if !ok {
			continue
		}
		switch exprString(kv.Key) {
		case "Kind":
			kind = pe.provD(kv.Value, 0)
		case "Store":
			if helperCall != nil {
				done := false
				ast.Inspect(kv.Value, func(n ast.Node) bool {
					ckv, ok := n.(*ast.KeyValueExpr)
					if !ok || exprString(ckv.Key) != "Commands" {
						return true
					}
					if pid, ok := ast.Unparen(ckv.Value).(*ast.Ident); ok {
						for i := 0; i < helperSig.Params().Len(); i++ {
							if helperSig.Params().At(i) != info.Uses[pid] {
								continue
							}
							var ks []string
							if helperSig.Variadic() && i == helperSig.Params().Len()-1 && !helperCall.Ellipsis.IsValid() {
								ks, _ = pe.commandKinds(&ast.CompositeLit{Elts: helperCall.Args[i:]})
							} else if i < len(helperCall.Args) {
								ks, _ = pe.commandKinds(helperCall.Args[i])
							}
							cmds = strings.Join(ks, "+")
							done = true
						}
					}
					return false
				})
				if done {
					continue
				}
			}
			ast.Inspect(kv.Value, func(n ast.Node) bool {
				if ckv, ok := n.(*ast.KeyValueExpr); ok && exprString(ckv.Key) == "Commands" {
					ks, _ := pe.commandKinds(ckv.Value)
					cmds = strings.Join(ks, "+")
					return false
				}
				return true
			})
		}
	}
	if cmds != "" {
		return kind + ":" + cmds
	}
	return kind
}

// commandKinds abstractly evaluates a []*t_aio.Command expression to the list of command kinds it
// holds: a literal list in order; a variable built by literal/append/make+index: the literal prefix
// in order, "*" for repeated or variadic parts. exact=false when something was not understood.
func (pe *provEnv) commandKinds(e ast.Expr) ([]string, bool) {
	info := pe.pk.TypesInfo
	e = ast.Unparen(e)
	kindOf := func(el ast.Expr) string {
		el = ast.Unparen(el)
		if u, ok := el.(*ast.UnaryExpr); ok {
			el = ast.Unparen(u.X)
		}
		if id, ok := el.(*ast.Ident); ok {
			// a *t_aio.Command variable: union of the kinds of its definitions
			var ks []string
			for _, d := range pe.defs[info.Uses[id]] {
				if as, ok := d.(*ast.AssignStmt); ok && len(as.Rhs) == 1 {
					r := ast.Unparen(as.Rhs[0])
					if u, ok := r.(*ast.UnaryExpr); ok {
						r = ast.Unparen(u.X)
					}
					if cl, ok := r.(*ast.CompositeLit); ok {
						for _, f := range cl.Elts {
							if kv, ok := f.(*ast.KeyValueExpr); ok && exprString(kv.Key) == "Kind" {
								ks = append(ks, pe.provD(kv.Value, 0))
							}
						}
					}
				}
			}
			if len(ks) > 0 {
				sort.Strings(ks) // a union: the textual order of the assignments is free
				return strings.Join(ks, "|")
			}
			return "?"
		}
		if cl, ok := el.(*ast.CompositeLit); ok {
			for _, f := range cl.Elts {
				if kv, ok := f.(*ast.KeyValueExpr); ok && exprString(kv.Key) == "Kind" {
					return pe.provD(kv.Value, 0)
				}
			}
		}
		return "?"
	}
	switch x := e.(type) {
	case *ast.CompositeLit:
		var out []string
		for _, el := range x.Elts {
			out = append(out, kindOf(el))
		}
		return out, true
	case *ast.Ident:
		obj := info.Uses[x]
		if v, ok := obj.(*types.Var); ok && pe.isParam(v) {
			return []string{"param*"}, true
		}
		var out []string
		exact := true
		for _, d := range pe.defs[obj] {
			as, ok := d.(*ast.AssignStmt)
			if !ok || len(as.Rhs) != 1 {
				if _, isVS := d.(*ast.ValueSpec); isVS {
					continue
				}
				exact = false
				continue
			}
			inLoop := false
			for _, par := range pe.encl[d] {
				switch par.(type) {
				case *ast.ForStmt, *ast.RangeStmt:
					inLoop = true
				}
			}
			r := ast.Unparen(as.Rhs[0])
			switch y := r.(type) {
			case *ast.CompositeLit:
				ks, _ := pe.commandKinds(y)
				out = append(out, ks...)
			case *ast.CallExpr:
				fn := exprString(y.Fun)
				switch {
				case fn == "append" && len(y.Args) >= 2:
					if y.Ellipsis.IsValid() {
						ks, _ := pe.commandKinds(y.Args[1])
						for _, k := range ks {
							out = append(out, strings.TrimSuffix(k, "*")+"*")
						}
					} else {
						for _, a := range y.Args[1:] {
							k := kindOf(a)
							if inLoop {
								k += "*"
							}
							out = append(out, k)
						}
					}
				case fn == "make":
				default:
					if ks, ok := pe.helperCommandKinds(y); ok {
						out = append(out, ks...)
					} else {
						exact = false
					}
				}
			default:
				exact = false
			}
		}
		// indexed assignments: commands[i] = &t_aio.Command{Kind: …}
		ast.Inspect(pe.fd.Body, func(n ast.Node) bool {
			as, ok := n.(*ast.AssignStmt)
			if !ok || len(as.Lhs) != 1 || len(as.Rhs) != 1 {
				return true
			}
			if ix, ok := as.Lhs[0].(*ast.IndexExpr); ok {
				if id, ok := ast.Unparen(ix.X).(*ast.Ident); ok && info.Uses[id] == obj {
					out = append(out, kindOf(as.Rhs[0])+"*")
				}
			}
			return true
		})
		return out, exact
	case *ast.CallExpr:
		if ks, ok := pe.helperCommandKinds(x); ok {
			return ks, true
		}
	}
	return []string{"?"}, false
}

// helperCommandKinds: the kinds of the command list a helper of the package builds and returns
// (its last statement returns the list; evaluated in the helper's own body).
func (pe *provEnv) helperCommandKinds(call *ast.CallExpr) ([]string, bool) {
	fn, ok := calleeOf(pe.pk.TypesInfo, call).(*types.Func)
	if !ok || fn.Pkg() != pe.pk.Types {
		return nil, false
	}
	fd := funcDeclOf(pe.pk, fn)
	if fd == nil || fd.Body == nil || fd == pe.fd || len(fd.Body.List) == 0 {
		return nil, false
	}
	last, ok := fd.Body.List[len(fd.Body.List)-1].(*ast.ReturnStmt)
	if !ok || len(last.Results) < 1 {
		return nil, false
	}
	nRet := 0
	ast.Inspect(fd.Body, func(n ast.Node) bool {
		if _, isLit := n.(*ast.FuncLit); isLit {
			return false
		}
		if _, isRet := n.(*ast.ReturnStmt); isRet {
			nRet++
		}
		return true
	})
	if nRet != 1 {
		return nil, false
	}
	inner := newProvEnv(pe.pk, fd)
	ks, exact := inner.commandKinds(last.Results[0])
	if !exact || len(ks) == 0 {
		return nil, false
	}
	for _, k := range ks {
		if strings.HasPrefix(k, "param") || strings.Contains(k, "?") {
			return nil, false
		}
	}
	return ks, true
}

func calleeNameOf(info *types.Info, call *ast.CallExpr) string {
	obj := calleeOf(info, call)
	if fn, ok := obj.(*types.Func); ok {
		if fn.Pkg() != nil && fn.Pkg().Path() != pkgCoroutines {
			sig := fn.Type().(*types.Signature)
			if sig.Recv() != nil {
				return namedName(sig.Recv().Type()) + "." + fn.Name()
			}
			return fn.Pkg().Name() + "." + fn.Name()
		}
		return fn.Name()
	}
	if obj != nil {
		return obj.Name()
	}
	return exprString(call.Fun)
}

// ---- command literals ----

type cmdLit struct {
	Type   string // UpdatePromiseCommand …
	Func   string
	Lit    *ast.CompositeLit
	Fields map[string]string // field -> provenance ("" when omitted)
	Pos    token.Pos
	Conds  []string // provenance of the if-conditions that enclose the literal ("!" prefixed for else branches)
}

func (m *coroModel) commandLits(typeName string) []*cmdLit {
	return m.structLits(pkgTAio, typeName)
}

// structLits lists the composite literals of type pkg.typeName in the coroutines package.
func (m *coroModel) structLits(pkg, typeName string) []*cmdLit {
	var out []*cmdLit
	info := m.Pk.TypesInfo
	for _, name := range m.Order {
		cf := m.Funcs[name]
		ast.Inspect(cf.Decl.Body, func(n ast.Node) bool {
			cl, ok := n.(*ast.CompositeLit)
			if !ok {
				return true
			}
			tv, ok := info.Types[cl]
			if !ok || !isNamed(tv.Type, pkg, typeName) {
				return true
			}
			l := &cmdLit{Type: typeName, Func: name, Lit: cl, Fields: map[string]string{}, Pos: cl.Pos()}
			for _, el := range cl.Elts {
				if kv, ok := el.(*ast.KeyValueExpr); ok {
					l.Fields[exprString(kv.Key)] = cf.Env.prov(kv.Value)
				}
			}
			l.Conds = cf.Env.enclosingConds(cf.Decl.Body, cl)
			l.Conds = append(l.Conds, m.flowConds(l, cf)...)
			for _, v := range m.patchedVariants(l, cf) {
				out = append(out, m.hoist(v, cf)...)
			}
			return true
		})
	}
	return out
}

// patchedVariants: a literal that is stored in a variable (directly, or as a member of a literal
// that is) and then completed by field assignments `v.path.F = x` is one object per way of
// completing it: assignments in the literal's own block change the literal itself; the assignments
// of a conditional block give a variant governed by that block's conditions (and the unpatched
// literal is then governed by the complement, when the block is a plain if / else branch).
func (m *coroModel) patchedVariants(l *cmdLit, cf *coroFunc) []*cmdLit {
	info := m.Pk.TypesInfo
	body := cf.Decl.Body
	chain := enclosing(body, l.Lit)
	// the statement that stores the literal and the access path of the literal from the variable
	var root types.Object
	var stmt ast.Stmt
	path := ""
	var inner ast.Node = l.Lit
	for i := len(chain) - 1; i >= 0; i-- {
		switch x := chain[i].(type) {
		case *ast.UnaryExpr, *ast.ParenExpr:
		case *ast.KeyValueExpr:
			if x.Value != inner && ast.Unparen(x.Value) != inner {
				return []*cmdLit{l}
			}
			path = "." + exprString(x.Key) + path
		case *ast.CompositeLit:
		case *ast.AssignStmt:
			if len(x.Lhs) != 1 || len(x.Rhs) != 1 {
				return []*cmdLit{l}
			}
			id, ok := x.Lhs[0].(*ast.Ident)
			if !ok {
				return []*cmdLit{l}
			}
			if root = info.Defs[id]; root == nil {
				root = info.Uses[id]
			}
			stmt = x
		default:
			if stmt == nil {
				return []*cmdLit{l}
			}
		}
		if stmt != nil {
			break
		}
		inner = chain[i]
	}
	if root == nil || stmt == nil {
		return []*cmdLit{l}
	}
	blockOf := func(n ast.Node) *ast.BlockStmt {
		ch := enclosing(body, n)
		for i := len(ch) - 1; i >= 0; i-- {
			if b, ok := ch[i].(*ast.BlockStmt); ok {
				return b
			}
		}
		return body
	}
	home := blockOf(stmt)
	type group struct {
		block  *ast.BlockStmt
		first  *ast.AssignStmt
		fields map[string]string
	}
	var groups []*group
	ast.Inspect(body, func(n ast.Node) bool {
		if _, isFn := n.(*ast.FuncLit); isFn {
			return false
		}
		as, ok := n.(*ast.AssignStmt)
		if !ok || as.Tok != token.ASSIGN || len(as.Lhs) != len(as.Rhs) || as.Pos() < stmt.End() {
			return true
		}
		for i, lh := range as.Lhs {
			se, ok := ast.Unparen(lh).(*ast.SelectorExpr)
			if !ok {
				continue
			}
			// se.X must be <root><path>
			base := ast.Unparen(se.X)
			var names []string
			for {
				if s2, ok := base.(*ast.SelectorExpr); ok {
					names = append([]string{s2.Sel.Name}, names...)
					base = ast.Unparen(s2.X)
					continue
				}
				break
			}
			rid, ok := base.(*ast.Ident)
			if !ok || info.Uses[rid] != root {
				continue
			}
			p := ""
			for _, nm := range names {
				p += "." + nm
			}
			if p != path {
				continue
			}
			if !containsNode(home, as) {
				continue // not reachable from the literal's statement without leaving its block
			}
			b := blockOf(as)
			var g *group
			for _, x := range groups {
				if x.block == b {
					g = x
				}
			}
			if g == nil {
				g = &group{block: b, first: as, fields: map[string]string{}}
				groups = append(groups, g)
			}
			g.fields[se.Sel.Name] = cf.Env.prov(as.Rhs[i])
		}
		return true
	})
	if len(groups) == 0 {
		return []*cmdLit{l}
	}
	out := []*cmdLit{l}
	for _, g := range groups {
		if g.block == home {
			for f, v := range g.fields {
				l.Fields[f] = v
			}
			continue
		}
		v := &cmdLit{Type: l.Type, Func: l.Func, Lit: l.Lit, Fields: map[string]string{}, Pos: g.first.Pos()}
		for f, x := range l.Fields {
			v.Fields[f] = x
		}
		for f, x := range g.fields {
			v.Fields[f] = x
		}
		v.Conds = cf.Env.enclosingConds(body, g.first)
		out = append(out, v)
		// the unpatched literal holds on the complement of a plain if / else branch of its own block
		ch := enclosing(body, g.first)
		for i := len(ch) - 1; i >= 0; i-- {
			if ifs, ok := ch[i].(*ast.IfStmt); ok {
				if blockOf(ifs) == home && ifs.Init == nil {
					if ifs.Body == g.block {
						l.Conds = append(l.Conds, cf.Env.condAtoms(ifs.Cond, true)...)
					} else if ifs.Else == ast.Stmt(g.block) {
						l.Conds = append(l.Conds, cf.Env.condAtoms(ifs.Cond, false)...)
					}
				}
				break
			}
		}
	}
	return out
}

// hoist: a literal built inside a plain value-returning helper (not a coroutine, not registered,
// called from other functions of the package) is attributed to each of its call sites: it is
// governed by the conditions that govern the call, it runs in the caller's role, and the helper's
// parameters stand for the caller's arguments.
func (m *coroModel) hoist(l *cmdLit, cf *coroFunc) []*cmdLit {
	if cf.Lit != nil || len(m.roleOf(cf.Name)) > 0 {
		return []*cmdLit{l}
	}
	obj, _ := m.Pk.TypesInfo.Defs[cf.Decl.Name].(*types.Func)
	if obj == nil {
		return []*cmdLit{l}
	}
	sig := obj.Type().(*types.Signature)
	if sig.Recv() != nil || sig.Variadic() || sig.Results().Len() == 0 {
		return []*cmdLit{l}
	}
	takesCoroutine := false
	for i := 0; i < sig.Params().Len(); i++ {
		if isCoroutineType(sig.Params().At(i).Type()) {
			takesCoroutine = true
		}
	}
	if takesCoroutine {
		// a step of ONE coroutine that was moved into a function of its own: attributed to its single
		// call site; helpers shared by several coroutines keep their own literals
		sites := 0
		for _, name := range m.Order {
			if m.Funcs[name] == cf {
				continue
			}
			for _, call := range callsInDeep(m.Funcs[name].Decl.Body) {
				if calleeOf(m.Pk.TypesInfo, call) == types.Object(obj) {
					sites++
				}
			}
		}
		if sites != 1 {
			return []*cmdLit{l}
		}
	}
	for i := 0; i < sig.Results().Len(); i++ {
		if namedName(sig.Results().At(i).Type()) == "CoroutineFunc" {
			return []*cmdLit{l}
		}
	}
	var out []*cmdLit
	for _, name := range m.Order {
		caller := m.Funcs[name]
		if caller == cf {
			continue
		}
		for _, call := range callsInDeep(caller.Decl.Body) {
			if calleeOf(m.Pk.TypesInfo, call) != types.Object(obj) || len(call.Args) != sig.Params().Len() {
				continue
			}
			subst := func(v string) string {
				for i := 0; i < sig.Params().Len(); i++ {
					// a command-typed parameter is rendered by its role (cmd:X) inside the helper
					if pt := sig.Params().At(i).Type(); namedPkgPath(pt) == pkgTAio && strings.HasSuffix(namedName(pt), "Command") {
						role := "cmd:" + strings.TrimSuffix(namedName(pt), "Command")
						if strings.Contains(v, role) {
							re := regexp.MustCompile(regexp.QuoteMeta(role) + `\b`)
							v = re.ReplaceAllLiteralString(v, caller.Env.prov(call.Args[i]))
						}
						continue
					}
					pn := sig.Params().At(i).Name()
					if pn == "" || pn == "_" || !strings.Contains(v, "param:"+pn) {
						continue
					}
					re := regexp.MustCompile(`param:` + regexp.QuoteMeta(pn) + `\b`)
					v = re.ReplaceAllLiteralString(v, caller.Env.prov(call.Args[i]))
				}
				return projectLiterals(v)
			}
			h := &cmdLit{Type: l.Type, Func: name, Lit: l.Lit, Fields: map[string]string{}, Pos: l.Pos}
			for f, v := range l.Fields {
				h.Fields[f] = subst(v)
			}
			h.Conds = append(h.Conds, caller.Env.enclosingConds(caller.Decl.Body, call)...)
			for _, a := range l.Conds {
				h.Conds = append(h.Conds, subst(a))
			}
			out = append(out, h)
		}
	}
	if len(out) == 0 {
		return []*cmdLit{l}
	}
	return out
}

// patches groups the field assignments `x.F = v` on variables of type *pkg.typeName per function
// into one pseudo-literal (the object a response is patched with).
func (m *coroModel) patches(pkg, typeName string) []*cmdLit {
	var out []*cmdLit
	info := m.Pk.TypesInfo
	for _, name := range m.Order {
		cf := m.Funcs[name]
		var l *cmdLit
		ast.Inspect(cf.Decl.Body, func(n ast.Node) bool {
			as, ok := n.(*ast.AssignStmt)
			if !ok || len(as.Lhs) != 1 || len(as.Rhs) != 1 || as.Tok != token.ASSIGN {
				return true
			}
			se, ok := as.Lhs[0].(*ast.SelectorExpr)
			if !ok {
				return true
			}
			tv, ok := info.Types[se.X]
			if !ok || !isNamed(tv.Type, pkg, typeName) {
				return true
			}
			if l == nil {
				l = &cmdLit{Type: typeName + ".patch", Func: name, Fields: map[string]string{}, Pos: as.Pos()}
				l.Conds = cf.Env.enclosingConds(cf.Decl.Body, as)
			}
			f := se.Sel.Name
			v := cf.Env.prov(as.Rhs[0])
			if old, dup := l.Fields[f]; dup && old != v {
				v = old + " / " + v
			}
			l.Fields[f] = v
			return true
		})
		if l != nil {
			out = append(out, l)
		}
	}
	return out
}

// inlineHelper: a call to a package-level function of the analysed package whose body is a single
// `return <expr>` is described by that expression with the arguments substituted for the
// parameters, so that the description does not depend on the helper's name.
func (pe *provEnv) inlineHelper(call *ast.CallExpr, depth int) (string, bool) {
	fn, ok := calleeOf(pe.pk.TypesInfo, call).(*types.Func)
	if !ok || fn.Pkg() != pe.pk.Types {
		return "", false
	}
	sig := fn.Type().(*types.Signature)
	if sig.Recv() != nil || sig.Variadic() || sig.Results().Len() != 1 || sig.Params().Len() != len(call.Args) {
		return "", false
	}
	fd := funcDeclOf(pe.pk, fn)
	if fd == nil || fd.Body == nil || len(fd.Body.List) != 1 || fd == pe.fd {
		return "", false
	}
	ret, ok := fd.Body.List[0].(*ast.ReturnStmt)
	if !ok || len(ret.Results) != 1 {
		return "", false
	}
	inner := newProvEnv(pe.pk, fd)
	body := inner.provD(ret.Results[0], depth+1)
	for i := 0; i < sig.Params().Len(); i++ {
		if pt := sig.Params().At(i).Type(); namedPkgPath(pt) == pkgTAio && strings.HasSuffix(namedName(pt), "Command") {
			// rendered by its role inside the helper
			role := "cmd:" + strings.TrimSuffix(namedName(pt), "Command")
			if strings.Contains(body, role) {
				re := regexp.MustCompile(regexp.QuoteMeta(role) + `\b`)
				body = re.ReplaceAllLiteralString(body, pe.provD(call.Args[i], depth+1))
			}
			continue
		}
		pn := sig.Params().At(i).Name()
		if pn == "" || pn == "_" {
			continue
		}
		re := regexp.MustCompile(`param:` + regexp.QuoteMeta(pn) + `\b`)
		arg := pe.provD(call.Args[i], depth+1)
		body = re.ReplaceAllLiteralString(body, arg)
	}
	return body, true
}

// helperResultProv: result k of a call to a function of the package whose last statement is its
// only value-carrying return (other returns are error exits): the provenance of that returned
// expression in the helper, with the helper's parameters replaced by the caller's arguments.
func (pe *provEnv) helperResultProv(e ast.Expr, k int, depth int) (string, bool) {
	call, ok := ast.Unparen(e).(*ast.CallExpr)
	if !ok || depth > 8 {
		return "", false
	}
	fn, ok := calleeOf(pe.pk.TypesInfo, call).(*types.Func)
	if !ok || fn.Pkg() != pe.pk.Types {
		return "", false
	}
	sig := fn.Type().(*types.Signature)
	if sig.Variadic() || sig.Params().Len() != len(call.Args) || k >= sig.Results().Len() || isErrorType(sig.Results().At(k).Type()) {
		return "", false
	}
	if namedName(sig.Results().At(0).Type()) == "CoroutineFunc" {
		return "", false
	}
	fd := funcDeclOf(pe.pk, fn)
	if fd == nil || fd.Body == nil || fd == pe.fd || len(fd.Body.List) == 0 {
		return "", false
	}
	last, ok := fd.Body.List[len(fd.Body.List)-1].(*ast.ReturnStmt)
	if !ok || len(last.Results) != sig.Results().Len() {
		return "", false
	}
	okShape := true
	ast.Inspect(fd.Body, func(n ast.Node) bool {
		if _, isLit := n.(*ast.FuncLit); isLit {
			return false
		}
		rs, isRet := n.(*ast.ReturnStmt)
		if !isRet || rs == last {
			return true
		}
		errExit := false
		if len(rs.Results) == sig.Results().Len() {
			for j, r := range rs.Results {
				if isErrorType(sig.Results().At(j).Type()) {
					if id, isId := ast.Unparen(r).(*ast.Ident); !isId || id.Name != "nil" {
						errExit = true
					}
				}
				// the comma-ok form: (nil, false) is the failure exit of a helper that ends in (v, true)
				if b, isB := sig.Results().At(j).Type().Underlying().(*types.Basic); isB && b.Kind() == types.Bool && j == sig.Results().Len()-1 {
					if exprString(ast.Unparen(r)) == "false" && exprString(ast.Unparen(last.Results[j])) == "true" {
						errExit = true
					}
				}
			}
		}
		if !errExit {
			okShape = false
		}
		return true
	})
	if !okShape {
		return "", false
	}
	// only values the helper hands through (a variable, a field): a computed result keeps the call
	switch ast.Unparen(last.Results[k]).(type) {
	case *ast.Ident, *ast.SelectorExpr:
	default:
		return "", false
	}
	inner := newProvEnv(pe.pk, fd)
	body := inner.provD(last.Results[k], depth+1)
	for i := 0; i < sig.Params().Len(); i++ {
		pn := sig.Params().At(i).Name()
		if pn == "" || pn == "_" || !strings.Contains(body, "param:"+pn) {
			continue
		}
		re := regexp.MustCompile(`param:` + regexp.QuoteMeta(pn) + `\b`)
		body = re.ReplaceAllLiteralString(body, pe.provD(call.Args[i], depth+1))
	}
	return body, true
}

// projectLiteral: field f of a provenance that is itself a keyed literal `&T{a:x,b:y}`.
func projectLiteral(base, f string) (string, bool) {
	b := strings.TrimPrefix(base, "&")
	i := strings.Index(b, "{")
	if i <= 0 || !strings.HasSuffix(b, "}") || strings.ContainsAny(b[:i], "( ,") {
		return "", false
	}
	for _, part := range splitTopLevel(b[i+1 : len(b)-1]) {
		if strings.HasPrefix(part, f+":") {
			return part[len(f)+1:], true
		}
	}
	return "", false
}

func funcDeclOf(pk *packages.Package, fn *types.Func) *ast.FuncDecl {
	for _, f := range pk.Syntax {
		for _, d := range f.Decls {
			if fd, ok := d.(*ast.FuncDecl); ok && pk.TypesInfo.Defs[fd.Name] == fn {
				return fd
			}
		}
	}
	return nil
}

// condAtoms decomposes a condition into canonical atoms: conjunctions split, negations pushed in
// (De Morgan over ||, flipped comparison operators), comparisons written with < and <=.
func (pe *provEnv) condAtoms(e ast.Expr, neg bool) []string {
	e = ast.Unparen(e)
	switch x := e.(type) {
	case *ast.UnaryExpr:
		if x.Op == token.NOT {
			return pe.condAtoms(x.X, !neg)
		}
	case *ast.BinaryExpr:
		switch x.Op {
		case token.LAND:
			if !neg {
				return append(pe.condAtoms(x.X, false), pe.condAtoms(x.Y, false)...)
			}
			return []string{"!(" + strings.Join(append(pe.condAtoms(x.X, false), pe.condAtoms(x.Y, false)...), " && ") + ")"}
		case token.LOR:
			if neg {
				return append(pe.condAtoms(x.X, true), pe.condAtoms(x.Y, true)...)
			}
			return []string{"(" + strings.Join(append(pe.condAtoms(x.X, false), pe.condAtoms(x.Y, false)...), " || ") + ")"}
		case token.EQL, token.NEQ, token.LSS, token.LEQ, token.GTR, token.GEQ:
			if x.Op == token.EQL || x.Op == token.NEQ {
				if ents, k, eq, ok := pe.comparisonPartition(x); ok {
					if as, ok := partitionAtoms(ents, k, eq != neg); ok {
						return as
					}
				}
			}
			op := x.Op
			if neg {
				op = map[token.Token]token.Token{token.EQL: token.NEQ, token.NEQ: token.EQL, token.LSS: token.GEQ, token.GEQ: token.LSS, token.LEQ: token.GTR, token.GTR: token.LEQ}[op]
			}
			l, r := pe.prov(x.X), pe.prov(x.Y)
			switch op {
			case token.GTR:
				l, r, op = r, l, token.LSS
			case token.GEQ:
				l, r, op = r, l, token.LEQ
			}
			return []string{"(" + l + " " + op.String() + " " + r + ")"}
		}
	}
	if ents, k, eq, ok := pe.comparisonPartition(e); ok {
		if as, ok := partitionAtoms(ents, k, eq != neg); ok {
			return as
		}
	}
	p := pe.prov(e)
	if neg {
		return []string{"!" + p}
	}
	return []string{p}
}

// enclosingConds returns the provenance of every if-condition that governs node ("!" + cond when
// the node is in the else branch).
func (pe *provEnv) enclosingConds(root ast.Node, node ast.Node) []string {
	return pe.governingConds(root, node, true)
}

// enclosingCondsStrict is enclosingConds without the early-exit guards (for rules that compare the
// condition list as a whole).
func (pe *provEnv) enclosingCondsStrict(root ast.Node, node ast.Node) []string {
	return pe.governingConds(root, node, false)
}

// terminates reports whether a statement list always leaves the enclosing statement list
// (return, continue, break, goto, panic as its last statement).
func terminates(list []ast.Stmt) bool {
	if len(list) == 0 {
		return false
	}
	switch s := list[len(list)-1].(type) {
	case *ast.ReturnStmt:
		return true
	case *ast.BranchStmt:
		return s.Tok == token.CONTINUE || s.Tok == token.BREAK || s.Tok == token.GOTO
	case *ast.ExprStmt:
		if call, ok := s.X.(*ast.CallExpr); ok {
			if id, ok := call.Fun.(*ast.Ident); ok && id.Name == "panic" {
				return true
			}
		}
	case *ast.BlockStmt:
		return terminates(s.List)
	case *ast.IfStmt:
		if s.Else == nil {
			return false
		}
		eb, ok := s.Else.(*ast.BlockStmt)
		if !ok {
			return terminates(s.Body.List) && terminates([]ast.Stmt{s.Else})
		}
		return terminates(s.Body.List) && terminates(eb.List)
	}
	return false
}

// earlyExitGuards: for a statement list containing the statement `at`, the negated conditions of
// the earlier `if cond { ...; return/continue/break/panic }` statements (no else): control reaches
// `at` only when cond was false. A guard is dropped when a variable it mentions is assigned between
// the guard and `at`.
func (pe *provEnv) earlyExitGuards(list []ast.Stmt, at ast.Node) []string {
	var out []string
	idx := -1
	for i, s := range list {
		if ast.Node(s) == at {
			idx = i
		}
	}
	for i := 0; i < idx; i++ {
		// an assertion that was passed is a fact for what follows (a failed one does not return)
		if es, ok := list[i].(*ast.ExprStmt); ok {
			if call, ok := es.X.(*ast.CallExpr); ok && len(call.Args) >= 1 {
				if fn, ok := calleeOf(pe.pk.TypesInfo, call).(*types.Func); ok && fn.Pkg() != nil && fn.Pkg().Path() == pkgUtil && fn.Name() == "Assert" && !pe.noAssertFacts {
					out = append(out, pe.condAtoms(call.Args[0], false)...)
				}
			}
			continue
		}
		ifs, ok := list[i].(*ast.IfStmt)
		if !ok || ifs.Else != nil || !terminates(ifs.Body.List) {
			continue
		}
		// variables of the condition
		objs := map[types.Object]bool{}
		ast.Inspect(ifs.Cond, func(n ast.Node) bool {
			if id, ok := n.(*ast.Ident); ok {
				if v, ok := pe.pk.TypesInfo.Uses[id].(*types.Var); ok && !v.IsField() {
					objs[v] = true
				}
			}
			return true
		})
		if ifs.Init != nil {
			// `if v := lookup(x); v != nil { return v }`: the scoped variable stands for the looked-up
			// value; scoped errors (`if err := f(); err != nil`) stay out of the governing conditions
			as, ok := ifs.Init.(*ast.AssignStmt)
			if !ok || as.Tok != token.DEFINE || len(as.Lhs) != 1 || len(as.Rhs) != 1 {
				continue
			}
			id, ok := as.Lhs[0].(*ast.Ident)
			if !ok {
				continue
			}
			if o := pe.pk.TypesInfo.Defs[id]; o == nil || isErrorType(o.Type()) {
				continue
			}
			if _, isCall := ast.Unparen(as.Rhs[0]).(*ast.CallExpr); isCall {
				continue
			}
		}
		reassigned := false
		for j := i + 1; j < idx; j++ {
			ast.Inspect(list[j], func(n ast.Node) bool {
				switch x := n.(type) {
				case *ast.AssignStmt:
					for _, l := range x.Lhs {
						if id, ok := ast.Unparen(l).(*ast.Ident); ok {
							if o := pe.pk.TypesInfo.Uses[id]; o != nil && objs[o] {
								reassigned = true
							}
							if o := pe.pk.TypesInfo.Defs[id]; o != nil && objs[o] {
								reassigned = true
							}
						}
					}
				case *ast.IncDecStmt:
					if id, ok := ast.Unparen(x.X).(*ast.Ident); ok && objs[pe.pk.TypesInfo.Uses[id]] {
						reassigned = true
					}
				case *ast.UnaryExpr:
					if x.Op == token.AND {
						if id, ok := ast.Unparen(x.X).(*ast.Ident); ok && objs[pe.pk.TypesInfo.Uses[id]] {
							reassigned = true
						}
					}
				}
				return true
			})
		}
		if reassigned {
			continue
		}
		out = append(out, pe.condAtoms(ifs.Cond, true)...)
	}
	return out
}

func (pe *provEnv) governingConds(root ast.Node, node ast.Node, guards bool) []string {
	var out []string
	chain := enclosing(root, node)
	chain = append(chain, node)
	for i, n := range chain {
		if i+1 >= len(chain) {
			continue
		}
		if guards {
			switch b := n.(type) {
			case *ast.BlockStmt:
				out = append(out, pe.earlyExitGuards(b.List, chain[i+1])...)
			case *ast.CaseClause:
				out = append(out, pe.earlyExitGuards(b.Body, chain[i+1])...)
			case *ast.CommClause:
				out = append(out, pe.earlyExitGuards(b.Body, chain[i+1])...)
			}
		}
		// switch statements: a case clause is governed by its own condition and by the negation of
		// the cases before it (tagless), or by tag == value (tagged; several values: a disjunction)
		if sw, ok := n.(*ast.SwitchStmt); ok && i+2 < len(chain) {
			if cc, ok := chain[i+2].(*ast.CaseClause); ok {
				for _, st := range sw.Body.List {
					other := st.(*ast.CaseClause)
					if other == cc {
						break
					}
					for _, e := range other.List {
						if sw.Tag == nil {
							out = append(out, pe.condAtoms(e, true)...)
						} else {
							out = append(out, pe.condAtoms(&ast.BinaryExpr{X: sw.Tag, Op: token.EQL, Y: e}, true)...)
						}
					}
				}
				switch {
				case len(cc.List) == 1 && sw.Tag == nil:
					out = append(out, pe.condAtoms(cc.List[0], false)...)
				case len(cc.List) == 1:
					out = append(out, pe.condAtoms(&ast.BinaryExpr{X: sw.Tag, Op: token.EQL, Y: cc.List[0]}, false)...)
				case len(cc.List) > 1:
					var alts []string
					for _, e := range cc.List {
						if sw.Tag == nil {
							alts = append(alts, strings.Join(pe.condAtoms(e, false), " && "))
						} else {
							alts = append(alts, strings.Join(pe.condAtoms(&ast.BinaryExpr{X: sw.Tag, Op: token.EQL, Y: e}, false), " && "))
						}
					}
					out = append(out, "("+strings.Join(alts, " || ")+")")
				}
			}
			continue
		}
		ifs, ok := n.(*ast.IfStmt)
		if !ok {
			continue
		}
		next := chain[i+1]
		switch {
		case next == ast.Node(ifs.Body):
			out = append(out, pe.condAtoms(ifs.Cond, false)...)
		case ifs.Else != nil && next == ast.Node(ifs.Else):
			out = append(out, pe.condAtoms(ifs.Cond, true)...)
		}
	}
	return out
}

// tableRows: for a call whose arguments are fields of the value variable of a range over a slice
// literal of struct literals (a registration table), the argument lists the call receives, one per
// row of the table.
func tableRows(pk *packages.Package, fd *ast.FuncDecl, call *ast.CallExpr) [][]ast.Expr {
	info := pk.TypesInfo
	var rangeVar types.Object
	var fields []string
	for _, a := range call.Args {
		se, ok := ast.Unparen(a).(*ast.SelectorExpr)
		if !ok {
			return nil
		}
		id, ok := ast.Unparen(se.X).(*ast.Ident)
		if !ok {
			return nil
		}
		o := info.Uses[id]
		if rangeVar != nil && o != rangeVar {
			return nil
		}
		rangeVar = o
		fields = append(fields, se.Sel.Name)
	}
	if rangeVar == nil {
		return nil
	}
	var rs *ast.RangeStmt
	for _, a := range enclosing(fd.Body, call) {
		if r, ok := a.(*ast.RangeStmt); ok {
			if vid, ok := r.Value.(*ast.Ident); ok && info.Defs[vid] == rangeVar {
				rs = r
			}
		}
	}
	if rs == nil {
		return nil
	}
	// the ranged table: a variable initialised by a composite literal (package level or local)
	tid, ok := ast.Unparen(rs.X).(*ast.Ident)
	if !ok {
		return nil
	}
	tobj := info.Uses[tid]
	var lit *ast.CompositeLit
	for _, f := range pk.Syntax {
		ast.Inspect(f, func(n ast.Node) bool {
			switch x := n.(type) {
			case *ast.ValueSpec:
				for i, nm := range x.Names {
					if info.Defs[nm] == tobj && i < len(x.Values) {
						lit, _ = ast.Unparen(x.Values[i]).(*ast.CompositeLit)
					}
				}
			case *ast.AssignStmt:
				for i, l := range x.Lhs {
					if lid, ok := l.(*ast.Ident); ok && info.Defs[lid] == tobj && i < len(x.Rhs) {
						lit, _ = ast.Unparen(x.Rhs[i]).(*ast.CompositeLit)
					}
				}
			}
			return true
		})
	}
	if lit == nil {
		return nil
	}
	// element struct type: field name -> position
	var st *types.Struct
	if sl, ok := info.Types[lit].Type.Underlying().(*types.Slice); ok {
		st, _ = sl.Elem().Underlying().(*types.Struct)
	}
	if st == nil {
		return nil
	}
	pos := map[string]int{}
	for i := 0; i < st.NumFields(); i++ {
		pos[st.Field(i).Name()] = i
	}
	var out [][]ast.Expr
	for _, el := range lit.Elts {
		row, ok := ast.Unparen(el).(*ast.CompositeLit)
		if !ok {
			return nil
		}
		vals := map[string]ast.Expr{}
		for i, e := range row.Elts {
			if kv, ok := e.(*ast.KeyValueExpr); ok {
				vals[exprString(kv.Key)] = kv.Value
			} else if i < st.NumFields() {
				vals[st.Field(i).Name()] = e
			}
		}
		var args []ast.Expr
		for _, f := range fields {
			v, ok := vals[f]
			if !ok {
				return nil
			}
			args = append(args, v)
		}
		out = append(out, args)
	}
	return out
}

// flowConds: an object built once into a local (`sub := &callback.Callback{…}`) and handed on as a
// whole at a single place (`cb = sub` under `rows == 1`, `Callback: sub`) is governed by the
// conditions of that place as well: that is where it becomes part of a command or a response.
func (m *coroModel) flowConds(l *cmdLit, cf *coroFunc) []string {
	info := m.Pk.TypesInfo
	body := cf.Decl.Body
	chain := enclosing(body, l.Lit)
	var holder types.Object
	for i := len(chain) - 1; i >= 0; i-- {
		switch x := chain[i].(type) {
		case *ast.UnaryExpr, *ast.ParenExpr:
			continue
		case *ast.AssignStmt:
			if len(x.Lhs) == 1 && len(x.Rhs) == 1 {
				if id, ok := x.Lhs[0].(*ast.Ident); ok {
					if holder = info.Defs[id]; holder == nil {
						holder = info.Uses[id]
					}
				}
			}
		}
		break
	}
	if holder == nil {
		return nil
	}
	var sites []ast.Node
	ast.Inspect(body, func(n ast.Node) bool {
		switch x := n.(type) {
		case *ast.AssignStmt:
			for i, r := range x.Rhs {
				if isObj(info, r, holder) && i < len(x.Lhs) && !isObj(info, x.Lhs[i], holder) {
					sites = append(sites, x)
				}
			}
		case *ast.KeyValueExpr:
			if isObj(info, x.Value, holder) {
				sites = append(sites, x)
			}
		}
		return true
	})
	if len(sites) != 1 {
		return nil
	}
	return cf.Env.enclosingConds(body, sites[0])
}

// projectLiterals rewrites `T{a:x,b:y}.a` into `x` (and a field the literal leaves out into "-",
// the unset marker): after a helper's struct-typed parameter was replaced by the literal the
// caller passes, a field read of the parameter is the corresponding element.
func projectLiterals(v string) string {
	for guard := 0; guard < 32; guard++ {
		k := strings.Index(v, "}.")
		if k < 0 {
			return v
		}
		// find the matching "{" and the start of the type name
		depth, open := 0, -1
		for i := k; i >= 0; i-- {
			if v[i] == '}' {
				depth++
			} else if v[i] == '{' {
				depth--
				if depth == 0 {
					open = i
					break
				}
			}
		}
		if open < 0 {
			return v
		}
		start := open
		for start > 0 && (isIdentByte(v[start-1]) || v[start-1] == '.' || v[start-1] == '&') {
			start--
		}
		end := k + 2
		for end < len(v) && isIdentByte(v[end]) {
			end++
		}
		field := v[k+2 : end]
		if field == "" || start == open {
			// not a named literal followed by a field: leave this occurrence alone
			rest := projectLiterals(v[k+2:])
			return v[:k+2] + rest
		}
		val := "-"
		for _, el := range splitTopLevel(v[open+1 : k]) {
			if i := strings.Index(el, ":"); i > 0 && strings.TrimSpace(el[:i]) == field {
				val = strings.TrimSpace(el[i+1:])
			}
		}
		v = v[:start] + val + v[end:]
	}
	return v
}

func isIdentByte(b byte) bool {
	return b == '_' || b >= '0' && b <= '9' || b >= 'a' && b <= 'z' || b >= 'A' && b <= 'Z'
}
