package main

import (
	"fmt"
	"go/ast"
	"go/token"
	"go/types"
	"golang.org/x/tools/go/packages"
	"sort"
	"strings"
)

// mustCallEntry: in function (Pkg, Recv, Func) every normal exit (return / end of body) is reached
// only after each of Calls has been executed on the path (a deferred call counts from its defer
// statement on). A call is named by the suffix of its callee expression ("scheduler.RunUntilBlocked",
// "close(.sq)" for the builtin close on a field, "go .Start" for a go statement, "= true:.done" for
// an assignment). Order lists pairs that must occur in that textual order.
type mustCallEntry struct {
	Pkg, Recv, Func string
	Calls           []string
	Order           [][2]string
	Why             string
	// Exists: the effects only have to be present in the body outside any if/switch (they sit in a
	// loop over a collection that may be empty, so no path argument applies)
	Exists bool
}

var mustCallTable = []mustCallEntry{
	{Pkg: pkgSystem, Recv: "System", Func: "Tick", Calls: []string{"aio.DequeueCQE", "api.DequeueSQE", "scheduler.RunUntilBlocked", "aio.Flush"},
		Order: [][2]string{{"api.DequeueSQE", "scheduler.RunUntilBlocked"}, {"scheduler.RunUntilBlocked", "aio.Flush"}},
		Why:   "C11/C12: every tick takes the completions and the accepted requests out of the hand-over buffers and queues (Done() does not look into the buffers), runs the scheduler and then flushes the submissions the coroutines yielded to the subsystems"},
	{Pkg: pkgSystem, Recv: "System", Func: "Loop", Calls: []string{"aio.Shutdown", "scheduler.Shutdown", "close(.shutdown)"},
		Why: "C12: when the loop ends the subsystems are shut down and the waiters on the shutdown channel are released"},
	{Pkg: pkgSystem, Recv: "System", Func: "Shutdown", Calls: []string{"api.Shutdown", "close(.shortCircuit)"}, Order: [][2]string{{"api.Shutdown", "close(.shortCircuit)"}},
		Why: "C12: a shutdown request first stops admission, then wakes the loop"},
	{Pkg: pkgIApi, Recv: "api", Func: "Stop", Calls: []string{"close(.sq)"}, Why: "C12: stopping the API closes its submission queue"},
	{Pkg: pkgIAio, Recv: "aio", Func: "Stop", Calls: []string{"close(.cq)"}, Why: "C12: stopping the AIO closes its completion queue"},
	{Pkg: pkgIApi, Recv: "api", Func: "Start", Calls: []string{"go .Start"}, Exists: true, Why: "C12: every API subsystem is started on its own goroutine"},
	{Pkg: pkgIAio, Recv: "aio", Func: "Start", Calls: []string{".Start"}, Exists: true, Why: "C11: every AIO subsystem is started"},
	{Pkg: pkgRouter, Recv: "Router", Func: "Stop", Calls: []string{"close(.sq)"}, Why: "C12: stopping a subsystem closes its queue so that its workers drain and exit"},
	{Pkg: pkgSender, Recv: "Sender", Func: "Stop", Calls: []string{"close(.sq)"}, Why: "C12: stopping a subsystem closes its queue so that its workers drain and exit"},
	{Pkg: pkgEcho, Recv: "Echo", Func: "Stop", Calls: []string{"close(.sq)"}, Why: "C12: stopping a subsystem closes its queue so that its workers drain and exit"},
	{Pkg: pkgSqlite, Recv: "SqliteStore", Func: "Stop", Calls: []string{"close(.sq)", "db.Close"}, Order: [][2]string{{"close(.sq)", "db.Close"}}, Why: "C06/C12: the store stops taking work, then closes the database"},
	{Pkg: pkgPostgres, Recv: "PostgresStore", Func: "Stop", Calls: []string{"close(.sq)", "db.Close"}, Order: [][2]string{{"close(.sq)", "db.Close"}}, Why: "C06/C12: the store stops taking work, then closes the database"},
	{Pkg: pkgRouter, Recv: "Router", Func: "Start", Calls: []string{"go .Start"}, Exists: true, Why: "C11: the workers are started"},
	{Pkg: pkgSender, Recv: "Sender", Func: "Start", Calls: []string{"go .Start"}, Exists: true, Why: "C11: the worker is started"},
	{Pkg: pkgEcho, Recv: "Echo", Func: "Start", Calls: []string{"go .Start"}, Exists: true, Why: "C11: the workers are started"},
	{Pkg: pkgSqlite, Recv: "SqliteStore", Func: "Start", Calls: []string{"go .Start"}, Exists: true, Why: "C11: the worker is started"},
	{Pkg: pkgPostgres, Recv: "PostgresStore", Func: "Start", Calls: []string{"go .Start"}, Exists: true, Why: "C11: the workers are started"},
	{Pkg: pkgSqlite, Recv: "SqliteStore", Func: "Flush", Calls: []string{"worker.Flush"}, Why: "C11/C12: the tick's flush reaches the store worker, which otherwise waits for a full batch"},
	{Pkg: pkgPostgres, Recv: "PostgresStore", Func: "Flush", Calls: []string{"worker.Flush"}, Exists: true, Why: "C11/C12: the tick's flush reaches every store worker, which otherwise waits for a full batch"},
	{Pkg: pkgIAio, Recv: "aio", Func: "Flush", Calls: []string{"subsystem.Flush"}, Exists: true, Why: "C11/C12: the tick's flush reaches every subsystem"},
	{Pkg: pkgHttpPlugin, Recv: "Http", Func: "Stop", Calls: []string{"close(.sq)"}, Why: "C12: stopping a plugin closes its queue so that its workers drain and exit"},
	{Pkg: pkgPoll, Recv: "Poll", Func: "Stop", Calls: []string{"close(.sq)", "close(.connect)", "close(.disconnect)", "server.Stop"}, Why: "C18: stopping the poll transport closes its queue and, once the server stopped, the connection channels"},
	{Pkg: pkgGrpc, Recv: "Grpc", Func: "Stop", Calls: []string{"server.GracefulStop"}, Why: "C12: in-flight gRPC requests are answered before the subsystem stops"},
	{Pkg: pkgSystem, Recv: "System", Func: "AddBackground", Calls: []string{"= append:.background"}, Why: "C11: a registered background coroutine is kept"},
	{Pkg: pkgIApi, Recv: "api", Func: "AddSubsystem", Calls: []string{"= append:.subsystems"}, Why: "C12: a registered subsystem is kept"},
	{Pkg: pkgSender, Recv: "SenderWorker", Func: "AddPlugin", Calls: []string{"[]=:.plugins"}, Why: "C19: a registered plugin is kept under its type"},
}

// matchMustCall reports which of the named effects a CFG node performs.
// mustCallPk / mustCallDepth: the package whose helpers are followed by matchMustCall (set by the
// rule for the function it analyses): a call to a function of the same package performs what that
// function performs on every path to a normal exit.
var mustCallPk *packages.Package
var mustCallDepth int

func calleeMustCalls(call *ast.CallExpr, names []string) []string {
	pk := mustCallPk
	if pk == nil || mustCallDepth >= 2 {
		return nil
	}
	fn, ok := calleeOf(pk.TypesInfo, call).(*types.Func)
	if !ok || fn.Pkg() != pk.Types {
		return nil
	}
	fd := funcDeclOf(pk, fn)
	if fd == nil || fd.Body == nil {
		return nil
	}
	mustCallDepth++
	defer func() { mustCallDepth-- }()
	g := buildCFG(pk, fd.Body)
	gen := func(nd ast.Node) []string {
		var fs []string
		for _, m := range matchMustCall(pk.TypesInfo, nd, names) {
			fs = append(fs, "did:"+m)
		}
		return fs
	}
	var common map[string]bool
	for _, ex := range mustFactsAtExits(g, gen, nil) {
		if es, ok := ex.Last.(*ast.ExprStmt); ok {
			if c2, ok := es.X.(*ast.CallExpr); ok && exprString(c2.Fun) == "panic" {
				continue
			}
		}
		cur := map[string]bool{}
		for f := range ex.Facts {
			if strings.HasPrefix(f, "did:") {
				cur[strings.TrimPrefix(f, "did:")] = true
			}
		}
		if common == nil {
			common = cur
		} else {
			for k := range common {
				if !cur[k] {
					delete(common, k)
				}
			}
		}
	}
	var out []string
	for k := range common {
		out = append(out, k)
	}
	sort.Strings(out)
	return out
}

func matchMustCall(info *types.Info, n ast.Node, names []string) []string {
	var out []string
	add := func(s string) {
		for _, o := range out {
			if o == s {
				return
			}
		}
		out = append(out, s)
	}
	check := func(call *ast.CallExpr, isGo bool) {
		fun := exprString(call.Fun)
		for _, nm := range names {
			switch {
			case strings.HasPrefix(nm, "close("):
				suffix := strings.TrimSuffix(strings.TrimPrefix(nm, "close("), ")")
				if fun == "close" && len(call.Args) == 1 && strings.HasSuffix(exprString(call.Args[0]), suffix) {
					add(nm)
				}
			case strings.HasPrefix(nm, "go "):
				if isGo && strings.HasSuffix(fun, strings.TrimPrefix(nm, "go ")) {
					add(nm)
				}
			case strings.HasPrefix(nm, "=") || strings.HasPrefix(nm, "[]="):
			default:
				if strings.HasSuffix(fun, nm) {
					add(nm)
				}
			}
		}
		if !isGo {
			for _, m := range calleeMustCalls(call, names) {
				add(m)
			}
		}
	}
	var walk func(x ast.Node, isGo bool)
	walk = func(x ast.Node, isGo bool) {
		ast.Inspect(x, func(y ast.Node) bool {
			switch z := y.(type) {
			case *ast.FuncLit:
				return false
			case *ast.GoStmt:
				check(z.Call, true)
				return false
			case *ast.CallExpr:
				check(z, isGo)
			case *ast.AssignStmt:
				for _, nm := range names {
					switch {
					case strings.HasPrefix(nm, "= append:"):
						f := strings.TrimPrefix(nm, "= append:")
						if len(z.Lhs) == 1 && len(z.Rhs) == 1 && strings.HasSuffix(exprString(z.Lhs[0]), f) {
							if call, ok := ast.Unparen(z.Rhs[0]).(*ast.CallExpr); ok && exprString(call.Fun) == "append" && len(call.Args) >= 2 && strings.HasSuffix(exprString(call.Args[0]), f) {
								add(nm)
							}
						}
					case strings.HasPrefix(nm, "[]=:"):
						f := strings.TrimPrefix(nm, "[]=:")
						if len(z.Lhs) == 1 {
							if ix, ok := ast.Unparen(z.Lhs[0]).(*ast.IndexExpr); ok && strings.HasSuffix(exprString(ix.X), f) {
								add(nm)
							}
						}
					}
				}
			}
			return true
		})
	}
	walk(n, false)
	return out
}

// ruleLifecycleCalls: the must-call table above, decided by must-facts over each function's CFG.
func ruleLifecycleCalls(c *Ctx) {
	n := 0
	for _, e := range mustCallTable {
		pk := c.P.Pkg(e.Pkg)
		key := fmt.Sprintf("must-call/%s.%s", e.Recv, e.Func)
		if pk == nil {
			c.und(key, 0, "package "+e.Pkg+" not loaded")
			continue
		}
		fd := funcDecl(pk, e.Recv, e.Func)
		if fd == nil || fd.Body == nil {
			c.und(key, 0, e.Recv+"."+e.Func+" not found (anchor of a lifecycle obligation)")
			continue
		}
		info := pk.TypesInfo
		n++
		mustCallPk, mustCallDepth = pk, 0
		names := append([]string(nil), e.Calls...)
		for _, o := range e.Order {
			names = append(names, o[0], o[1])
		}
		g := buildCFG(pk, fd.Body)
		gen := func(nd ast.Node) []string {
			var fs []string
			for _, m := range matchMustCall(info, nd, names) {
				fs = append(fs, "did:"+m)
			}
			return fs
		}
		// exits: every block without successors (return statements, end of the body)
		var missing []string
		var where token.Pos
		for _, ex := range mustFactsAtExits(g, gen, nil) {
			if e.Exists {
				break
			}
			// a block that ends in a call that does not return (panic) is not a normal exit
			if es, ok := ex.Last.(*ast.ExprStmt); ok {
				if call, ok := es.X.(*ast.CallExpr); ok && exprString(call.Fun) == "panic" {
					continue
				}
			}
			// an error exit (`return err` / `return …, err` with a non-nil error expression) is not a
			// successful end of the function
			if rs, ok := ex.Last.(*ast.ReturnStmt); ok && len(rs.Results) > 0 {
				lastRes := rs.Results[len(rs.Results)-1]
				if tv, ok := info.Types[lastRes]; ok && isErrorType(tv.Type) || exprString(lastRes) == "err" {
					switch y := ast.Unparen(lastRes).(type) {
					case *ast.Ident:
						if y.Name != "nil" {
							continue
						}
					case *ast.CallExpr:
						// an error being constructed is an error exit; `return x.Stop()` hands the outcome
						// of the last step on and is a normal end of the function
						if f := exprString(y.Fun); strings.HasSuffix(f, "Errorf") || strings.HasSuffix(f, ".New") || strings.HasSuffix(f, "NewError") || strings.HasSuffix(f, "Wrap") || strings.HasSuffix(f, "Join") {
							continue
						}
					default:
						continue
					}
				}
			}
			for _, cl := range e.Calls {
				if !ex.Facts["did:"+cl] {
					missing = append(missing, cl)
					if ex.Last != nil {
						where = ex.Last.Pos()
					}
				}
			}
		}
		if e.Exists {
			// present, and not under a condition
			have := map[string]bool{}
			ast.Inspect(fd.Body, func(x ast.Node) bool {
				switch st := x.(type) {
				case *ast.ExprStmt, *ast.GoStmt, *ast.AssignStmt, *ast.DeferStmt:
					for _, m := range matchMustCall(info, st, names) {
						conditional := false
						for _, a := range enclosing(fd.Body, st) {
							switch y := a.(type) {
							case *ast.SwitchStmt, *ast.SelectStmt, *ast.TypeSwitchStmt:
								conditional = true
							case *ast.IfStmt:
								// `if err := x.Start(); err != nil` carries the call in its init
								if y.Init == nil || !containsNode(y.Init, st) {
									conditional = true
								}
							}
						}
						if !conditional {
							have[m] = true
						}
					}
				}
				return true
			})
			for _, cl := range e.Calls {
				if !have[cl] {
					missing = append(missing, cl)
				}
			}
		}
		// textual order of the ordered pairs
		pos := map[string]token.Pos{}
		ast.Inspect(fd.Body, func(x ast.Node) bool {
			switch st := x.(type) {
			case *ast.ExprStmt, *ast.GoStmt, *ast.AssignStmt, *ast.DeferStmt, *ast.RangeStmt, *ast.ReturnStmt:
				if rs, isRange := st.(*ast.RangeStmt); isRange {
					// the ranged expression is evaluated where the loop starts
					for _, m := range matchMustCall(info, &ast.ExprStmt{X: rs.X}, names) {
						if _, seen := pos[m]; !seen {
							pos[m] = rs.Pos()
						}
					}
					return true
				}
				for _, m := range matchMustCall(info, st, names) {
					if _, seen := pos[m]; !seen {
						pos[m] = st.Pos()
					}
				}
			}
			return true
		})
		var disorder []string
		for _, o := range e.Order {
			if !pos[o[0]].IsValid() || !pos[o[1]].IsValid() || pos[o[0]] >= pos[o[1]] {
				disorder = append(disorder, o[0]+" before "+o[1])
			}
		}
		if !where.IsValid() {
			where = fd.Pos()
		}
		ok := len(missing) == 0 && len(disorder) == 0
		detail := ""
		if len(missing) > 0 {
			detail = "a path through " + e.Recv + "." + e.Func + " ends without " + strings.Join(uniq(missing), ", ")
		}
		if len(disorder) > 0 {
			if detail != "" {
				detail += "; "
			}
			detail += "order violated: " + strings.Join(disorder, ", ")
		}
		c.check(ok, key, where, strings.Join(e.Calls, ", ")+" on every path ("+e.Why+")", detail+" ("+e.Why+")")
	}
	c.count("lifecycle_functions", n)
	c.floor("lifecycle functions with must-call obligations", n, 24)
}

func containsNode(root, n ast.Node) bool {
	return root != nil && n.Pos() >= root.Pos() && n.End() <= root.End()
}
