# properties not (yet) claimed by a check; entries disappear as checks are registered
for _p in ["C18","C19","C20"]:
    NA[_p] = "check under construction in this round: no static rule registered yet (see DESIGN.md §5 for the planned structural clauses)"
