#!/usr/bin/env python3
"""survey_tests.py <survivors.jsonl> <out.jsonl> [par]: for every surviving survey mutant, does the
repository's own test suite notice it? Each mutant is applied to a scratch copy of /repo under
/tmp/mt (removed afterwards); /repo itself is never touched. Development aid: the mutants that
compile, pass the suite AND are reported by no check are the blind-spot candidates to triage."""
import json,sys,subprocess,os,shutil,concurrent.futures as cf
src,out=sys.argv[1],sys.argv[2]
par=int(sys.argv[3]) if len(sys.argv)>3 else 5
env=dict(os.environ,GOFLAGS='-mod=mod',GOPROXY='off',GOSUMDB='off',GOTOOLCHAIN='local',GOWORK='off')
muts=[json.loads(l) for l in open(src)]
done=set()
if os.path.exists(out):
    for l in open(out): done.add(json.loads(l)['id'])
os.makedirs('/tmp/mt',exist_ok=True)
# a pristine snapshot of HEAD: the working tree of /repo may be patched by other checks meanwhile
shutil.rmtree('/tmp/mt/base',ignore_errors=True); os.makedirs('/tmp/mt/base')
subprocess.run('git -C /repo archive HEAD | tar -x -C /tmp/mt/base',shell=True,check=True)
def run(m):
    d='/tmp/mt/'+m['id']
    shutil.rmtree(d,ignore_errors=True)
    subprocess.run(['rsync','-a','/tmp/mt/base/',d+'/'],check=True)
    p=os.path.join(d,m['file'])
    b=open(p,'rb').read()
    assert b[m['offset']:m['offset']+m['length']].decode()==m['find']
    open(p,'wb').write(b[:m['offset']]+m['replace'].encode()+b[m['offset']+m['length']:])
    try:
        r=subprocess.run(['go','test','-vet=off','-count=1','-timeout','4m','./...'],cwd=d,capture_output=True,text=True,env=env,timeout=600)
        o=r.stdout+r.stderr
        if '[build failed]' in o or 'cannot use' in o and r.returncode!=0 and 'FAIL' not in o:
            st='nobuild'
        else:
            st='tests-pass' if r.returncode==0 else 'tests-fail'
        fails=[l for l in o.split('\n') if l.startswith('FAIL') or l.startswith('--- FAIL') or 'panic:' in l][:4]
    except subprocess.TimeoutExpired:
        st='tests-timeout'; fails=[]
    shutil.rmtree(d,ignore_errors=True)
    return dict(m,tests=st,fails=fails)
todo=[m for m in muts if m['id'] not in done]
with open(out,'a') as fo, cf.ThreadPoolExecutor(par) as ex:
    for i,r in enumerate(ex.map(run,todo)):
        fo.write(json.dumps(r)+'\n'); fo.flush()
        if i%50==0: print(i,len(todo),file=sys.stderr,flush=True)
