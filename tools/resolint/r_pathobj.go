package main

import (
	"go/ast"
	"go/token"
	"go/types"
	"regexp"
	"sort"
	"strings"

	"golang.org/x/tools/go/packages"
)

// builtObject: the fields a struct value has at the point it is used on one control-flow path: the
// keyed fields of the literal it was created from (directly, or returned by a single-expression
// helper of the package, with the helper's parameters replaced by the caller's arguments) overlaid
// with the field assignments `x.F = v` executed on the path before the use. Values are provenance
// strings of the enclosing function.
type builtObject map[string]string

func (o builtObject) String() string {
	var ks []string
	for k := range o {
		ks = append(ks, k)
	}
	sort.Strings(ks)
	var parts []string
	for _, k := range ks {
		parts = append(parts, k+":"+o[k])
	}
	return "{" + strings.Join(parts, " ") + "}"
}

// literalFields: e is (the address of) a composite literal accepted by isType, or a call to a
// package-level function of pk whose body is `return <such a literal>`.
func literalFields(pk *packages.Package, env *provEnv, e ast.Expr, isType func(types.Type) bool) (builtObject, bool) {
	info := pk.TypesInfo
	e = ast.Unparen(e)
	if u, ok := e.(*ast.UnaryExpr); ok && u.Op == token.AND {
		e = ast.Unparen(u.X)
	}
	switch x := e.(type) {
	case *ast.CompositeLit:
		if tv, ok := info.Types[x]; !ok || !isType(tv.Type) {
			return nil, false
		}
		o := builtObject{}
		for _, el := range x.Elts {
			if kv, ok := el.(*ast.KeyValueExpr); ok {
				o[exprString(kv.Key)] = env.prov(kv.Value)
			}
		}
		return o, true
	case *ast.CallExpr:
		fn, ok := calleeOf(info, x).(*types.Func)
		if !ok || fn.Pkg() != pk.Types {
			return nil, false
		}
		sig := fn.Type().(*types.Signature)
		fd := funcDeclOf(pk, fn)
		if fd == nil || fd.Body == nil || len(fd.Body.List) != 1 || sig.Variadic() || sig.Params().Len() != len(x.Args) {
			return nil, false
		}
		ret, ok := fd.Body.List[0].(*ast.ReturnStmt)
		if !ok || len(ret.Results) != 1 {
			return nil, false
		}
		inner := newProvEnv(pk, fd)
		o, ok := literalFields(pk, inner, ret.Results[0], isType)
		if !ok {
			return nil, false
		}
		for k, v := range o {
			for i := 0; i < sig.Params().Len(); i++ {
				pn := sig.Params().At(i).Name()
				if pn == "" || pn == "_" || !strings.Contains(v, "param:"+pn) {
					continue
				}
				re := regexp.MustCompile(`param:` + regexp.QuoteMeta(pn) + `\b`)
				v = re.ReplaceAllLiteralString(v, env.prov(x.Args[i]))
			}
			o[k] = v
		}
		return o, true
	}
	return nil, false
}

// appendedOnPath lists, for one enumerated path, the objects appended to the slice variable
// `slice` (`slice = append(slice, X)`), each as it stands at the append.
func appendedOnPath(pk *packages.Package, env *provEnv, p *codePath, slice types.Object, isType func(types.Type) bool) ([]builtObject, bool) {
	info := pk.TypesInfo
	objs := map[types.Object]builtObject{}
	var out []builtObject
	understood := true
	objOf := func(e ast.Expr) types.Object {
		id, ok := ast.Unparen(e).(*ast.Ident)
		if !ok {
			return nil
		}
		if o := info.Defs[id]; o != nil {
			return o
		}
		return info.Uses[id]
	}
	for _, nd := range p.Nodes {
		switch s := nd.(type) {
		case *ast.AssignStmt:
			if len(s.Lhs) != len(s.Rhs) {
				continue
			}
			for i, l := range s.Lhs {
				r := s.Rhs[i]
				// slice = append(slice, X…)
				if lo := objOf(l); lo != nil && lo == slice {
					call, ok := ast.Unparen(r).(*ast.CallExpr)
					if !ok || exprString(call.Fun) != "append" || len(call.Args) < 2 || objOf(call.Args[0]) != slice || call.Ellipsis.IsValid() {
						understood = false
						continue
					}
					for _, a := range call.Args[1:] {
						if xo := objOf(a); xo != nil {
							if o, ok := objs[xo]; ok {
								cp := builtObject{}
								for k, v := range o {
									cp[k] = v
								}
								out = append(out, cp)
								continue
							}
						}
						if o, ok := literalFields(pk, env, a, isType); ok {
							out = append(out, o)
							continue
						}
						understood = false
					}
					continue
				}
				// x := <literal | helper>
				if lo := objOf(l); lo != nil {
					if o, ok := literalFields(pk, env, r, isType); ok {
						objs[lo] = o
						continue
					}
				}
				// x.F = v
				if se, ok := ast.Unparen(l).(*ast.SelectorExpr); ok {
					if xo := objOf(se.X); xo != nil {
						if o, ok := objs[xo]; ok {
							o[se.Sel.Name] = env.prov(r)
						}
					}
				}
			}
		case *ast.DeclStmt:
			if gd, ok := s.Decl.(*ast.GenDecl); ok {
				for _, sp := range gd.Specs {
					if vs, ok := sp.(*ast.ValueSpec); ok && len(vs.Names) == len(vs.Values) {
						for i, n := range vs.Names {
							if o, ok := literalFields(pk, env, vs.Values[i], isType); ok {
								objs[info.Defs[n]] = o
							}
						}
					}
				}
			}
		}
	}
	return out, understood
}

// provsWithHelpers: the provenance (in fd's terms) of every composite literal accepted by match in
// fd and, one level down, in the functions of the same package that fd calls, with the callee's
// parameters replaced by the provenance of the caller's arguments.
func provsWithHelpers(pk *packages.Package, fd *ast.FuncDecl, match func(*ast.CompositeLit) bool) []string {
	info := pk.TypesInfo
	env := newProvEnv(pk, fd)
	var out []string
	collect := func(body ast.Node, e *provEnv, subst func(string) string) {
		ast.Inspect(body, func(n ast.Node) bool {
			if cl, ok := n.(*ast.CompositeLit); ok && match(cl) {
				out = append(out, subst(e.prov(cl)))
				return false
			}
			return true
		})
	}
	collect(fd.Body, env, func(s string) string { return s })
	seen := map[*types.Func]bool{}
	for _, call := range callsInDeep(fd.Body) {
		fn, ok := calleeOf(info, call).(*types.Func)
		if !ok || fn.Pkg() != pk.Types || seen[fn] {
			continue
		}
		hd := funcDeclOf(pk, fn)
		if hd == nil || hd.Body == nil || hd == fd {
			continue
		}
		seen[fn] = true
		sig := fn.Type().(*types.Signature)
		if sig.Variadic() || sig.Params().Len() != len(call.Args) {
			continue
		}
		args := call.Args
		collect(hd.Body, newProvEnv(pk, hd), func(v string) string {
			for i := 0; i < sig.Params().Len(); i++ {
				pn := sig.Params().At(i).Name()
				if pn == "" || pn == "_" || !strings.Contains(v, "param:"+pn) {
					continue
				}
				re := regexp.MustCompile(`param:` + regexp.QuoteMeta(pn) + `\b`)
				v = re.ReplaceAllLiteralString(v, env.prov(args[i]))
			}
			return v
		})
	}
	return out
}
