claim("C16",
  "Decides the code-shape clauses of C16 in both backends: all 26 DML statements have exactly the guard / written columns / conflict clause / ordering / limit of spec/sql.spec with every placeholder bound to the specified command field; the dispatch runs transactions in submission order and commands in list order with results[i][j] aligned; each result's row count and records come from its own statement; one SQL transaction per Execute with success returned only after a successful Commit and rollback on every error path; store.Process maps one error to every SQE and results[i] to SQE i; SQL text is constant and no database error is dropped. Not decided: isolation/visibility and behaviour over all database states (engine semantics are trusted).",
  "SQL-subset parsing + placeholder-to-field binding compared with a spec table; go/cfg must-pass-through (commit before ack, rollback), error-propagation path analysis, dispatch/loop-nest structure checks",
  "DESIGN.md §5 C16")
claim("C17",
  "Decides statement-for-statement agreement of the two backends: for each of the 27 command kinds the same dispatch arm, the same normalised statement (modulo the dialect table), the same operand binding, Scan targets and result construction, and equal schemas; both also satisfy the spec independently. Not decided: engine semantics that differ under identical text.",
  "sibling cross-check of normalised SQL ASTs, operand bindings, scan lists and result provenance between sqlite.go and postgres.go",
  "DESIGN.md §5 C17")
claim("C01",
  "Decides the code-shape premises of write-once: promises is written only by the dispatched insert (creation half, ON CONFLICT DO NOTHING) and update (completion half, guard id AND state = 1) in both backends, nothing deletes or rewrites a row; every UpdatePromise/CreatePromise command literal matches its template and is constructed only inside its atomic group; every promise object in a response is the stored record or the record with exactly the written completion half; a lost guarded write leads to a retry. Not decided: engine atomicity, the induction over commits (argued in DESIGN.md), crash points.",
  "SQL spec comparison + table-ownership scan + command/response literal provenance templates + go/cfg walk of the 0-rows branch",
  "DESIGN.md §5 C01")
claim("C02",
  "Decides the linearization MECHANISM only, not linearizability: every guarded write of every request coroutine has its row count examined and the 0-row path retries or answers without stale data; coroutine code has no goroutines/channels/package state/wall clock; all guards and command literals are as specified. No history is explored.",
  "go/cfg walk from each guarded write's row test to every return (retry / clean response / stale response), structural confinement scan of the coroutine package",
  "DESIGN.md §5 C02")
claim("C04",
  "Decides the comparator and provenance clauses: each forced time-out command is governed by state == Pending AND timeout <= now (non-strict), carries GetTimedoutState(record), empty value, nil key, CompletedOn = record.Timeout; the caller's state is installed only under now < timeout; the sweep statement is state = 1 AND timeout <= ? bound to c.Time(); no wall clock in coroutine code. Not decided: tick placement and races (reduced to C01).",
  "command-literal templates with governing if-conditions normalised to atoms (strictness/orientation), SQL guard comparison, clock-source scan",
  "DESIGN.md §5 C04")
claim("C05",
  "Decides: the completion transaction is ONE Transaction [UpdatePromise, CompleteTasks, CreateTasks, DeleteCallbacks, extra] keyed by one id with tasks created before registrations are deleted, and these kinds are constructed nowhere else; CreateTasks/DeleteCallbacks/guarded callback insert have the specified SQL and bindings; a callback is reported only when the insert affected a row; derived ids embed their operands raw. Reports two known findings (F12 stale answer after a lost guarded insert, F30 non-injective id format). Not decided: batch orders inside the engine, crashes (C06).",
  "abstract evaluation of Transaction command lists, who-may-construct check, SQL spec comparison, 0-rows path walk, format-string injectivity rule",
  "DESIGN.md §5 C05")
claim("C07",
  "Decides: task update guard (id, state mask, counter), heartbeat and complete-by-root guards, sweep predicate, in both backends; the 8 UpdateTask literals match their templates (only claim sets Claimed from {Init,Enqueued} with the request counter and lease now+ttl; complete only from {Claimed}; lease expiry bumps the counter by exactly one; nothing re-activates a finished task); 0 rows leads to a retry; claim/complete responses show what was written. Not decided: interleavings of workers.",
  "SQL spec comparison + command-literal templates with governing conditions + 0-rows path walk",
  "DESIGN.md §5 C07")
claim("C08",
  "Decides: routed promise and task are one CreatePromiseAndTask command of one transaction and the task insert is conditional on the promise insert (both backends); CompleteTasks rides in the completion group; the enqueueable statement (init, no sibling in (2,4), one per root, LIMIT); the four dispatch-cycle task updates and the dispatched message (hrefs from exactly task id and counter) match their templates. Reports known finding F13 (router error ignored). Not decided: interleavings of dispatch with claims; delivery.",
  "Transaction command-list evaluation, must-fact dataflow on go/cfg (store write only after router success), SQL spec comparison, literal templates",
  "DESIGN.md §5 C08")
claim("C09",
  "Decides the five lock statements in both backends (unique resource_id; upsert that never changes execution_id and only fires for the same execution; release keyed by resource and execution; heartbeat an UPDATE keyed by process; sweep expires_at <= ?), lease arithmetic c.Time()+ttl, clock operands, and that a 0-row acquire/release is answered without claiming the lock. Not decided: interleavings.",
  "SQL spec comparison (incl. ON CONFLICT DO UPDATE WHERE), command-literal templates, 0-rows path walk",
  "DESIGN.md §5 C09")
claim("C10",
  "Decides: due/advance statements and bindings (next_run_time <= now, ordered, limited; compare-and-set advance with last = fired occurrence), next = Next(fired occurrence, cron), promise id/timeout/param/tags provenance, first occurrence after creation, and that the advance is an extra command of the promise creation (one transaction). Not decided: cron library, catch-up counts, template engine behaviour (F8/F10/F17 are reported under C13/C20).",
  "SQL spec comparison, command-literal templates, Transaction grouping check",
  "DESIGN.md §5 C10")
claim("C14",
  "Decides: the search statements (strict cursor on unique auto-increment sort_id, LIKE on the converted pattern, state mask, every tag, newest first, LIMIT), LastSortId = sort_id of the last row, cursor present iff page full and repeating the query with SortId = &LastSortId, re-search after lazy time-outs. Not decided: completeness under concurrent writes (engine), LIKE/JSON-path semantics (F15), API-layer validation and cursor signature (planned under C13).",
  "SQL spec comparison incl. dynamic tag filter reconstruction, result provenance classification, literal templates with governing condition",
  "DESIGN.md §5 C14")
claim("C15",
  "Decides totality and agreement of the front-end tables: every switch over a closed kernel enum whose default panics lists all constants (StatusCode.String, gRPC code table, Response.Status, state tables); HTTP code = status/100 is an intended code for all 30 constants; each gRPC outcome flag compares its own kind's status with the constant that denotes the outcome and that the kind's coroutine can produce; per request kind both protocols populate the same kernel request fields and a coroutine is registered; every HTTP handler path writes exactly one reply. Not decided: wire encoding, value-level equivalence of the two protocols.",
  "enum-switch exhaustiveness over go/types constants with call-site guard exclusion, flag/constant table check against statuses collected from the coroutine call graph, request-literal field-set comparison, go/cfg event-count dataflow (one reply per path)",
  "DESIGN.md §5 C15")
claim("C03",
  "Decides the outcome tables: the status decision of create (fresh / existing / overdue x strict x key match), complete (not found / pending before or at-after the deadline / completed x strict x key match x state) and read is extracted path by path from the control-flow graph and must equal a table written from the statement; Key.Match is true only for two non-nil equal keys; the only writes reachable from the existing-promise branches are the forced time-out group; the promise insert is ON CONFLICT DO NOTHING and the task insert of create-with-task is conditional on it in both backends; a lost guarded write retries. Not decided: retries racing with the original, histories.",
  "CFG path enumeration into (condition atoms -> status) tables compared semantically with spec functions (forking over open atoms, assertion facts, enum exclusivity); truth-table check of Key.Match; SQL spec comparison",
  "DESIGN.md §5 C03")
claim("C06",
  "Decides exactly the regressions named in why_tests_cant: success is returned by Execute only after a successful Commit and every error path rolls back (must-pass-through on go/cfg, both backends); store.Process builds completions only after Execute returned and the workers enqueue only Process's results; every statement of a batch runs on the batch's *sql.Tx; each multi-effect operation (completion group, routed create, schedule firing) is ONE Transaction; Config.Reset defaults to false and Reset/os.Remove/DROP TABLE are reachable only from Stop under `if config.Reset`; the sqlite path defaults to a file; schema statements are IF NOT EXISTS; serve stops API then AIO only after Loop returned; coroutine code keeps no package state and each background coroutine starts from a store submission. No process is started or killed; engine durability is trusted.",
  "go/cfg must-fact dataflow (commit/rollback), who-may-call and receiver checks on database/sql sites, Transaction command-list evaluation, struct-tag and call-site guard checks, shutdown-order check in cmd/serve",
  "DESIGN.md §5 C06")
claim("C11",
  "Decides the progress MECHANISM, not a bound: the re-add condition in Tick is exactly (not done) AND interval elapsed AND (no previous instance OR previous completed), with bookkeeping; each background coroutine returns (nil, nil) on every path, has only bounded loops, no self call; each sweep reads a LIMITed batch bound to its configured size with exactly the overdue predicate and answers each record with a command that leaves the predicate; a selected record is skipped only for internal or transient reasons (known finding F17 otherwise); every dispatched submission completes exactly once, also in the simulated AIO. Not decided: number of cycles, fairness, failure sequences.",
  "truth-table check of the re-add condition, structural termination checks, SQL/command templates, classification of `continue` reasons by producing call, exactly-once path counting",
  "DESIGN.md §5 C11")
claim("C12",
  "Decides exactly-once discharge for 33 owners of a one-shot obligation (API/AIO enqueue and their wrappers, Dispatch, the kernel's SQE/CQE loops, the AddOnRequest wrapper, every subsystem and plugin Enqueue (true iff sent), store/router/echo/sender/plugin workers, the Done closure, the simulated AIO flush, the front-end reply channel of capacity 1): on every go/cfg path the obligation is invoked or handed to exactly one consumer, boolean consumers discharging on their true edge only; Loop returns only under Done(); Done's definitions; serve's stop order. Reports known finding F14 (unsynchronised shutdown flag). Not decided: arrival patterns, goroutine scheduling, gocoro's scheduler.",
  "path-count dataflow over {0,1,>=2} on go/cfg with select statements rewritten per clause and edge-sensitive boolean consumers; lock-scope check for the shutdown flag",
  "DESIGN.md §5 C12")
claim("C13",
  "Decides a set of targeted crash-freedom obligations (explicit flows only): every switch over a closed kernel enum whose default panics is exhaustive; every pointer filled by a JSON decoder from stored client bytes in the router/sender/plugin workers is nil-tested before use and not asserted on; every access to a member of the store Result union matches the submission's command list or is under a Kind test; no Must-style helper is applied to run-time data; every util.Assert over request fields in a request coroutine is implied by what each front end and the shared search helper (including its cursor path) validates before submitting; protobuf sub-messages are nil-tested before field access; unwrapped error causes are nil-tested; SQL text is constant; cursors are decoded only with signature verification. Not decided: oversized bodies, stalls, library internals, control-dependent flows.",
  "typed AST rules with dominance/guard recognition: enum exhaustiveness, decode-target nil-guard check, Result-union access vs abstractly evaluated command lists, assertion-to-validation implication over front-end request literals (binding tags, early-return guards, helper returns)",
  "DESIGN.md §5 C13")
