package main

// ruleStoreStateless (C02 / C16, seed C02-8): a store command is a conditional write on the
// *current* database state and reports the rows it changed or matched. That presupposes that the
// backends answer from the database: nothing a command read or produced (results, records,
// commands — any value whose type is declared in this module) may be kept in memory that outlives
// the transaction (a member of the worker / store, a package-level variable), where a later
// command could be answered from it. Handles of database/sql (prepared statements, connections),
// counters and other values of foreign or basic types are not results and are not restricted.

import (
	"go/ast"
	"go/types"
	"strings"
)

func mentionsModuleType(t types.Type, depth int) bool {
	if t == nil || depth > 6 {
		return false
	}
	switch u := t.(type) {
	case *types.Named:
		if o := u.Obj(); o != nil && o.Pkg() != nil && strings.HasPrefix(o.Pkg().Path(), modPath) {
			return true
		}
		if ta := u.TypeArgs(); ta != nil {
			for i := 0; i < ta.Len(); i++ {
				if mentionsModuleType(ta.At(i), depth+1) {
					return true
				}
			}
		}
		return false
	case *types.Pointer:
		return mentionsModuleType(u.Elem(), depth+1)
	case *types.Slice:
		return mentionsModuleType(u.Elem(), depth+1)
	case *types.Array:
		return mentionsModuleType(u.Elem(), depth+1)
	case *types.Map:
		return mentionsModuleType(u.Key(), depth+1) || mentionsModuleType(u.Elem(), depth+1)
	case *types.Chan:
		return mentionsModuleType(u.Elem(), depth+1)
	case *types.Struct:
		for i := 0; i < u.NumFields(); i++ {
			if mentionsModuleType(u.Field(i).Type(), depth+1) {
				return true
			}
		}
	}
	return false
}

func ruleStoreStateless(c *Ctx) {
	nfuncs := 0
	for _, path := range []string{pkgSqlite, pkgPostgres} {
		pk := c.P.Pkg(path)
		if pk == nil {
			c.und("store-stateless/"+path, 0, "store backend package not found")
			continue
		}
		info := pk.TypesInfo
		for _, fd := range allFuncDecls(pk) {
			if fd.Body == nil || isTestFile(c.P, fd.Pos()) {
				continue
			}
			nfuncs++
			var recv types.Object
			if fd.Recv != nil && len(fd.Recv.List) == 1 && len(fd.Recv.List[0].Names) == 1 {
				recv = info.Defs[fd.Recv.List[0].Names[0]]
			}
			rootOf := func(e ast.Expr) (*ast.Ident, bool) { // root identifier, and whether e is more than the bare identifier
				deep := false
				for {
					switch x := ast.Unparen(e).(type) {
					case *ast.SelectorExpr:
						e, deep = x.X, true
					case *ast.IndexExpr:
						e, deep = x.X, true
					case *ast.StarExpr:
						e, deep = x.X, true
					case *ast.Ident:
						return x, deep
					default:
						return nil, deep
					}
				}
			}
			ast.Inspect(fd.Body, func(nd ast.Node) bool {
				as, ok := nd.(*ast.AssignStmt)
				if !ok {
					return true
				}
				for i, l := range as.Lhs {
					id, deep := rootOf(l)
					if id == nil {
						continue
					}
					o := info.ObjectOf(id)
					v, isVar := o.(*types.Var)
					if !isVar {
						continue
					}
					long := (recv != nil && o == recv && deep) || (v.Pkg() != nil && v.Parent() == v.Pkg().Scope())
					if !long {
						continue
					}
					var vt types.Type
					if len(as.Rhs) == len(as.Lhs) {
						if tv, ok := info.Types[as.Rhs[i]]; ok {
							vt = tv.Type
						}
					} else if tv, ok := info.Types[l]; ok {
						vt = tv.Type
					}
					if !mentionsModuleType(vt, 0) {
						continue
					}
					c.check(false, "store-stateless/"+pk.Name+"."+funcName(fd)+"/"+exprString(l), as.Pos(), "", "a value of type "+types.TypeString(vt, func(p *types.Package) string { return p.Name() })+" is kept in "+exprString(l)+", memory that outlives the transaction: a later command can be answered from it instead of from the database state it is a conditional write on")
				}
				return true
			})
		}
	}
	c.count("store_backend_functions_scanned", nfuncs)
	c.floor("store backend functions scanned", nfuncs, 60)
}
