#!/usr/bin/env python3
"""survey.py <survey.jsonl> <out.jsonl> [par]: runs resolint -prop ALL on every generated mutant
(position-based overlay). Development aid for finding blind spots: lists which mutants no check
reports. Does not touch /repo: it analyses a snapshot of HEAD under /tmp/survey-base (the working
tree of /repo may be patched by seeds_check / benign_check meanwhile)."""
import json,sys,subprocess,os,tempfile,concurrent.futures as cf
src,out=sys.argv[1],sys.argv[2]
par=int(sys.argv[3]) if len(sys.argv)>3 else 12
env=dict(os.environ,GOFLAGS='-mod=mod',GOPROXY='off',GOSUMDB='off',GOTOOLCHAIN='local',GOWORK='off')
muts=[json.loads(l) for l in open(src)]
import shutil
if not os.environ.get('KEEP_BASE'):
    shutil.rmtree('/tmp/survey-base',ignore_errors=True); os.makedirs('/tmp/survey-base')
    subprocess.run('git -C /repo archive HEAD | tar -x -C /tmp/survey-base',shell=True,check=True)
shutil.copy(os.environ.get('RESOLINT_BIN','/verif/bin/resolint'),'/tmp/survey-resolint-'+str(os.getpid()))  # the binary may be rebuilt meanwhile
done=set()
if os.path.exists(out):
    for l in open(out):
        done.add(json.loads(l)['id'])
def run(m):
    with tempfile.NamedTemporaryFile('w',suffix='.json',delete=False) as f:
        json.dump({"name":m['id'],"property":[],"expect":"","edits":[{"file":m['file'],"offset":m['offset'],"length":m['length'],"find":m['find'],"replace":m['replace'],"at_pos":True}]},f)
        path=f.name
    try:
        p=subprocess.run(['/tmp/survey-resolint-'+str(os.getpid()),'-repo','/tmp/survey-base','-verif','/verif','-prop','ALL','-overlay',path],capture_output=True,text=True,env=env,timeout=300)
        o=p.stdout+p.stderr
    except Exception as e:
        o='resolint: timeout '+str(e)
    os.unlink(path)
    if 'resolint:' in o:
        st='malformed'; keys=[o.strip().split('\n')[0][:200]]
    else:
        keys=sorted(set(' '.join(l.split()[1:4]) for l in o.split('\n') if l.startswith('REPORT')))
        st='caught' if keys else 'survived'
    return dict(m,status=st,keys=keys[:6],props=sorted(set(k.split()[0] for k in keys)) if st=='caught' else [])
todo=[m for m in muts if m['id'] not in done]
with open(out,'a') as fo, cf.ThreadPoolExecutor(par) as ex:
    for i,r in enumerate(ex.map(run,todo)):
        fo.write(json.dumps(r)+'\n'); fo.flush()
        if i%200==0: print(i,len(todo),file=sys.stderr)
